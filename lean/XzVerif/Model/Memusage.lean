/-
  C09 (part 1): the memory-usage estimate functions of liblzma as `Nat` functions, and, per coder, the list of
  allocations its initialisation performs.  Mirrors
    lz/lz_decoder.c (lzma_lz_decoder_memusage, lzma_lz_decoder_init)      lzma/lzma_decoder.c  lzma/lzma2_decoder.c
    lz/lz_encoder.c (lz_encoder_prepare, lz_encoder_init, lzma_lz_encoder_memusage)
    lzma/lzma_encoder.c  lzma/lzma2_encoder.c    simple/simple_coder.c   delta/delta_common.c
    common/filter_common.c (lzma_validate_chain, lzma_raw_coder_memusage, lzma_raw_coder_init)
    common/filter_decoder.c / filter_encoder.c (the `memusage` / `block_size` columns of the coder tables)
    common/index.c (lzma_index_memusage, lzma_index_append, lzma_index_cat, lzma_index_prealloc)
    common/outqueue.c (lzma_outq_memusage)   common/stream_encoder_mt.c (lzma_stream_encoder_mt_memusage)
    common/block_buffer_encoder.c (lzma_block_buffer_bound64)
  `uint64_t` results that can be UINT64_MAX ("invalid options") are `Option Nat` (`none` = UINT64_MAX).
  The sizeof of every allocated struct and the two architecture-dependent #defines come from a `Build` record; the
  record of the build under test is generated (Gen/C09.lean → Model/MemusageBuild.lean).
  Core Lean only.
-/
namespace XzVerif.Memusage

/-! ## The build-dependent table -/

structure Build where
  szInternal : Nat          -- lzma_internal (allocated by lzma_strm_init)
  szOptionsLzma : Nat
  szOptionsBcj : Nat
  szOptionsDelta : Nat
  szStreamDecoder : Nat     -- lzma_stream_coder of stream_decoder.c
  szIndexHash : Nat
  szBlockDecoder : Nat
  szLzDecoder : Nat         -- lzma_coder of lz_decoder.c
  szLzma1Decoder : Nat
  szLzma2Decoder : Nat
  szSimpleCoder : Nat
  szSimpleX86 : Nat
  szDeltaCoder : Nat
  szAloneDecoder : Nat
  szLzipDecoder : Nat
  szAutoDecoder : Nat
  szIndexDecoder : Nat
  szIndex : Nat
  szIndexStream : Nat
  szIndexGroup : Nat
  szIndexRecord : Nat
  szFileInfoDecoder : Nat
  szStreamDecoderMt : Nat
  szWorkerDec : Nat
  szOutbuf : Nat
  szLzEncoder : Nat         -- lzma_coder of lz_encoder.c
  szLzma1Encoder : Nat
  szLzma2Encoder : Nat
  szBlockEncoder : Nat
  szStreamEncoder : Nat
  szIndexEncoder : Nat
  szStreamEncoderMt : Nat
  szWorkerEnc : Nat
  szAloneEncoder : Nat
  szVoidPtr : Nat
  lzDictExtra : Nat         -- LZ_DICT_EXTRA (32 with the SSE2 dict_repeat, else 0)
  memcmplenExtra : Nat      -- LZMA_MEMCMPLEN_EXTRA
  deriving Repr, DecidableEq

/-! ## Constants (#defines that do not depend on the architecture) -/

def UINT32_MAX : Nat := 4294967295
def UINT64_MAX : Nat := 18446744073709551615
def VLI_MAX : Nat := 9223372036854775807
/-- `LZMA_MEMUSAGE_BASE` (common.h). -/
def MEMUSAGE_BASE : Nat := 32768
def LZ_DICT_REPEAT_MAX : Nat := 288
def FILTERS_MAX : Nat := 4
def THREADS_MAX : Nat := 16384
def DICT_SIZE_MIN : Nat := 4096
/-- upper end of `IS_ENC_DICT_SIZE_VALID`: 1 GiB + 512 MiB. -/
def ENC_DICT_SIZE_MAX : Nat := 1610612736
def LCLP_MAX : Nat := 4
def PB_MAX : Nat := 4
def DELTA_DIST_MIN : Nat := 1
def DELTA_DIST_MAX : Nat := 256
def MATCH_LEN_MIN : Nat := 2
def MATCH_LEN_MAX : Nat := 273
/-- `OPTS` of lzma_encoder_private.h. -/
def OPTS : Nat := 4096
/-- `LOOP_INPUT_MAX = OPTS + 1`. -/
def LOOP_INPUT_MAX : Nat := 4097
def LZMA2_CHUNK_MAX : Nat := 65536
def LZMA2_HEADER_UNCOMPRESSED : Nat := 3
def HASH_2_SIZE : Nat := 1024
def HASH_3_SIZE : Nat := 65536
def INDEX_GROUP_SIZE : Nat := 512
/-- `COMPRESSED_SIZE_MAX` of block_encoder.h = (LZMA_VLI_MAX - LZMA_BLOCK_HEADER_SIZE_MAX - LZMA_CHECK_SIZE_MAX) & ~3. -/
def COMPRESSED_SIZE_MAX : Nat := 9223372036854774716
/-- `HEADERS_BOUND` of block_buffer_encoder.c. -/
def HEADERS_BOUND : Nat := 92
/-- `BLOCK_SIZE_MAX = UINT64_MAX / LZMA_THREADS_MAX` of stream_encoder_mt.c. -/
def BLOCK_SIZE_MAX : Nat := 1125899906842623

def ID_LZMA1 : Nat := 0x4000000000000001
def ID_LZMA1EXT : Nat := 0x4000000000000002
def ID_LZMA2 : Nat := 0x21
def ID_DELTA : Nat := 3
def MF_HC3 : Nat := 0x03
def MF_HC4 : Nat := 0x04
def MF_BT2 : Nat := 0x12
def MF_BT3 : Nat := 0x13
def MF_BT4 : Nat := 0x14
def MODE_FAST : Nat := 1
def MODE_NORMAL : Nat := 2

/-! ## Filters as the API passes them -/

/-- The members of `lzma_options_lzma` that matter here (no preset dictionary). -/
structure LzmaOpts where
  dict : Nat
  lc : Nat := 3
  lp : Nat := 0
  pb : Nat := 2
  mode : Nat := 2
  nice : Nat := 64
  mf : Nat := 0x14
  depth : Nat := 0
  deriving Repr, DecidableEq, Inhabited

inductive Filter where
  | lzma1 (o : LzmaOpts)
  | lzma2 (o : LzmaOpts)
  /-- BCJ filter `id` (4..11); `start = none` means `options == NULL`. -/
  | bcj (id : Nat) (start : Option Nat)
  /-- `dist = none` means `options == NULL`. -/
  | delta (dist : Option Nat)
  /-- a Filter ID that is in none of liblzma's tables (options NULL). -/
  | other (id : Nat)
  deriving Repr, DecidableEq, Inhabited

def Filter.id : Filter → Nat
  | .lzma1 _ => ID_LZMA1
  | .lzma2 _ => ID_LZMA2
  | .bcj id _ => id
  | .delta _ => ID_DELTA
  | .other id => id

def isBcjId (id : Nat) : Bool := 4 ≤ id ∧ id ≤ 11

/-- `unfiltered_max` argument each BCJ filter passes to `lzma_simple_coder_init`. -/
def bcjUnfilteredMax (id : Nat) : Nat :=
  if id = 4 then 5 else if id = 6 then 16 else if id = 11 then 8 else 4

/-- `alignment` argument of `lzma_simple_coder_init`. -/
def bcjAlignment (id : Nat) : Nat :=
  if id = 4 then 1 else if id = 5 then 4 else if id = 6 then 16 else if id = 7 then 4
  else if id = 8 then 2 else if id = 9 then 4 else if id = 10 then 4 else if id = 11 then 2 else 1

/-- `simple_size`: only x86 has a filter-specific struct. -/
def bcjSimpleSize (b : Build) (id : Nat) : Nat := if id = 4 then b.szSimpleX86 else 0

/-! ## `lzma_validate_chain` -/

/-- (non_last_ok, last_ok, changes_size) of `features[]`; `none` = the ID is not in the table. -/
def feature : Filter → Option (Bool × Bool × Bool)
  | .lzma1 _ => some (false, true, true)
  | .lzma2 _ => some (false, true, true)
  | .bcj id _ => if isBcjId id then some (true, false, false) else none
  | .delta _ => some (true, false, false)
  | .other _ => none

/-- The `do … while` loop: state (non_last_ok, last_ok, changes_size_count); `none` = LZMA_OPTIONS_ERROR inside the loop. -/
def validateLoop : List Filter → Bool → Bool → Nat → Option (Bool × Nat)
  | [], _, lastOk, chg => some (lastOk, chg)
  | f :: rest, nonLastOk, _, chg =>
    match feature f with
    | none => none
    | some (nl, l, c) =>
      if !nonLastOk then none else validateLoop rest nl l (chg + (if c then 1 else 0))

/-- `lzma_validate_chain(filters, &count) == LZMA_OK`. -/
def chainOk (fs : List Filter) : Bool :=
  match fs with
  | [] => false
  | _ =>
    match validateLoop fs true false 0 with
    | none => false
    | some (lastOk, chg) => !(fs.length > FILTERS_MAX) && lastOk && !(chg > 3)

/-- Return code of `lzma_validate_chain`: 0 = LZMA_OK, 11 = LZMA_PROG_ERROR (empty), 8 = LZMA_OPTIONS_ERROR. -/
def validateChainRet (fs : List Filter) : Nat :=
  if fs.isEmpty then 11 else if chainOk fs then 0 else 8

/-! ## Decoder side -/

/-- `is_lclppb_valid`. -/
def lclppbValid (o : LzmaOpts) : Bool :=
  o.lc ≤ LCLP_MAX && o.lp ≤ LCLP_MAX && o.lc + o.lp ≤ LCLP_MAX && o.pb ≤ PB_MAX

/-- `lzma_lz_decoder_memusage`. -/
def lzDecoderMemusage (b : Build) (dict : Nat) : Nat :=
  b.szLzDecoder + dict + 2 * LZ_DICT_REPEAT_MAX + b.lzDictExtra

/-- `lzma_lzma_decoder_memusage_nocheck`. -/
def lzmaDecoderMemusageNocheck (b : Build) (o : LzmaOpts) : Nat :=
  b.szLzma1Decoder + lzDecoderMemusage b o.dict

/-- `lzma_lzma_decoder_memusage`. -/
def lzmaDecoderMemusage (b : Build) (o : LzmaOpts) : Option Nat :=
  if lclppbValid o then some (lzmaDecoderMemusageNocheck b o) else none

/-- `lzma_lzma2_decoder_memusage` (no validation of lc/lp/pb: LZMA2 sets them per chunk). -/
def lzma2DecoderMemusage (b : Build) (o : LzmaOpts) : Nat :=
  b.szLzma2Decoder + lzmaDecoderMemusageNocheck b o

/-- `lzma_delta_coder_memusage`. -/
def deltaCoderMemusage (b : Build) : Option Nat → Option Nat
  | none => none
  | some d => if d < DELTA_DIST_MIN ∨ d > DELTA_DIST_MAX then none else some b.szDeltaCoder

/-- One row of `decoders[]`: `none` = UINT64_MAX (unsupported ID or invalid options); BCJ rows have no memusage
    function and count as 1024. -/
def filterDecMemusage (b : Build) : Filter → Option Nat
  | .lzma1 o => lzmaDecoderMemusage b o
  | .lzma2 o => some (lzma2DecoderMemusage b o)
  | .bcj id _ => if isBcjId id then some 1024 else none
  | .delta d => deltaCoderMemusage b d
  | .other _ => none

def sumOpt : List (Option Nat) → Option Nat
  | [] => some 0
  | none :: _ => none
  | some x :: rest => match sumOpt rest with
    | none => none
    | some s => some (x + s)

/-- `lzma_raw_coder_memusage(coder_find, filters)` with the per-filter column `fm`. -/
def rawCoderMemusage (fm : Filter → Option Nat) (fs : List Filter) : Option Nat :=
  if chainOk fs then
    match sumOpt (fs.map fm) with
    | none => none
    | some total => some (total + MEMUSAGE_BASE)
  else none

/-- `lzma_raw_decoder_memusage`. -/
def rawDecoderMemusage (b : Build) (fs : List Filter) : Option Nat := rawCoderMemusage (filterDecMemusage b) fs

/-- Size passed to `lzma_alloc` for the dictionary in `lzma_lz_decoder_init`
    (`dict_size` is a 32-bit value, so the SIZE_MAX overflow check cannot fire on a 64-bit build). -/
def lzDictAllocSize (b : Build) (dict : Nat) : Nat :=
  let d := if dict < 4096 then 4096 else dict
  (d + 15) / 16 * 16 + 2 * LZ_DICT_REPEAT_MAX + b.lzDictExtra

/-- Sizes `lzma_simple_coder_init` allocates for BCJ filter `id` (coder + temporary buffer, then the filter struct). -/
def bcjAllocs (b : Build) (id : Nat) : List Nat :=
  (b.szSimpleCoder + 2 * bcjUnfilteredMax id) :: (if bcjSimpleSize b id > 0 then [bcjSimpleSize b id] else [])

/-- Allocation list of a fresh, successful initialisation of one decoder filter
    (LZMA1: lz coder, LZMA1 decoder, dictionary; LZMA2: lz coder, LZMA2 coder, LZMA1 decoder, dictionary). -/
def filterDecAllocs (b : Build) : Filter → List Nat
  | .lzma1 o => [b.szLzDecoder, b.szLzma1Decoder, lzDictAllocSize b o.dict]
  | .lzma2 o => [b.szLzDecoder, b.szLzma2Decoder, b.szLzma1Decoder, lzDictAllocSize b o.dict]
  | .bcj id _ => bcjAllocs b id
  | .delta _ => [b.szDeltaCoder]
  | .other _ => []

/-- Allocation list of `lzma_raw_decoder_init` on an empty `lzma_next_coder` for a chain every filter of which
    initialises successfully (chain order = allocation order). -/
def rawDecoderAllocs (b : Build) (fs : List Filter) : List Nat := (fs.map (filterDecAllocs b)).flatten

/-- What the initialiser of one decoder filter checks *after* allocating its own structs; 0 = LZMA_OK. -/
def filterDecInitRet : Filter → Nat
  | .lzma1 o => if lclppbValid o then 0 else 11
  | .lzma2 _ => 0
  | .bcj id start =>
    match start with
    | none => 0
    | some s => if s % bcjAlignment id = 0 then 0 else 8
  | .delta d =>
    match d with
    | none => 8
    | some x => if x < DELTA_DIST_MIN ∨ x > DELTA_DIST_MAX then 8 else 0
  | .other _ => 8

/-- Structs a failing initialiser has already allocated when it returns its error. -/
def filterDecAllocsOnError (b : Build) : Filter → List Nat
  | .lzma1 _ => [b.szLzDecoder]            -- lzma_decoder_init checks lc/lp/pb before lzma_lzma_decoder_create
  | .bcj id _ => bcjAllocs b id            -- alignment of start_offset is checked after the allocations
  | .delta _ => [b.szDeltaCoder]
  | _ => []

/-- `lzma_next_filter_init` recursion on a fresh coder: (return code, sizes requested in order). -/
def rawDecInitTrace (b : Build) : List Filter → Nat × List Nat
  | [] => (0, [])
  | f :: rest =>
    if filterDecInitRet f ≠ 0 then (filterDecInitRet f, filterDecAllocsOnError b f)
    else
      let (r, a) := rawDecInitTrace b rest
      (r, filterDecAllocs b f ++ a)

/-- `coder_find(id) != NULL && fc->init != NULL` for the decoder table. -/
def decoderKnown : Filter → Bool
  | .lzma1 _ | .lzma2 _ | .delta _ => true
  | .bcj id _ => isBcjId id
  | .other _ => false

/-- `lzma_raw_decoder_init` on an empty coder: (return code, sizes requested in order). On an error everything is
    freed again (`lzma_next_end`). -/
def rawDecoderInit (b : Build) (fs : List Filter) : Nat × List Nat :=
  if validateChainRet fs ≠ 0 then (validateChainRet fs, [])
  else if !(fs.all decoderKnown) then (8, [])
  else rawDecInitTrace b fs

/-! ## Encoder side -/

/-- `lzma_lz_options` (no preset dictionary). -/
structure LzOptions where
  beforeSize : Nat
  dictSize : Nat
  afterSize : Nat
  matchLenMax : Nat
  niceLen : Nat
  matchFinder : Nat
  depth : Nat
  deriving Repr, DecidableEq

/-- What `lz_encoder_prepare` leaves in `lzma_mf`: the three sizes that are allocated. -/
structure MfSizes where
  size : Nat
  hashCount : Nat
  sonsCount : Nat
  deriving Repr, DecidableEq

def U32 : Nat := 4294967296

/-- `mf_get_hash_bytes`. -/
def mfHashBytes (mf : Nat) : Nat := mf % 16

def mfSupported (mf : Nat) : Bool := mf = MF_HC3 ∨ mf = MF_HC4 ∨ mf = MF_BT2 ∨ mf = MF_BT3 ∨ mf = MF_BT4

/-- The hash-mask computation of `lz_encoder_prepare` (all in `uint32_t`). -/
def hashMask (dict hashBytes : Nat) : Nat :=
  if hashBytes = 2 then 0xFFFF
  else
    let h0 := (dict - 1) % U32
    let h1 := h0 ||| (h0 >>> 1)
    let h2 := h1 ||| (h1 >>> 2)
    let h3 := h2 ||| (h2 >>> 4)
    let h4 := h3 ||| (h3 >>> 8)
    let h5 := h4 >>> 1
    let h6 := h5 ||| 0xFFFF
    if h6 > 16777216 then (if hashBytes = 3 then 16777215 else h6 >>> 1) else h6

/-- `lz_encoder_prepare` on a zeroed `lzma_mf`: `none` = it returned true (→ LZMA_OPTIONS_ERROR / UINT64_MAX). -/
def lzEncoderPrepare (o : LzOptions) : Option MfSizes :=
  if !(o.dictSize ≥ DICT_SIZE_MIN ∧ o.dictSize ≤ ENC_DICT_SIZE_MAX) ∨ o.niceLen > o.matchLenMax then none
  else
    let keepBefore := (o.beforeSize + o.dictSize) % U32
    let keepAfter := (o.afterSize + o.matchLenMax) % U32
    let r0 := (o.dictSize / 2) % U32
    let r1 := if r0 > 1073741824 then r0 / 2 else r0
    let reserve := (r1 + ((o.beforeSize + o.matchLenMax + o.afterSize) / 2 + 524288)) % U32
    let size := (keepBefore + reserve + keepAfter) % U32
    if !mfSupported o.matchFinder then none
    else
      let hashBytes := mfHashBytes o.matchFinder
      let isBt := (o.matchFinder / 16) % 2 = 1
      let hs0 := hashMask o.dictSize hashBytes
      let hs1 := (hs0 + 1) % U32
      let hs2 := if hashBytes > 2 then (hs1 + HASH_2_SIZE) % U32 else hs1
      let hs3 := if hashBytes > 3 then (hs2 + HASH_3_SIZE) % U32 else hs2
      let cyclic := (o.dictSize + 1) % U32
      let sons := if isBt then (cyclic * 2) % U32 else cyclic
      some { size := size, hashCount := hs3, sonsCount := sons }

/-- `lzma_lz_encoder_memusage`. -/
def lzEncoderMemusage (b : Build) (o : LzOptions) : Option Nat :=
  match lzEncoderPrepare o with
  | none => none
  | some m => some ((m.hashCount + m.sonsCount) * 4 + m.size + b.szLzEncoder)

/-- `is_options_valid` of lzma_encoder.c. -/
def encOptionsValid (o : LzmaOpts) : Bool :=
  lclppbValid o && o.nice ≥ MATCH_LEN_MIN && o.nice ≤ MATCH_LEN_MAX && (o.mode = MODE_FAST || o.mode = MODE_NORMAL)

/-- `set_lz_options`. -/
def setLzOptions (o : LzmaOpts) : LzOptions :=
  { beforeSize := OPTS, dictSize := o.dict, afterSize := LOOP_INPUT_MAX, matchLenMax := MATCH_LEN_MAX,
    niceLen := max (mfHashBytes o.mf) o.nice, matchFinder := o.mf, depth := o.depth }

/-- `lzma_lzma_encoder_memusage`. -/
def lzmaEncoderMemusage (b : Build) (o : LzmaOpts) : Option Nat :=
  if !encOptionsValid o then none
  else match lzEncoderMemusage b (setLzOptions o) with
    | none => none
    | some m => some (b.szLzma1Encoder + m)

/-- `lzma_lzma2_encoder_memusage`. -/
def lzma2EncoderMemusage (b : Build) (o : LzmaOpts) : Option Nat :=
  match lzmaEncoderMemusage b o with
  | none => none
  | some m => some (b.szLzma2Encoder + m)

/-- One row of `encoders[]`. -/
def filterEncMemusage (b : Build) : Filter → Option Nat
  | .lzma1 o => lzmaEncoderMemusage b o
  | .lzma2 o => lzma2EncoderMemusage b o
  | .bcj id _ => if isBcjId id then some 1024 else none
  | .delta d => deltaCoderMemusage b d
  | .other _ => none

/-- `lzma_raw_encoder_memusage`. -/
def rawEncoderMemusage (b : Build) (fs : List Filter) : Option Nat := rawCoderMemusage (filterEncMemusage b) fs

/-- The `lzma_lz_options` the LZ encoder really initialises with: LZMA1 uses `set_lz_options` as is; the LZMA2 encoder
    (`lzma2_encoder_init`) enlarges `before_size` so that at least LZMA2_CHUNK_MAX bytes of history stay available. -/
def lzma2LzOptions (o : LzmaOpts) : LzOptions :=
  let lz := setLzOptions o
  if lz.beforeSize + lz.dictSize < LZMA2_CHUNK_MAX then { lz with beforeSize := LZMA2_CHUNK_MAX - lz.dictSize } else lz

/-- The three buffers `lz_encoder_init` allocates. -/
def mfAllocs (b : Build) (m : MfSizes) : List Nat := [m.size + b.memcmplenExtra, m.hashCount * 4, m.sonsCount * 4]

/-- `lzma_lzma_encoder_create` return code after allocating `lzma_lzma1_encoder` (0 = OK, 8 = LZMA_OPTIONS_ERROR). -/
def lzmaEncoderCreateRet (o : LzmaOpts) : Nat :=
  if o.mode = MODE_FAST then (if encOptionsValid o then 0 else 8)
  else if o.mode = MODE_NORMAL then
    (if o.dict > ENC_DICT_SIZE_MAX then 8 else if encOptionsValid o then 0 else 8)
  else 8

/-- `lzma_lz_encoder_init` for a fresh coder with LZMA1 (`isLzma2 = false`) or LZMA2: (return code, sizes requested). -/
def lzEncInitTrace (b : Build) (isLzma2 : Bool) (o : LzmaOpts) : Nat × List Nat :=
  let pre := if isLzma2 then [b.szLzEncoder, b.szLzma2Encoder, b.szLzma1Encoder] else [b.szLzEncoder, b.szLzma1Encoder]
  if lzmaEncoderCreateRet o ≠ 0 then (lzmaEncoderCreateRet o, pre)
  else
    match lzEncoderPrepare (if isLzma2 then lzma2LzOptions o else setLzOptions o) with
    | none => (8, pre)
    | some m => (0, pre ++ mfAllocs b m)

/-- Initialisation of one encoder filter on a fresh coder: (return code, sizes requested). -/
def filterEncInit (b : Build) : Filter → Nat × List Nat
  | .lzma1 o => lzEncInitTrace b false o
  | .lzma2 o => lzEncInitTrace b true o
  | f => (filterDecInitRet f, if filterDecInitRet f = 0 then filterDecAllocs b f else filterDecAllocsOnError b f)

/-- The encoder initialises the chain in reverse order (the last filter first). -/
def rawEncInitTrace (b : Build) : List Filter → Nat × List Nat
  | [] => (0, [])
  | f :: rest =>
    let (r, a) := filterEncInit b f
    if r ≠ 0 then (r, a)
    else
      let (r', a') := rawEncInitTrace b rest
      (r', a ++ a')

def encoderKnown : Filter → Bool := decoderKnown

/-- `lzma_raw_encoder_init` on an empty coder: (return code, sizes requested in order). -/
def rawEncoderInit (b : Build) (fs : List Filter) : Nat × List Nat :=
  if validateChainRet fs ≠ 0 then (validateChainRet fs, [])
  else if !(fs.all encoderKnown) then (8, [])
  else rawEncInitTrace b fs.reverse

/-- Allocation list of a successful raw encoder initialisation. -/
def rawEncoderAllocs (b : Build) (fs : List Filter) : List Nat := (rawEncoderInit b fs).2

/-! ## Output queue, Block bound, multithreaded Stream encoder -/

/-- static `lzma2_bound`. -/
def lzma2Bound (n : Nat) : Nat :=
  if n > COMPRESSED_SIZE_MAX then 0
  else
    let overhead := (n + LZMA2_CHUNK_MAX - 1) / LZMA2_CHUNK_MAX * LZMA2_HEADER_UNCOMPRESSED + 1
    if COMPRESSED_SIZE_MAX - overhead < n then 0 else n + overhead

/-- `lzma_block_buffer_bound64` (0 = error). -/
def blockBufferBound64 (n : Nat) : Nat :=
  let l := lzma2Bound n
  if l = 0 then 0 else HEADERS_BOUND + (l + 3) / 4 * 4

/-- `lzma_outq_outbuf_memusage`. -/
def outbufMemusage (b : Build) (bufSize : Nat) : Nat := b.szOutbuf + bufSize

/-- `lzma_outq_memusage`. -/
def outqMemusage (b : Build) (bufSizeMax threads : Nat) : Option Nat :=
  let limit := UINT64_MAX / (2 * THREADS_MAX) / 2
  if threads > THREADS_MAX ∨ bufSizeMax > limit then none
  else some (2 * threads * outbufMemusage b bufSizeMax)

/-- `lzma_lzma2_block_size` (`none` = UINT64_MAX). -/
def lzma2BlockSize (o : LzmaOpts) : Option Nat :=
  if !(o.dict ≥ DICT_SIZE_MIN ∧ o.dict ≤ ENC_DICT_SIZE_MAX) then none
  else some (max (o.dict * 3) 1048576)

/-- `lzma_mt_block_size` (`none` = UINT64_MAX): the largest recommendation of the chain's filters. -/
def mtBlockSizeLoop : List Filter → Nat → Option Nat
  | [], m => if m = 0 then none else some m
  | f :: rest, m =>
    if !encoderKnown f then none
    else match f with
      | .lzma2 o =>
        match lzma2BlockSize o with
        | none => none            -- UINT64_MAX is the maximum from here on
        | some s => mtBlockSizeLoop rest (max m s)
      | _ => mtBlockSizeLoop rest m

def mtBlockSize (fs : List Filter) : Option Nat := mtBlockSizeLoop fs 0

/-- `get_options` of stream_encoder_mt.c for an explicit filter chain: (block_size, outbuf_size_max). -/
def mtGetOptions (threads blockSizeOpt : Nat) (fs : List Filter) : Option (Nat × Nat) :=
  if threads = 0 ∨ threads > THREADS_MAX then none
  else
    match (if blockSizeOpt > 0 then some blockSizeOpt else mtBlockSize fs) with
    | none => none
    | some bs =>
      if bs > BLOCK_SIZE_MAX then none
      else
        let ob := blockBufferBound64 bs
        if ob = 0 then none else some (bs, ob)

/-- `lzma_stream_encoder_mt_memusage` for `options->filters = fs`, `options->block_size = blockSizeOpt`. -/
def streamEncoderMtMemusage (b : Build) (threads blockSizeOpt : Nat) (fs : List Filter) : Option Nat :=
  match mtGetOptions threads blockSizeOpt fs with
  | none => none
  | some (bs, ob) =>
    let inbuf := threads * bs
    match rawEncoderMemusage b fs with
    | none => none
    | some fm =>
      let filters := fm * threads
      match outqMemusage b ob threads with
      | none => none
      | some oq =>
        let t0 := MEMUSAGE_BASE + b.szStreamEncoderMt + threads * b.szWorkerEnc
        if UINT64_MAX - t0 < inbuf then none
        else
          let t1 := t0 + inbuf
          if UINT64_MAX - t1 < filters then none
          else
            let t2 := t1 + filters
            if UINT64_MAX - t2 < oq then none else some (t2 + oq)

/-! ## What `lzma_stream_encoder_mt` really allocates -/

/-- `lzma_filters_copy`: one allocation per filter whose options are not NULL. -/
def copiedOptions (b : Build) : List Filter → List Nat
  | [] => []
  | .lzma1 _ :: r | .lzma2 _ :: r => b.szOptionsLzma :: copiedOptions b r
  | .bcj _ (some _) :: r => b.szOptionsBcj :: copiedOptions b r
  | .delta (some _) :: r => b.szOptionsDelta :: copiedOptions b r
  | _ :: r => copiedOptions b r

/-- One worker of the threaded encoder (`initialize_new_thread`, `get_thread`, `worker_encode`): the input buffer of
    `coder->block_size` bytes, the thread-specific copy of the filter options, the Block encoder and its filter chain. -/
def mtEncWorkerAllocs (b : Build) (blockSize : Nat) (fs : List Filter) : List Nat :=
  blockSize :: (copiedOptions b fs ++ b.szBlockEncoder :: (rawEncoderInit b fs).2)

/-- Record groups of the encoder's Index after `nblocks` Blocks (`lzma_index_append`: one group per 512 Records). -/
def indexGroupAllocs (b : Build) (nblocks : Nat) : List Nat :=
  List.replicate ((nblocks + INDEX_GROUP_SIZE - 1) / INDEX_GROUP_SIZE) (b.szIndexGroup + INDEX_GROUP_SIZE * b.szIndexRecord)

/-- What `stream_encoder_mt_init` itself requests, in order: the coder, the `threads` array, the copy of the filter
    options, the Index with its first Stream. -/
def streamEncoderMtInitAllocs (b : Build) (threads : Nat) (fs : List Filter) : List Nat :=
  [b.szStreamEncoderMt, threads * b.szWorkerEnc] ++ copiedOptions b fs ++ [b.szIndex, b.szIndexStream]

/-- Everything that can be allocated at the same time by `lzma_stream_encoder_mt` with `options->threads = threads`,
    `options->block_size = blockSizeOpt` (0 = automatic: `get_options` takes `lzma_mt_block_size(filters)`) and the chain
    `fs`, after `nblocks` Blocks have been finished: the initialisation, every worker started (input buffer of the
    EFFECTIVE block size each), one spare copy of the filter options in `filters_cache`, all `2·threads` buffers of the
    output queue (`lzma_block_buffer_bound64(block size)` bytes + the `lzma_outbuf` header each), the Record groups of
    the Index and the Index encoder. The ORDER of the worker and output-queue requests depends on the thread schedule;
    the multiset does not. `none` = `get_options` fails. -/
def streamEncoderMtAllocs (b : Build) (threads blockSizeOpt : Nat) (fs : List Filter) (nblocks : Nat) : Option (List Nat) :=
  match mtGetOptions threads blockSizeOpt fs with
  | none => none
  | some (bs, ob) =>
    some (streamEncoderMtInitAllocs b threads fs
      ++ (List.replicate threads (mtEncWorkerAllocs b bs fs)).flatten
      ++ copiedOptions b fs
      ++ List.replicate (2 * threads) (outbufMemusage b ob)
      ++ indexGroupAllocs b nblocks ++ [b.szIndexEncoder])

/-! ## Index -/

/-- `lzma_index_memusage` (`none` = UINT64_MAX). -/
def indexMemusage (b : Build) (streams blocks : Nat) : Option Nat :=
  let allocOverhead := 4 * b.szVoidPtr
  let streamBase := b.szIndexStream + b.szIndexGroup + 2 * allocOverhead
  let groupBase := b.szIndexGroup + INDEX_GROUP_SIZE * b.szIndexRecord + allocOverhead
  let groups := (blocks + INDEX_GROUP_SIZE - 1) / INDEX_GROUP_SIZE
  let indexBase := b.szIndex + allocOverhead
  let limit := UINT64_MAX - indexBase
  if streams = 0 ∨ streams > UINT32_MAX ∨ blocks > VLI_MAX ∨ streams > limit / streamBase
      ∨ groups > limit / groupBase ∨ limit - streams * streamBase < groups * groupBase then none
  else some (indexBase + streams * streamBase + groups * groupBase)

/-- One Record group: records allocated / records used. -/
structure IdxGroup where
  allocated : Nat
  used : Nat
  deriving Repr, DecidableEq

/-- The allocation-relevant part of `lzma_index`: the Streams, the LAST Stream FIRST, and per Stream its Record
    groups, the RIGHTMOST (most recently allocated) group FIRST. -/
structure Idx where
  streams : List (List IdxGroup)
  prealloc : Nat
  deriving Repr, DecidableEq

/-- `lzma_index_init`: one Stream without groups. -/
def Idx.init : Idx := { streams := [[]], prealloc := INDEX_GROUP_SIZE }

/-- `PREALLOC_MAX`. -/
def preallocMax (b : Build) : Nat := (UINT64_MAX - b.szIndexGroup) / b.szIndexRecord

/-- `lzma_index_prealloc`. -/
def Idx.setPrealloc (b : Build) (i : Idx) (records : Nat) : Idx :=
  { i with prealloc := if records > preallocMax b then preallocMax b else records }

def groupBytes (b : Build) (g : IdxGroup) : Nat := b.szIndexGroup + g.allocated * b.szIndexRecord

def streamBytes (b : Build) (s : List IdxGroup) : Nat := b.szIndexStream + (s.map (groupBytes b)).sum

def streamBlocks (s : List IdxGroup) : Nat := (s.map (·.used)).sum

def Idx.blocks (i : Idx) : Nat := (i.streams.map streamBlocks).sum

/-- Bytes currently allocated for the index (base struct, Streams, groups). -/
def Idx.liveBytes (b : Build) (i : Idx) : Nat := b.szIndex + (i.streams.map (streamBytes b)).sum

/-- Add one Record to a Stream: into the rightmost group if it has room, else into a new group of `prealloc` Records
    (the number of Records requested is returned). -/
def appendToStream : List IdxGroup → Nat → List IdxGroup × Option Nat
  | g :: rest, p =>
    if g.used < g.allocated then ({ g with used := g.used + 1 } :: rest, none)
    else ({ allocated := p, used := 1 } :: g :: rest, some p)
  | [], p => ([{ allocated := p, used := 1 }], some p)

/-- `lzma_index_append` (size checks aside): the new state and the size requested from the allocator, if any. -/
def Idx.append (b : Build) (i : Idx) : Idx × Option Nat :=
  match i.streams with
  | [] => (i, none)
  | s :: rest =>
    match appendToStream s i.prealloc with
    | (s', none) => ({ i with streams := s' :: rest }, none)
    | (s', some p) => ({ streams := s' :: rest, prealloc := INDEX_GROUP_SIZE }, some (b.szIndexGroup + p * b.szIndexRecord))

def Idx.appendN (b : Build) : Nat → Idx → Idx × List Nat
  | 0, i => (i, [])
  | n + 1, i =>
    let (i', a) := i.append b
    let (i'', as) := Idx.appendN b n i'
    (i'', (match a with | none => [] | some x => [x]) ++ as)

/-- `lzma_index_cat(dest, src)`: the last group of `dest` is reallocated to its used size when it has spare Records
    (the size requested is returned), then the Streams of `src` are moved over and `src`'s base struct is freed. -/
def Idx.cat (b : Build) (dest src : Idx) : Idx × Option Nat :=
  match dest.streams with
  | (g :: gs) :: rest =>
    if g.used < g.allocated then
      ({ dest with streams := src.streams ++ (({ allocated := g.used, used := g.used } :: gs) :: rest) },
       some (b.szIndexGroup + g.used * b.szIndexRecord))
    else ({ dest with streams := src.streams ++ dest.streams }, none)
  | _ => ({ dest with streams := src.streams ++ dest.streams }, none)

end XzVerif.Memusage
