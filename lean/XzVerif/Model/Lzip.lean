/-
  L7: the .lz (lzip) container decoder of liblzma, src/liblzma/common/lzip_decoder.c, observed through `lzma_code`
  with the complete input present (see Model/Alone.lean for the observation `DRes` and the `Payload` parameter).

  One member (`lzipMember`) follows `lzip_decode` state by state:
    SEQ_ID_STRING     "LZIP"; input ends inside it: LZMA_OK, or LZMA_STREAM_END if this is not the first member and the
                      action is LZMA_FINISH (the 0-3 matching bytes read so far are discarded);
                      a byte differs: LZMA_FORMAT_ERROR for the first member, otherwise LZMA_STREAM_END with that byte
                      (and everything after it) left unread - the trailing-data rule with its documented exception
    SEQ_VERSION       > 1 → LZMA_OPTIONS_ERROR; LZMA_TELL_ANY_CHECK → LZMA_GET_CHECK is reported here, once per member
    SEQ_DICT_SIZE     b2log = ds & 0x1F, fracnum = ds >> 5; b2log ∉ [12,29] or (b2log = 12 and fracnum > 0) → LZMA_DATA_ERROR;
                      dict_size = 2^b2log - fracnum * 2^(b2log-4)
    SEQ_CODER_INIT    memusage > memlimit → LZMA_MEMLIMIT_ERROR
    SEQ_LZMA_STREAM   LZMA1 lc3/lp0/pb2, unknown size (end marker required)
    SEQ_MEMBER_FOOTER 12 (v0) or 20 (v1) bytes: CRC32 (unless LZMA_IGNORE_CHECK), data size, (v1) member size
                      → LZMA_DATA_ERROR on any mismatch; without LZMA_CONCATENATED → LZMA_STREAM_END.
  `lzipDecode` is the member loop (`first_member` is true for the first member only).

  Core Lean only.
-/
import XzVerif.Model.Alone
import XzVerif.Model.Crc

namespace XzVerif.Lzip
open XzVerif.Alone

/-- `lzip_id_string` -/
def magic : List UInt8 := [0x4C, 0x5A, 0x49, 0x50]

structure Cfg where
  tellAnyCheck : Bool
  ignoreCheck : Bool
  concatenated : Bool
  /-- the application ends with LZMA_FINISH (false: LZMA_RUN only) -/
  finish : Bool
  memlimit : Nat
  memK : Nat
  deriving Repr

/-- lzip_decoder.c:181-204. `none` = LZMA_DATA_ERROR. -/
def dictSizeOfCode (ds : Nat) : Option Nat :=
  let b2log := ds % 32
  let fracnum := ds / 32
  if b2log < 12 ∨ b2log > 29 ∨ (b2log = 12 ∧ fracnum > 0) then none
  else some (2 ^ b2log - fracnum * 2 ^ (b2log - 4))

def crc32 (bs : List UInt8) : Nat := (XzVerif.Crc.crc32Ref bs 0).toNat

/-- LZIP_LC / LZIP_LP / LZIP_PB, unknown size -/
def lzipOpts (ds : Nat) : LzmaOpts :=
  { lc := 3, lp := 0, pb := 2, dictSize := ds, uncomp := none, allowEopm := true }

inductive IdRes where
  /-- all four bytes matched; the rest of the input -/
  | matched (rest : List UInt8)
  /-- the input ended after `n` matching bytes -/
  | exhausted (n : Nat)
  /-- `n` bytes matched, the next one differs (it is not consumed) -/
  | mismatch (n : Nat)
  deriving DecidableEq, Repr

/-- the `while (coder->pos < sizeof(lzip_id_string))` loop; first argument = magic bytes still expected -/
def idString : List UInt8 → List UInt8 → Nat → IdRes
  | [], inp, _ => .matched inp
  | _ :: _, [], n => .exhausted n
  | m :: ms, b :: bs, n => if b = m then idString ms bs (n + 1) else .mismatch n

inductive MRes where
  /-- `lzip_decode` returned something final while in this member (fields relative to the member's start) -/
  | done (r : DRes)
  /-- the member was valid and LZMA_CONCATENATED is set: go on with the next one -/
  | next (out : List UInt8) (consumed : Nat) (events : List Ret)
  deriving DecidableEq, Repr

def footerSize (version : Nat) : Nat := if version = 0 then 12 else 20

/-- SEQ_MEMBER_FOOTER, entered after the LZMA1 stream ended with verdict `r`; `r3` = the input after the stream,
    `v` = version byte, `inpLen` = bytes available from the member's start. -/
def memberFooter (cfg : Cfg) (ev : List Ret) (v : Nat) (r : PRes) (r3 : List UInt8) (inpLen : Nat) : MRes :=
  let fs := footerSize v
  if r3.length < fs then
    .done { ret := .ok, out := r.out, consumed := inpLen, events := ev }
  else
    let total := 6 + r.consumed + fs
    if !cfg.ignoreCheck && crc32 r.out != leNat (r3.take 4) then
      .done { ret := .dataError, out := r.out, consumed := total, events := ev }
    else if r.out.length != leNat ((r3.drop 4).take 8) then
      .done { ret := .dataError, out := r.out, consumed := total, events := ev }
    else if v > 0 && total != leNat ((r3.drop 12).take 8) then
      .done { ret := .dataError, out := r.out, consumed := total, events := ev }
    else if !cfg.concatenated then
      .done { ret := .streamEnd, out := r.out, consumed := total, events := ev }
    else .next r.out total ev

/-- SEQ_DICT_SIZE … SEQ_LZMA_STREAM: `c` = dictionary size byte, `r2` = the input after it -/
def memberBody (P : Payload) (cfg : Cfg) (ev : List Ret) (v : Nat) (c : UInt8) (r2 : List UInt8) (inpLen : Nat) : MRes :=
  match dictSizeOfCode c.toNat with
  | none => .done { ret := .dataError, out := [], consumed := 6, events := ev }
  | some ds =>
    if cfg.memK + ds > effMemlimit cfg.memlimit then
      .done { ret := .memlimitError, out := [], consumed := 6, events := ev, mem := cfg.memK + ds }
    else
      let r := P (lzipOpts ds) r2
      if r.ret ≠ .streamEnd then
        .done { ret := r.ret, out := r.out, consumed := 6 + r.consumed, events := ev }
      else memberFooter cfg ev v r (r2.drop r.consumed) inpLen

/-- SEQ_VERSION onwards: `r0` = the input after the four magic bytes -/
def memberHeader (P : Payload) (cfg : Cfg) (r0 : List UInt8) (inpLen : Nat) : MRes :=
  match r0 with
  | [] => .done (needMore 4)
  | v :: r1 =>
    if v.toNat > 1 then .done (fail .optionsError 5)
    else
      let ev : List Ret := if cfg.tellAnyCheck then [.getCheck] else []
      match r1 with
      | [] => .done { ret := .ok, out := [], consumed := 5, events := ev }
      | c :: r2 => memberBody P cfg ev v.toNat c r2 inpLen

def lzipMember (P : Payload) (cfg : Cfg) (first : Bool) (inp : List UInt8) : MRes :=
  match idString magic inp 0 with
  | .exhausted n => .done { ret := if !first && cfg.finish then .streamEnd else .ok, out := [], consumed := n }
  | .mismatch n => .done { ret := if !first then .streamEnd else .formatError, out := [], consumed := n }
  | .matched r0 => memberHeader P cfg r0 inp.length

/-- prefix the contribution of the members already decoded -/
def prepend (o : List UInt8) (c : Nat) (ev : List Ret) (r : DRes) : DRes :=
  { ret := r.ret, out := o ++ r.out, consumed := c + r.consumed, events := ev ++ r.events, mem := r.mem }

/-- the `while (true) switch (coder->sequence)` loop, one member per unit of fuel -/
def lzipLoop (P : Payload) (cfg : Cfg) : Nat → Bool → List UInt8 → DRes
  | 0, _, _ => fail .progError 0
  | f + 1, first, inp =>
    match lzipMember P cfg first inp with
    | .done r => r
    | .next o c ev => prepend o c ev (lzipLoop P cfg f false (inp.drop c))

/-- every member consumes at least 26 bytes, so `|input| + 1` units of fuel are never exhausted -/
def lzipDecode (P : Payload) (cfg : Cfg) (inp : List UInt8) : DRes :=
  lzipLoop P cfg (inp.length + 1) true inp

end XzVerif.Lzip
