/-
  L7: the whole-buffer .xz container decoder of liblzma:
    src/liblzma/common/stream_decoder.c   (`stream_decode`: header, Blocks, Index, footer, Stream Padding, flags)
    src/liblzma/common/block_decoder.c    (`block_decode`: size limits, size fields, Block Padding, Check)
    src/liblzma/common/index_hash.c       (`lzma_index_hash_append`, `lzma_index_hash_decode`, `lzma_index_hash_size`)
    src/liblzma/common/stream_buffer_decoder.c, and the LZMA_OK → LZMA_BUF_ERROR rule of `lzma_code` (common.c)
  on top of the field codecs of Model/Container.lean.

  WHAT IS MODELLED.  The observation of a decoder that is given its COMPLETE input in one piece together with `outCap`
  bytes of output space (and LZMA_FINISH): final return code, output bytes, number of input bytes consumed, and the
  informational returns (LZMA_NO_CHECK / LZMA_UNSUPPORTED_CHECK / LZMA_GET_CHECK) in the order they are reported.
  The order of checks and the consumed count at every failure are those of the C code (a failing `return` leaves
  `*in_pos` where the C code has advanced it to).

  `Ret.ok` as the verdict of `blockDecode` / `indexHashDecode` / `streamOne` / `xzCall` is what one call of the C coder
  returns when it cannot go on: every available input byte is consumed and more is needed (or, only if `outCap` is too
  small, the output space is used up).  `xzDecode` (the `lzma_code` loop) turns it into LZMA_BUF_ERROR,
  `xzBufferDecode` (lzma_stream_buffer_decode) into LZMA_DATA_ERROR / LZMA_BUF_ERROR.

  PARAMETERS (`Env`).  The raw filter-chain decoder (`lzma_raw_decoder_init` + `code`) and the integrity checks are
  parameters, so the container theorems (Props/C05.lean, Props/C03Container.lean) hold for every payload decoder and
  every check function; the drivers instantiate them with Model/Lzma2.lean (`rawDecode`) and Model/Check.lean.

  INDEX HASH.  The C code compares the Blocks it decoded with the Records of the Index through three sums and a SHA-256
  over the `(unpadded_size, uncompressed_size)` pairs.  The model keeps the list of pairs itself and compares the lists;
  this is the same function iff SHA-256 has no collision among the compared lists (explicit assumption, stated in the
  theorems' documentation: "HashInjective").  The three sums are functions of the list.

  Core Lean only.
-/
import XzVerif.Model.Container
import XzVerif.Model.Alone

namespace XzVerif.XzDecode
open XzVerif XzVerif.Vli XzVerif.Container

/-- Observation of a container decoder: `ret`, `out`, `consumed`, `events`, `mem` (shared with Model/Alone.lean so that
    Model/Auto.lean can be instantiated with `xzDecode`). -/
abbrev DRes := XzVerif.Alone.DRes

/-- "as much output space as needed" -/
def UNLIMITED : Nat := 4611686018427387904   -- 2^62

/-- Result of the raw filter-chain decoder on the input it is allowed to see. -/
structure PRes where
  /-- `.streamEnd` finished; `.ok` the input ended (or the output limit was reached) before the end;
      `.dataError`; or an initialisation error (`.optionsError`, `.progError`, `.memError`) with nothing consumed -/
  ret : Ret
  out : List UInt8
  consumed : Nat
  deriving DecidableEq, Repr, Inhabited

/-- What the container decoder calls out to. -/
structure Env where
  /-- `lzma_raw_decoder_init(filters)` followed by `code(in[0..n), out[0..outCap))` with everything present:
      `payload filters input outCap` -/
  payload : List Filter → List UInt8 → Nat → PRes
  /-- `lzma_check_is_supported` -/
  checkSupported : Nat → Bool
  /-- `lzma_check_init/update/finish`: the first `lzma_check_size(id)` bytes of `check.buffer` for the given data -/
  check : Nat → List UInt8 → List UInt8

/-- Decoder flags of api/lzma/container.h. -/
structure Flags where
  tellNoCheck : Bool := false            -- LZMA_TELL_NO_CHECK          0x01
  tellUnsupportedCheck : Bool := false   -- LZMA_TELL_UNSUPPORTED_CHECK 0x02
  tellAnyCheck : Bool := false           -- LZMA_TELL_ANY_CHECK         0x04
  concatenated : Bool := false           -- LZMA_CONCATENATED           0x08
  ignoreCheck : Bool := false            -- LZMA_IGNORE_CHECK           0x10
  deriving DecidableEq, Repr, Inhabited

/-- `LZMA_SUPPORTED_FLAGS` (0x01 … 0x20; LZMA_FAIL_FAST 0x20 only matters to the threaded decoder). -/
def SUPPORTED_FLAGS_MASK : Nat := 64

def Flags.ofNat (n : Nat) : Flags :=
  { tellNoCheck := n % 2 = 1, tellUnsupportedCheck := n / 2 % 2 = 1, tellAnyCheck := n / 4 % 2 = 1,
    concatenated := n / 8 % 2 = 1, ignoreCheck := n / 16 % 2 = 1 }

/-! ## Small byte-matching loops shared by several fields -/

/-- `k` bytes that must all be 0x00 (Block Padding, Index Padding): `(.streamEnd, k, rest)` when they are,
    `(.dataError, n, _)` after consuming the first non-zero byte (the `n`-th), `(.ok, n, [])` when the input ends. -/
def padCheck : Nat → List UInt8 → Ret × Nat × List UInt8
  | 0, r => (.streamEnd, 0, r)
  | _ + 1, [] => (.ok, 0, [])
  | k + 1, b :: t =>
    if b ≠ 0 then (.dataError, 1, t)
    else
      let r := padCheck k t
      (r.1, r.2.1 + 1, r.2.2)

/-- The input must continue with the bytes `expected` (the CRC32 of the Index is compared byte by byte as it arrives):
    `(.streamEnd, |expected|)`, `(.dataError, n)` after consuming the first differing byte, `(.ok, n)` when the input ends. -/
def matchBytes : List UInt8 → List UInt8 → Ret × Nat
  | [], _ => (.streamEnd, 0)
  | _ :: _, [] => (.ok, 0)
  | e :: es, b :: bs =>
    if e ≠ b then (.dataError, 1)
    else
      let r := matchBytes es bs
      (r.1, r.2 + 1)

/-! ## Block decoder (block_decoder.c) -/

/-- Result of `block_decode`; positions are relative to the first byte after the Block Header. -/
structure BRes where
  /-- `.streamEnd` Block complete and verified; `.ok` more input (or output space) needed; otherwise the error -/
  ret : Ret
  out : List UInt8
  consumed : Nat
  /-- final Compressed Size (`block->compressed_size` after SEQ_CODE); meaningful when `ret = .streamEnd` -/
  compressed : Nat
  deriving DecidableEq, Repr, Inhabited

/-- `coder->compressed_limit` of `lzma_block_decoder_init`. -/
def compressedLimit (headerSize check : Nat) : Option Nat → Nat
  | some c => c
  | none => VLI_MAX / 4 * 4 - headerSize - checkSize check

/-- `coder->uncompressed_limit`. -/
def uncompressedLimit : Option Nat → Nat
  | some u => u
  | none => VLI_MAX

/-- `is_size_valid(size, reference)`. -/
def sizeValid (size : Nat) : Option Nat → Bool
  | none => true
  | some r => r == size

/-- Number of Block Padding bytes after `compressed` bytes of Compressed Data. -/
def blockPadLen (compressed : Nat) : Nat := (4 - compressed % 4) % 4

/-- `block_decode` on everything that follows the Block Header (`inp`), with `outCap` bytes of output space left.
    `check` is the Stream's Check ID, `headerSize`/`h` the decoded Block Header. -/
def blockDecode (E : Env) (check : Nat) (ignoreCheck : Bool) (headerSize : Nat) (h : BlockHeader)
    (inp : List UInt8) (outCap : Nat) : BRes :=
  -- SEQ_CODE: the raw decoder sees at most `compressed_limit` bytes and may write at most `uncompressed_limit` bytes
  let inAvail := min inp.length (compressedLimit headerSize check h.compressedSize)
  let outAvail := min outCap (uncompressedLimit h.uncompressedSize)
  let r := E.payload h.filters (inp.take inAvail) outAvail
  match r.ret with
  | .ok =>
    let compDone := h.compressedSize == some r.consumed
    let uncompDone := h.uncompressedSize == some r.out.length
    if (compDone && uncompDone) || (compDone && r.out.length < outCap) || (uncompDone && r.consumed < inp.length) then
      { ret := .dataError, out := r.out, consumed := r.consumed, compressed := r.consumed }
    else { ret := .ok, out := r.out, consumed := r.consumed, compressed := r.consumed }
  | .streamEnd =>
    if !(sizeValid r.consumed h.compressedSize && sizeValid r.out.length h.uncompressedSize) then
      { ret := .dataError, out := r.out, consumed := r.consumed, compressed := r.consumed }
    else
      -- SEQ_PADDING
      let p := padCheck (blockPadLen r.consumed) (inp.drop r.consumed)
      match p.1 with
      | .streamEnd =>
        if check = 0 then
          { ret := .streamEnd, out := r.out, consumed := r.consumed + p.2.1, compressed := r.consumed }
        else
          -- SEQ_CHECK
          let cs := checkSize check
          if p.2.2.length < cs then
            { ret := .ok, out := r.out, consumed := inp.length, compressed := r.consumed }
          else if !ignoreCheck && E.checkSupported check && p.2.2.take cs ≠ E.check check r.out then
            { ret := .dataError, out := r.out, consumed := r.consumed + p.2.1 + cs, compressed := r.consumed }
          else
            { ret := .streamEnd, out := r.out, consumed := r.consumed + p.2.1 + cs, compressed := r.consumed }
      | e => { ret := e, out := r.out, consumed := r.consumed + p.2.1, compressed := r.consumed }
  | e => { ret := e, out := r.out, consumed := r.consumed, compressed := r.consumed }

/-! ## Index hash (index_hash.c) -/

/-- `lzma_index_hash_info` as the list of size pairs it has absorbed (oldest first); the C fields are sums over it. -/
abbrev HashInfo := List IndexRecord

/-- `info->blocks_size`: Σ vli_ceil4(unpadded_size). -/
def hBlocksSize (i : HashInfo) : Nat := (i.map fun r => ceil4 r.unpadded).sum
/-- `info->uncompressed_size`. -/
def hUncompressedSize (i : HashInfo) : Nat := (i.map fun r => r.uncompressed).sum
/-- `info->index_list_size`. -/
def hIndexListSize (i : HashInfo) : Nat := (i.map fun r => vliSize r.unpadded + vliSize r.uncompressed).sum
/-- `info->count`. -/
def hCount (i : HashInfo) : Nat := i.length

/-- `lzma_index_hash_size`. -/
def indexHashSize (blocks : HashInfo) : Nat := indexSize (hCount blocks) (hIndexListSize blocks)

/-- `lzma_index_hash_append` (sequence is SEQ_BLOCK while Blocks are being decoded). -/
def indexHashAppend (blocks : HashInfo) (unpadded uncompressed : Nat) : Res HashInfo :=
  if unpadded < UNPADDED_SIZE_MIN ∨ unpadded > UNPADDED_SIZE_MAX ∨ uncompressed > VLI_MAX then .error .progError
  else
    let b := blocks ++ [⟨unpadded, uncompressed⟩]
    if hBlocksSize b > VLI_MAX ∨ hUncompressedSize b > VLI_MAX
        ∨ indexSize (hCount b) (hIndexListSize b) > BACKWARD_SIZE_MAX
        ∨ indexStreamSize (hBlocksSize b) (hCount b) (hIndexListSize b) > VLI_MAX then .error .dataError
    else .ok b

/-- Result of `lzma_index_hash_decode`: `.streamEnd` the Index matches the Blocks; `.ok` input ended; `.dataError`. -/
structure IRes where
  ret : Ret
  consumed : Nat
  deriving DecidableEq, Repr, Inhabited

/-- One `lzma_vli_decode` inside the Index with all remaining input `inp` present (multi-call mode, `pos = 0`):
    `.ok v used`, or `.error (.ok, used)` when the input ends inside the integer (all of it consumed), or
    `.error (.dataError, used)`. Must not be called with empty input (the C loop tests `*in_pos < in_size` first). -/
def indexVli (inp : List UInt8) : Except (Ret × Nat) (Nat × Nat) :=
  let r := vliDecLoop inp 0 0 0
  match r.1 with
  | .streamEnd => .ok (r.2.1, r.2.2.2)
  | .ok => .error (.ok, r.2.2.2)
  | _ => .error (.dataError, r.2.2.2)

/-- SEQ_PADDING_INIT … SEQ_CRC32: `all` is the whole Index field input (for the CRC32), `used` bytes of it precede the
    Index Padding, `inp = all.drop used`. -/
def indexFinish (blocks records : HashInfo) (all : List UInt8) (used : Nat) (inp : List UInt8) : IRes :=
  -- the `while (*in_pos < in_size)` loop is entered once more for SEQ_PADDING_INIT
  if inp.isEmpty then { ret := .ok, consumed := used }
  else
    let p := padCheck ((4 - indexSizeUnpadded (hCount records) (hIndexListSize records) % 4) % 4) inp
    match p.1 with
    | .streamEnd =>
      let used := used + p.2.1
      -- the comparisons run inside the loop body, so one more input byte must be present
      if p.2.2.isEmpty then { ret := .ok, consumed := used }
      else if hBlocksSize blocks ≠ hBlocksSize records ∨ hUncompressedSize blocks ≠ hUncompressedSize records
          ∨ hIndexListSize blocks ≠ hIndexListSize records then { ret := .dataError, consumed := used }
      -- SHA-256 of the size pairs (modelled as the lists themselves, see the header comment)
      else if blocks ≠ records then { ret := .dataError, consumed := used }
      else
        let m := matchBytes (le32 (crc32 (all.take used))) p.2.2
        { ret := m.1, consumed := used + m.2 }
    | e => { ret := e, consumed := used + p.2.1 }

/-- SEQ_UNPADDED / SEQ_UNCOMPRESSED loop: `remaining` Records still to read. -/
def indexRecords (blocks : HashInfo) (all : List UInt8) :
    Nat → HashInfo → Nat → List UInt8 → IRes
  | 0, records, used, inp => indexFinish blocks records all used inp
  | remaining + 1, records, used, inp =>
    if inp.isEmpty then { ret := .ok, consumed := used }
    else match indexVli inp with
      | .error (r, n) => { ret := r, consumed := used + n }
      | .ok (unpadded, n1) =>
        if unpadded < UNPADDED_SIZE_MIN ∨ unpadded > UNPADDED_SIZE_MAX then { ret := .dataError, consumed := used + n1 }
        else
          let inp2 := inp.drop n1
          if inp2.isEmpty then { ret := .ok, consumed := used + n1 }
          else match indexVli inp2 with
            | .error (r, n) => { ret := r, consumed := used + n1 + n }
            | .ok (uncompressed, n2) =>
              let records := records ++ [⟨unpadded, uncompressed⟩]
              if hBlocksSize blocks < hBlocksSize records ∨ hUncompressedSize blocks < hUncompressedSize records
                  ∨ hIndexListSize blocks < hIndexListSize records then
                { ret := .dataError, consumed := used + n1 + n2 }
              else indexRecords blocks all remaining records (used + n1 + n2) (inp2.drop n2)

/-- `lzma_index_hash_decode` on `inp` starting at the Index Indicator, after the Blocks `blocks` have been appended. -/
def indexHashDecode (blocks : HashInfo) (inp : List UInt8) : IRes :=
  match inp with
  | [] => { ret := .ok, consumed := 0 }            -- stream_decode returns LZMA_OK before calling
  | ind :: r0 =>
    if ind.toNat ≠ INDEX_INDICATOR then { ret := .dataError, consumed := 1 }
    else if r0.isEmpty then { ret := .ok, consumed := 1 }
    else match indexVli r0 with
      | .error (r, n) => { ret := r, consumed := 1 + n }
      | .ok (count, n) =>
        if count ≠ hCount blocks then { ret := .dataError, consumed := 1 + n }
        else indexRecords blocks inp count [] (1 + n) (r0.drop n)

/-! ## One Stream (stream_decoder.c, SEQ_STREAM_HEADER … SEQ_STREAM_FOOTER) -/

/-- The informational return after the Stream Header (at most one per Stream, in this priority order). -/
def headerEvents (E : Env) (fl : Flags) (check : Nat) : List Ret :=
  if fl.tellNoCheck && check == 0 then [.noCheck]
  else if fl.tellUnsupportedCheck && !E.checkSupported check then [.unsupportedCheck]
  else if fl.tellAnyCheck then [.getCheck]
  else []

/-- Result of a part of a Stream: positions relative to the start of that part. -/
structure SRes where
  ret : Ret
  out : List UInt8
  consumed : Nat
  deriving DecidableEq, Repr, Inhabited

/-- SEQ_INDEX + SEQ_STREAM_FOOTER: `inp` starts at the Index Indicator. `.streamEnd` = the Stream is complete. -/
def indexAndFooter (hdr : StreamFlags) (blocks : HashInfo) (inp : List UInt8) : SRes :=
  let i := indexHashDecode blocks inp
  if i.ret ≠ .streamEnd then { ret := i.ret, out := [], consumed := i.consumed }
  else
    let rest := inp.drop i.consumed
    if rest.length < STREAM_HEADER_SIZE then { ret := .ok, out := [], consumed := inp.length }
    else
      let used := i.consumed + STREAM_HEADER_SIZE
      match streamFooterDecode (rest.take STREAM_HEADER_SIZE) with
      | .error e => { ret := if e = .formatError then .dataError else e, out := [], consumed := used }
      | .ok (ftr, backwardSize) =>
        if indexHashSize blocks ≠ backwardSize then { ret := .dataError, out := [], consumed := used }
        else
          let c := streamFlagsCompare hdr none ftr (some backwardSize)
          if c ≠ .ok then { ret := c, out := [], consumed := used }
          else { ret := .streamEnd, out := [], consumed := used }

/-- SEQ_BLOCK_HEADER / SEQ_BLOCK_INIT / SEQ_BLOCK_RUN loop, then the Index and the footer.
    `blocks` = size pairs of the Blocks decoded so far. One unit of fuel per Block (a Block takes ≥ 8 bytes). -/
def blocksLoop (E : Env) (fl : Flags) (hdr : StreamFlags) : Nat → HashInfo → List UInt8 → Nat → SRes
  | 0, _, _, _ => { ret := .progError, out := [], consumed := 0 }
  | fuel + 1, blocks, inp, outCap =>
    match inp with
    | [] => { ret := .ok, out := [], consumed := 0 }
    | b0 :: _ =>
      if b0.toNat = INDEX_INDICATOR then indexAndFooter hdr blocks inp
      else
        -- lzma_block_header_size_decode
        let hs := (b0.toNat + 1) * 4
        if inp.length < hs then { ret := .ok, out := [], consumed := inp.length }
        else
          match blockHeaderDecodeWith hs hdr.check (inp.take hs) with
          | .error e => { ret := e, out := [], consumed := hs }
          | .ok h =>
            -- lzma_raw_decoder_memusage() == UINT64_MAX: the chain is not valid
            match validateChain (h.filters.map (·.id)) with
            | .error _ => { ret := .optionsError, out := [], consumed := hs }
            | .ok _ =>
              let b := blockDecode E hdr.check fl.ignoreCheck hs h (inp.drop hs) outCap
              if b.ret ≠ .streamEnd then { ret := b.ret, out := b.out, consumed := hs + b.consumed }
              else
                match indexHashAppend blocks (blockUnpaddedSize 1 hs hdr.check (some b.compressed)) b.out.length with
                | .error e => { ret := e, out := b.out, consumed := hs + b.consumed }
                | .ok blocks' =>
                  let r := blocksLoop E fl hdr fuel blocks' (inp.drop (hs + b.consumed)) (outCap - b.out.length)
                  { ret := r.ret, out := b.out ++ r.out, consumed := hs + b.consumed + r.consumed }

/-- One Stream from the front of `inp` (`first` = `coder->first_stream`): `.streamEnd` = Stream Footer verified,
    `consumed` = length of the Stream. -/
def streamOne (E : Env) (fl : Flags) (first : Bool) (inp : List UInt8) (outCap : Nat) : DRes :=
  if inp.length < STREAM_HEADER_SIZE then { ret := .ok, out := [], consumed := inp.length }
  else
    match streamHeaderDecode (inp.take STREAM_HEADER_SIZE) with
    | .error e =>
      { ret := if e = .formatError ∧ !first then .dataError else e, out := [], consumed := STREAM_HEADER_SIZE }
    | .ok hdr =>
      let r := blocksLoop E fl hdr (inp.length + 1) [] (inp.drop STREAM_HEADER_SIZE) outCap
      { ret := r.ret, out := r.out, consumed := STREAM_HEADER_SIZE + r.consumed, events := headerEvents E fl hdr.check }

/-! ## Stream Padding and concatenation (SEQ_STREAM_PADDING) -/

/-- Skip zero bytes counting modulo four. `pos` = `coder->pos`, `n` = bytes skipped so far.
    `.inl (ret, consumed)`: final verdict; `.inr consumed`: a new Stream starts after `consumed` bytes of padding. -/
def streamPadding : List UInt8 → Nat → Nat → (Ret × Nat) ⊕ Nat
  | [], pos, n => .inl (if pos = 0 then .streamEnd else .dataError, n)      -- LZMA_FINISH
  | b :: t, pos, n =>
    if b = 0 then streamPadding t ((pos + 1) % 4) (n + 1)
    else if pos ≠ 0 then .inl (.dataError, n + 1)
    else .inr n

def prepend (a : DRes) (r : DRes) : DRes :=
  { ret := r.ret, out := a.out ++ r.out, consumed := a.consumed + r.consumed, events := a.events ++ r.events, mem := r.mem }

/-- The whole `stream_decode` loop. One unit of fuel per Stream (a Stream takes ≥ 32 bytes). -/
def xzLoop (E : Env) (fl : Flags) : Nat → Bool → List UInt8 → Nat → DRes
  | 0, _, _, _ => { ret := .progError, out := [], consumed := 0 }
  | fuel + 1, first, inp, outCap =>
    let s := streamOne E fl first inp outCap
    if s.ret ≠ .streamEnd then s
    else if !fl.concatenated then s
    else
      match streamPadding (inp.drop s.consumed) 0 0 with
      | .inl (r, n) => { s with ret := r, consumed := s.consumed + n }
      | .inr n =>
        prepend { s with consumed := s.consumed + n }
          (xzLoop E fl fuel false (inp.drop (s.consumed + n)) (outCap - s.out.length))

/-- What `stream_decode` has done when it can no longer make progress, given all input and LZMA_FINISH
    (`Ret.ok` = it keeps returning LZMA_OK: input truncated, or `outCap` used up). -/
def xzCall (E : Env) (fl : Flags) (inp : List UInt8) (outCap : Nat := UNLIMITED) : DRes :=
  xzLoop E fl (inp.length + 1) true inp outCap

/-- `lzma_stream_decoder(strm, memlimit, flags)` + `lzma_code(strm, LZMA_FINISH)` until it returns something other
    than LZMA_OK or an informational code: LZMA_OK without progress becomes LZMA_BUF_ERROR (common.c). -/
def xzDecode (E : Env) (fl : Flags) (inp : List UInt8) (outCap : Nat := UNLIMITED) : DRes :=
  let r := xzCall E fl inp outCap
  if r.ret = .ok then { r with ret := .bufError } else r

/-- `lzma_stream_buffer_decode(&memlimit, flags, NULL, in, &in_pos = 0, in_size, out, &out_pos = 0, out_size = outCap)`:
    `ret = .ok` is success; on every failure the positions are restored (`consumed = 0`, no output).
    An informational return of the Stream decoder is a failure here. -/
def xzBufferDecode (E : Env) (flags : Nat) (inp : List UInt8) (outCap : Nat := UNLIMITED) : DRes :=
  if (Flags.ofNat flags).tellAnyCheck then { ret := .progError, out := [], consumed := 0 }
  else if flags ≥ SUPPORTED_FLAGS_MASK then { ret := .optionsError, out := [], consumed := 0 }
  else
    let r := xzCall E (Flags.ofNat flags) inp outCap
    match r.events with
    | e :: _ => { ret := e, out := [], consumed := 0 }
    | [] =>
      if r.ret = .streamEnd then { ret := .ok, out := r.out, consumed := r.consumed }
      else if r.ret = .ok then
        { ret := if r.consumed = inp.length then .dataError else .bufError, out := [], consumed := 0 }
      else { ret := r.ret, out := [], consumed := 0 }

end XzVerif.XzDecode
