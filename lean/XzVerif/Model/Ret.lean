/-
  `lzma_ret` (src/liblzma/api/lzma/base.h) as a Lean inductive. Constructor order = numeric value of the C enum;
  `Gen/C02.lean` prints the numeric values from the header and `Props/C02.lean` checks `Ret.toNat` against them.
  Core Lean only.
-/
namespace XzVerif

inductive Ret where
  | ok                 -- LZMA_OK = 0
  | streamEnd          -- LZMA_STREAM_END = 1
  | noCheck            -- LZMA_NO_CHECK = 2
  | unsupportedCheck   -- LZMA_UNSUPPORTED_CHECK = 3
  | getCheck           -- LZMA_GET_CHECK = 4
  | memError           -- LZMA_MEM_ERROR = 5
  | memlimitError      -- LZMA_MEMLIMIT_ERROR = 6
  | formatError        -- LZMA_FORMAT_ERROR = 7
  | optionsError       -- LZMA_OPTIONS_ERROR = 8
  | dataError          -- LZMA_DATA_ERROR = 9
  | bufError           -- LZMA_BUF_ERROR = 10
  | progError          -- LZMA_PROG_ERROR = 11
  | seekNeeded         -- LZMA_SEEK_NEEDED = 12
  deriving DecidableEq, Repr, Inhabited

def Ret.toNat : Ret → Nat
  | .ok => 0 | .streamEnd => 1 | .noCheck => 2 | .unsupportedCheck => 3 | .getCheck => 4
  | .memError => 5 | .memlimitError => 6 | .formatError => 7 | .optionsError => 8
  | .dataError => 9 | .bufError => 10 | .progError => 11 | .seekNeeded => 12

def Ret.ofNat? : Nat → Option Ret
  | 0 => some .ok | 1 => some .streamEnd | 2 => some .noCheck | 3 => some .unsupportedCheck
  | 4 => some .getCheck | 5 => some .memError | 6 => some .memlimitError | 7 => some .formatError
  | 8 => some .optionsError | 9 => some .dataError | 10 => some .bufError | 11 => some .progError
  | 12 => some .seekNeeded | _ => none

def Ret.all : List Ret :=
  [.ok, .streamEnd, .noCheck, .unsupportedCheck, .getCheck, .memError, .memlimitError, .formatError,
   .optionsError, .dataError, .bufError, .progError, .seekNeeded]

instance : ToString Ret := ⟨fun r => toString r.toNat⟩

deriving instance DecidableEq for Except

/-- Result of a C function that returns `lzma_ret` and, on `LZMA_OK`, an output value:
    `.ok v` is `LZMA_OK` with output `v`; `.error r` is the return code `r` (never `Ret.ok`). -/
abbrev Res (α : Type) := Except Ret α

def Res.ret {α : Type} : Res α → Ret
  | .ok _ => .ok
  | .error r => r

end XzVerif
