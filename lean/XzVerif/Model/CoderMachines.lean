/-
  liblzma instances of the byte-machine slicing theorem (property C06, audit finding F-01).  Core Lean only.

  `Props/C06.lean` proves slicing independence for every `Coder.ofByteMachine m`. Here:

  * `Run.map`, `Sim`: "the chunk-faithful coder `c` is, call by call, the image of byte machine `m` under `abs`"
    (`Lemmas/CoderMachines.lean`: under `Sim` every sliced run of `c` is the image of the sliced run of the machine, hence any two
    fair slicings of `c` give the same output, return code, consumed count and final state).
  * chunk-faithful coders + byte machines for
      - `lzma_vli_decode` in multi-call mode (`vliDecCoder` / `vliMachine`),
      - the `lzma_bufcpy` fixed-size field reader (`fieldCoder` of Model/CoderSmall.lean / `fieldMachine`),
      - the LZMA2 chunk-header sequence machine of `lzma2_decode()` (`l2Coder` / `l2Machine`),
      - the Index decoder sequence machine `index_decode()` (`ixCoder` / `ixMachine`).
  * `srcCoder`: an abstract next coder (`Src`) as a `Coder`, for "delta behind any next coder".
-/
import XzVerif.Model.CoderSmall

namespace XzVerif.Coder
open XzVerif.Vli

/-! ## Generic: a chunk-faithful coder as the image of a byte machine -/

/-- Map the coder-state component of a run; everything observable is left alone. -/
def Run.map {σ τ : Type} (f : σ → τ) (r : Run σ) : Run τ :=
  { state := f r.state, rest := r.rest, out := r.out, consumed := r.consumed, ret := r.ret, settled := r.settled }

/-- Coder `c` is the image of byte machine `m` under `abs`, per CALL: from every machine state `st` satisfying the invariant `live`,
    whatever the end-of-input flag of the machine wrapper, whatever buffers are offered, with `LZMA_RUN` or `LZMA_FINISH`, one call
    of `c` on `abs st` reports exactly what one call of `Coder.ofByteMachine m` reports (consumed, bytes written, return code) and
    ends in the abstraction of the machine's new state; and as long as the call answers `LZMA_OK` the invariant is kept.
    (`runSliced` never calls again after a return code other than `LZMA_OK`, so `live` is needed only then.) -/
structure Sim {σ μ : Type} (c : Coder σ) (m : ByteMachine μ) (abs : μ → σ) (live : μ → Prop) : Prop where
  code : ∀ st, live st → ∀ (eof : Bool) (inp : List UInt8) (cap : Nat) (a : Action), a = .run ∨ a = .finish →
    c.code (abs st) inp cap a
      = (abs ((Coder.ofByteMachine m).code (st, eof) inp cap a).1.1, ((Coder.ofByteMachine m).code (st, eof) inp cap a).2)
  live : ∀ st, live st → ∀ (eof : Bool) (inp : List UInt8) (cap : Nat) (a : Action), a = .run ∨ a = .finish →
    ((Coder.ofByteMachine m).code (st, eof) inp cap a).2.ret = .ok → live ((Coder.ofByteMachine m).code (st, eof) inp cap a).1.1

/-! ## `lzma_vli_decode`, multi-call mode, persistent `(vli, vli_pos)` -/

/-- One call of `lzma_vli_decode(&vli, &vli_pos, in, &in_pos, in_size)` with `in_size - in_pos = |inp|`. State `(vli, vli_pos)`,
    initially `(0, 0)`. Nothing is written (`out = []`); the result lives in the state. With no input at all the C function
    answers `LZMA_BUF_ERROR` and changes nothing; its callers (block header, index, index hash, …) only call it when there is
    input, so here an empty call is "nothing happened", `LZMA_OK`. -/
def vliDecCoder : Coder (Nat × Nat) where
  code s inp _cap _a :=
    if inp.isEmpty then (s, ⟨0, [], .ok⟩)
    else
      let r := vliDecodeMulti s.1 s.2 inp
      ((r.2.1, r.2.2.1), ⟨r.2.2.2, [], r.1⟩)

/-- States of the VLI byte machine: still reading with `(vli, vli_pos)`, or finished with the return code. -/
inductive VliM where
  | reading (v p : Nat)
  | finished (r : Ret) (v p : Nat)
  deriving DecidableEq, Repr

/-- One iteration of the `do … while` loop of `lzma_vli_decode` (= one iteration of `Vli.vliDecLoop`). -/
def vliByte (v p : Nat) (b : UInt8) : VliM :=
  let v' := v + ((b.toNat % 128) <<< (p * 7))
  let p' := p + 1
  if b.toNat < 128 then
    if b.toNat = 0 ∧ p' > 1 then .finished .dataError v' p' else .finished .streamEnd v' p'
  else if p' = VLI_BYTES_MAX then .finished .dataError v' p'
  else .reading v' p'

def vliMachine : ByteMachine VliM where
  step
    | .reading v p => .read fun
        | some b => vliByte v p b
        | none => .reading v p
    | .finished r _ _ => .done r

def VliM.abs : VliM → Nat × Nat
  | .reading v p => (v, p)
  | .finished _ v p => (v, p)

/-- The states in which `lzma_vli_decode` may be called again: still reading, and the argument check
    `vli_pos < 9 ∧ (vli >> 7·vli_pos) = 0` passes. The initial state `reading 0 0` is one. -/
def VliM.live : VliM → Prop
  | .reading v p => p < 9 ∧ v < 2 ^ (7 * p)
  | .finished _ _ _ => False

/-! ## Fixed-size field reader -/

/-- What the field reader does with one more byte / with the end-of-input signal. -/
def fieldRead (buf : List UInt8) : Option UInt8 → List UInt8
  | some b => buf ++ [b]
  | none => buf

/-- Byte machine of `fieldCoder size`: state = the bytes copied so far. -/
def fieldMachine (size : Nat) : ByteMachine (List UInt8) where
  step buf := if buf.length ≥ size then .done .streamEnd else .read (fieldRead buf)

/-! ## LZMA2 chunk-header machine as a coder -/

/-- The verdict among the events of a step: the return code of the first `finished` event. -/
def l2Verdict : List L2Event → Option Ret
  | [] => none
  | .finished r :: _ => some r
  | _ :: t => l2Verdict t

/-- State of the coder: the `lzma2_decode()` variables, every event emitted so far, and the verdict once a `finished` event
    (end marker or `LZMA_DATA_ERROR`) has occurred. -/
abbrev L2C := L2State × List L2Event × Option Ret

/-- One call of `lzma2_decode()` on `avail_in = |inp|` bytes = `l2Feed`. The events are appended to the trace kept in the state,
    `consumed` = bytes eaten, the return code is the verdict of the `finished` event, `LZMA_OK` if there was none. After a verdict
    every further call repeats it without consuming. The model has NO output-capacity limit: copied bytes and LZMA payload bytes
    are events (handed to the dictionary / to the abstract LZMA decoder), `out = []`. So slicing here means input slicing; what
    the dictionary does with a full output buffer is not modelled (C-vs-C oracle only). -/
def l2Coder : Coder L2C where
  code s inp _cap _a :=
    match s.2.2 with
    | some r => (s, ⟨0, [], r⟩)
    | none =>
      let t := l2Feed s.1 inp
      ((t.1, s.2.1 ++ t.2.1, l2Verdict t.2.1), ⟨t.2.2, [], (l2Verdict t.2.1).getD .ok⟩)

/-- Per input byte `l2Step`. -/
def l2Machine : ByteMachine L2C where
  step s :=
    match s.2.2 with
    | some r => .done r
    | none => .read fun
      | some b => ((l2Step s.1 b).1, s.2.1 ++ (l2Step s.1 b).2, l2Verdict (l2Step s.1 b).2)
      | none => s

/-- Initial state: `L2State` defaults (`SEQ_CONTROL`, need properties, need dictionary reset), no events, no verdict. -/
def L2C.init : L2C := ({}, [], none)

/-! ## Index decoder as a coder -/

/-- One call of `index_decode()` on `avail_in = |inp|` bytes = `ixFeed`; the return code is the verdict, `LZMA_OK` if none.
    State = the decoder variables (Records so far, CRC32 register, …) and the verdict once there is one; after a verdict every
    further call repeats it without consuming. Nothing is written. -/
def ixCoder : Coder (IxState × Option Ret) where
  code s inp _cap _a :=
    match s.2 with
    | some r => (s, ⟨0, [], r⟩)
    | none =>
      let t := ixFeed s.1 inp
      ((t.1, t.2.1), ⟨t.2.2, [], t.2.1.getD .ok⟩)

/-- Per input byte `ixStep`. -/
def ixMachine : ByteMachine (IxState × Option Ret) where
  step s :=
    match s.2 with
    | some r => .done r
    | none => .read fun
      | some b => ixStep s.1 b
      | none => s

/-! ## An abstract next coder as a `Coder` -/

/-- What `coder->next.code(…)` does, as a `Coder`: the bytes it writes, the input it consumes, `LZMA_STREAM_END` or `LZMA_OK`. -/
def srcCoder {ν : Type} (src : Src ν) : Coder ν where
  code s inp cap a :=
    let p := src.pull s inp cap (a == .finish)
    (p.1, ⟨p.2.2.1, p.2.1, if p.2.2.2 then .streamEnd else .ok⟩)

end XzVerif.Coder
