/-
  L7: format auto-detection, src/liblzma/common/auto_decoder.c, observed through `lzma_code` with the complete input.

    SEQ_INIT   no input yet: LZMA_OK. First byte 0xFD → .xz Stream decoder (same memlimit and flags); 0x4C → .lz decoder
               (same memlimit and flags); anything else → LZMA_Alone decoder in picky mode, and because that decoder takes no
               flags LZMA_TELL_NO_CHECK / LZMA_TELL_ANY_CHECK are answered here (LZMA_NO_CHECK has priority), before the
               first byte is even validated.
    SEQ_CODE   the chosen decoder's result is passed through, except: LZMA_STREAM_END of the LZMA_Alone decoder
               (`next.get_check == NULL`) under LZMA_CONCATENATED goes to
    SEQ_FINISH unread input → LZMA_DATA_ERROR; otherwise LZMA_STREAM_END needs LZMA_FINISH (else LZMA_OK).
  The .xz Stream decoder is a PARAMETER (`Xz`, instantiated with Model/XzConcat.lean by the driver).

  Core Lean only.
-/
import XzVerif.Model.Alone
import XzVerif.Model.Lzip

namespace XzVerif.Auto
open XzVerif.Alone

/-- decoder flags of api/lzma/container.h (bit values 0x01 … 0x20) -/
structure Flags where
  tellNoCheck : Bool
  tellUnsupportedCheck : Bool
  tellAnyCheck : Bool
  concatenated : Bool
  ignoreCheck : Bool
  failFast : Bool
  deriving DecidableEq, Repr

def Flags.ofNat (n : Nat) : Flags :=
  { tellNoCheck := n % 2 = 1, tellUnsupportedCheck := n / 2 % 2 = 1, tellAnyCheck := n / 4 % 2 = 1,
    concatenated := n / 8 % 2 = 1, ignoreCheck := n / 16 % 2 = 1, failFast := n / 32 % 2 = 1 }

structure Cfg where
  flags : Flags
  finish : Bool
  memlimit : Nat
  memK : Nat
  deriving Repr

/-- `lzma_lzip_decoder_init(…, coder->memlimit, coder->flags)` -/
def lzipCfg (cfg : Cfg) : Lzip.Cfg :=
  { tellAnyCheck := cfg.flags.tellAnyCheck, ignoreCheck := cfg.flags.ignoreCheck, concatenated := cfg.flags.concatenated,
    finish := cfg.finish, memlimit := cfg.memlimit, memK := cfg.memK }

/-- `lzma_alone_decoder_init(…, coder->memlimit, true)` -/
def aloneCfg (cfg : Cfg) : Alone.Cfg := { picky := true, memlimit := cfg.memlimit, memK := cfg.memK }

/-- auto_decoder.c:75-79 -/
def aloneEvents (f : Flags) : List Ret :=
  if f.tellNoCheck then [.noCheck] else if f.tellAnyCheck then [.getCheck] else []

/-- SEQ_FINISH applied to a LZMA_STREAM_END of the LZMA_Alone decoder under LZMA_CONCATENATED -/
def aloneFinish (cfg : Cfg) (total : Nat) (r : DRes) : DRes :=
  if r.ret = .streamEnd && cfg.flags.concatenated then
    if r.consumed < total then { r with ret := .dataError }
    else if cfg.finish then r else { r with ret := .ok }
  else r

abbrev Xz := List UInt8 → DRes

def autoDecode (P : Payload) (X : Xz) (cfg : Cfg) (inp : List UInt8) : DRes :=
  match inp with
  | [] => needMore 0
  | b :: _ =>
    if b = 0xFD then X inp
    else if b = 0x4C then Lzip.lzipDecode P (lzipCfg cfg) inp
    else
      let r := aloneFinish cfg inp.length (aloneDecode P (aloneCfg cfg) inp)
      { r with events := aloneEvents cfg.flags ++ r.events }

end XzVerif.Auto
