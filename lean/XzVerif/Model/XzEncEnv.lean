/-
  The standard instantiation of `XzEncode.EncEnv`, the encoder-side counterpart of `XzEnv.stdEnv`:
  the raw filter-chain ENCODER `lzma_raw_encoder` + `code(LZMA_FINISH)` built from the executable models
    Model/Delta.lean, Model/Simple.lean (`filterCode … true`)   the non-last filters, in chain order (filters[0] sees the data first)
    Model/Lzma2Enc.lean `lzma2Encode`                           LZMA2 as the last filter (.xz Blocks)
    Model/LzmaEnc.lean `lzma1Encode` (end marker, no limit)      LZMA1 as the only filter (.lzma)
  and the integrity checks of Model/Check.lean (`XzEncode.stdCheck`).

  THE PARSER IS THE ONLY ABSTRACT INPUT.  liblzma's match finder + optimum parser are not modelled; what they decide is
  supplied as the H2 symbol trace (`LzmaEnc.TraceRec`), here as a function `Parser` of (lc/lp/pb, dictionary size, the
  complete input of the LZMA layer).  The executable chunker CHECKS the trace against the data (`checkSym`: every symbol
  must expand to the bytes it covers, distances within the dictionary, positions in step); when it rejects the trace the
  parser has broken its contract and `rawEncode` is `none` (the container then gets the empty payload — the theorems
  always assume acceptance, which ./check C01 tests on every traced run of the real encoder).

  `rawInitStd` = `lzma_raw_encoder_init`'s verdict as far as the models go: LZMA_OK exactly for the chains the models
  support (`lzma_validate_chain` accepts; non-last filters delta (distance 1..256) / BCJ (known ID, aligned 32-bit start
  offset); last filter LZMA2 with a valid lc/lp/pb and 4 KiB ≤ dict_size ≤ 1.5 GiB, or LZMA1 alone); every other chain
  gets an error code (`lzma_validate_chain`'s, else LZMA_OPTIONS_ERROR — the exact code is not claimed).

  Core Lean only.
-/
import XzVerif.Model.XzEncode
import XzVerif.Model.XzEnv
import XzVerif.Model.Lzma2Enc

namespace XzVerif.XzEncEnv
open XzVerif XzVerif.Container XzVerif.XzEncode XzVerif.LzmaEnc XzVerif.Lzma2Enc

/-- What the match finder + parser contribute: the symbol trace for the given LZMA options, dictionary size and input. -/
abbrev Parser := Lzma.Props → Nat → ByteArray → Array TraceRec

def toBuf (x : List UInt8) : ByteArray := ByteArray.mk x.toArray

/-- Encoding function of a non-last filter on a complete byte string (mirror of `XzEnv.preFilterWith`). -/
def preEnc : FilterOpts → Option (List UInt8 → List UInt8)
  | .delta dist => some (Delta.encodeAll dist)
  | .bcj id off =>
    (XzEnv.bcjId id).map fun fid => fun buf => (Simple.filterCode fid true Bcj.X86State.init (BitVec.ofNat 32 off) buf).1
  | _ => none

/-- The non-last filters applied in chain order: `filters[0]` first. -/
def applyPre : List FilterOpts → List UInt8 → Option (List UInt8)
  | [], x => some x
  | o :: os, x =>
    match preEnc o with
    | none => none
    | some f => applyPre os (f x)

/-- `lz_encoder` limits of the LZMA encoders: `LZMA_DICT_SIZE_MIN ≤ dict_size ≤ (1 << 30) + (1 << 29)`. -/
def DICT_SIZE_ENC_MAX : Nat := 1610612736

/-- The last filter: LZMA2 (options lc/lp/pb = `p`, which the Block Header does not store), or LZMA1 with end marker. -/
def lastEnc (p : Lzma.Props) (parser : Parser) : FilterOpts → List UInt8 → Option (List UInt8)
  | .lzma2 d, y =>
    match lzma2Encode p d (toBuf y) 0 (parser p d (toBuf y)) with
    | .ok r => some r.out
    | .error _ => none
  | .lzma1 id lc lp pb d, y =>
    if id = FILTER_LZMA1 then
      match lzma1Encode { lc := lc, lp := lp, pb := pb } d true 0 (toBuf y) 0 (parser { lc := lc, lp := lp, pb := pb } d (toBuf y)) with
      | .ok r => some r.out
      | .error _ => none
    else none
  | _, _ => none

/-- `lzma_raw_encoder` + `code(in, LZMA_FINISH)` with unlimited output space; `none` = unsupported chain or the chunker
    rejected the parser's trace. -/
def rawEncode (p : Lzma.Props) (parser : Parser) (fs : List FilterOpts) (x : List UInt8) : Option (List UInt8) :=
  match fs.reverse with
  | [] => none
  | last :: preRev =>
    match applyPre preRev.reverse x with
    | none => none
    | some y => lastEnc p parser last y

/-- Initialisation test of a non-last filter (`lzma_delta_coder_init`, `lzma_simple_coder_init`). -/
def preInitOk : FilterOpts → Bool
  | .delta dist => decide (1 ≤ dist) && decide (dist ≤ 256)
  | .bcj id off => (XzEnv.bcjId id).isSome && decide (off % bcjAlignment id = 0) && decide (off < 4294967296)
  | _ => false

def dictOk (d : Nat) : Bool := decide (DICT_SIZE_MIN ≤ d) && decide (d ≤ DICT_SIZE_ENC_MAX)

/-- An .xz Block chain the models support: accepted by `lzma_validate_chain`, LZMA2 last (valid lc/lp/pb, dictionary size
    within the encoder's limits), delta / BCJ filters that pass their initialisation in front of it. -/
def xzChain (p : Lzma.Props) (fs : List FilterOpts) : Bool :=
  (validateChain (fs.map (·.id))).toOption.isSome &&
    match fs.reverse with
    | .lzma2 d :: preRev => p.valid && dictOk d && preRev.all preInitOk
    | _ => false

/-- The .lzma chain: LZMA1 alone. -/
def aloneChain : List FilterOpts → Bool
  | [.lzma1 id lc lp pb d] => decide (id = FILTER_LZMA1) && lclppbValid lc lp pb && dictOk d
  | _ => false

/-- See the header comment. -/
def rawInitStd (p : Lzma.Props) (fs : List FilterOpts) : Ret :=
  match validateChain (fs.map (·.id)) with
  | .error e => e
  | .ok _ => if xzChain p fs || aloneChain fs then .ok else .optionsError

/-- The encoder environment of this liblzma build, for LZMA2 options `p` and a parser. -/
def stdEncEnv (p : Lzma.Props) (parser : Parser) : EncEnv :=
  { encPayload := fun fs x => (rawEncode p parser fs x).getD [], rawInit := rawInitStd p, check := stdCheck }

/-! ## two parsers that keep their contract on every input (Lemmas/E2EParsers.lean, Props/C01EndToEndAll.lean) -/

/-- The all-literals parser: one `literal` record per byte that `encode_init` has not already coded (the first byte of a
    stream without preset dictionary); `pos` is the encoder's 32-bit view of `uncomp_size`; `mf->read_ahead = 0`. -/
def literalParser : Parser := fun _ _ buf =>
  ((List.range (buf.size - 1)).map fun i =>
    ({ kind := 0, back := 4294967295, len := 1, pos := (i + 1) % 4294967296, ra := 0 } : TraceRec)).toArray

/-- how many of the bytes at `i`, `i+1`, … (at most `cap`) repeat their predecessor -/
def runLen (buf : ByteArray) : Nat → Nat → Nat
  | 0, _ => 0
  | cap + 1, i => if (decide (i < buf.size) && buf.get! i == buf.get! (i - 1)) = true then runLen buf cap (i + 1) + 1 else 0

/-- records of the run parser from data offset `o` on (`fuel` bounds the number of records) -/
def runRecs (buf : ByteArray) : Nat → Nat → List TraceRec
  | 0, _ => []
  | fuel + 1, o =>
    if o ≥ buf.size then []
    else
      let n := runLen buf 273 o
      if n ≥ 2 then
        ({ kind := 0, back := 4, len := n, pos := o % 4294967296, ra := 0 } : TraceRec) :: runRecs buf fuel (o + n)
      else
        ({ kind := 0, back := 4294967295, len := 1, pos := o % 4294967296, ra := 0 } : TraceRec) :: runRecs buf fuel (o + 1)

/-- A parser that emits real matches: wherever at least two bytes repeat the byte before them it codes the run (up to 273
    bytes) as ONE normal match at distance 1 (`back = 0 + REPS`), everything else as literals. -/
def runParser : Parser := fun _ _ buf => (runRecs buf buf.size 1).toArray

end XzVerif.XzEncEnv
