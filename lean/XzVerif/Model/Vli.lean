/-
  L0: variable-length integers of the .xz format (doc/xz-file-format.txt section 1.2) and models of
  src/liblzma/common/vli_encoder.c, vli_decoder.c, vli_size.c. Core Lean only.

  Stable interface (imported by other models):
    VLI_MAX, VLI_BYTES_MAX, VLI_UNKNOWN
    vliEncode : Nat → List UInt8          -- the 1..9 byte encoding (meaningful for v ≤ VLI_MAX)
    vliSize   : Nat → Nat                 -- lzma_vli_size: 0 for v > VLI_MAX, else the encoded length
    vliDecode : List UInt8 → Option (Nat × List UInt8)
                                          -- single-call lzma_vli_decode on the front of a buffer: value and rest;
                                          -- `none` = LZMA_DATA_ERROR (empty/truncated, > 9 bytes, or non-minimal)
    vliEncodeSingle / vliEncodeMulti / vliDecodeMulti   -- the C calling modes with their return codes
-/
import XzVerif.Model.Ret

namespace XzVerif.Vli

/-- `LZMA_VLI_MAX = UINT64_MAX / 2`. -/
def VLI_MAX : Nat := 9223372036854775807
/-- `LZMA_VLI_BYTES_MAX`. -/
def VLI_BYTES_MAX : Nat := 9
/-- `LZMA_VLI_UNKNOWN = UINT64_MAX`. -/
def VLI_UNKNOWN : Nat := 18446744073709551615

/-- `lzma_vli_is_valid` for a `uint64_t` value where "unknown" is `none`. -/
def vliIsValid : Option Nat → Bool
  | none => true
  | some v => v ≤ VLI_MAX

/-- Little-endian base-128 digits; all bytes but the last carry the continuation bit 0x80.
    `fuel` = the number of continuation bytes that may still be emitted. -/
def vliEncodeAux : Nat → Nat → List UInt8
  | 0, v => [UInt8.ofNat v]
  | f + 1, v => if v < 128 then [UInt8.ofNat v] else UInt8.ofNat (v % 128 + 128) :: vliEncodeAux f (v / 128)

/-- The encoding `lzma_vli_encode` produces for `v ≤ VLI_MAX` (at most 9 bytes). -/
def vliEncode (v : Nat) : List UInt8 := vliEncodeAux 8 v

def vliSizeAux : Nat → Nat → Nat
  | 0, _ => 1
  | f + 1, v => if v < 128 then 1 else 1 + vliSizeAux f (v / 128)

/-- `lzma_vli_size`: 0 if the value is not a valid VLI. -/
def vliSize (v : Nat) : Nat := if v > VLI_MAX then 0 else vliSizeAux 8 v

/-- Decoder in specification form. `pos` = number of bytes already consumed for this integer. -/
def vliDecodeAux : Nat → List UInt8 → Option (Nat × List UInt8)
  | _, [] => none
  | pos, b :: t =>
    if b.toNat < 128 then
      if b.toNat = 0 ∧ pos > 0 then none else some (b.toNat, t)
    else if pos + 1 = VLI_BYTES_MAX then none
    else match vliDecodeAux (pos + 1) t with
      | none => none
      | some (v, r) => some (b.toNat % 128 + 128 * v, r)

/-- Single-call `lzma_vli_decode(&v, NULL, in, &in_pos, in_size)` applied to `in[in_pos..in_size)`:
    `some (value, rest)` on `LZMA_OK`, `none` on `LZMA_DATA_ERROR` (no other code is possible in this mode). -/
def vliDecode (b : List UInt8) : Option (Nat × List UInt8) := vliDecodeAux 0 b

/-- Single-call `lzma_vli_encode(v, NULL, out, &out_pos, out_size)` with `avail = out_size - out_pos`. -/
def vliEncodeSingle (v avail : Nat) : Res (List UInt8) :=
  if avail = 0 then .error .progError
  else if v > VLI_MAX then .error .progError
  else if (vliEncode v).length > avail then .error .progError
  else .ok (vliEncode v)

/-! ### Multi-call mode (state = `vli_pos`), written the way the C loops are written -/

/-- The `while (vli >= 0x80)` loop of `lzma_vli_encode` in multi-call mode. `avail > 0` on entry. -/
def vliEncLoop : Nat → Nat → Nat → Ret × Nat × List UInt8
  | 0, _, pos => (.ok, pos, [])
  | a + 1, v, pos =>
    if v ≥ 128 then
      let byte := UInt8.ofNat (v % 128 + 128)
      if a = 0 then (.ok, pos + 1, [byte])
      else
        let (r, p, bs) := vliEncLoop a (v / 128) (pos + 1)
        (r, p, byte :: bs)
    else (.streamEnd, pos + 1, [UInt8.ofNat v])

/-- Multi-call `lzma_vli_encode(v, &vli_pos, out, &out_pos, out_size)`: returns (ret, new vli_pos, bytes written). -/
def vliEncodeMulti (v pos avail : Nat) : Ret × Nat × List UInt8 :=
  if avail = 0 then (.bufError, pos, [])
  else if pos ≥ VLI_BYTES_MAX ∨ v > VLI_MAX then (.progError, pos, [])
  else vliEncLoop avail (v >>> (pos * 7)) pos

/-- The `do … while (*in_pos < in_size)` loop of `lzma_vli_decode` in multi-call mode.
    Returns (ret, vli, vli_pos, consumed). -/
def vliDecLoop : List UInt8 → Nat → Nat → Nat → Ret × Nat × Nat × Nat
  | [], vli, pos, used => (.ok, vli, pos, used)
  | b :: t, vli, pos, used =>
    let vli := vli + ((b.toNat % 128) <<< (pos * 7))
    let pos := pos + 1
    if b.toNat < 128 then
      if b.toNat = 0 ∧ pos > 1 then (.dataError, vli, pos, used + 1)
      else (.streamEnd, vli, pos, used + 1)
    else if pos = VLI_BYTES_MAX then (.dataError, vli, pos, used + 1)
    else vliDecLoop t vli pos (used + 1)

/-- Multi-call `lzma_vli_decode(&vli, &vli_pos, in, &in_pos, in_size)` on `inp = in[in_pos..in_size)`:
    returns (ret, vli, vli_pos, bytes consumed). -/
def vliDecodeMulti (vli pos : Nat) (inp : List UInt8) : Ret × Nat × Nat × Nat :=
  let vli := if pos = 0 then 0 else vli
  if pos ≥ VLI_BYTES_MAX ∨ (vli >>> (pos * 7)) ≠ 0 then (.progError, vli, pos, 0)
  else if inp.isEmpty then (.bufError, vli, pos, 0)
  else vliDecLoop inp vli pos 0

end XzVerif.Vli
