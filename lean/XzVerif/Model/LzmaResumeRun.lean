/-
  Sliced runs of the resumable LZMA1/LZMA2 decoder (`Model/LzmaResume.lean`) with EXACT per-call windows, as an application sees
  `lzma_code`: the piece `(inLen, cap)` offers the next `inLen` not yet consumed input bytes (`avail_in = inLen`; what the call leaves
  unconsumed is offered again later — possibly in a SMALLER window) and exactly `cap` bytes of output space (`avail_out = cap`; unused
  space is NOT carried over). This is the protocol of `Coder.runSliced` / harness `c06_run_sliced` (Model/Coder.lean), specialised to
  the decoder state `RSt`; `runSlicedR` of Model/LzmaResume.lean is the special case where windows only grow.
  Core Lean only.
-/
import XzVerif.Model.LzmaResume

namespace XzVerif.LzmaR
open XzVerif.Lzma XzVerif.Lzma2

/-- state of an exact-window run: `settled` = the last call returned something other than LZMA_OK, or it was offered all the remaining
    input, left output room unused and still returned LZMA_OK (what `lzma_code` eventually turns into LZMA_BUF_ERROR) -/
structure XRun where
  r : RSt
  ret : Ret := .ok
  settled : Bool := false
  deriving Inhabited

/-- one call: input window = consumed bytes + the next `inLen` bytes of `input`; output allowance = produced so far + `cap` -/
def runPieceX (kind : Kind) (input : List UInt8) (x : XRun) (inLen cap : Nat) : XRun :=
  let n := min (x.r.s.inPos + inLen) input.length
  let room := x.r.s.produced + cap
  let res := callR kind (toBuf (input.take n)) room x.r
  { r := res.2, ret := res.1,
    settled := decide (res.1 ≠ .ok) || (decide (input.length ≤ x.r.s.inPos + inLen) && decide (res.2.s.produced < room)) }

/-- nothing is called any more once a call has returned something other than LZMA_OK -/
def runSlicedX (kind : Kind) (input : List UInt8) : List (Nat × Nat) → XRun → XRun
  | [], x => x
  | (inLen, cap) :: sl, x => if x.ret ≠ .ok then x else runSlicedX kind input sl (runPieceX kind input x inLen cap)

end XzVerif.LzmaR
