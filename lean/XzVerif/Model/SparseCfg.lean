/-
  C18 — the model configuration instantiated from the regenerated constants (Gen/C18.lean).
  `genCfg` is what the driver runs and what the bridge theorems in Props/C18.lean talk about.
-/
import XzVerif.Model.Sparse
import XzVerif.Gen.C18

namespace XzVerif.Sparse

/-- `failFlush` is MEASURED on the real `io_close` by harness/gen_c18.c: after `io_close(pair, false)` with a pending
    hole of `failClosePending` bytes on standard output the file had `failCloseSize` bytes. -/
def genCfg : Cfg :=
  { bufSize := Gen.C18.ioBufferSize,
    pendingMax := 2 ^ (Gen.C18.offTBits - 2),
    failFlush := Gen.C18.failCloseSize == Gen.C18.failClosePending }

end XzVerif.Sparse
