/-
  LZMA1 symbol decoder of liblzma (src/liblzma/lzma/lzma_decoder.c, lzma_common.h) on top of the range decoder cores
  (`Model/RangeDec.lean`) and the dictionary positions (`Model/LzDict.lean`), plus the LZ layer `decode_buffer`
  (src/liblzma/lz/lz_decoder.c) that calls it.

  WHAT IS MODELLED.  The observable result of giving the decoder its COMPLETE input at once:
  return code, output bytes and number of input bytes consumed, for valid and invalid input, for any output capacity,
  and for repeated calls that only add output space (`Coder.code`). Because all input is present in the first call,
  "the input ran out in the middle of a symbol" is final (`Pending.stuck`); the only places where one C call of
  `lzma_decode` stops and a later one resumes are the three output points SEQ_LITERAL_WRITE, SEQ_SHORTREP, SEQ_COPY
  (`Pending.litWrite/shortRep/copy`), exactly as in the C code, incl. what is recomputed per call
  (`eopm_is_valid` = unknown size or the remembered `coder->eopm_is_valid`, `might_finish_without_eopm`, the clamped
  `dict.limit`) and the end-of-call checks.
  The non-resumable ("fast") loop of the C code and the x86-64 assembly macros compute the same function as the
  resumable one on every input for which they are entered; the model has one loop.

  Data representation: all bytes produced since initialisation are kept in `hist` (preceded by the tail of the
  preset dictionary, `outBase` bytes); `dict_get(distance)` is `hist[hist.size - 1 - distance]`, meaningful for
  `distance < dict.full`, and the positions (`dp : DictPos`) follow the C buffer positions exactly.
  Probabilities live in ONE flat array (`probs`), the C struct members being the segments listed under "layout".

  Core Lean only (the drivers link this file). Hot paths use `ByteArray`/`Array Nat` linearly.
-/
import XzVerif.Model.Ret
import XzVerif.Model.RangeDec
import XzVerif.Model.LzDict

namespace XzVerif.Lzma
open XzVerif.RangeDec XzVerif.LzDict

/-! ### lc/lp/pb -/

abbrev LZMA_LCLP_MAX : Nat := 4
abbrev LZMA_PB_MAX : Nat := 4

structure Props where
  lc : Nat
  lp : Nat
  pb : Nat
  deriving Repr, DecidableEq, Inhabited

/-- `is_lclppb_valid` (lzma_common.h) -/
def Props.valid (p : Props) : Bool :=
  p.lc ≤ LZMA_LCLP_MAX && p.lp ≤ LZMA_LCLP_MAX && p.lc + p.lp ≤ LZMA_LCLP_MAX && p.pb ≤ LZMA_PB_MAX

/-- `lzma_lzma_lclppb_decode` (lzma_decoder.c): `none` = the function returns `true` (invalid byte). -/
def propsDecode (byte : Nat) : Option Props :=
  if byte > (4 * 5 + 4) * 9 + 8 then none
  else
    let pb := byte / (9 * 5)
    let b := byte - pb * 9 * 5
    let lp := b / 9
    let lc := b - lp * 9
    if lc + lp > LZMA_LCLP_MAX then none else some { lc := lc, lp := lp, pb := pb }

/-- `lzma_lzma_lclppb_encode`: `(pb * 5 + lp) * 9 + lc` -/
def Props.encode (p : Props) : Nat := (p.pb * 5 + p.lp) * 9 + p.lc

/-! ### state machine (lzma_common.h) -/

abbrev STATES : Nat := 12
abbrev LIT_STATES : Nat := 7

/-- `update_literal(state)` (= `update_literal_normal` on states < 7, `update_literal_matched` on states ≥ 7) -/
@[inline] def updateLiteral (s : Nat) : Nat := if s ≤ 3 then 0 else if s ≤ 9 then s - 3 else s - 6
/-- `update_literal_normal(state)` -/
@[inline] def updateLiteralNormal (s : Nat) : Nat := if s ≤ 3 then 0 else s - 3
/-- `update_literal_matched(state)` -/
@[inline] def updateLiteralMatched (s : Nat) : Nat := if s ≤ 9 then s - 3 else s - 6
/-- `update_match(state)` -/
@[inline] def updateMatch (s : Nat) : Nat := if s < LIT_STATES then 7 else 10
/-- `update_long_rep(state)` -/
@[inline] def updateLongRep (s : Nat) : Nat := if s < LIT_STATES then 8 else 11
/-- `update_short_rep(state)` -/
@[inline] def updateShortRep (s : Nat) : Nat := if s < LIT_STATES then 9 else 11
/-- `is_literal_state(state)` -/
@[inline] def isLiteralState (s : Nat) : Bool := s < LIT_STATES

/-! ### lengths and distances (lzma_common.h) -/

abbrev MATCH_LEN_MIN : Nat := 2
abbrev LEN_LOW_SYMBOLS : Nat := 8
abbrev LEN_MID_SYMBOLS : Nat := 8
abbrev LEN_HIGH_SYMBOLS : Nat := 256
abbrev DIST_STATES : Nat := 4
abbrev DIST_SLOTS : Nat := 64
abbrev DIST_MODEL_START : Nat := 4
abbrev DIST_MODEL_END : Nat := 14
abbrev FULL_DISTANCES : Nat := 128
abbrev ALIGN_BITS : Nat := 4
abbrev ALIGN_SIZE : Nat := 16
abbrev POS_STATES_MAX : Nat := 16
abbrev LITERAL_CODER_SIZE : Nat := 0x300

/-- `get_dist_state(len)` -/
@[inline] def getDistState (len : Nat) : Nat := if len < DIST_STATES + MATCH_LEN_MIN then len - MATCH_LEN_MIN else DIST_STATES - 1

/-- `literal_mask_calc(lc, lp)`: `(0x100 << lp) - (0x100 >> lc)` -/
@[inline] def literalMask (lc lp : Nat) : Nat := (0x100 <<< lp) - (0x100 >>> lc)

/-- offset of `literal_subcoder(probs, lc, literal_mask, pos, prev_byte)` from `probs`:
    `3 * ((((pos << 8) + prev_byte) & literal_mask) << lc)` -/
@[inline] def literalSubcoder (lc lp pos prev : Nat) : Nat :=
  3 * ((((pos <<< 8) + prev) &&& literalMask lc lp) <<< lc)

/-! ### layout of the flat probability array

  | segment        | C member                         | size                     |
  |----------------|----------------------------------|--------------------------|
  | `P_IS_MATCH`     | `is_match[STATES][POS_STATES_MAX]`   | 12·16                    |
  | `P_IS_REP`       | `is_rep[STATES]`                     | 12                       |
  | `P_IS_REP0`      | `is_rep0[STATES]`                    | 12                       |
  | `P_IS_REP1`      | `is_rep1[STATES]`                    | 12                       |
  | `P_IS_REP2`      | `is_rep2[STATES]`                    | 12                       |
  | `P_IS_REP0_LONG` | `is_rep0_long[STATES][POS_STATES_MAX]` | 12·16                  |
  | `P_DIST_SLOT`    | `dist_slot[DIST_STATES][DIST_SLOTS]` | 4·64                     |
  | `P_POS_SPECIAL`  | `pos_special[FULL_DISTANCES - DIST_MODEL_END]` | 114            |
  | `P_POS_ALIGN`    | `pos_align[ALIGN_SIZE]`              | 16                       |
  | `P_MATCH_LEN`    | `match_len_decoder` (choice, choice2, low[16][8], mid[16][8], high[256]) | 514 |
  | `P_REP_LEN`      | `rep_len_decoder`                    | 514                      |
  | `P_LITERAL`      | `literal[LITERAL_CODERS_MAX * LITERAL_CODER_SIZE]`, first `0x300 << (lc+lp)` in use | ≤ 12288 |
-/

abbrev P_IS_MATCH : Nat := 0
abbrev P_IS_REP : Nat := 192
abbrev P_IS_REP0 : Nat := 204
abbrev P_IS_REP1 : Nat := 216
abbrev P_IS_REP2 : Nat := 228
abbrev P_IS_REP0_LONG : Nat := 240
abbrev P_DIST_SLOT : Nat := 432
abbrev P_POS_SPECIAL : Nat := 688
abbrev P_POS_ALIGN : Nat := 802
abbrev P_MATCH_LEN : Nat := 818
abbrev P_REP_LEN : Nat := 1332
abbrev P_LITERAL : Nat := 1846
/-- offsets inside a length decoder -/
abbrev LEN_CHOICE : Nat := 0
abbrev LEN_CHOICE2 : Nat := 1
abbrev LEN_LOW : Nat := 2
abbrev LEN_MID : Nat := 130
abbrev LEN_HIGH : Nat := 258
abbrev LEN_CODER_SIZE : Nat := 514

/-- number of probability variables initialised by `lzma_decoder_reset` for given lc/lp -/
def probsSize (lc lp : Nat) : Nat := P_LITERAL + (LITERAL_CODER_SIZE <<< (lc + lp))

/-! ### decoder state -/

/-- Where a later call of `lzma_decode` resumes (`coder->sequence` restricted to what the whole-input protocol can see). -/
inductive Pending where
  | none                    -- SEQ_IS_MATCH with a fresh symbol
  | litWrite (sym : Nat)    -- SEQ_LITERAL_WRITE: `symbol` decoded, dictionary was full
  | shortRep                -- SEQ_SHORTREP
  | copy (len : Nat)        -- SEQ_COPY with `len` bytes still to repeat from distance rep0
  | stuck                   -- the input ended inside a symbol / the init bytes: no further progress is possible
  deriving Repr, DecidableEq, Inhabited

/-- `enum sequence` of lzma2_decoder.c -/
inductive L2Seq where
  | control | uncompressed1 | uncompressed2 | compressed0 | compressed1 | properties | lzma | copy
  deriving Repr, DecidableEq, Inhabited

/-- `lzma_lzma2_coder` (lzma2_decoder.c); unused for LZMA1. `props` is `coder->options` (lc/lp/pb of the last SEQ_PROPERTIES). -/
structure L2 where
  seq : L2Seq := .control
  nextSeq : L2Seq := .control
  uncompressedSize : Nat := 0
  compressedSize : Nat := 0
  needProperties : Bool := true
  needDictionaryReset : Bool := true
  props : Props := { lc := 0, lp := 0, pb := 0 }
  deriving Repr, Inhabited

structure St where
  -- input
  inp : ByteArray
  inPos : Nat
  -- lzma_range_decoder
  range : Nat
  code : Nat
  initLeft : Nat
  -- probabilities (flat, see layout)
  probs : Array Nat
  -- lzma_lzma1_decoder
  state : Nat
  rep0 : Nat
  rep1 : Nat
  rep2 : Nat
  rep3 : Nat
  lc : Nat
  lp : Nat
  pb : Nat
  /-- `uncompressed_size`; `none` = LZMA_VLI_UNKNOWN -/
  uncomp : Option Nat
  allowEopm : Bool
  /-- `coder->eopm_is_valid`: the known size has been reached and only the end marker may follow (remembered across calls) -/
  eopmValid : Bool
  pending : Pending
  -- lzma_dict
  dp : DictPos
  /-- preset dictionary tail ++ every byte produced so far -/
  hist : ByteArray
  outBase : Nat
  -- LZMA2 layer
  l2 : L2
  deriving Inhabited

namespace St

/-- number of output bytes produced so far (`*out_pos` summed over all calls) -/
@[inline] def produced (s : St) : Nat := s.hist.size - s.outBase

@[inline] def posMask (s : St) : Nat := (1 <<< s.pb) - 1

/-- `dict_get(dict, distance)` on the abstract history -/
@[inline] def dictGet (s : St) (distance : Nat) : UInt8 :=
  let n := s.hist.size
  if distance < n then s.hist.get! (n - 1 - distance) else 0

/-- `dict_get0(dict)`: `buf[pos - 1]`, which is the `'\0'` written by `lz_decoder_reset` while the dictionary is empty -/
@[inline] def dictGet0 (s : St) : UInt8 :=
  if s.dp.full == 0 then 0 else s.dictGet 0

/-- update the probability array in place (the array is taken out of the structure first so that it is unshared) -/
@[inline] def setProb (s : St) (idx p : Nat) : St :=
  let a := s.probs
  let s := { s with probs := #[] }
  { s with probs := a.setIfInBounds idx p }

/-- `dict_put` -/
@[inline] def put (s : St) (b : UInt8) : St :=
  let h := s.hist
  let s := { s with hist := ByteArray.empty }
  { s with hist := h.push b, dp := s.dp.advance 1 }

/-- the copy loop of `dict_repeat`: `n` bytes from `distance` back -/
def copyBytes : Nat → Nat → ByteArray → ByteArray
  | 0, _, h => h
  | n + 1, distance, h =>
    let sz := h.size
    copyBytes n distance (h.push (if distance < sz then h.get! (sz - 1 - distance) else 0))

/-- `dict_repeat` restricted to the `left` bytes that fit -/
@[inline] def repeatN (s : St) (left : Nat) : St :=
  let h := s.hist
  let s := { s with hist := ByteArray.empty }
  { s with hist := copyBytes left s.rep0 h, dp := s.dp.advance left }

/-- `lzma_decoder_reset`: probabilities to 1024, state 0, reps 0, `rc_reset`, sequence = SEQ_IS_MATCH.
    (`uncompressed_size`/`allow_eopm` are untouched.) -/
def resetLzma (s : St) (p : Props) : St :=
  { s with probs := Array.replicate (probsSize p.lc p.lp) PROB_INIT, state := 0, rep0 := 0, rep1 := 0, rep2 := 0, rep3 := 0,
           lc := p.lc, lp := p.lp, pb := p.pb, range := UINT32_MAX, code := 0, initLeft := 5, pending := .none }

end St

/-! ### the decoding monad: state + early exit -/

/-- Why one call of `lzma_decode` ends. -/
inductive Exit where
  | needInput               -- `rc_normalize_safe` found no input: LZMA_OK, nothing more can happen
  | dataError               -- LZMA_DATA_ERROR
  | streamEnd               -- LZMA_STREAM_END
  | outFull (p : Pending)   -- LZMA_OK with a pending write (dictionary limit reached)
  | fuel                    -- loop fuel exhausted: never happens (the fuel bounds are proved sufficient / checked by the correspondence)
  deriving Repr, DecidableEq, Inhabited

abbrev M := EStateM Exit St

/-- `rc_normalize_safe` -/
@[inline] def rcNormalize : M Unit := fun s =>
  if s.range < RC_TOP_VALUE then
    if h : s.inPos < s.inp.size then
      let rc := (Rc.mk s.range s.code).shiftIn (s.inp[s.inPos]).toNat
      .ok () { s with range := rc.range, code := rc.code, inPos := s.inPos + 1 }
    else .error .needInput s
  else .ok () s

/-- `rc_bit_safe(probs[idx], …)`: returns the decoded bit -/
@[inline] def rcBit (idx : Nat) : M Nat := fun s =>
  match rcNormalize s with
  | .error e s => .error e s
  | .ok _ s =>
    let p := s.probs.getD idx 0
    let r := bitCore (Rc.mk s.range s.code) p
    let s := { s with range := r.2.1.range, code := r.2.1.code }
    .ok r.1 (s.setProb idx r.2.2)

/-- `rc_direct_safe(dest, count, …)` -/
def rcDirect : Nat → Nat → M Nat
  | 0, dest => pure dest
  | n + 1, dest => do
    rcNormalize
    let b ← (fun s : St =>
      let r := directCore (Rc.mk s.range s.code)
      EStateM.Result.ok r.1 { s with range := r.2.range, code := r.2.code })
    rcDirect n ((dest * 2 + b) % U32)

/-- normal bittree: `do { rc_bit_safe(probs[symbol], , , …) } while (symbol < limit)`; `n` levels from `sym`. -/
def bittree (base : Nat) : Nat → Nat → M Nat
  | 0, sym => pure sym
  | n + 1, sym => do
    let b ← rcBit (base + sym)
    bittree base n (sym * 2 + b)

/-- matched literal (SEQ_LITERAL_MATCHED): `offset` is 0x100 or 0, `len` is the match byte shifted left. -/
def litMatched (base : Nat) : Nat → Nat → Nat → Nat → M Nat
  | 0, sym, _, _ => pure sym
  | n + 1, sym, offset, len => do
    let matchBit := len &&& offset
    let b ← rcBit (base + offset + matchBit + sym)
    -- bit 0: offset &= ~match_bit ; bit 1: offset &= match_bit   (match_bit ∈ {0, offset})
    let offset' := if b == 0 then offset ^^^ matchBit else matchBit
    litMatched base n (sym * 2 + b) offset' (len * 2)

/-- variable reverse bittree of SEQ_DIST_MODEL: `rc_bit_safe(probs[symbol], , rep0 += 1U << offset, …)` -/
def revBittree (base : Nat) : Nat → Nat → Nat → Nat → M Nat
  | 0, _, _, acc => pure acc
  | n + 1, sym, offset, acc => do
    let b ← rcBit (base + sym)
    revBittree base n (sym * 2 + b) (offset + 1) (acc + (b <<< offset))

/-- SEQ_ALIGN: `rc_bit_last_safe(pos_align[offset + symbol], , symbol += offset, …); offset <<= 1` while `offset < ALIGN_SIZE` -/
def revAlign : Nat → Nat → Nat → M Nat
  | 0, sym, _ => pure sym
  | n + 1, sym, offset => do
    let b ← rcBit (P_POS_ALIGN + offset + sym)
    revAlign n (sym + b * offset) (offset * 2)

/-- `len_decode(target, ld, pos_state, seq)`; `lenBase` is `P_MATCH_LEN` or `P_REP_LEN`. -/
def lenDecode (lenBase posState : Nat) : M Nat := do
  let c ← rcBit (lenBase + LEN_CHOICE)
  if c == 0 then
    let s ← bittree (lenBase + LEN_LOW + posState * LEN_LOW_SYMBOLS) 3 1
    pure (MATCH_LEN_MIN + (s - LEN_LOW_SYMBOLS))
  else
    let c2 ← rcBit (lenBase + LEN_CHOICE2)
    if c2 == 0 then
      let s ← bittree (lenBase + LEN_MID + posState * LEN_MID_SYMBOLS) 3 1
      pure (MATCH_LEN_MIN + LEN_LOW_SYMBOLS + (s - LEN_MID_SYMBOLS))
    else
      let s ← bittree (lenBase + LEN_HIGH) 8 1
      pure (MATCH_LEN_MIN + LEN_LOW_SYMBOLS + LEN_MID_SYMBOLS + (s - LEN_HIGH_SYMBOLS))

/-- Distance of a simple match (SEQ_DIST_SLOT … SEQ_ALIGN): the new `rep0` as `uint32_t`;
    `UINT32_MAX` is the end-of-payload marker. -/
def distDecode (len : Nat) : M Nat := do
  let slot1 ← bittree (P_DIST_SLOT + getDistState len * DIST_SLOTS) 6 1
  let slot := slot1 - DIST_SLOTS
  if slot < DIST_MODEL_START then pure slot
  else
    let limit := (slot >>> 1) - 1
    let r := 2 + (slot &&& 1)
    if slot < DIST_MODEL_END then
      let r := r <<< limit
      -- probs = coder->pos_special + rep0 - symbol - 1
      revBittree (P_POS_SPECIAL + r - slot - 1) limit 1 0 r
    else
      let r ← rcDirect (limit - ALIGN_BITS) r
      let r := (r <<< ALIGN_BITS) % U32
      let a ← revAlign 4 0 1
      pure ((r + a) % U32)

@[inline] def getSt : M St := fun s => .ok s s

/-- One LZMA symbol from SEQ_IS_MATCH up to (not including) its output step. Returns the output step to perform. -/
def decodeSymbol (eopmValid : Bool) : M Pending := do
  let (state, posState, full) ← (fun s : St => EStateM.Result.ok (s.state, s.dp.pos &&& s.posMask, s.dp.full) s)
  let isMatch ← rcBit (P_IS_MATCH + state * POS_STATES_MAX + posState)
  if isMatch == 0 then
    -- literal
    let base ← (fun s : St => EStateM.Result.ok (P_LITERAL + literalSubcoder s.lc s.lp s.dp.pos s.dictGet0.toNat) s)
    if isLiteralState state then
      modify fun s => { s with state := updateLiteralNormal state }
      let sym ← bittree base 8 1
      pure (.litWrite (sym % 256))
    else
      modify fun s => { s with state := updateLiteralMatched state }
      let mb ← (fun s : St => EStateM.Result.ok (s.dictGet s.rep0).toNat s)
      let sym ← litMatched base 8 1 0x100 (mb * 2)
      pure (.litWrite (sym % 256))
  else
    let isRep ← rcBit (P_IS_REP + state)
    if isRep == 0 then
      -- simple match
      modify fun s => { s with state := updateMatch state, rep3 := s.rep2, rep2 := s.rep1, rep1 := s.rep0 }
      let len ← lenDecode P_MATCH_LEN posState
      let d ← distDecode len
      modify fun s => { s with rep0 := d }
      if d == UINT32_MAX then
        -- end of payload marker
        if !eopmValid then throw .dataError
        rcNormalize                                 -- SEQ_EOPM
        let fin ← (fun s : St => EStateM.Result.ok (s.code == 0) s)
        if fin then throw .streamEnd else throw .dataError
      else if !(d < full) then throw .dataError     -- dict_is_distance_valid(&dict, rep0)
      else pure (.copy len)
    else
      -- repeated match: there must be something in the dictionary
      if full == 0 then throw .dataError            -- dict_is_distance_valid(&dict, 0)
      else
        let isRep0 ← rcBit (P_IS_REP0 + state)
        let isShort ← (do
          if isRep0 == 0 then
            let isLong ← rcBit (P_IS_REP0_LONG + state * POS_STATES_MAX + posState)
            pure (isLong == 0)
          else
            let isRep1 ← rcBit (P_IS_REP1 + state)
            if isRep1 == 0 then
              modify fun s => { s with rep1 := s.rep0, rep0 := s.rep1 }
            else
              let isRep2 ← rcBit (P_IS_REP2 + state)
              if isRep2 == 0 then
                modify fun s => { s with rep2 := s.rep1, rep1 := s.rep0, rep0 := s.rep2 }
              else
                modify fun s => { s with rep3 := s.rep2, rep2 := s.rep1, rep1 := s.rep0, rep0 := s.rep3 }
            pure false : M Bool)
        if isShort then
          modify fun s => { s with state := updateShortRep state }
          pure .shortRep
        else
          modify fun s => { s with state := updateLongRep state }
          let len ← lenDecode P_REP_LEN posState
          pure (.copy len)

/-- The output step (SEQ_LITERAL_WRITE / SEQ_SHORTREP / SEQ_COPY): `dict_put_safe`, `dict_repeat`. -/
def doWrite (p : Pending) : M Unit := fun s =>
  match p with
  | .litWrite sym =>
    if s.dp.pos == s.dp.limit then .error (.outFull p) s else .ok () (s.put (UInt8.ofNat sym))
  | .shortRep =>
    if s.dp.pos == s.dp.limit then .error (.outFull p) s else .ok () (s.put (s.dictGet s.rep0))
  | .copy len =>
    let left := s.dp.repeatLeft len
    let s := s.repeatN left
    if len - left != 0 then .error (.outFull (.copy (len - left))) s else .ok () s
  | _ => .ok () s

/-- Top of the resumable loop (SEQ_NORMALIZE / SEQ_IS_MATCH): when the known uncompressed size has been reached
    (`might_finish_without_eopm && dict.pos == dict.limit`) the stream may end here. Returns the new `eopm_is_valid`. -/
def symPrelude (eopmValid mightFinish : Bool) : M Bool := do
  let atLimit ← (fun s : St => EStateM.Result.ok (s.dp.pos == s.dp.limit) s)
  if mightFinish && atLimit then
    rcNormalize                                 -- SEQ_NORMALIZE
    let (fin, allow) ← (fun s : St => EStateM.Result.ok (s.code == 0, s.allowEopm) s)
    if fin then throw .streamEnd                -- rc_is_finished
    else if !allow then throw .dataError
    else
      modify fun s => { s with eopmValid := true }
      pure true
  else pure eopmValid

/-- One iteration of the main loop of `lzma_decode`: the `might_finish_without_eopm` test, one symbol, its output. -/
def symStep (eopmValid mightFinish : Bool) : M Bool := do
  let eopmValid ← symPrelude eopmValid mightFinish
  let act ← decodeSymbol eopmValid
  doWrite act
  pure eopmValid

/-- The main loop of `lzma_decode`; it is only left through an exit. -/
def symLoop : Nat → Bool → Bool → M Unit
  | 0, _, _ => throw .fuel
  | fuel + 1, eopmValid, mightFinish => do
    let eopmValid ← symStep eopmValid mightFinish
    symLoop fuel eopmValid mightFinish

/-- `rc_read_init` with `n = init_bytes_left`: `.ok true` = all init bytes read (LZMA_STREAM_END), `.ok false` = input ran
    out (LZMA_OK); `.error dataError` = the first byte is not 0x00 (it is not consumed). -/
def rcReadInitN : Nat → M Bool
  | 0 => pure true
  | n + 1 => fun s =>
    if h : s.inPos < s.inp.size then
      let b := s.inp[s.inPos]
      if n + 1 == 5 && b != 0 then .error .dataError s
      else
        let rc := (Rc.mk s.range s.code).initByte b.toNat
        rcReadInitN n { s with code := rc.code, inPos := s.inPos + 1, initLeft := n }
    else .ok false s

@[inline] def rcReadInit : M Bool := fun s => rcReadInitN s.initLeft s

/-- `dict.limit` as `lzma_decode` uses it locally: limited to the known uncompressed size when that fits
    (`if (uncompressed_size != LZMA_VLI_UNKNOWN && uncompressed_size <= dict.limit - dict.pos) dict.limit = dict.pos + uncompressed_size`). -/
def clampedLimit (s : St) : Nat :=
  match s.uncomp with
  | some u => if u ≤ s.dp.limit - s.dp.pos then s.dp.pos + u else s.dp.limit
  | none => s.dp.limit

/-- `might_finish_without_eopm` -/
def mightFinish (s : St) : Bool :=
  match s.uncomp with
  | some u => u ≤ s.dp.limit - s.dp.pos
  | none => false

/-- The body of `lzma_decode` after `rc_read_init`, up to the label `out`: resume the pending output step, then run the
    main loop under the clamped limit. -/
def lzmaRun (s : St) : EStateM.Result Exit St Unit :=
  let eopmValid := s.uncomp.isNone || s.eopmValid
  let mf := mightFinish s
  let s1 : St := { s with dp := { s.dp with limit := clampedLimit s }, pending := .none }
  let fuel := s1.dp.limit - s1.dp.pos + 2
  (do doWrite s.pending; symLoop fuel eopmValid mf : M Unit) s1

/-- final state of a run, whether it ended normally or by an exit -/
def resSt {ε σ α : Type} : EStateM.Result ε σ α → σ
  | .ok _ s => s
  | .error _ s => s

/-- return value of `lzma_decode` for each way the main part can end -/
def exitRet : EStateM.Result Exit St Unit → Ret
  | .ok _ _ => .progError                 -- unreachable: symLoop only leaves by an exit
  | .error .needInput _ => .ok
  | .error .dataError _ => .dataError
  | .error .streamEnd _ => .streamEnd
  | .error (.outFull _) _ => .ok
  | .error .fuel _ => .progError          -- unreachable: see `symLoop_spec`

/-- the saved `coder->sequence` -/
def exitPending : EStateM.Result Exit St Unit → Pending
  | .error (.outFull p) _ => p
  | .error .streamEnd _ => .none
  | _ => .stuck

/-- The code after the label `out` of `lzma_decode`: translate the exit into the return value and the saved
    `sequence`, restore the caller's limit, account the produced bytes in `uncompressed_size`, detect
    "all output produced but more wanted", reset the range decoder at LZMA_STREAM_END. -/
def lzmaFinish (r : EStateM.Result Exit St Unit) (callLimit start : Nat) (uncomp0 : Option Nat) : Ret × St :=
  let ret := exitRet r
  let pending := exitPending r
  let s := resSt r
  let producedNow := s.hist.size - start
  let uncomp := uncomp0.map (· - producedNow)
  let isWrite := match pending with | .litWrite _ => true | .shortRep => true | .copy _ => true | _ => false
  let ret := if uncomp == some 0 && ret == .ok && isWrite then Ret.dataError else ret
  -- LZMA_STREAM_END: rc_reset; sequence = SEQ_IS_MATCH
  let isEnd := ret == .streamEnd
  (ret, { s with dp := { s.dp with limit := callLimit }, uncomp := uncomp,
                 range := if isEnd then UINT32_MAX else s.range, code := if isEnd then 0 else s.code,
                 initLeft := if isEnd then 5 else s.initLeft, pending := if isEnd then .none else pending })

/-- One call of `lzma_decode(coder, dict, in, in_pos, in_size)` with `dict.limit` already set by the caller. -/
def lzmaCall (s : St) : Ret × St :=
  if s.pending == .stuck then (.ok, s) else
  match rcReadInit s with
  | .error _ s => (.dataError, s)
  | .ok false s => (.ok, { s with pending := .stuck })
  | .ok true s => lzmaFinish (lzmaRun s) s.dp.limit s.hist.size s.uncomp

/-! ### LZ layer: `decode_buffer` (lz_decoder.c) -/

/-- `decode_buffer(coder, in, in_pos, in_size, out, out_pos, out_size)` with `code` = `coder->lz.code`
    (`lzmaCall` for LZMA1, `lzma2Call` for LZMA2). `outSize` is the total number of output bytes allowed so far
    (`produced` counts from the first call). -/
def decodeBuffer (code : St → Ret × St) : Nat → Nat → St → Ret × St
  | 0, _, s => (.progError, s)
  | fuel + 1, outSize, s =>
    -- wrap the dictionary if needed, compute the limit
    let s := { s with dp := (s.dp.wrap).setLimit (outSize - s.produced) }
    let (ret, s) := code s
    -- (the copy to out[] is implicit: `hist` is the output)
    if s.dp.needReset then
      let s := { s with dp := s.dp.reset }
      if ret != .ok || s.produced == outSize then (ret, s) else decodeBuffer code fuel outSize s
    else
      if ret != .ok || s.produced == outSize || s.dp.pos < s.dp.size then (ret, s)
      else decodeBuffer code fuel outSize s

/-- fuel that `decodeBuffer` cannot exhaust: every repetition consumes input or produces output -/
@[inline] def decodeBufferFuel (s : St) (outSize : Nat) : Nat := (s.inp.size - s.inPos) + (outSize - s.produced) + 4

/-! ### initialisation (`lzma_lz_decoder_init` + `lzma_decoder_init`) -/

/-- tail of the preset dictionary that is copied into the window -/
def presetTail (dictSize : Nat) (preset : List UInt8) : List UInt8 :=
  preset.drop (preset.length - min preset.length (roundDictSize dictSize))

/-- State after `lzma_lz_decoder_init` (dictionary, preset) and `lzma_decoder_reset` + `lzma_decoder_uncompressed`. -/
def St.initLzma1 (props : Props) (dictSize : Nat) (uncomp : Option Nat) (allowEopm : Bool)
    (preset : List UInt8) (input : ByteArray) : St :=
  let tail := presetTail dictSize preset
  let s : St :=
    { inp := input, inPos := 0, range := UINT32_MAX, code := 0, initLeft := 5, probs := #[],
      state := 0, rep0 := 0, rep1 := 0, rep2 := 0, rep3 := 0, lc := 0, lp := 0, pb := 0,
      uncomp := uncomp, allowEopm := allowEopm, eopmValid := false, pending := .none,
      dp := DictPos.init dictSize preset.length, hist := ByteArray.mk tail.toArray, outBase := tail.length, l2 := {} }
  s.resetLzma props

/-! ### the public, whole-input API -/

structure DecResult where
  ret : Ret
  out : List UInt8
  consumed : Nat
  deriving Repr, DecidableEq, Inhabited

/-- "as much output space as needed" -/
abbrev UNLIMITED : Nat := 4611686018427387904   -- 2^62

/-- the bytes of `hist` from `start` on -/
def histFrom (h : ByteArray) (start : Nat) : List UInt8 := h.data.toList.drop start

/-- LZMA1 as the (only) filter of a raw chain: the result of ONE call of its `code` function (`lz_decode`) with the
    complete `input` and `outCap` bytes of output space.
    `ret` is `.streamEnd` (end marker, or known size reached with a finished range decoder), `.ok` (input truncated or
    output space exhausted), `.dataError`. `out` are the bytes written to the output buffer, `consumed` is `*in_pos`.

    `uncompSize = none` is LZMA_VLI_UNKNOWN (then the end marker is required and `allowEopm` is ignored, as in
    `lzma_decoder_init`). Plain LZMA_FILTER_LZMA1 is `lzmaDecode props dictSize none true`. -/
def lzmaDecode (props : Props) (dictSize : Nat) (uncompSize : Option Nat) (allowEopm : Bool)
    (input : List UInt8) (presetDict : List UInt8 := []) (outCap : Nat := UNLIMITED) : DecResult :=
  let s := St.initLzma1 props dictSize uncompSize (allowEopm || uncompSize.isNone) presetDict (ByteArray.mk input.toArray)
  let (ret, s) := decodeBuffer lzmaCall (decodeBufferFuel s outCap) outCap s
  { ret := ret, out := histFrom s.hist s.outBase, consumed := s.inPos }

end XzVerif.Lzma
