/-
  Line-protocol helpers shared by all model drivers (core Lean only, no Mathlib).
  A driver reads one operation per line from stdin and prints exactly one result line per op.
  Bytes travel as lowercase hex ("-" for the empty string), numbers as decimals.
-/
namespace XzVerif.Proto

def hexDigit (n : Nat) : Char :=
  if n < 10 then Char.ofNat (48 + n) else Char.ofNat (87 + n)

def hexOfByte (b : UInt8) : String :=
  String.ofList [hexDigit (b.toNat / 16), hexDigit (b.toNat % 16)]

def hexOfBytes (bs : List UInt8) : String :=
  if bs.isEmpty then "-" else String.ofList (bs.flatMap fun b => [hexDigit (b.toNat / 16), hexDigit (b.toNat % 16)])

def hexVal (c : Char) : Option Nat :=
  if '0' ≤ c ∧ c ≤ '9' then some (c.toNat - 48)
  else if 'a' ≤ c ∧ c ≤ 'f' then some (c.toNat - 87)
  else if 'A' ≤ c ∧ c ≤ 'F' then some (c.toNat - 55)
  else none

def bytesOfHexChars : List Char → Option (List UInt8)
  | [] => some []
  | [_] => none
  | a :: b :: rest => do
      let x ← hexVal a
      let y ← hexVal b
      let r ← bytesOfHexChars rest
      pure (UInt8.ofNat (16 * x + y) :: r)

/-- "-" is the empty byte string; anything else must be an even number of hex digits. -/
def bytesOfHex (s : String) : Option (List UInt8) :=
  if s == "-" then some [] else bytesOfHexChars s.toList

def words (line : String) : List String :=
  (line.trimAscii.toString.splitOn " ").filter (· ≠ "")

/-- Generic read-eval-print loop over stdin with a state. `step` returns the new state and the output line. -/
partial def loop {σ : Type} (h : IO.FS.Stream) (out : IO.FS.Stream) (step : σ → List String → σ × String) (s : σ) : IO Unit := do
  let line ← h.getLine
  if line.isEmpty then
    out.flush
    return ()
  let ws := words line
  if ws.isEmpty then
    loop h out step s
  else
    let (s', o) := step s ws
    out.putStrLn o
    loop h out step s'

def runLoop {σ : Type} (step : σ → List String → σ × String) (init : σ) : IO Unit := do
  let i ← IO.getStdin
  let o ← IO.getStdout
  loop i o step init

def natArg (s : String) : Option Nat := s.toNat?

end XzVerif.Proto
