/-
  Stream-level specification of LZMA1 coding on lists, on which the round-trip theorems of C01 are stated:

    encSyms       the operations `lzma_lzma_encode` queues for a symbol sequence (one `encode_symbol` per symbol, contexts
                  from the window and the state), while expanding the symbols on the window
    lzma1Ops      … followed by `encode_eopm`
    lzma1EncodeSpec  `rc_reset`, all operations, `rc_flush`: the bytes of a raw LZMA1 stream with end marker
    decLoop       specification decoder: `decodeSym` until the end marker, expanding on the window
    lzma1DecodeSpec  `rc_read_init`, `decLoop`, then `rc_normalize` + `rc_is_finished`

  The window is reversed (newest byte first). Positions count from 0 at the first byte after the preset dictionary — the
  ENCODER's convention (`coder->uncomp_size`); the C decoder counts from its dictionary position, which differs by a constant
  when a preset dictionary is used; both conventions give the same bytes because a constant shift only renames the
  pos_state / literal-position contexts consistently (checked by the correspondence, not proved).
  The executable encoder `LzmaEnc.lzma1Encode` computes `lzma1EncodeSpec` of the traced symbols (compared in the driver).
  Core Lean only.
-/
import XzVerif.Model.LzmaSymDec

namespace XzVerif.LzmaSpec
open XzVerif.RangeDec XzVerif.RangeEnc XzVerif.Lzma XzVerif.LzmaEnc XzVerif.LzmaSymDec

/-- previous byte (0 at the very beginning) and the byte at distance `rep0` (0 if there is none) -/
def prevByte (rb : List UInt8) : Nat := match rb with | b :: _ => b.toNat | [] => 0
def matchByte (rb : List UInt8) (rep0 : Nat) : Nat := match rb[rep0]? with | some b => b.toNat | none => 0

/-- Operations for a symbol sequence + final (position, state, window). `none` = some symbol is invalid on this window. -/
def encSyms (p : Props) (dictSize : Nat) : List Sym → Nat → SymSt → List UInt8 → Option (List Op × Nat × SymSt × List UInt8)
  | [], pos, s, rb => some ([], pos, s, rb)
  | sym :: rest, pos, s, rb =>
    match applySym dictSize rb s sym with
    | none => none
    | some rb' =>
      let r := symOps p s pos (prevByte rb) (matchByte rb s.rep0) sym
      match encSyms p dictSize rest (pos + sym.len) r.2 rb' with
      | none => none
      | some (ops, fin) => some (r.1 ++ ops, fin)

/-- all operations of a raw LZMA1 stream with end marker -/
def lzma1Ops (p : Props) (dictSize : Nat) (hist : List UInt8) (syms : List Sym) : Option (List Op) :=
  match encSyms p dictSize syms 0 {} hist.reverse with
  | none => none
  | some (ops, pos, s, _) => some (ops ++ eopmOps p s pos)

/-- the bytes of the stream -/
def lzma1EncodeSpec (p : Props) (dictSize : Nat) (hist : List UInt8) (syms : List Sym) : Option (List UInt8) :=
  (lzma1Ops p dictSize hist syms).map fun ops => (rcEncode (initProbs p) ops).1

def isEopm : Sym → Bool
  | .mtch d _ => d == 4294967295
  | _ => false

/-- decode symbols until the end marker; returns the final window -/
def decLoop (p : Props) (dictSize : Nat) : Nat → Nat → SymSt → List UInt8 → Prog (List UInt8)
  | 0, _, _, _ => .fail
  | fuel + 1, pos, s, rb =>
    (decodeSym p s pos (prevByte rb) (matchByte rb s.rep0)).bind fun r =>
      if isEopm r.1 then .ret rb
      else
        match applySym dictSize rb s r.1 with
        | none => .fail
        | some rb' => decLoop p dictSize fuel (pos + r.1.len) r.2 rb'

/-- `rc_read_init`, symbols until the end marker, `rc_normalize` + `rc_is_finished`. Returns the decoded data (without the
    history) and the unread input. `fuel` bounds the number of symbols. -/
def lzma1DecodeSpec (p : Props) (dictSize : Nat) (hist : List UInt8) (fuel : Nat) (bytes : List UInt8) :
    Option (List UInt8 × List UInt8) :=
  match readInit bytes with
  | .ok rc rest =>
    match (decLoop p dictSize fuel 0 {} hist.reverse).runRc (initProbs p) rc rest with
    | none => none
    | some (rb, _, rc', rest') =>
      match normalizeL rc' rest' with
      | none => none
      | some (rc'', rest'') => if rc''.code = 0 then some ((rb.reverse).drop hist.length, rest'') else none
  | _ => none

end XzVerif.LzmaSpec
