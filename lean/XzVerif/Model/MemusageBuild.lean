/-
  C09: the `Build` record (sizeof table + architecture-dependent #defines) of the liblzma build under test, assembled
  from the regenerated `Gen/C09.lean` (harness/gen_c09.c compiled with the build's own flags).
-/
import XzVerif.Model.Memusage
import XzVerif.Gen.C09

namespace XzVerif.Memusage
open XzVerif.Gen.C09

def thisBuild : Build where
  szInternal := szInternal
  szOptionsLzma := szOptionsLzma
  szOptionsBcj := szOptionsBcj
  szOptionsDelta := szOptionsDelta
  szStreamDecoder := szStreamDecoder
  szIndexHash := szIndexHash
  szBlockDecoder := szBlockDecoder
  szLzDecoder := szLzDecoder
  szLzma1Decoder := szLzma1Decoder
  szLzma2Decoder := szLzma2Decoder
  szSimpleCoder := szSimpleCoder
  szSimpleX86 := szSimpleX86
  szDeltaCoder := szDeltaCoder
  szAloneDecoder := szAloneDecoder
  szLzipDecoder := szLzipDecoder
  szAutoDecoder := szAutoDecoder
  szIndexDecoder := szIndexDecoder
  szIndex := szIndex
  szIndexStream := szIndexStream
  szIndexGroup := szIndexGroup
  szIndexRecord := szIndexRecord
  szFileInfoDecoder := szFileInfoDecoder
  szStreamDecoderMt := szStreamDecoderMt
  szWorkerDec := szWorkerDec
  szOutbuf := szOutbuf
  szLzEncoder := szLzEncoder
  szLzma1Encoder := szLzma1Encoder
  szLzma2Encoder := szLzma2Encoder
  szBlockEncoder := szBlockEncoder
  szStreamEncoder := szStreamEncoder
  szIndexEncoder := szIndexEncoder
  szStreamEncoderMt := szStreamEncoderMt
  szWorkerEnc := szWorkerEnc
  szAloneEncoder := szAloneEncoder
  szVoidPtr := szVoidPtr
  lzDictExtra := lzDictExtra
  memcmplenExtra := memcmplenExtra

end XzVerif.Memusage
