/-
  C09 (part 3): `coder_set_compression_settings()` of src/xz/coder.c — how the xz tool makes its settings fit the memory
  usage limit — together with the limit selection of src/xz/hardware.c.
    1. multithreaded .xz compression: reduce the number of threads one by one;
    2. if the limit is only the automatic default for -T0: stop there (soft limit, "Continuing anyway");
    3. with --no-adjust: fail; otherwise switch to single-threaded mode;
    4. shrink the LZMA1/LZMA2 dictionary of every chain that is still too big: round down to a MiB, then 1 MiB at a
       time, never below 1 MiB; if that is not enough: fail.
  --format=raw never adjusts. Core Lean only.
-/
import XzVerif.Model.Memusage

namespace XzVerif.XzAdjust
open XzVerif.Memusage

def MiB : Nat := 1048576

/-- `enum operation_mode` of xz (MODE_COMPRESS, MODE_DECOMPRESS, MODE_TEST, MODE_LIST). -/
inductive Mode where | compress | decompress | test | list
  deriving Repr, DecidableEq

inductive Format where | xz | lzma | raw
  deriving Repr, DecidableEq

/-- What `coder_set_compression_settings` reads (after option parsing). -/
structure Config where
  mode : Mode
  format : Format
  /-- `hardware_threads_get()` -/
  threads : Nat
  /-- `hardware_threads_is_mt()` -/
  isMt : Bool
  /-- `threads_are_automatic` (-T0) -/
  threadsAuto : Bool
  /-- `memlimit_compress` / `memlimit_decompress` (0 = not set) -/
  memlimitCompress : Nat
  memlimitDecompress : Nat
  /-- `memlimit_mt_default` = total RAM / 4 -/
  memlimitMtDefault : Nat
  /-- `opt_auto_adjust` (false with --no-adjust) -/
  autoAdjust : Bool
  /-- `opt_block_size` (0 = not set) and `block_list_largest` -/
  blockSize : Nat
  blockListLargest : Nat
  /-- the filter chains in use: (slot number, chain); slot 0 is the default chain -/
  chains : List (Nat × List Filter)
  deriving Repr

inductive Outcome where
  /-- `message_fatal` / `memlimit_too_small(shown)`: xz exits with status 1 -/
  | fatal (why : String) (shown : Nat)
  /-- settings accepted: final thread count, still multithreaded?, final chains, final memory usage, hard limit used -/
  | ok (threads : Nat) (mt : Bool) (chains : List (Nat × List Filter)) (usage : Nat) (limit : Nat) (soft : Bool) (msgs : List String)
  deriving Repr

/-- `hardware_memlimit_get(mode)`: only MODE_COMPRESS uses the compression limit; decompression, testing and listing
    are all governed by --memlimit-decompress. 0 = no limit. -/
def hardwareMemlimitGet (mode : Mode) (memlimitCompress memlimitDecompress : Nat) : Nat :=
  let m := if mode = .compress then memlimitCompress else memlimitDecompress
  if m ≠ 0 then m else UINT64_MAX

def memlimitGet (c : Config) : Nat := hardwareMemlimitGet c.mode c.memlimitCompress c.memlimitDecompress

/-- `xz --list`: `lzma_file_info_decoder(&strm, &idx, hardware_memlimit_get(MODE_LIST), size)` fails with
    LZMA_MEMLIMIT_ERROR when the Index of the file needs more: "ok" / "fatal shown=<needed>". -/
def listOutcome (b : Build) (memlimitCompress memlimitDecompress streams blocks : Nat) : String :=
  let limit := hardwareMemlimitGet .list memlimitCompress memlimitDecompress
  let need := (indexMemusage b streams blocks).getD UINT64_MAX
  if need ≤ limit then s!"ok limit={limit} usage={need}" else s!"fatal too-small shown={need} limit={limit}"

/-- `hardware_memlimit_mtenc_is_default()`. -/
def mtencIsDefault (c : Config) : Bool := c.memlimitCompress = 0 && c.threadsAuto

/-- `hardware_memlimit_mtenc_get()`. -/
def mtencGet (c : Config) : Nat :=
  if mtencIsDefault c then c.memlimitMtDefault else (if c.memlimitCompress ≠ 0 then c.memlimitCompress else UINT64_MAX)

def maxOpt : List (Option Nat) → Option Nat
  | [] => some 0
  | none :: _ => none
  | some x :: rest => match maxOpt rest with
    | none => none
    | some m => some (max x m)

/-- `get_chains_memusage(..., &mt_options, true)`: per-chain and maximal usage of the multithreaded encoder
    (`none` = UINT64_MAX for some chain). -/
def mtUsages (b : Build) (threads blockSize : Nat) (chains : List (Nat × List Filter)) : List (Option Nat) :=
  chains.map fun (_, fs) => streamEncoderMtMemusage b threads blockSize fs

def stUsages (b : Build) (chains : List (Nat × List Filter)) : List (Option Nat) :=
  chains.map fun (_, fs) => rawEncoderMemusage b fs

/-- The thread-reduction loop: returns the first thread count below `threads` whose usage fits, or the usage with one
    thread when none fits. -/
def reduceThreads (b : Build) (blockSize : Nat) (chains : List (Nat × List Filter)) (limit : Nat) :
    Nat → Option (Nat × Nat) ⊕ Nat
  | 0 => .inr 0
  | 1 => .inr ((maxOpt (mtUsages b 1 blockSize chains)).getD UINT64_MAX)
  | t + 2 =>
    let u := (maxOpt (mtUsages b (t + 1) blockSize chains)).getD UINT64_MAX
    if u ≤ limit then .inl (some (t + 1, u))
    else if t + 1 = 1 then .inr u
    else reduceThreads b blockSize chains limit (t + 1)

def setDict : Filter → Nat → Filter
  | .lzma1 o, d => .lzma1 { o with dict := d }
  | .lzma2 o, d => .lzma2 { o with dict := d }
  | f, _ => f

/-- Replace the dictionary size of the first LZMA1/LZMA2 filter of the chain. -/
def setChainDict : List Filter → Nat → List Filter
  | [], _ => []
  | f :: rest, d =>
    match f with
    | .lzma1 _ | .lzma2 _ => setDict f d :: rest
    | _ => f :: setChainDict rest d

def chainDict : List Filter → Option Nat
  | [] => none
  | .lzma1 o :: _ => some o.dict
  | .lzma2 o :: _ => some o.dict
  | _ :: rest => chainDict rest

/-- The `while (true)` loop that lowers the dictionary by 1 MiB per round; `k` = dictionary size in MiB still to try.
    `some (dict, usage)` = accepted; `none` with the last usage = auto-adjusting failed. -/
def shrinkLoop (b : Build) (fs : List Filter) (limit : Nat) : Nat → Nat → Option (Nat × Nat) × Nat
  | 0, last => (none, last)
  | k + 1, _ =>
    let fs' := setChainDict fs ((k + 1) * MiB)
    let u := (rawEncoderMemusage b fs').getD UINT64_MAX
    if u ≤ limit then (some ((k + 1) * MiB, u), u) else shrinkLoop b fs limit k u

/-- Adjust every chain that exceeds the limit. `usages` = `encoder_memusages[]`. -/
def adjustChains (b : Build) (limit : Nat) : List (Nat × List Filter) → List Nat →
    Except Nat (List (Nat × List Filter) × List Nat × List String)
  | [], _ => .ok ([], [], [])
  | (slot, fs) :: rest, us =>
    let u := us.headD 0
    if u ≤ limit then
      match adjustChains b limit rest us.tail with
      | .error e => .error e
      | .ok (cs, us', ms) => .ok ((slot, fs) :: cs, u :: us', ms)
    else
      match chainDict fs with
      | none => .error u
      | some orig =>
        match shrinkLoop b fs limit (orig / MiB) u with
        | (none, last) => .error last
        | (some (d, u'), _) =>
          match adjustChains b limit rest us.tail with
          | .error e => .error e
          | .ok (cs, us', ms) =>
            .ok ((slot, setChainDict fs d) :: cs, u' :: us', s!"A{slot}:{orig / MiB}>{d / MiB}" :: ms)

def listMax : List Nat → Nat
  | [] => 0
  | x :: r => max x (listMax r)

/-- Block size the multithreaded encoder will use (`mt_options.block_size`): --block-size, or the largest
    recommendation of the chains capped by the largest --block-list entry. `none` = some chain is unsupported. -/
def mtBlockSizeFor (c : Config) : Option Nat :=
  if c.blockSize ≠ 0 then some c.blockSize
  else
    match maxOpt (c.chains.map fun (_, fs) => mtBlockSize fs) with
    | none => none
    | some m => some (if c.blockListLargest > 0 ∧ m > c.blockListLargest then c.blockListLargest else m)

def isMtPath (c : Config) : Bool := c.mode = .compress && c.format = .xz && c.isMt

/-- The memory usage of given settings as `get_chains_memusage` computes it (UINT64_MAX as a number). -/
def usageOf (b : Build) (mt : Bool) (threads bs : Nat) (chains : List (Nat × List Filter)) : Nat :=
  if mt then (maxOpt (mtUsages b threads bs chains)).getD UINT64_MAX
  else listMax ((stUsages b chains).map (·.getD UINT64_MAX))

/-- Step 4: shrink dictionaries in single-threaded mode (`usage` = current maximum, `us` = `encoder_memusages[]`). -/
def stageAdjust (b : Build) (c : Config) (limit : Nat) (threads : Nat) (us : List Nat) (usage : Nat) (msgs : List String) : Outcome :=
  if usage ≤ limit then .ok threads false c.chains usage limit false msgs
  else if !c.autoAdjust then .fatal "too-small" usage
  else
    match adjustChains b limit c.chains us with
    | .error shown => .fatal "too-small" shown
    | .ok (cs, us', ms) => .ok threads false cs (listMax us') limit false (msgs ++ ms)

/-- Steps 1–3 for multithreaded .xz compression. -/
def stageMt (b : Build) (c : Config) (bs limit : Nat) : Outcome :=
  match reduceThreads b bs c.chains limit c.threads with
  | .inl (some (t, u)) => .ok t true c.chains u limit false [s!"R{c.threads}>{t}"]
  | .inl none => .fatal "bug" 0
  | .inr u1 =>
    if mtencIsDefault c then .ok 1 true c.chains u1 limit true [s!"C{c.threads}>1"]
    else if !c.autoAdjust then .fatal "too-small" u1
    else
      let us := (stUsages b c.chains).map (·.getD UINT64_MAX)
      stageAdjust b c limit 1 us (listMax us) ["S"]

/-- `coder_set_compression_settings()` from "Get memory limit and the memory usage of the used filter chains" on. -/
def coderSetCompressionSettings (b : Build) (c : Config) : Outcome :=
  if isMtPath c then
    match mtBlockSizeFor c with
    | none => .fatal "unsupported-options" 0
    | some bs =>
      let limit := mtencGet c
      match maxOpt (mtUsages b c.threads bs c.chains) with
      | none => .fatal "unsupported-chain" 0
      | some usage0 =>
        if usage0 ≤ limit then .ok c.threads true c.chains usage0 limit false []
        else stageMt b c bs limit
  else
    let limit := memlimitGet c
    let usages0 : List (Option Nat) :=
      if c.mode = .compress then stUsages b c.chains else [rawDecoderMemusage b ((c.chains.headD (0, [])).2)]
    match maxOpt usages0 with
    | none => .fatal "unsupported-chain" 0
    | some usage0 =>
      if usage0 ≤ limit then .ok c.threads false c.chains usage0 limit false []
      else if c.format = .raw then .fatal "too-small" usage0
      else if c.mode ≠ .compress then .fatal "too-small" usage0
      else stageAdjust b c limit c.threads (usages0.map (·.getD UINT64_MAX)) usage0 []

/-! ## Line protocol:  xzadj <c|d> <xz|lzma|raw> <threads> <isMt> <auto> <mlc> <mld> <mtdef> <adjust> <bs> <bll> <slot>=<chain> … -/

def parseLzma (ps : List String) : Option LzmaOpts :=
  match ps.mapM String.toNat? with
  | some [d, lc, lp, pb, mode, nice, mf, depth] =>
    some { dict := d, lc := lc, lp := lp, pb := pb, mode := mode, nice := nice, mf := mf, depth := depth }
  | _ => none

def parseFilter (s : String) : Option Filter :=
  match s.splitOn ":" with
  | "l1" :: ps => (parseLzma ps).map Filter.lzma1
  | "l2" :: ps => (parseLzma ps).map Filter.lzma2
  | ["delta", d] => if d == "-" then some (.delta none) else d.toNat?.map fun x => .delta (some x)
  | [name, arg] =>
    if name.startsWith "bcj" then
      match (name.drop 3).toNat? with
      | none => none
      | some id => if arg == "-" then some (.bcj id none) else arg.toNat?.map fun x => .bcj id (some x)
    else none
  | _ => none

def parseSlot (s : String) : Option (Nat × List Filter) :=
  match s.splitOn "=" with
  | [k, ch] =>
    match k.toNat?, (ch.splitOn "+").mapM parseFilter with
    | some k, some fs => some (k, fs)
    | _, _ => none
  | _ => none

def fmtOutcome : Outcome → String
  | .fatal why shown => s!"fatal {why} shown={shown}"
  | .ok t mt cs usage limit soft msgs =>
    let dicts := ",".intercalate (cs.map fun (k, fs) => s!"{k}:{(chainDict fs).getD 0}")
    let m := if msgs.isEmpty then "-" else ",".intercalate msgs
    s!"ok threads={t} mt={if mt then 1 else 0} dicts={dicts} usage={usage} limit={limit} soft={if soft then 1 else 0} msgs={m}"

def runLine (b : Build) (ws : List String) : String :=
  match ws with
  | ["list", mlc, mld, streams, blocks] =>
    match [mlc, mld, streams, blocks].mapM String.toNat? with
    | some [mlc, mld, streams, blocks] => listOutcome b mlc mld streams blocks
    | _ => "bad-op"
  | mode :: fmt :: t :: isMt :: auto :: mlc :: mld :: mtdef :: adj :: bs :: bll :: slots =>
    match [t, isMt, auto, mlc, mld, mtdef, adj, bs, bll].mapM String.toNat?, slots.mapM parseSlot with
    | some [t, isMt, auto, mlc, mld, mtdef, adj, bs, bll], some cs =>
      let c : Config := {
        mode := if mode == "c" then .compress else if mode == "t" then .test else if mode == "l" then .list else .decompress
        format := if fmt == "xz" then .xz else if fmt == "lzma" then .lzma else .raw
        threads := t, isMt := isMt = 1, threadsAuto := auto = 1, memlimitCompress := mlc, memlimitDecompress := mld,
        memlimitMtDefault := mtdef, autoAdjust := adj = 1, blockSize := bs, blockListLargest := bll, chains := cs }
      -- the initial usage (what `message_mem_needed(V_DEBUG, …)` prints) is reported as well
      let u0 : Option Nat :=
        if c.mode = .compress then
          (if isMtPath c then
             match mtBlockSizeFor c with
             | none => none
             | some bs' => maxOpt (mtUsages b c.threads bs' c.chains)
           else maxOpt (stUsages b c.chains))
        else rawDecoderMemusage b ((c.chains.headD (0, [])).2)
      s!"usage0={u0.getD UINT64_MAX} {fmtOutcome (coderSetCompressionSettings b c)}"
    | _, _ => "bad-op"
  | _ => "bad-op"

end XzVerif.XzAdjust
