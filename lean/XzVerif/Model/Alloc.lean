/-
  C10 — executable model of liblzma's allocation discipline (core Lean only, no Mathlib).

  * `Heap`   : the set of live block ids, the number of allocation attempts so far, a `bad` flag that is set
               when a block that is not live is freed (double free / unknown pointer), and the event log.
  * `Oracle` : `fail : Nat → Bool`; the k-th allocation attempt fails iff `fail k`. Any subset of attempts.
  * `Node`   : one `lzma_next_coder` = `{init, coder}` where `coder` is either NULL or one allocated coder
               struct together with everything that struct owns: plain buffers (`bufs`, numbered slots),
               filter-option arrays (`opts`), `lzma_index` objects (`ix0`,`ix1`) and up to two nested
               `lzma_next_coder`s (`sub0`,`sub1`). `data` holds the non-pointer state that decides between
               reuse and reallocation (dictionary size, match-finder sizes, encoder sequence...).
  * Every C init/end/code function that allocates is written as a `NodeOp` (= `Node → M (Ret × Node)`)
    built from a few combinators (`guard` = `lzma_next_coder_init`, `allocSelf`, `ensureBuf`, `reallocBuf`,
    `allocPair`, `onSub0/1`, `withTempOpts`, ...) in the same order as the C code.
  * `World` = the `lzma_stream` handle (`strm->internal` + its next coder) plus the caller-owned
    `lzma_index` objects; `Op` = one public API call; `runOp` its allocation script.

  The correspondence (tools/props/c10.py) replays the event trace of the real code through these scripts
  (`Driver/C10.lean`), so each script has to reproduce the order and the size of every allocation, which
  blocks are freed on which path, and the return code, for every failure pattern.
-/
namespace XzVerif.Alloc

/-! ## Return codes (values of `lzma_ret`; 98/99 are harness conventions) -/
abbrev Ret := Nat
def OK : Ret := 0
def STREAM_END : Ret := 1
def MEM_ERROR : Ret := 5
def MEMLIMIT_ERROR : Ret := 6
def OPTIONS_ERROR : Ret := 8
def PROG_ERROR : Ret := 11
def RET_NULL : Ret := 98
def RET_SKIP : Ret := 99

/-! ## Heap, oracle, monad -/

inductive Ev where
  | a (id : Nat) (sz : Option Nat)     -- successful allocation (id = attempt index); size `none` = not modelled
  | x (id : Nat) (sz : Option Nat)     -- failed attempt
  | f (id : Nat)                       -- free
  | fs (ids : List Nat)                -- frees whose relative order is not modelled (index trees)
deriving Repr, DecidableEq

structure Heap where
  live : List Nat := []
  next : Nat := 0
  bad : Bool := false
  log : List Ev := []                  -- newest first
deriving Repr

abbrev Oracle := Nat → Bool

def M (α : Type) := Oracle → Heap → α × Heap

instance : Monad M where
  pure a := fun _ h => (a, h)
  bind m k := fun f h => let r := m f h; k r.1 f r.2

/-- `lzma_alloc`: attempt number `h.next`; fails iff the oracle says so. -/
def alloc (sz : Option Nat) : M (Option Nat) := fun f h =>
  if f h.next then
    (none, { h with next := h.next + 1, log := .x h.next sz :: h.log })
  else
    (some h.next, { h with live := h.next :: h.live, next := h.next + 1, log := .a h.next sz :: h.log })

def eraseLive (h : Heap) (i : Nat) : Heap :=
  if i ∈ h.live then { h with live := h.live.erase i } else { h with bad := true }

/-- `lzma_free` of a non-NULL pointer. Freeing something that is not live is recorded in `bad`. -/
def free1 (i : Nat) : M Unit := fun _ h =>
  ((), { eraseLive h i with log := .f i :: h.log })

/-- `lzma_free(ptr)`; `lzma_free(NULL)` is a no-op (and not an event). -/
def free : Option Nat → M Unit
  | none => pure ()
  | some i => free1 i

/-- Free a list of blocks; one `fs` event (order inside not modelled). Empty list: no event. -/
def freeSet (l : List Nat) : M Unit := fun _ h =>
  if l.isEmpty then ((), h) else
  ((), { l.foldl eraseLive h with log := .fs l :: h.log })

def toL : Option Nat → List Nat
  | none => []
  | some i => [i]

def optIds (l : List (Option Nat)) : List Nat := l.flatMap toL

def getO : List (Option Nat) → Nat → Option Nat
  | [], _ => none
  | x :: _, 0 => x
  | _ :: t, i + 1 => getO t i

def setO : List (Option Nat) → Nat → Option Nat → List (Option Nat)
  | [], 0, v => [v]
  | [], i + 1, v => none :: setO [] i v
  | _ :: t, 0, v => v :: t
  | x :: t, i + 1, v => x :: setO t i v

def getD (l : List Nat) (i : Nat) : Nat := l.getD i 0

def setD : List Nat → Nat → Nat → List Nat
  | [], 0, v => [v]
  | [], i + 1, v => 0 :: setD [] i v
  | _ :: t, 0, v => v :: t
  | x :: t, i + 1, v => x :: setD t i v

/-- free every entry of an option array in order (`lzma_filters_free`) -/
def freeOpts : List (Option Nat) → M Unit
  | [] => pure ()
  | p :: t => do free p; freeOpts t

/-! ## Sizes and constants (supplied by `Gen/C10.lean`, regenerated from the source) -/

structure Sizes where
  internal : Nat
  streamEnc : Nat
  streamDec : Nat
  blockEnc : Nat
  blockDec : Nat
  aloneEnc : Nat
  aloneDec : Nat
  lzipDec : Nat
  autoDec : Nat
  indexEnc : Nat
  indexDec : Nat
  fileInfo : Nat
  microEnc : Nat
  microDec : Nat
  indexHash : Nat
  lzEnc : Nat
  lzDec : Nat
  lzma1Enc : Nat
  lzma1Dec : Nat
  lzma2Enc : Nat
  lzma2Dec : Nat
  delta : Nat
  simple : Nat           -- sizeof(lzma_simple_coder)
  simpleX86 : Nat
  index : Nat
  indexStream : Nat
  indexGroup : Nat
  indexRecord : Nat
  optLzma : Nat
  optDelta : Nat
  optBcj : Nat
  strAlloc : Nat
  -- constants
  indexGroupSize : Nat   -- INDEX_GROUP_SIZE
  dictRepeatMax : Nat    -- LZ_DICT_REPEAT_MAX
  dictExtra : Nat        -- LZ_DICT_EXTRA
  memcmplenExtra : Nat   -- LZMA_MEMCMPLEN_EXTRA
  opts : Nat             -- OPTS (lzma_encoder_private.h)
  loopInputMax : Nat     -- LOOP_INPUT_MAX
  matchLenMax : Nat      -- MATCH_LEN_MAX
  lzma2ChunkMax : Nat    -- LZMA2_CHUNK_MAX
  hash2Size : Nat
  hash3Size : Nat
  memusageBase : Nat     -- LZMA_MEMUSAGE_BASE
deriving Repr

/-! ## `lzma_index` objects -/

/-- Ownership is flat: the base struct, the last Record group of the last Stream (the only block that
    `lzma_index_cat` may reallocate) and all other blocks (stream structs, earlier groups). `recs` is the
    number of Records per Stream (needed by `lzma_index_dup`). -/
structure Index where
  id : Nat
  lastG : Option Nat
  lastAlloc : Nat
  lastUsed : Nat
  others : List Nat
  recs : List Nat
  prealloc : Nat
deriving Repr

def Index.ids (i : Index) : List Nat := i.id :: (toL i.lastG ++ i.others)

def ixIds : Option Index → List Nat
  | none => []
  | some i => i.ids

def bumpLast : List Nat → List Nat
  | [] => [1]
  | [r] => [r + 1]
  | r :: t => r :: bumpLast t

variable (S : Sizes)

/-- `lzma_index_init` -/
def indexInit : M (Option Index) := do
  match ← alloc (some S.index) with
  | none => pure none
  | some b =>
    match ← alloc (some S.indexStream) with
    | none => do free1 b; pure none
    | some s => pure (some { id := b, lastG := none, lastAlloc := 0, lastUsed := 0, others := [s], recs := [0],
                             prealloc := S.indexGroupSize })

/-- `lzma_index_end` (NULL is allowed) -/
def indexEnd : Option Index → M Unit
  | none => pure ()
  | some i => do freeSet (toL i.lastG ++ i.others); free1 i.id

/-- `lzma_index_append`: a new group is allocated iff the last group of the last Stream is missing or full. -/
def indexAppend (i : Index) : M (Ret × Index) :=
  if i.lastG.isSome && i.lastUsed < i.lastAlloc then
    pure (OK, { i with lastUsed := i.lastUsed + 1, recs := bumpLast i.recs })
  else do
    match ← alloc (some (S.indexGroup + i.prealloc * S.indexRecord)) with
    | none => pure (MEM_ERROR, i)
    | some g => pure (OK, { i with lastG := some g, lastAlloc := i.prealloc, lastUsed := 1,
                                   others := toL i.lastG ++ i.others, recs := bumpLast i.recs,
                                   prealloc := S.indexGroupSize })

/-- `n` calls of `lzma_index_append`, stopping at the first error. -/
def indexAppendN : Nat → Index → M (Ret × Index)
  | 0, i => pure (OK, i)
  | n + 1, i => do
    let (r, i') ← indexAppend S i
    if r != OK then pure (r, i') else indexAppendN n i'

/-- result of `lzma_index_cat`: on success the source has been consumed, on failure both are returned untouched -/
inductive CatRes where
  | ok (d : Index)
  | fail (r : Ret) (d s : Index)

def CatRes.ret : CatRes → Ret
  | .ok _ => OK
  | .fail r _ _ => r

def CatRes.ids : CatRes → List Nat
  | .ok d => d.ids
  | .fail _ d s => d.ids ++ s.ids

/-- `lzma_index_cat(dest, src)`: the allocation (shrinking dest's last group) happens before anything is
    modified; on success `src`'s base struct is freed and its Streams move to `dest`. -/
def indexCat (d s : Index) : M CatRes := do
  let shrink := d.lastG.isSome && d.lastUsed < d.lastAlloc
  let newg ← if shrink then alloc (some (S.indexGroup + d.lastUsed * S.indexRecord)) else pure d.lastG
  if shrink && newg.isNone then
    pure (.fail MEM_ERROR d s)
  else do
    if shrink then free d.lastG
    free1 s.id
    pure (.ok { id := d.id, lastG := s.lastG, lastAlloc := s.lastAlloc, lastUsed := s.lastUsed,
                others := toL newg ++ d.others ++ s.others, recs := d.recs ++ s.recs, prealloc := d.prealloc })

/-- the loop of `lzma_index_dup` over the Streams of the source; `acc` = blocks of the copy so far
    (`base` first allocated). Returns the blocks of the finished copy, or `none` after unwinding. -/
def indexDupLoop (base : Nat) : List Nat → List Nat → Option Nat → M (Option (List Nat × Option Nat))
  | [], acc, lastG => pure (some (acc, lastG))
  | r :: rest, acc, lastG => do
    match ← alloc (some S.indexStream) with
    | none => do freeSet (toL lastG ++ acc); free1 base; pure none
    | some st =>
      if r == 0 then
        indexDupLoop base rest (toL lastG ++ st :: acc) none
      else
        match ← alloc (some (S.indexGroup + r * S.indexRecord)) with
        | none => do free1 st; freeSet (toL lastG ++ acc); free1 base; pure none
        | some g => indexDupLoop base rest (toL lastG ++ st :: acc) (some g)

/-- `lzma_index_dup` -/
def indexDup (src : Index) : M (Option Index) := do
  match ← alloc (some S.index) with
  | none => pure none
  | some b =>
    match ← indexDupLoop S b src.recs [] none with
    | none => pure none
    | some (acc, lastG) =>
      let r := src.recs.getLastD 0
      pure (some { id := b, lastG := lastG, lastAlloc := r, lastUsed := r, others := acc, recs := src.recs,
                   prealloc := S.indexGroupSize })

/-! ## Filter option arrays -/

/-- free in reverse order (`while (i-- > 0) lzma_free(dest[i].options)`) -/
def freeOptsRev (l : List (Option Nat)) : M Unit := freeOpts l.reverse

/-- the loop of `lzma_filters_copy` / `lzma_block_header_decode` / `str_to_filters`: allocate one options
    struct per `some size` entry; on failure free what was allocated (`rev` = in reverse order) and give up. -/
def allocOpts (rev : Bool) : List (Option Nat) → List (Option Nat) → M (Option (List (Option Nat)))
  | [], acc => pure (some acc)
  | none :: t, acc => allocOpts rev t (acc ++ [none])
  | some sz :: t, acc => do
    match ← alloc (some sz) with
    | none => do (if rev then freeOptsRev acc else freeOpts acc); pure none
    | some p => allocOpts rev t (acc ++ [some p])

/-- `lzma_filters_copy(src, dest)`: `none` = error, `dest` untouched. -/
def filtersCopy (sizes : List (Option Nat)) : M (Option (List (Option Nat))) := allocOpts true sizes []

/-! ## `lzma_next_coder` trees -/

inductive Node where
  | null (init : Nat)
  | mk (init : Nat) (self : Nat) (bufs : List (Option Nat)) (data : List Nat) (opts : List (Option Nat))
       (ix0 ix1 : Option Index) (sub0 sub1 : Node)
deriving Repr

def Node.init : Node → Nat
  | .null i => i
  | .mk i .. => i

def Node.isNull : Node → Bool
  | .null _ => true
  | _ => false

def Node.ids : Node → List Nat
  | .null _ => []
  | .mk _ self bufs _ opts ix0 ix1 s0 s1 =>
    self :: (optIds bufs ++ optIds opts ++ ixIds ix0 ++ ixIds ix1 ++ s0.ids ++ s1.ids)

def Node.buf (n : Node) (i : Nat) : Option Nat :=
  match n with
  | .null _ => none
  | .mk _ _ bufs .. => getO bufs i

def Node.dat (n : Node) (i : Nat) : Nat :=
  match n with
  | .null _ => 0
  | .mk _ _ _ data .. => getD data i

def Node.setDat (n : Node) (i v : Nat) : Node :=
  match n with
  | .null k => .null k
  | .mk k self bufs data opts ix0 ix1 s0 s1 => .mk k self bufs (setD data i v) opts ix0 ix1 s0 s1

def Node.sub0 : Node → Node
  | .null _ => .null 0
  | .mk _ _ _ _ _ _ _ s0 _ => s0

/-- the coder's `end` function: nested coders first, then the buffers in slot order, the indexes, the option
    arrays, finally the struct itself. (The slot numbering of each coder is chosen so that this is the order
    of its C `*_end` function.) -/
def endNode : Node → M Unit
  | .null _ => pure ()
  | .mk _ self bufs _ opts ix0 ix1 s0 s1 => do
    endNode s0
    endNode s1
    freeOpts bufs
    indexEnd ix0
    indexEnd ix1
    freeOpts opts
    free1 self

abbrev NodeOp := Node → M (Ret × Node)

def skip : NodeOp := fun n => pure (OK, n)

/-- an early `return <error>;` that touches nothing -/
def failOp (r : Ret) : NodeOp := fun n => pure (r, n)

/-- run `a`; continue with `b` only if `a` returned `LZMA_OK` (`return_if_error`) -/
def seq (a b : NodeOp) : NodeOp := fun n => do
  let r ← a n
  if r.1 != OK then pure r else b r.2

infixr:60 " ⨟ " => seq

/-- `lzma_next_end`: calls the end function and resets to `LZMA_NEXT_CODER_INIT` -/
def nextEnd : NodeOp := fun n => do endNode n; pure (OK, .null 0)

/-- `lzma_next_coder_init(func, next, allocator)`: free the old coder iff the init function differs -/
def guard (i : Nat) : NodeOp := fun n =>
  if n.init != i then do endNode n; pure (OK, .null i) else pure (OK, n)

/-- `if (coder == NULL) { coder = lzma_alloc(size); if (coder == NULL) return LZMA_MEM_ERROR; ...; fresh }` -/
def allocSelf (sz : Nat) (fresh : NodeOp) : NodeOp := fun n =>
  match n with
  | .null i => do
    match ← alloc (some sz) with
    | none => pure (MEM_ERROR, .null i)
    | some p => fresh (.mk i p [] [] [] none none (.null 0) (.null 0))
  | n => pure (OK, n)

/-- data-only update (never touches ownership) -/
def setData (i v : Nat) : NodeOp := fun n => pure (OK, n.setDat i v)

/-- `++coder->counter` (data only) -/
def incData (i : Nat) : NodeOp := fun n => pure (OK, n.setDat i (n.dat i + 1))

def whenD (c : Node → Bool) (op : NodeOp) : NodeOp := fun n => if c n then op n else pure (OK, n)

/-- `lzma_free(coder->slot); coder->slot = NULL;` -/
def freeBuf (slot : Nat) : NodeOp := fun n =>
  match n with
  | .null i => pure (OK, .null i)
  | .mk i self bufs data opts ix0 ix1 s0 s1 => do
    free (getO bufs slot)
    pure (OK, .mk i self (setO bufs slot none) data opts ix0 ix1 s0 s1)

/-- `coder->slot = lzma_alloc(size); if (coder->slot == NULL) { onFail; return LZMA_MEM_ERROR; }`
    (whatever the slot held is freed first; in the C code it is always NULL at this point) -/
def reallocBuf (slot : Nat) (sz : Option Nat) (failDat : Option (Nat × Nat) := none) : NodeOp := fun n =>
  match n with
  | .null i => pure (OK, .null i)
  | .mk i self bufs data opts ix0 ix1 s0 s1 => do
    free (getO bufs slot)
    match ← alloc sz with
    | none =>
      let data' := match failDat with | none => data | some (k, v) => setD data k v
      pure (MEM_ERROR, .mk i self (setO bufs slot none) data' opts ix0 ix1 s0 s1)
    | some p => pure (OK, .mk i self (setO bufs slot (some p)) data opts ix0 ix1 s0 s1)

/-- `if (coder->slot == NULL) { coder->slot = lzma_alloc(size); if NULL return LZMA_MEM_ERROR; }` -/
def ensureBuf (slot : Nat) (sz : Option Nat) : NodeOp := fun n =>
  if (n.buf slot).isSome then pure (OK, n) else reallocBuf slot sz none n

/-- `lz_encoder_init`: hash and son are BOTH attempted; if either failed both are freed. -/
def allocPair (s1 s2 : Nat) (z1 z2 : Option Nat) : NodeOp := fun n =>
  match n with
  | .null i => pure (OK, .null i)
  | .mk i self bufs data opts ix0 ix1 a b => do
    free (getO bufs s1)
    free (getO (setO bufs s1 none) s2)
    let bufs0 := setO (setO bufs s1 none) s2 none
    let p ← alloc z1
    let q ← alloc z2
    if p.isNone || q.isNone then do
      free p
      free q
      pure (MEM_ERROR, .mk i self bufs0 data opts ix0 ix1 a b)
    else
      pure (OK, .mk i self (setO (setO bufs0 s1 p) s2 q) data opts ix0 ix1 a b)

def onSub0 (op : NodeOp) : NodeOp := fun n =>
  match n with
  | .null i => pure (OK, .null i)
  | .mk i self bufs data opts ix0 ix1 s0 s1 => do
    let r ← op s0
    pure (r.1, .mk i self bufs data opts ix0 ix1 r.2 s1)

def onSub1 (op : NodeOp) : NodeOp := fun n =>
  match n with
  | .null i => pure (OK, .null i)
  | .mk i self bufs data opts ix0 ix1 s0 s1 => do
    let r ← op s1
    pure (r.1, .mk i self bufs data opts ix0 ix1 s0 r.2)

/-- `lzma_index_end(coder->index); coder->index = NULL;` (slot 0 or 1) -/
def ixFree (slot : Nat) : NodeOp := fun n =>
  match n with
  | .null i => pure (OK, .null i)
  | .mk i self bufs data opts ix0 ix1 s0 s1 =>
    if slot == 0 then do indexEnd ix0; pure (OK, .mk i self bufs data opts none ix1 s0 s1)
    else do indexEnd ix1; pure (OK, .mk i self bufs data opts ix0 none s0 s1)

/-- `lzma_index_end(coder->index); coder->index = lzma_index_init(); if NULL return LZMA_MEM_ERROR;` -/
def ixReinit0 : NodeOp := fun n =>
  match n with
  | .null i => pure (OK, .null i)
  | .mk i self bufs data opts ix0 ix1 s0 s1 => do
    indexEnd ix0
    match ← indexInit S with
    | none => pure (MEM_ERROR, .mk i self bufs data opts none ix1 s0 s1)
    | some x => pure (OK, .mk i self bufs data opts (some x) ix1 s0 s1)

/-- `lzma_index_append(coder->index, ...)` `cnt` times -/
def ixAppend0 (cnt : Nat) : NodeOp := fun n =>
  match n with
  | .mk i self bufs data opts (some x) ix1 s0 s1 => do
    let r ← indexAppendN S cnt x
    pure (r.1, .mk i self bufs data opts (some r.2) ix1 s0 s1)
  | n => pure (PROG_ERROR, n)

def ixSetPrealloc0 (p : Nat) : NodeOp := fun n =>
  match n with
  | .mk i self bufs data opts (some x) ix1 s0 s1 =>
    pure (OK, .mk i self bufs data opts (some { x with prealloc := p }) ix1 s0 s1)
  | n => pure (OK, n)

/-- temporaries on the C stack: allocate one options struct per entry (unwinding on failure), run `body`,
    free them again (`lzma_filters_free`), return `body`'s result. (`stream_decode` SEQ_BLOCK_INIT) -/
def withTempOpts (sizes : List (Option Nat)) (body : NodeOp) : NodeOp := fun n => do
  match ← allocOpts false sizes [] with
  | none => pure (MEM_ERROR, n)
  | some tmp =>
    let r ← body n
    freeOpts tmp
    pure r

/-- `stream_encoder_update`: copy the new chain to a temporary array first; run `body`; on success free the
    old options and install the copy, on failure free the copy and leave the coder as it was. -/
def replaceOpts (sizes : List (Option Nat)) (body : NodeOp) : NodeOp := fun n => do
  match ← filtersCopy sizes with
  | none => pure (MEM_ERROR, n)
  | some tmp =>
    let r ← body n
    if r.1 != OK then do
      freeOpts tmp
      pure r
    else
      match r.2 with
      | .null i => do freeOpts tmp; pure (r.1, .null i)
      | .mk i self bufs data opts ix0 ix1 s0 s1 => do
        freeOpts opts
        pure (OK, .mk i self bufs data tmp ix0 ix1 s0 s1)

/-! ## Filters -/

inductive Filter where
  | lzma (v2 : Bool) (dict mf nice mode : Nat)
  | bcj (which : Nat) (offset : Option Nat)       -- which: 0 x86, 1 powerpc, 2 ia64, 3 arm, 4 armthumb, 5 arm64, 6 sparc, 7 riscv
  | delta (dist : Nat)
deriving Repr, DecidableEq

abbrev Chain := List Filter

-- init function identities (any injective numbering)
def I_SENC := 1
def I_SDEC := 2
def I_BENC := 3
def I_BDEC := 4
def I_AENC := 5
def I_ALONEDEC := 6
def I_LZIPDEC := 7
def I_AUTODEC := 8
def I_IENC := 9
def I_IDEC := 10
def I_FIDEC := 11
def I_MLENC := 12
def I_MLDEC := 13
def I_LZMA1ENC := 101
def I_LZMA1DEC := 102
def I_LZMA2ENC := 103
def I_LZMA2DEC := 104
def I_DELTAENC := 105
def I_DELTADEC := 106

def filterInitId (enc : Bool) : Filter → Nat
  | .lzma false .. => if enc then I_LZMA1ENC else I_LZMA1DEC
  | .lzma true .. => if enc then I_LZMA2ENC else I_LZMA2DEC
  | .delta _ => if enc then I_DELTAENC else I_DELTADEC
  | .bcj w _ => (if enc then 110 else 130) + w

/-- size of the options struct a filter owns when it is copied / decoded from a header; `none` = no options -/
def optSizeCopy : Filter → Option Nat
  | .lzma .. => some S.optLzma
  | .delta _ => some S.optDelta
  | .bcj _ none => none
  | .bcj _ (some _) => some S.optBcj

/-- Block Header / Filter Flags decoding: BCJ start offset 0 is not stored, so nothing is allocated for it;
    a non-zero offset allocates `lzma_options_bcj`. -/
def optSizeDecode : Filter → Option Nat
  | .lzma .. => some S.optLzma
  | .delta _ => some S.optDelta
  | .bcj _ (some (_ + 1)) => some S.optBcj
  | .bcj _ _ => none

-- buffer slot numbers
def B_DICT := 0        -- LZ decoder: dict.buf
def B_DEC_LZMA1 := 1   -- LZ decoder: lzma_lzma1_decoder
def B_DEC_LZMA2 := 2   -- LZ decoder: lzma_lzma2_coder
def B_SON := 0         -- LZ encoder: mf.son
def B_HASH := 1        -- LZ encoder: mf.hash
def B_BUFFER := 2      -- LZ encoder: mf.buffer
def B_ENC_LZMA1 := 3   -- LZ encoder: lzma_lzma1_encoder
def B_ENC_LZMA2 := 4   -- LZ encoder: lzma_lzma2_coder
def B_SIMPLE := 0      -- simple coder: coder->simple
def B_INDEX_HASH := 0  -- stream decoder: index_hash
-- data slot numbers
def D_DICT_SIZE := 0   -- LZ decoder: dict.size
def D_MF_SIZE := 0     -- LZ encoder: mf.size
def D_HASH_COUNT := 1
def D_SONS_COUNT := 2
def D_SEQ := 0         -- stream encoder: sequence
def D_BLOCK_INIT := 1  -- stream encoder: block_encoder_is_initialized
def D_DIRTY := 2       -- stream encoder: the LZMA2 encoder of the open Block has left SEQ_INIT (data since the last flush)

/-- `lzma_lz_decoder_init`'s dictionary size: at least 4096, rounded up to 16, plus 2*LZ_DICT_REPEAT_MAX -/
def dictAllocSize (dict : Nat) : Nat :=
  let d := if dict < 4096 then 4096 else dict
  (d + 15) / 16 * 16 + 2 * S.dictRepeatMax

def mfHashBytes (mf : Nat) : Nat := mf % 16        -- mf_get_hash_bytes: mf & 0x0F
def mfIsBt (mf : Nat) : Bool := mf / 16 % 2 == 1   -- mf & 0x10

def orShr (x k : Nat) : Nat := x ||| (x >>> k)

/-- `lz_encoder_prepare`: (mf.size, hash_count, sons_count) for the LZMA encoders -/
def mfSizes (v2 : Bool) (dict mf nice : Nat) : Nat × Nat × Nat :=
  let hb := mfHashBytes mf
  let before0 := S.opts
  let before := if v2 && before0 + dict < S.lzma2ChunkMax then S.lzma2ChunkMax - dict else before0
  let after := S.loopInputMax
  let mlm := S.matchLenMax
  let _nice := max hb nice
  let keepBefore := before + dict
  let keepAfter := after + mlm
  let reserve0 := dict / 2
  let reserve1 := if reserve0 > 2 ^ 30 then reserve0 / 2 else reserve0
  let reserve := reserve1 + (before + mlm + after) / 2 + 2 ^ 19
  let size := keepBefore + reserve + keepAfter
  let hs :=
    if hb == 2 then 0xFFFF
    else
      let h0 := dict - 1
      let h1 := orShr (orShr (orShr (orShr h0 1) 2) 4) 8
      let h2 := (h1 >>> 1) ||| 0xFFFF
      if h2 > 2 ^ 24 then (if hb == 3 then 2 ^ 24 - 1 else h2 >>> 1) else h2
  let hc := hs + 1 + (if hb > 2 then S.hash2Size else 0) + (if hb > 3 then S.hash3Size else 0)
  let sons := if mfIsBt mf then (dict + 1) * 2 else dict + 1
  (size, hc, sons)

/-- the init function of one filter; `rest` = `lzma_next_filter_init(&coder->next, allocator, filters + 1)` -/
def filterInit (enc : Bool) : Filter → NodeOp → NodeOp
  | .delta _, rest =>
    allocSelf S.delta skip ⨟ onSub0 rest
  | .bcj w _, rest =>
    -- lzma_simple_coder_init: struct + 2*unfiltered_max; only x86 has a filter-specific struct
    let um := if w == 0 then 5 else if w == 2 then 16 else if w == 7 then 8 else 4
    allocSelf (S.simple + 2 * um) (if w == 0 then reallocBuf B_SIMPLE (some S.simpleX86) else skip)
      ⨟ onSub0 rest
  | .lzma v2 dict mf nice mode, rest =>
    if enc then
      let (size, hc, sons) := mfSizes S v2 dict mf nice
      allocSelf S.lzEnc skip
      -- lz_init: lzma2_encoder_init allocates its struct, then lzma_lzma_encoder_create
      ⨟ (if v2 then ensureBuf B_ENC_LZMA2 (some S.lzma2Enc) else skip)
      ⨟ ensureBuf B_ENC_LZMA1 (some S.lzma1Enc)
      -- lzma_lzma_encoder_create: `switch (options->mode) { ... default: return LZMA_OPTIONS_ERROR; }` comes
      -- right after the allocation of lzma_lzma1_encoder (mode: 1 = FAST, 2 = NORMAL)
      ⨟ (if mode == 1 || mode == 2 then skip else failOp OPTIONS_ERROR)
      -- lz_encoder_prepare: drop buffers whose size changed
      ⨟ whenD (fun n => (n.buf B_BUFFER).isSome && n.dat D_MF_SIZE != size) (freeBuf B_BUFFER)
      ⨟ setData D_MF_SIZE size
      ⨟ whenD (fun n => n.dat D_HASH_COUNT != hc || n.dat D_SONS_COUNT != sons) (freeBuf B_HASH ⨟ freeBuf B_SON)
      ⨟ setData D_HASH_COUNT hc ⨟ setData D_SONS_COUNT sons
      -- lz_encoder_init
      ⨟ ensureBuf B_BUFFER (some (size + S.memcmplenExtra))
      ⨟ whenD (fun n => (n.buf B_HASH).isNone) (allocPair B_HASH B_SON (some (hc * 4)) (some (sons * 4)))
      ⨟ onSub0 rest
    else
      let asz := dictAllocSize S dict
      allocSelf S.lzDec skip
      ⨟ (if v2 then ensureBuf B_DEC_LZMA2 (some S.lzma2Dec) else skip)
      ⨟ ensureBuf B_DEC_LZMA1 (some S.lzma1Dec)
      ⨟ whenD (fun n => n.dat D_DICT_SIZE != asz)
            (reallocBuf B_DICT (some (asz + S.dictExtra)) (some (D_DICT_SIZE, 0)) ⨟ setData D_DICT_SIZE asz)
      ⨟ onSub0 rest

/-- `lzma_next_filter_init(next, allocator, filters)` over the (already reversed, for encoders) chain -/
def nextFilterInit (enc : Bool) : List Filter → NodeOp
  | [] => guard 0
  | f :: rest => guard (filterInitId enc f) ⨟ filterInit S enc f (nextFilterInit enc rest)

/-- `lzma_raw_coder_init`: the chain is initialised in reverse order by the encoder; a failure ends the
    whole chain (`lzma_next_end`). -/
def rawCoderInit (enc : Bool) (c : Chain) : NodeOp := fun n => do
  let r ← nextFilterInit S enc (if enc then c.reverse else c) n
  if r.1 != OK then do
    endNode r.2
    pure (r.1, .null 0)
  else pure r

def blockEncoderInit (c : Chain) : NodeOp :=
  guard I_BENC ⨟ allocSelf S.blockEnc skip ⨟ onSub0 (rawCoderInit S true c)

def blockDecoderInit (c : Chain) : NodeOp :=
  guard I_BDEC ⨟ allocSelf S.blockDec skip ⨟ onSub0 (rawCoderInit S false c)

-- stream encoder sequence values
def SEQ_HEADER := 0
def SEQ_BLOCK_INIT := 1
def SEQ_BLOCK_ENCODE := 3
def SEQ_INDEX := 4

/-- `lzma_raw_encoder_memusage(filters) != UINT64_MAX` as far as the modelled options go (LZMA mode) -/
def chainValid (c : Chain) : Bool :=
  c.all fun f => match f with | .lzma _ _ _ _ m => m == 1 || m == 2 | _ => true

def filterId : Filter → Nat
  | .lzma false .. => 1
  | .lzma true .. => 2
  | .delta _ => 3
  | .bcj w _ => 4 + w

/-- `stream_encoder_update`; `cur` = the chain the encoder currently uses. The new chain is copied to a temporary
    array first; on EVERY error path (`goto error`) the copy is freed again. In the middle of a Block only the
    filter-specific options can change: `block_encoder.update` refuses (LZMA_PROG_ERROR) a different sequence of
    Filter IDs, and the LZMA2 encoder refuses any update unless it is at a chunk boundary (`SEQ_INIT`, i.e. no
    input since the last flush). -/
def streamEncoderUpdate (cur c : Chain) : NodeOp :=
  replaceOpts (c.map (optSizeCopy S)) (fun n =>
    if n.dat D_SEQ ≤ SEQ_BLOCK_INIT then
      (setData D_BLOCK_INIT 0 ⨟ onSub0 (blockEncoderInit S c) ⨟ setData D_BLOCK_INIT 1) n
    else if n.dat D_SEQ ≤ SEQ_BLOCK_ENCODE then
      (if n.dat D_DIRTY != 0 || cur.map filterId != c.map filterId then failOp PROG_ERROR else skip) n
    else
      pure (PROG_ERROR, n))

def streamEncoderInit (c : Chain) : NodeOp :=
  guard I_SENC ⨟ allocSelf S.streamEnc skip ⨟ setData D_SEQ SEQ_HEADER
    ⨟ ixReinit0 S ⨟ streamEncoderUpdate S c c

/-- the part of `stream_encode` that allocates, for one harness step (`lzma_code` looped until the input
    is consumed / the action is done). `act`: 0 RUN, 1 SYNC_FLUSH, 2 FULL_FLUSH, 3 FINISH. -/
def streamEncode (c : Chain) (act len : Nat) : NodeOp := fun n =>
  let seq0 := if n.dat D_SEQ == SEQ_HEADER then SEQ_BLOCK_INIT else n.dat D_SEQ
  -- (1) open a Block if there is input and none is open
  let openBlock : NodeOp :=
    if seq0 == SEQ_BLOCK_INIT && len > 0 then
      whenD (fun n => n.dat D_BLOCK_INIT == 0) (onSub0 (blockEncoderInit S c))
        ⨟ setData D_BLOCK_INIT 0 ⨟ setData D_SEQ SEQ_BLOCK_ENCODE
    else setData D_SEQ seq0
  -- (1b) input with LZMA_RUN leaves the LZMA2 encoder inside a chunk; every flush brings it back to SEQ_INIT
  let dirty : NodeOp :=
    whenD (fun n => n.dat D_SEQ == SEQ_BLOCK_ENCODE) (setData D_DIRTY (if act == 0 then (if len > 0 then 1 else n.dat D_DIRTY) else 0))
  -- (2) FULL_FLUSH / FINISH close an open Block: one Index Record
  let closeBlock : NodeOp :=
    whenD (fun n => n.dat D_SEQ == SEQ_BLOCK_ENCODE && act ≥ 2) (ixAppend0 S 1 ⨟ setData D_SEQ SEQ_BLOCK_INIT)
  -- (3) FINISH: Index encoder
  let finish : NodeOp :=
    if act == 3 then onSub1 (guard I_IENC ⨟ allocSelf S.indexEnc skip) ⨟ setData D_SEQ SEQ_INDEX else skip
  (openBlock ⨟ dirty ⨟ closeBlock ⨟ finish) n

-- data slots of the stream decoder
def D_SD_MEMLIMIT := 0   -- coder->memlimit
def D_SD_MEMUSAGE := 1   -- coder->memusage
def D_SD_DONE := 2       -- number of Blocks decoded so far (where a resumed lzma_code continues)

/-- "no limit" (`UINT64_MAX`) -/
def NOLIMIT : Nat := 2 ^ 64 - 1

def streamDecoderInit (memlimit : Nat) : NodeOp :=
  guard I_SDEC ⨟ allocSelf S.streamDec skip
    ⨟ setData D_SD_MEMLIMIT (max 1 memlimit) ⨟ setData D_SD_MEMUSAGE S.memusageBase ⨟ setData D_SD_DONE 0
    ⨟ ensureBuf B_INDEX_HASH (some S.indexHash)

/-- `lzma_validate_chain` for decoders: 1-4 filters, LZMA1/LZMA2 only as the last one, BCJ/Delta never last -/
def chainShapeOk : Chain → Bool
  | [] => false
  | [.lzma ..] => true
  | [_] => false
  | (.lzma ..) :: _ => false
  | _ :: rest => chainShapeOk rest

def filterMemusage : Filter → Nat
  | .lzma v2 dict .. =>
    (if v2 then S.lzma2Dec else 0) + S.lzma1Dec + S.lzDec + dict + 2 * S.dictRepeatMax + S.dictExtra
  | .delta _ => S.delta
  | .bcj .. => 1024

/-- `lzma_raw_decoder_memusage(filters)`; `none` = `UINT64_MAX` (chain not usable) -/
def chainMemusage (c : Chain) : Option Nat :=
  if chainShapeOk c && c.length ≤ 4 then some ((c.map (filterMemusage S)).foldl (· + ·) S.memusageBase) else none

/-- SEQ_BLOCK_INIT of `stream_decode`: Block Header decoding allocates the filter options (temporaries on the C stack);
    the memory usage of the chain is computed; `UINT64_MAX` -> LZMA_OPTIONS_ERROR; over the limit -> LZMA_MEMLIMIT_ERROR
    (recoverable: the decoder stays at SEQ_BLOCK_INIT and a later lzma_code decodes the header again); otherwise the
    Block decoder is (re)initialised. On EVERY path the temporaries are freed before returning. -/
def streamDecodeBlock (c : Chain) : NodeOp :=
  withTempOpts (c.map (optSizeDecode S)) (fun n =>
    match chainMemusage S c with
    | none => failOp OPTIONS_ERROR n
    | some u =>
      (setData D_SD_MEMUSAGE u
        ⨟ (fun n => if u > n.dat D_SD_MEMLIMIT then failOp MEMLIMIT_ERROR n else onSub0 (blockDecoderInit S c) n)) n)
  ⨟ incData D_SD_DONE

def repeatOp : Nat → NodeOp → NodeOp
  | 0, _ => skip
  | n + 1, op => op ⨟ repeatOp n op

/-- decoding `nstreams` concatenated Streams of `nblocks` Blocks each; continues after the Blocks already done -/
def streamDecode (c : Chain) (nblocks nstreams : Nat) : NodeOp := fun n =>
  repeatOp (nblocks * nstreams - n.dat D_SD_DONE) (streamDecodeBlock S c) n

/-- `stream_decoder_memconfig` with `new_memlimit != 0` -/
def streamDecoderMemlimit (new : Nat) : NodeOp := fun n =>
  if new < n.dat D_SD_MEMUSAGE then failOp MEMLIMIT_ERROR n else setData D_SD_MEMLIMIT new n

def aloneEncoderInit (f : Filter) : NodeOp :=
  guard I_AENC ⨟ allocSelf S.aloneEnc skip ⨟ onSub0 (nextFilterInit S true [f])

def microEncoderInit (f : Filter) : NodeOp :=
  guard I_MLENC ⨟ allocSelf S.microEnc skip ⨟ onSub0 (nextFilterInit S true [f])

def aloneDecoderInit : NodeOp := guard I_ALONEDEC ⨟ allocSelf S.aloneDec skip
def lzipDecoderInit : NodeOp := guard I_LZIPDEC ⨟ allocSelf S.lzipDec skip
def microDecoderInit : NodeOp := guard I_MLDEC ⨟ allocSelf S.microDec skip
-- data slots of the auto decoder
def D_AUTO_MEMLIMIT := 0
def D_AUTO_STARTED := 1   -- sequence != SEQ_INIT: the sub-decoder has been chosen and initialised

def autoDecoderInit (memlimit : Nat) : NodeOp :=
  guard I_AUTODEC ⨟ allocSelf S.autoDec skip ⨟ setData D_AUTO_MEMLIMIT (max 1 memlimit) ⨟ setData D_AUTO_STARTED 0

/-- `auto_decoder_memconfig`: forwarded to the sub-decoder once THIS file's sub-decoder has been chosen
    (`sequence != SEQ_INIT && next.memconfig != NULL`). Right after a (re-)initialisation `coder->next` may still hold
    the decoder of the previous file; it is not consulted then: limit = the new init limit, usage = LZMA_MEMUSAGE_BASE. -/
def autoDecoderMemlimit (new : Nat) : NodeOp := fun n =>
  if n.dat D_AUTO_STARTED != 0 && n.sub0.init == I_SDEC && !n.sub0.isNull then
    (onSub0 (streamDecoderMemlimit new) ⨟ setData D_AUTO_MEMLIMIT new) n
  else if n.dat D_AUTO_STARTED == 0 || n.sub0.isNull then
    (if new < S.memusageBase then failOp MEMLIMIT_ERROR n else setData D_AUTO_MEMLIMIT new n)
  else failOp PROG_ERROR n      -- .lzma / .lz sub-decoders: not modelled (the driver does not compare the code)

/-- SEQ_CODER_INIT of the .lzma / .lz / MicroLZMA decoders: `lzma_next_filter_init` at decode time; on
    failure the error is returned and the half-initialised LZ decoder STAYS in `coder->next`. -/
def lzmaDecodeInit (dict : Nat) : NodeOp :=
  onSub0 (nextFilterInit S false [.lzma false dict 0 0 0])

def indexEncoderInit : NodeOp := guard I_IENC ⨟ allocSelf S.indexEnc skip

/-- `if (coder == NULL) { alloc; coder->index = NULL; } else lzma_index_end(coder->index);` -/
def idecSelf : NodeOp := fun n => if n.isNull then allocSelf S.indexDec skip n else ixFree 0 n

def indexDecoderInit : NodeOp :=
  guard I_IDEC ⨟ idecSelf S ⨟ ixReinit0 S

/-- `index_decode` of an Index with `cnt` Records: `lzma_index_prealloc(cnt)`, then `cnt` appends -/
def indexDecode (cnt : Nat) : NodeOp :=
  (if cnt == 0 then skip else ixSetPrealloc0 cnt) ⨟ ixAppend0 S cnt

def fileInfoDecoderInit : NodeOp :=
  guard I_FIDEC ⨟ allocSelf S.fileInfo skip ⨟ ixFree 0 ⨟ ixFree 1

/-- move the decoded Index out of the Index decoder (`*coder->index_ptr = coder->index; coder->index = NULL`)
    into `this_index` of the file-info decoder -/
def fiTakeThis : NodeOp := fun n =>
  match n with
  | .mk i self bufs data opts none ix1 (.mk j sj bj dj oj (some x) y1 a b) s1 =>
    pure (OK, .mk i self bufs data opts (some x) ix1 (.mk j sj bj dj oj none y1 a b) s1)
  | n => pure (PROG_ERROR, n)

/-- `lzma_index_cat(this_index, combined_index)`; `combined_index = this_index; this_index = NULL` -/
def fiCombine : NodeOp := fun n =>
  match n with
  | .mk i self bufs data opts (some t) none s0 s1 =>
    pure (OK, .mk i self bufs data opts none (some t) s0 s1)
  | .mk i self bufs data opts (some t) (some c) s0 s1 => do
    match ← indexCat S t c with
    | .ok d => pure (OK, .mk i self bufs data opts none (some d) s0 s1)
    | .fail e d c' => pure (e, .mk i self bufs data opts (some d) (some c') s0 s1)
  | n => pure (PROG_ERROR, n)

/-- the file-info decoder over `nstreams` Streams (last Stream first) of `nblocks` Blocks each -/
def fileInfoDecode (nblocks nstreams : Nat) : NodeOp :=
  repeatOp nstreams (onSub0 (indexDecoderInit S) ⨟ onSub0 (indexDecode S nblocks) ⨟ fiTakeThis ⨟ fiCombine S)

/-! ## The handle and the world -/

structure World where
  strm : Option (Nat × Node) := none      -- strm->internal (its block id) and strm->internal->next
  ix : List (Option Index) := [none, none, none]   -- caller-owned lzma_index objects

def ixListIds : List (Option Index) → List Nat
  | [] => []
  | x :: t => ixIds x ++ ixListIds t

def World.ids (w : World) : List Nat :=
  (match w.strm with | none => [] | some (i, n) => i :: n.ids) ++ ixListIds w.ix

/-- `lzma_end` -/
def lzmaEnd (w : World) : M World :=
  match w.strm with
  | none => pure w
  | some (i, n) => do
    endNode n
    free1 i
    pure { w with strm := none }

/-- `lzma_next_strm_init(func, strm, ...)`: `lzma_strm_init` allocates `strm->internal` if needed; if the
    init function fails, `lzma_end(strm)` frees everything. -/
def strmEnsure (w : World) : M (Option (Nat × Node)) :=
  match w.strm with
  | some s => pure (some s)
  | none => do
    match ← alloc (some S.internal) with
    | none => pure none
    | some i => pure (some (i, Node.null 0))

def strmInit (op : NodeOp) (w : World) : M (Ret × World) := do
  match ← strmEnsure S w with
  | none => pure (MEM_ERROR, { w with strm := none })      -- (strm->internal was NULL and stays NULL)
  | some (i, n) =>
    let r ← op n
    if r.1 != OK then do
      let w' ← lzmaEnd { w with strm := some (i, r.2) }
      pure (r.1, w')
    else pure (OK, { w with strm := some (i, r.2) })

/-- an operation on `strm->internal->next` (coding, `lzma_filters_update`) -/
def onRoot (op : NodeOp) (w : World) : M (Ret × World) :=
  match w.strm with
  | none => pure (PROG_ERROR, w)
  | some (i, n) => do
    let r ← op n
    pure (r.1, { w with strm := some (i, r.2) })

def getIx : List (Option Index) → Nat → Option Index
  | [], _ => none
  | x :: _, 0 => x
  | _ :: t, i + 1 => getIx t i

def setIx : List (Option Index) → Nat → Option Index → List (Option Index)
  | [], _, _ => []
  | _ :: t, 0, v => v :: t
  | x :: t, i + 1, v => x :: setIx t i v

inductive Recipe where
  | xz (c : Chain) (nblocks nstreams : Nat)
  | lzma (dict : Nat)
  | lz (dict : Nat)
  | idx (n : Nat)
  | raw (c : Chain)
  | blk (c : Chain)
  | mlz (dict : Nat)
deriving Repr

/-- what `lzma_code` allocates when the decoder on the handle decodes the whole recipe -/
def decodeOp (r : Recipe) : NodeOp := fun n =>
  let i := n.init
  if i == I_SDEC then
    match r with | .xz c b s => streamDecode S c b s n | _ => pure (PROG_ERROR, n)
  else if i == I_ALONEDEC then
    match r with | .lzma d => lzmaDecodeInit S d n | _ => pure (PROG_ERROR, n)
  else if i == I_LZIPDEC then
    match r with | .lz d => lzmaDecodeInit S d n | _ => pure (PROG_ERROR, n)
  else if i == I_MLDEC then
    match r with | .mlz d => lzmaDecodeInit S d n | _ => pure (PROG_ERROR, n)
  else if i == I_AUTODEC then
    match r with
    | .xz c b s =>
      (whenD (fun n => n.dat D_AUTO_STARTED == 0)
          (onSub0 (streamDecoderInit S (n.dat D_AUTO_MEMLIMIT)) ⨟ setData D_AUTO_STARTED 1)
        ⨟ onSub0 (streamDecode S c b s)) n
    | .lz d => (onSub0 (lzipDecoderInit S) ⨟ onSub0 (lzmaDecodeInit S d)) n
    | .lzma d => (onSub0 (aloneDecoderInit S) ⨟ onSub0 (lzmaDecodeInit S d)) n
    | _ => pure (PROG_ERROR, n)
  else if i == I_IDEC then
    match r with | .idx c => indexDecode S c n | _ => pure (PROG_ERROR, n)
  else if i == I_FIDEC then
    match r with | .xz _ b s => fileInfoDecode S b s n | _ => pure (PROG_ERROR, n)
  else pure (OK, n)     -- raw / block decoders: nothing is allocated while coding

/-- hand the finished Index to the caller (`*i = coder->index; coder->index = NULL`): index decoder keeps it
    in `ix0`, the file-info decoder in `ix1` (`combined_index`) -/
def takeIndex (slot : Nat) (w : World) : World :=
  match w.strm with
  | some (i, .mk k self bufs data opts ix0 ix1 s0 s1) =>
    if (getIx w.ix slot).isSome || slot ≥ w.ix.length then w
    else if k == I_IDEC then
      { strm := some (i, .mk k self bufs data opts none ix1 s0 s1), ix := setIx w.ix slot ix0 }
    else if k == I_FIDEC then
      { strm := some (i, .mk k self bufs data opts ix0 none s0 s1), ix := setIx w.ix slot ix1 }
    else w
  | _ => w

/-- One public API call. -/
inductive Op where
  -- inits on the handle
  | streamEncoder (c : Chain)
  | aloneEncoder (f : Filter)
  | microEncoder (f : Filter)
  | rawEncoder (c : Chain)
  | rawDecoder (c : Chain)
  | blockEncoder (c : Chain)
  | blockDecoder (c : Chain)
  | indexEncoder
  | streamDecoder (memlimit : Nat)
  | autoDecoder (memlimit : Nat)
  | aloneDecoder
  | lzipDecoder
  | microDecoder
  | indexDecoder
  | fileInfoDecoder
  -- coding on the handle
  | encode (c : Chain) (act len : Nat)      -- c = the chain the stream encoder currently uses
  | decode (r : Recipe) (slot : Nat)        -- slot = where idec/fidec deliver the Index
  | memlimitSet (new : Nat)                 -- lzma_memlimit_set on a stream / auto decoder
  | filtersUpdate (cur c : Chain)           -- cur = the chain the stream encoder currently uses
  | badFlagsInit (which : Nat)              -- stream / lzip / auto decoder init with unsupported flags: LZMA_OPTIONS_ERROR
  | lzmaEnd
  -- lzma_index_* with an allocator
  | ixInit (s : Nat)
  | ixAppend (s cnt : Nat)
  | ixCat (d s : Nat)
  | ixDup (d s : Nat)
  | ixEnd (s : Nat)
  | ixBufDecode (s cnt : Nat)
  -- filters, headers, strings
  | filtersCopy (c : Chain)
  | blockHeaderDecode (c : Chain)
  | propsDecode (f : Filter)
  | strToFilters (nalloc : Nat) (sz : List Nat) (parseErrAt : Option Nat) (fails : Bool)
  | strAlloc
  -- single-call buffer API
  | streamBufferDecode (c : Chain) (nblocks nstreams : Nat)
  | streamBufferEncode (c : Chain)
  | rawBufferCode (enc : Bool) (c : Chain)
  | blockBufferDecode (c : Chain)
deriving Repr

/-- allocate then free again (`lzma_str_from_filters`, `lzma_properties_decode` + free by the caller, ...) -/
def allocFreeList : List (Option Nat) → M Ret := fun l => do
  match ← allocOpts false l [] with
  | none => pure MEM_ERROR
  | some tmp => do freeOpts tmp; pure OK

/-- a temporary `lzma_next_coder` on the C stack: init, then `lzma_next_end` whatever happened -/
def tempCoder (op : NodeOp) : M Ret := do
  let r ← op (.null 0)
  endNode r.2
  pure r.1

def runOp (w : World) : Op → M (Ret × World)
  | .streamEncoder c => strmInit S (streamEncoderInit S c) w
  | .aloneEncoder f => strmInit S (aloneEncoderInit S f) w
  | .microEncoder f => strmInit S (microEncoderInit S f) w
  | .rawEncoder c => strmInit S (rawCoderInit S true c) w
  | .rawDecoder c => strmInit S (rawCoderInit S false c) w
  | .blockEncoder c => strmInit S (blockEncoderInit S c) w
  | .blockDecoder c => strmInit S (blockDecoderInit S c) w
  | .indexEncoder => strmInit S (indexEncoderInit S) w
  | .streamDecoder ml => strmInit S (streamDecoderInit S ml) w
  | .autoDecoder ml => strmInit S (autoDecoderInit S ml) w
  | .memlimitSet new =>
    onRoot (fun n => if n.init == I_SDEC then streamDecoderMemlimit new n
                     else if n.init == I_AUTODEC then autoDecoderMemlimit S new n else pure (PROG_ERROR, n)) w
  | .aloneDecoder => strmInit S (aloneDecoderInit S) w
  | .lzipDecoder => strmInit S (lzipDecoderInit S) w
  | .microDecoder => strmInit S (microDecoderInit S) w
  | .indexDecoder => strmInit S (indexDecoderInit S) w
  | .fileInfoDecoder => strmInit S (fileInfoDecoderInit S) w
  | .encode c act len =>
    onRoot (fun n => if n.init == I_SENC then streamEncode S c act len n else pure (OK, n)) w
  | .decode r slot => do
    let res ← onRoot (decodeOp S r) w
    if res.1 == OK then pure (STREAM_END, takeIndex slot res.2) else pure res
  | .filtersUpdate cur c =>
    -- lzma_filters_update() validates the chain (lzma_raw_encoder_memusage) before calling the coder
    if !chainValid c then pure (OPTIONS_ERROR, w) else
    onRoot (fun n => if n.init == I_SENC then streamEncoderUpdate S cur c n else pure (PROG_ERROR, n)) w
  | .badFlagsInit which =>
    -- `lzma_next_coder_init(...)` comes first, then `if (flags & ~LZMA_SUPPORTED_FLAGS) return LZMA_OPTIONS_ERROR;`
    strmInit S (guard (if which == 0 then I_SDEC else if which == 1 then I_LZIPDEC else I_AUTODEC) ⨟ failOp OPTIONS_ERROR) w
  | .lzmaEnd => do let w' ← lzmaEnd w; pure (OK, w')
  | .ixInit s =>
    if (getIx w.ix s).isSome || s ≥ w.ix.length then pure (PROG_ERROR, w) else do
    match ← indexInit S with
    | none => pure (RET_NULL, w)
    | some i => pure (OK, { w with ix := setIx w.ix s (some i) })
  | .ixAppend s cnt =>
    match getIx w.ix s with
    | none => pure (PROG_ERROR, w)
    | some i => do
      let r ← indexAppendN S cnt i
      pure (r.1, { w with ix := setIx w.ix s (some r.2) })
  | .ixCat d s =>
    if d == s then pure (PROG_ERROR, w) else
    match getIx w.ix d, getIx w.ix s with
    | some di, some si => do
      match ← indexCat S di si with
      | .ok x => pure (OK, { w with ix := setIx (setIx w.ix d (some x)) s none })
      | .fail e x y => pure (e, { w with ix := setIx (setIx w.ix d (some x)) s (some y) })
    | _, _ => pure (PROG_ERROR, w)
  | .ixDup d s =>
    if (getIx w.ix d).isSome || d ≥ w.ix.length then pure (PROG_ERROR, w) else
    match getIx w.ix s with
    | none => pure (PROG_ERROR, w)
    | some si => do
      match ← indexDup S si with
      | none => pure (RET_NULL, w)
      | some c => pure (OK, { w with ix := setIx w.ix d (some c) })
  | .ixEnd s => do
    indexEnd (getIx w.ix s)
    pure (OK, { w with ix := setIx w.ix s none })
  | .ixBufDecode s cnt =>
    if (getIx w.ix s).isSome || s ≥ w.ix.length then pure (PROG_ERROR, w) else do
    match ← indexInit S with
    | none => pure (MEM_ERROR, w)
    | some i0 =>
      let i1 := if cnt == 0 then i0 else { i0 with prealloc := cnt }
      let r ← indexAppendN S cnt i1
      if r.1 != OK then do
        indexEnd (some r.2)
        pure (r.1, w)
      else pure (OK, { w with ix := setIx w.ix s (some r.2) })
  | .filtersCopy c => do
    match ← filtersCopy (c.map (optSizeCopy S)) with
    | none => pure (MEM_ERROR, w)
    | some d => do freeOpts d; pure (OK, w)
  | .blockHeaderDecode c => do
    let r ← allocFreeList (c.map (optSizeDecode S))
    pure (r, w)
  | .propsDecode f => do
    let r ← allocFreeList [optSizeDecode S f]
    pure (r, w)
  | .strToFilters nalloc sz parseErrAt fails => do
    -- `nalloc` option structs are allocated one by one (sizes `sz`); a parse error in filter `parseErrAt`
    -- frees that filter's struct at once; any error frees the earlier ones in reverse order.
    let sizes := (List.range nalloc).map (fun k => some (sz.getD k 0))
    match ← allocOpts true sizes [] with
    | none => pure (MEM_ERROR, w)
    | some tmp =>
      match parseErrAt with
      | some _ =>
        match tmp.reverse with
        | [] => pure (OPTIONS_ERROR, w)
        | last :: before => do
          free last
          freeOpts before
          pure (OPTIONS_ERROR, w)
      | none =>
        if fails then do freeOptsRev tmp; pure (OPTIONS_ERROR, w)
        else do freeOpts tmp; pure (OK, w)
  | .strAlloc => do
    let r ← allocFreeList [some S.strAlloc]
    pure (r, w)
  | .streamBufferDecode c b s => do
    let r ← tempCoder (streamDecoderInit S NOLIMIT ⨟ streamDecode S c b s)
    pure (r, w)
  | .streamBufferEncode c => do
    -- lzma_block_buffer_encode (temporary raw encoder), then a temporary Index with one Record
    let r ← tempCoder (rawCoderInit S true c)
    if r != OK then pure (r, w) else do
    match ← indexInit S with
    | none => pure (MEM_ERROR, w)
    | some i => do
      let a ← indexAppend S i
      indexEnd (some a.2)
      pure (a.1, w)
  | .rawBufferCode enc c => do
    let r ← tempCoder (rawCoderInit S enc c)
    pure (r, w)
  | .blockBufferDecode c => do
    let r ← tempCoder (blockDecoderInit S c)
    pure (r, w)

/-- a history of API calls on one handle (return codes are collected, newest first) -/
def runOps : List Op → World → M (List Ret × World)
  | [], w => pure ([], w)
  | op :: rest, w => do
    let r ← runOp S w op
    let rs ← runOps rest r.2
    pure (r.1 :: rs.1, rs.2)

/-- release everything the caller still owns: `lzma_end` and `lzma_index_end` for every slot -/
def cleanup (w : World) : M World := do
  let _ ← lzmaEnd w
  let rec go : List (Option Index) → M Unit
    | [] => pure ()
    | x :: t => do indexEnd x; go t
  go w.ix
  pure { strm := none, ix := w.ix.map (fun _ => none) }

end XzVerif.Alloc
