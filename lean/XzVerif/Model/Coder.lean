/-
  The coder framework of DESIGN.md section 5 (property C06).  Core Lean only.

  * `Coder σ`            one `code` call of a `lzma_next_coder`: state, offered input, output capacity, action ↦ new state, response
  * `runSliced`          feeds a slicing (list of `(inLen, outCap)` pieces, zeros allowed) and concatenates; the twin of
                         `c06_run_sliced` in harness/c06_run.h
  * `ByteMachine`        byte-at-a-time normal form: every micro-step emits one byte, or reads one byte (or the end-of-input
                         signal), or is finished with a return code
  * `Coder.ofByteMachine`  run the machine for as long as the call's buffers allow

  Chunk-faithful models of the small resumable coders of liblzma live in `Model/CoderSmall.lean`.
-/
import XzVerif.Model.Ret

namespace XzVerif.Coder

/-- `lzma_action` (constructor order = numeric value). -/
inductive Action where
  | run | syncFlush | fullFlush | finish | fullBarrier
  deriving DecidableEq, Repr, Inhabited

/-- What one call reports: bytes of the offered input consumed, bytes produced, return code. -/
structure Resp where
  consumed : Nat
  out : List UInt8
  ret : Ret
  deriving Repr, DecidableEq

structure Coder (σ : Type) where
  code : σ → (inp : List UInt8) → (outCap : Nat) → Action → σ × Resp

/-- The well-formedness law: a call never consumes more than it was offered nor produces more than the capacity. -/
def Coder.WellFormed {σ : Type} (c : Coder σ) : Prop :=
  ∀ s inp cap a, (c.code s inp cap a).2.consumed ≤ inp.length ∧ (c.code s inp cap a).2.out.length ≤ cap

/-- State of a sliced run: the coder state, the input not yet consumed, everything produced so far, the number of bytes consumed,
    the return code of the last call (`ok` before the first), and whether the run is *settled*: the last call returned something
    other than `LZMA_OK`, or it was offered all the remaining input, left spare output capacity and still returned `LZMA_OK`
    (the situation in which `lzma_code()` eventually answers `LZMA_BUF_ERROR`). A settled run cannot be continued to a different
    result by any further pieces — that is what "fair slicing" means. -/
structure Run (σ : Type) where
  state : σ
  rest : List UInt8
  out : List UInt8
  consumed : Nat
  ret : Ret
  settled : Bool

def Run.init {σ : Type} (s : σ) (input : List UInt8) : Run σ :=
  { state := s, rest := input, out := [], consumed := 0, ret := .ok, settled := false }

/-- One piece `(inLen, outCap)`: offer `min inLen |rest|` bytes; the action is `LZMA_FINISH` iff `fin` (the caller finishes the stream)
    and the piece reaches the end of the input. -/
def runPiece {σ : Type} (c : Coder σ) (fin : Bool) (r : Run σ) (inLen cap : Nat) : Run σ :=
  let act := if fin && decide (r.rest.length ≤ inLen) then Action.finish else Action.run
  let res := c.code r.state (r.rest.take inLen) cap act
  { state := res.1
    rest := r.rest.drop res.2.consumed
    out := r.out ++ res.2.out
    consumed := r.consumed + res.2.consumed
    ret := res.2.ret
    settled := decide (res.2.ret ≠ .ok) || (decide (r.rest.length ≤ inLen) && decide (res.2.out.length < cap)) }

/-- Feed a slicing. Nothing more is called once a call has returned something other than `LZMA_OK`. -/
def runSliced {σ : Type} (c : Coder σ) (fin : Bool) : List (Nat × Nat) → Run σ → Run σ
  | [], r => r
  | (inLen, cap) :: sl, r => if r.ret ≠ .ok then r else runSliced c fin sl (runPiece c fin r inLen cap)

/-! ### Byte machines -/

inductive MStep (μ : Type) where
  /-- write one byte, continue in `next` -/
  | emit (b : UInt8) (next : μ)
  /-- read one byte (`some b`), or learn that the input is finished (`none`; told at most once, only under `LZMA_FINISH`) -/
  | read (k : Option UInt8 → μ)
  /-- finished with this return code (`LZMA_STREAM_END` or an error) -/
  | done (r : Ret)

structure ByteMachine (μ : Type) where
  step : μ → MStep μ

/-- Run a machine inside one call: `fin` = the action is `LZMA_FINISH`, `eof` = the end of input has already been signalled. -/
def ByteMachine.exec {μ : Type} (m : ByteMachine μ) (fin : Bool) (st : μ) (eof : Bool) (inp : List UInt8) (cap : Nat) :
    (μ × Bool) × Resp :=
  match m.step st with
  | .done r => ((st, eof), ⟨0, [], r⟩)
  | .emit b nx =>
    match cap with
    | 0 => ((st, eof), ⟨0, [], .ok⟩)
    | cap' + 1 =>
      let r := m.exec fin nx eof inp cap'
      (r.1, ⟨r.2.consumed, b :: r.2.out, r.2.ret⟩)
  | .read k =>
    match inp with
    | b :: rest =>
      let r := m.exec fin (k (some b)) eof rest cap
      (r.1, ⟨r.2.consumed + 1, r.2.out, r.2.ret⟩)
    | [] =>
      if fin && !eof then m.exec fin (k none) true [] cap
      else ((st, eof), ⟨0, [], .ok⟩)
termination_by inp.length + cap + (if eof then 0 else 1)
decreasing_by
  all_goals simp_wf
  rename_i h
  cases eof <;> simp_all

/-- The coder a byte machine denotes. State = machine state × "end of input already signalled". -/
def Coder.ofByteMachine {μ : Type} (m : ByteMachine μ) : Coder (μ × Bool) where
  code s inp cap a := m.exec (a == .finish) s.1 s.2 inp cap

/-- The return code a call reports when it stops in machine state `st`. -/
def ByteMachine.retOf {μ : Type} (m : ByteMachine μ) (st : μ) : Ret :=
  match m.step st with
  | .done r => r
  | _ => .ok

end XzVerif.Coder
