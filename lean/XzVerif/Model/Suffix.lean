/-
  Executable model of the naming / refusal / metadata rules of the `xz` tool (property C19).
  Core Lean only (the driver `xzm_c19` links this).

  Mirrors (xz 5.8.1):
    src/xz/suffix.c   test_suffix, uncompressed_name, compressed_name, suffix_get_dest_name, suffix_set, suffix_is_set
    src/xz/file_io.c  io_open_src_real (refusal rules), io_open_dest_real (--force / O_EXCL), io_copy_attrs (mode),
                      io_close_src (unlink of the source)
    src/xz/args.c     the normalisation  --stdout / --test  ⇒  keep_original  (args.c:831)
    src/xz/main.c     set_exit_status, --no-warn mapping at the end of main()

  POSIX branch only: in this build TUKLIB_DOSLIKE, __DJGPP__, __VMS and _MSC_VER are undefined, so the case-insensitive
  compare, the extra directory separators '\\' and ':', the 8.3 short-name logic, ".lzm" and the "-" suffix are compiled
  out of suffix.c and are NOT modelled. HAVE_LZIP_DECODER is defined (".lz" is in the decompression table, FORMAT_LZIP = 3).

  Names are `List UInt8` (C strings without the terminating NUL; a file name never contains NUL).
  The built-in tables below are hand-copied from the source; `Props/C19.lean` proves them equal to the tables that
  `harness/c19_suffix.c` extracts from the running code into `Gen/C19.lean` on every check.
-/
namespace XzVerif.Suffix

abbrev Name := List UInt8

def slash : UInt8 := 0x2f
def dot : UInt8 := 0x2e

/-! ## suffix.c -/

/-- `test_suffix(suffix, src_name, src_len)`: `src_len - strlen(suffix)` if `src_name` ends in `suffix`, at least one
    more character precedes it and that character is not a directory separator; otherwise 0. -/
def testSuffix (suffix name : Name) : Nat :=
  if name.length ≤ suffix.length then 0
  else if name.getD (name.length - suffix.length - 1) 0 == slash then 0
  else if name.drop (name.length - suffix.length) == suffix then name.length - suffix.length
  else 0

/-- `enum format_type` (coder.h); values checked against Gen. -/
inductive Format where
  | auto | xz | lzma | lzip | raw
  deriving DecidableEq, Repr, Inhabited

def Format.toNat : Format → Nat
  | .auto => 0 | .xz => 1 | .lzma => 2 | .lzip => 3 | .raw => 4

def sXz : Name := [0x2e, 0x78, 0x7a]                 -- ".xz"
def sTxz : Name := [0x2e, 0x74, 0x78, 0x7a]          -- ".txz"
def sLzma : Name := [0x2e, 0x6c, 0x7a, 0x6d, 0x61]   -- ".lzma"
def sTlz : Name := [0x2e, 0x74, 0x6c, 0x7a]          -- ".tlz"
def sLz : Name := [0x2e, 0x6c, 0x7a]                 -- ".lz"
def sTar : Name := [0x2e, 0x74, 0x61, 0x72]          -- ".tar"

/-- `suffixes[]` in `uncompressed_name()`: (compressed, uncompressed), in the order they are tested. -/
def uncompTable : List (Name × Name) :=
  [(sXz, []), (sTxz, sTar), (sLzma, []), (sTlz, sTar), (sLz, [])]

/-- `all_suffixes[opt_format - 1]` in `compressed_name()`; `lzip` (cannot be compressed to) and `raw` have none. -/
def compSuffixes : Format → List Name
  | .xz => [sXz, sTxz]
  | .lzma => [sLzma, sTlz]
  | _ => []

/-- First entry of the table (in order) that `test_suffix` accepts: (new_len, new_suffix). -/
def firstMatch : List (Name × Name) → Name → Option (Nat × Name)
  | [], _ => none
  | (c, u) :: rest, name =>
    if testSuffix c name ≠ 0 then some (testSuffix c name, u) else firstMatch rest name

/-- `uncompressed_name()` over an explicit table. `none` = "Filename has an unknown suffix, skipping" (warning). -/
def uncompressedNameT (tbl : List (Name × Name)) (fmt : Format) (custom : Option Name) (name : Name) : Option Name :=
  let builtin := if fmt ≠ .raw then firstMatch tbl name else none
  match builtin with
  | some (n, u) => some (name.take n ++ u)
  | none =>
    match custom with
    | some c => if testSuffix c name ≠ 0 then some (name.take (testSuffix c name)) else none
    | none => none

/-- `custom_suffix != NULL && test_suffix(custom_suffix, …) != 0` -/
def customMatches (custom : Option Name) (name : Name) : Bool :=
  match custom with
  | some c => testSuffix c name != 0
  | none => false

/-- `compressed_name()` over an explicit per-format list `sufs` (= `all_suffixes[format]`) and default suffix `dflt`
    (= `suffixes[0]`, which is NULL for raw). `none` = "File already has '…' suffix, skipping" (warning),
    or — for a format without default suffix and no custom suffix — the state args.c:862 makes unreachable
    (`--format=raw` without `--suffix` is a fatal usage error unless writing to stdout). -/
def compressedNameT (sufs : List Name) (dflt : Option Name) (custom : Option Name) (name : Name) : Option Name :=
  if sufs.any (fun s => testSuffix s name != 0) then none
  else if customMatches custom name then none
  else match (match custom with | some c => some c | none => dflt) with
    | some s => some (name ++ s)
    | none => none

def uncompressedName (fmt : Format) (custom : Option Name) (name : Name) : Option Name :=
  uncompressedNameT uncompTable fmt custom name

def compressedName (fmt : Format) (custom : Option Name) (name : Name) : Option Name :=
  compressedNameT (compSuffixes fmt) (compSuffixes fmt).head? custom name

/-- `enum operation_mode` (coder.h). Only compress/decompress reach `suffix_get_dest_name`. -/
inductive OpMode where
  | compress | decompress
  deriving DecidableEq, Repr, Inhabited

/-- `suffix_get_dest_name()`. -/
def destName (mode : OpMode) (fmt : Format) (custom : Option Name) (name : Name) : Option Name :=
  match mode with
  | .compress => compressedName fmt custom name
  | .decompress => uncompressedName fmt custom name

/-- `suffix_set()`: `none` = message_fatal("Invalid filename suffix"); otherwise the new `custom_suffix`. -/
def suffixSet (s : Name) : Option Name :=
  if s.isEmpty || s.contains slash then none else some s

/-- `suffix_is_set()` after `suffix_set(s)` on a fresh process. -/
def suffixIsSet (s : Name) : Bool := (suffixSet s).isSome

/-! ## io_open_src_real: refusal rules -/

/-- What `open()`+`fstat()` find at the end of the path (after following symlinks, if they are followed). -/
inductive Kind where
  | reg | dir | fifo | sock | missing
  deriving DecidableEq, Repr, Inhabited

def Kind.toNat : Kind → Nat
  | .reg => 0 | .dir => 1 | .fifo => 2 | .sock => 3 | .missing => 4

def Kind.ofCode : Nat → Kind
  | 0 => .reg | 1 => .dir | 2 => .fifo | 3 => .sock | _ => .missing

/-- The three globals as the code in file_io.c sees them. -/
structure Flags where
  stdout : Bool
  force : Bool
  keep : Bool
  deriving DecidableEq, Repr, Inhabited

/-- args.c:831: `--stdout` (and `--test`) imply `keep_original`. -/
def normFlags (f : Flags) : Flags := { f with keep := f.keep || f.stdout }

structure Src where
  kind : Kind
  /-- the path itself is a symbolic link (to an object of kind `kind`; `missing` = dangling link) -/
  symlink : Bool
  setuid : Bool
  setgid : Bool
  sticky : Bool
  nlink : Nat
  deriving DecidableEq, Repr, Inhabited

/-- Result of `io_open_src_real`; warnings and errors both mean "this file is skipped, nothing is written". -/
inductive SrcDecision where
  | ok
  | warnSymlink | warnDir | warnNotRegular | warnSetuidSetgid | warnSticky | warnLinks
  | errNoEnt | errNxio
  deriving DecidableEq, Repr, Inhabited

/-- codes used by the harness / Gen rows -/
def SrcDecision.toNat : SrcDecision → Nat
  | .ok => 0 | .warnSymlink => 1 | .warnDir => 2 | .warnNotRegular => 3 | .warnSetuidSetgid => 4
  | .warnSticky => 5 | .warnLinks => 6 | .errNoEnt => 21 | .errNxio => 22

/-- Same order of checks as the C code: O_NOFOLLOW first, then open() errors, directory, regular-file requirement,
    setuid/setgid, sticky, hard links. `multi` is `st_nlink > 1`. -/
def srcDecisionCore (kind : Kind) (symlink setuid setgid sticky multi : Bool) (f : Flags) : SrcDecision :=
  let followSymlinks := f.stdout || f.force || f.keep
  let regFilesOnly := !f.stdout
  if symlink && !followSymlinks then .warnSymlink        -- open(O_NOFOLLOW) fails with ELOOP, lstat says S_ISLNK
  else match kind with
    | .missing => .errNoEnt                               -- open() fails: ENOENT
    | .sock => .errNxio                                   -- open() of a socket fails: ENXIO (Linux)
    | .dir => .warnDir
    | k =>
      if regFilesOnly && k ≠ .reg then .warnNotRegular
      else if regFilesOnly && !f.force && !f.keep then
        if setuid || setgid then .warnSetuidSetgid
        else if sticky then .warnSticky
        else if multi then .warnLinks
        else .ok
      else .ok

def srcDecision (s : Src) (f : Flags) : SrcDecision :=
  srcDecisionCore s.kind s.symlink s.setuid s.setgid s.sticky (decide (s.nlink > 1)) f

/-! ## args.c: how the three flags (and mode / format) come about -/

/-- What `args_parse()` derives from `argv[0]` (substring tests on the base name, in this order). -/
inductive Prog where
  | xz | xzcat | unxz | lzcat | unlzma | lzma | other
  deriving DecidableEq, Repr, Inhabited

def Prog.ofCode : Nat → Prog
  | 0 => .xz | 1 => .xzcat | 2 => .unxz | 3 => .lzcat | 4 => .unlzma | 5 => .lzma | _ => .other

/-- The options that matter for C19; the same parser (`parse_real`) handles XZ_DEFAULTS, XZ_OPT and the command line. -/
inductive Opt where
  | stdout        -- `-c`, `--stdout`, `--to-stdout`
  | keep          -- `-k`
  | force         -- `-f`
  | decompress    -- `-d`
  | compress      -- `-z`
  | test          -- `-t`
  deriving DecidableEq, Repr, Inhabited

/-- option index used in Gen `argsRows`: 0 nothing, 1 -c, 2 -k, 3 -f, 4 -d, 5 -z, 6 -t, 7 --stdout -/
def Opt.ofCode : Nat → List Opt
  | 1 => [.stdout] | 2 => [.keep] | 3 => [.force] | 4 => [.decompress] | 5 => [.compress] | 6 => [.test] | 7 => [.stdout]
  | _ => []

inductive RunMode where
  | compress | decompress | test
  deriving DecidableEq, Repr, Inhabited

def RunMode.toNat : RunMode → Nat
  | .compress => 0 | .decompress => 1 | .test => 2

structure Settings where
  mode : RunMode
  flags : Flags
  fmt : Format
  deriving DecidableEq, Repr, Inhabited

/-- the `argv[0]` block at the top of `args_parse()`; `xzcat`/`lzcat` select stdout WITHOUT going through `case 'c'` -/
def progDefaults : Prog → Settings
  | .xzcat => ⟨.decompress, ⟨true, false, false⟩, .auto⟩
  | .unxz => ⟨.decompress, ⟨false, false, false⟩, .auto⟩
  | .lzcat => ⟨.decompress, ⟨true, false, false⟩, .lzma⟩
  | .unlzma => ⟨.decompress, ⟨false, false, false⟩, .lzma⟩
  | .lzma => ⟨.compress, ⟨false, false, false⟩, .lzma⟩
  | _ => ⟨.compress, ⟨false, false, false⟩, .auto⟩

/-- one `case` of the `getopt_long` loop in `parse_real()` -/
def applyOpt (s : Settings) : Opt → Settings
  | .stdout => { s with flags := { s.flags with stdout := true } }
  | .keep => { s with flags := { s.flags with keep := true } }
  | .force => { s with flags := { s.flags with force := true } }
  | .decompress => { s with mode := .decompress }
  | .compress => { s with mode := .compress }
  | .test => { s with mode := .test }

/-- the fix-ups after parsing (args.c:828-846): stdout or test ⇒ keep_original := true, stdout := true;
    compressing with format auto ⇒ format xz -/
def finalizeSettings (s : Settings) : Settings :=
  let fl : Flags := if s.flags.stdout || s.mode == .test then { s.flags with keep := true, stdout := true } else s.flags
  { s with flags := fl, fmt := if s.mode == .compress && s.fmt == .auto then .xz else s.fmt }

/-- `args_parse()`: program name, then XZ_DEFAULTS, then XZ_OPT, then the command line. -/
def parseArgs (p : Prog) (envDefaults envOpt cmdline : List Opt) : Settings :=
  finalizeSettings ((envDefaults ++ envOpt ++ cmdline).foldl applyOpt (progDefaults p))

/-- result code of Gen `argsRows` -/
def Settings.code (s : Settings) : Nat :=
  s.mode.toNat + 4 * s.flags.stdout.toNat + 8 * s.flags.keep.toNat + 16 * s.flags.force.toNat + 32 * s.fmt.toNat

/-- environment variants of Gen `argsRows`: (XZ_DEFAULTS, XZ_OPT) -/
def envVariant : Nat → List Opt × List Opt
  | 1 => ([.stdout], []) | 2 => ([], [.stdout]) | 3 => ([], [.keep]) | 4 => ([.keep], [.decompress])
  | 5 => ([.stdout], [.compress]) | _ => ([], [])

/-! ## main.c: which names are files and which one is standard input -/

def dash : Name := [0x2d]

/-- Where a name comes from: an operand on the command line, or an entry of the `--files` / `--files0` list. -/
inductive NameSource where
  | cmdline | filesList
  deriving DecidableEq, Repr, Inhabited

/-- What `main()` does with one name. -/
inductive Target where
  | stdin                 -- `stdin_filename` is handed to coder_run(): read standard input, write standard output
  | file (n : Name)       -- coder_run(n)
  | refusedStdin          -- "Cannot read data from standard input when reading filenames from standard input" (error)
  deriving DecidableEq, Repr, Inhabited

/-- The first loop of `main()` turns the operand "-" into standard input; the second loop (names from the list) does not:
    "here we don't consider "-" to indicate stdin like we do with the command line arguments". -/
def nameTarget (src : NameSource) (listOnStdin : Bool) (name : Name) : Target :=
  match src with
  | .filesList => .file name
  | .cmdline => if name == dash then (if listOnStdin then .refusedStdin else .stdin) else .file name

/-- `read_name()` called until it returns NULL: the complete non-empty names, and whether reading ended with an error
    (end of input inside a name, or a NUL byte in a newline-separated list). `acc` is the name being collected. -/
def readNames (delim : UInt8) : List UInt8 → Name → List Name × Bool
  | [], acc => ([], !acc.isEmpty)
  | b :: rest, acc =>
    if b == delim then
      if acc.isEmpty then readNames delim rest []
      else ((acc :: (readNames delim rest []).1), (readNames delim rest []).2)
    else if b == 0 then ([], true)
    else readNames delim rest (acc ++ [b])

/-- list mode of Gen `mainRows`: 0 none, 1 `--files=FILE`, 2 `--files0=FILE`, 3 `--files` (stdin), 4 `--files0` (stdin) -/
def listDelim (mode : Nat) : UInt8 := if mode == 1 || mode == 3 then 0x0a else 0

/-- Everything `main()` hands to `coder_run()` (or refuses), in order: operands first, then the list. With no operand and
    no list, args.c supplies the single operand "-". The `Bool` is the list-read error. -/
def mainPlan (operands : List Name) (listMode : Nat) (listBytes : List UInt8) : List Target × Bool :=
  let onStdin := listMode == 3 || listMode == 4
  let ops := if operands.isEmpty && listMode == 0 then [dash] else operands
  let fromList := if listMode == 0 then ([], false) else readNames (listDelim listMode) listBytes []
  (ops.map (nameTarget .cmdline onStdin) ++ fromList.1.map (nameTarget .filesList onStdin), fromList.2)

/-- coding of a plan as in Gen `mainRows` (a name never contains byte 1 followed by 'S'/'R'/'E' in these rows) -/
def Target.code : Target → Name
  | .stdin => [1, 83] | .refusedStdin => [1, 82] | .file n => n

def mainPlanCode (operands : List Name) (listMode : Nat) (listBytes : List UInt8) : List Name :=
  let p := mainPlan operands listMode listBytes
  p.1.map Target.code ++ (if p.2 then [[1, 69]] else [])

/-! ## io_open_dest_real / io_close: what happens at the target name -/

/-- What already exists at the target name. -/
inductive DestKind where
  | none | file | dir | symlinkFile | symlinkDangling
  deriving DecidableEq, Repr, Inhabited

def DestKind.ofCode : Nat → DestKind
  | 0 => .none | 1 => .file | 2 => .dir | 3 => .symlinkFile | _ => .symlinkDangling

inductive DestDecision where
  | stdout          -- nothing is created
  | create          -- open(O_CREAT|O_EXCL) creates a new regular file (after unlink() of the old object under --force)
  | errExists       -- EEXIST, the existing object is untouched
  | errCannotRemove -- --force, but unlink() failed (directory): the existing object is untouched
  deriving DecidableEq, Repr, Inhabited

def destDecision (d : DestKind) (f : Flags) : DestDecision :=
  if f.stdout then .stdout
  else if f.force then (if d = .dir then .errCannotRemove else .create)
  else if d = .none then .create else .errExists

/-- Row of Gen `destRows`: [stage, message, old object untouched, new regular file at target, source removed]
    for a regular single-link source, successful coding. -/
def destRow (d : DestKind) (f : Flags) : List Nat :=
  match destDecision d f with
  | .stdout => [2, 0, 1, 0, if f.keep then 0 else 1]
  | .create => [2, 0, if d = .none then 1 else 0, 1, if f.keep then 0 else 1]
  | .errExists => [1, 20, 1, 0, 0]
  | .errCannotRemove => [1, 21, 1, 0, 0]

/-! ## io_copy_attrs: mode of the target -/

/-- The `mode` handed to `fchmod()`. `groupFail` = the target got a different group and `fchown(-1, gid)` failed. -/
def destMode (m : Nat) (groupFail : Bool) : Nat :=
  if groupFail then
    let g := ((m &&& 0o070) >>> 3) &&& (m &&& 0o007)
    (m &&& 0o700) ||| (g <<< 3) ||| g
  else m &&& 0o777

/-! ## exit status (main.c / message.c) -/

inductive Status where
  | success | error | warning
  deriving DecidableEq, Repr, Inhabited

def Status.toNat : Status → Nat
  | .success => 0 | .error => 1 | .warning => 2

def Status.ofCode : Nat → Status
  | 0 => .success | 1 => .error | _ => .warning

/-- `set_exit_status(new_status)`; `new` is `warning` or `error`. -/
def setExitStatus (old new : Status) : Status :=
  if old ≠ .error then new else old

/-- the end of `main()`: `--no-warn` turns `E_WARNING` into `E_SUCCESS`. -/
def finalStatus (es : Status) (noWarn : Bool) : Status :=
  if es = .warning && noWarn then .success else es

/-- exit status of a run that reported these events (each `warning` or `error`) in this order. -/
def runStatus (events : List Status) (noWarn : Bool) : Status :=
  finalStatus (events.foldl setExitStatus .success) noWarn

/-! ## one file through `coder_run()` (compress/decompress, coding itself succeeds) -/

structure FileCase where
  mode : OpMode
  fmt : Format
  custom : Option Name
  flags : Flags             -- raw flags; `normFlags` is applied like args.c does
  name : Name
  src : Src
  srcMode : Nat             -- permission + special bits, 0..07777 (must agree with src.setuid/setgid/sticky)
  dest : DestKind           -- what sits at the computed target name
  groupFail : Bool          -- fchown(group) fails
  ownerFail : Bool          -- fchown(owner) fails (reported only when running as root)
  deriving Repr, Inhabited

inductive Action where
  | emptyName               -- "Empty filename, skipping" (error)
  | srcRefused (d : SrcDecision)
  | nameSkipped             -- already has suffix / unknown suffix (warning)
  | destRefused (d : DestDecision)
  | toStdout
  | done (dest : Name) (mode : Nat)
  deriving DecidableEq, Repr, Inhabited

structure Outcome where
  action : Action
  events : List Status      -- warnings / errors reported, in order
  srcRemoved : Bool
  deriving DecidableEq, Repr, Inhabited

def runFile (c : FileCase) : Outcome :=
  let f := normFlags c.flags
  if c.name.isEmpty then ⟨.emptyName, [.error], false⟩
  else match srcDecision c.src f with
  | .errNoEnt => ⟨.srcRefused .errNoEnt, [.error], false⟩
  | .errNxio => ⟨.srcRefused .errNxio, [.error], false⟩
  | .ok =>
    if f.stdout then ⟨.toStdout, [], false⟩
    else match destName c.mode c.fmt c.custom c.name with
    | none => ⟨.nameSkipped, [.warning], false⟩
    | some t =>
      match destDecision c.dest f with
      | .create =>
        let ev := (if c.ownerFail then [Status.warning] else []) ++ (if c.groupFail then [Status.warning] else [])
        ⟨.done t (destMode c.srcMode c.groupFail), ev, !f.keep⟩
      | d => ⟨.destRefused d, [.error], false⟩
  | d => ⟨.srcRefused d, [.warning], false⟩

end XzVerif.Suffix
