/-
  C18 — model of the output side of the `xz` tool (src/xz/file_io.c, coder.c, main.c) and of xzdec.

  * `Dest`      : the destination as the kernel sees it — a regular file `(content, offset, O_APPEND)`
                  with POSIX `lseek`-past-EOF / `write` semantics, or a non-seekable sink (pipe, tty, …).
  * `ioWrite`   : `io_write()` with `dest_try_sparse` / `dest_pending_sparse` exactly as in file_io.c
                  (only full `IO_BUFFER_SIZE` all-zero buffers become a pending hole; `lseek(SEEK_CUR)` before
                  the next data; at close `lseek(pending-1)` + one zero byte).
  * `openStdout`: the enabling decision of `io_open_dest_real()` for standard output
                  (regular file, at EOF, O_APPEND cleared, O_NONBLOCK set; flags restored by `io_close_dest`).
  * `coderNormal`: the output rule of `coder_normal()` (write everything decoded before an error, nothing after;
                  trailing-input check), `coderPassthru`, `xzFile`/`xzRun` (one invocation over several files),
                  exit status (`set_exit_status`, `--no-warn`), and `xzdecRun` (xzdec / lzmadec).

  Every system call issued on the destination descriptor is recorded in `St.trace`; stage K compares that
  trace with the one logged by an LD_PRELOAD shim under the real tool (trace inclusion).

  Core Lean only.
-/
namespace XzVerif.Sparse

/-! ### Build constants (instantiated from `Gen/C18.lean` by the driver and by `Props/C18.lean`) -/

structure Cfg where
  /-- `IO_BUFFER_SIZE` -/
  bufSize : Nat
  /-- `pending_max = (off_t)1 << (sizeof(off_t) * CHAR_BIT - 2)` -/
  pendingMax : Nat
  /-- BEHAVIOUR SWITCH (measured by the stage-G probe on the real `io_close`, never hand-set):
      does `io_close(pair, success = false)` still materialise a pending hole when the destination is
      standard output?  xz 5.8.1: no (`false`) — that is finding C18:sparse-pending-zeros-dropped-on-error. -/
  failFlush : Bool
  deriving Repr

def stdCfg : Cfg := { bufSize := 8192, pendingMax := 2 ^ 62, failFlush := false }

/-! ### The destination -/

inductive Kind | regular | other
  deriving DecidableEq, Repr

structure Flags where
  append : Bool
  nonblock : Bool
  deriving DecidableEq, Repr

/-- An open file description together with the object it refers to.
    `regular`: `content` are the bytes of the file, `offset` the file offset of the description.
    `other`  : `content` are the bytes delivered to the pipe/device so far; `offset` is meaningless. -/
structure Dest where
  kind : Kind
  content : List UInt8
  offset : Nat
  flags : Flags
  deriving DecidableEq, Repr

def zeros (n : Nat) : List UInt8 := List.replicate n 0

/-- Bytes of a regular file after `write(buf)` at offset `off` (POSIX: a gap past EOF reads as zeros). -/
def overwriteAt (c : List UInt8) (off : Nat) (buf : List UInt8) : List UInt8 :=
  let base := c ++ zeros (off - c.length)
  base.take off ++ buf ++ base.drop (off + buf.length)

/-- `write(fd, buf, n)` with `n > 0`, accepted completely. -/
def Dest.write (d : Dest) (buf : List UInt8) : Dest :=
  match d.kind with
  | .other => { d with content := d.content ++ buf }
  | .regular =>
    let off := if d.flags.append then d.content.length else d.offset
    { d with content := overwriteAt d.content off buf, offset := off + buf.length }

/-- SPECIFICATION of delivery: what the destination holds after the bytes `W` have been written to it by plain
    `write` calls (pipe: appended to the stream; O_APPEND: appended to the file; otherwise placed at the offset). -/
def expectedContent (d : Dest) (W : List UInt8) : List UInt8 :=
  match d.kind with
  | .other => d.content ++ W
  | .regular =>
    if W.isEmpty then d.content
    else overwriteAt d.content (if d.flags.append then d.content.length else d.offset) W

/-- The file offset afterwards (regular files). -/
def expectedOffset (d : Dest) (W : List UInt8) : Nat :=
  if W.isEmpty then d.offset else (if d.flags.append then d.content.length else d.offset) + W.length

/-- `lseek(fd, n, SEEK_CUR)`; `none` = `ESPIPE`. -/
def Dest.seekCur (d : Dest) (n : Nat) : Option Dest :=
  match d.kind with
  | .other => none
  | .regular => some { d with offset := d.offset + n }

/-- `lseek(fd, 0, SEEK_END)`. -/
def Dest.seekEnd (d : Dest) : Option Dest :=
  match d.kind with
  | .other => none
  | .regular => some { d with offset := d.content.length }

/-- System calls on the destination descriptor, as logged by harness/c18_preload.c. -/
inductive Ev
  | setfl (append nonblock : Bool)        -- fcntl(fd, F_SETFL, …): the O_APPEND / O_NONBLOCK bits requested
  | seekEnd (ret : Nat)                    -- lseek(fd, 0, SEEK_END) = ret
  | seekCur (delta ret : Nat)              -- lseek(fd, delta, SEEK_CUR) = ret
  | write (n : Nat)                        -- write(fd, buf, n) = n
  deriving DecidableEq, Repr

inductive Mode | compress | decompress | test
  deriving DecidableEq, Repr

/-- `file_pair` fields and the static variables of file_io.c that concern the destination, plus the world. -/
structure St where
  dest : Dest
  isStdout : Bool
  /-- `pair->dest_try_sparse` -/
  trySparse : Bool
  /-- `pair->dest_pending_sparse` -/
  pending : Nat
  /-- `restore_stdout_flags` -/
  restoreFlags : Bool
  /-- `stdout_flags` -/
  savedFlags : Flags
  trace : List Ev
  deriving Repr

/-! ### io_open_dest_real -/

/-- Standard output (`opt_stdout || src is stdin`). `noSparse` is `!try_sparse` (`--no-sparse`). -/
def openStdout (noSparse : Bool) (mode : Mode) (d : Dest) : St :=
  let saved := d.flags
  -- stdout_flags = fcntl(F_GETFL); try to set O_NONBLOCK if it is not set yet
  let d1 : Dest := if saved.nonblock then d else { d with flags := { saved with nonblock := true } }
  let restore := !saved.nonblock
  let tr : List Ev := if saved.nonblock then [] else [.setfl saved.append true]
  let s0 : St := { dest := d1, isStdout := true, trySparse := false, pending := 0,
                   restoreFlags := restore, savedFlags := saved, trace := tr }
  -- else if (try_sparse && opt_mode == MODE_DECOMPRESS)
  if noSparse || mode != .decompress then s0
  -- if (!S_ISREG(pair->dest_st.st_mode)) return false;
  else if d.kind != .regular then s0
  else if saved.append then
    -- lseek(STDOUT_FILENO, 0, SEEK_END); flags = stdout_flags & ~O_APPEND; if (restore_stdout_flags) flags |= O_NONBLOCK;
    let fl : Flags := { append := false, nonblock := saved.nonblock || restore }
    { s0 with dest := { d1 with offset := d.content.length, flags := fl },
              restoreFlags := true, trySparse := true,
              trace := tr ++ [.seekEnd d.content.length, .setfl false fl.nonblock] }
  else
    -- else if (lseek(STDOUT_FILENO, 0, SEEK_CUR) != pair->dest_st.st_size) return false;
    let tr := tr ++ [.seekCur 0 d.offset]
    if d.offset != d.content.length then { s0 with trace := tr }
    else { s0 with trace := tr, trySparse := true }

/-- A new file created by xz itself: `open(name, O_WRONLY | O_CREAT | O_EXCL | O_NONBLOCK)`. -/
def openNew (noSparse : Bool) (mode : Mode) : St :=
  { dest := { kind := .regular, content := [], offset := 0, flags := { append := false, nonblock := true } },
    isStdout := false, trySparse := !noSparse && mode == .decompress, pending := 0,
    restoreFlags := false, savedFlags := { append := false, nonblock := false }, trace := [] }

/-! ### io_write / io_close -/

/-- `is_sparse()`: the buffer contains only zero bytes. -/
def isSparse (buf : List UInt8) : Bool := buf.all (· == 0)

/-- `io_write_buf()` without I/O errors: nothing is issued for an empty buffer, otherwise one `write`. -/
def ioWriteBuf (s : St) (buf : List UInt8) : St :=
  if buf.isEmpty then s
  else { s with dest := s.dest.write buf, trace := s.trace ++ [.write buf.length] }

/-- `io_write()`. The `Bool` is its return value (`true` = error; only a failing `lseek`). -/
def ioWrite (cfg : Cfg) (s : St) (buf : List UInt8) : St × Bool :=
  if s.trySparse then
    if buf.length == cfg.bufSize && isSparse buf && decide (s.pending < cfg.pendingMax) then
      ({ s with pending := s.pending + buf.length }, false)
    else if buf.length != cfg.bufSize && buf.length == 0 then
      (s, false)
    else if s.pending > 0 then
      match s.dest.seekCur s.pending with
      | none => (s, true)
      | some d =>
        (ioWriteBuf { s with dest := d, pending := 0, trace := s.trace ++ [.seekCur s.pending d.offset] } buf, false)
    else
      (ioWriteBuf s buf, false)
  else
    (ioWriteBuf s buf, false)

/-- Consecutive `io_write` calls; stops at the first error like the callers do. -/
def ioWrites (cfg : Cfg) : St → List (List UInt8) → St × Bool
  | s, [] => (s, false)
  | s, b :: bs =>
    match ioWrite cfg s b with
    | (s', true) => (s', true)
    | (s', false) => ioWrites cfg s' bs

/-- `io_close_dest()`: restore the file status flags of standard output. -/
def ioCloseDest (s : St) : St :=
  if s.restoreFlags then
    { s with restoreFlags := false, dest := { s.dest with flags := s.savedFlags },
             trace := s.trace ++ [.setfl s.savedFlags.append s.savedFlags.nonblock] }
  else s

/-- `io_close()` (destination part). -/
def ioClose (cfg : Cfg) (s : St) (success : Bool) : St :=
  let s1 :=
    if (success || (cfg.failFlush && s.isStdout)) && s.trySparse && decide (s.pending > 0) then
      match s.dest.seekCur (s.pending - 1) with
      | none => s
      | some d => ioWriteBuf { s with dest := d, trace := s.trace ++ [.seekCur (s.pending - 1) d.offset] } [0]
    else s
  ioCloseDest s1

/-! ### Abstract specification of a sparse writer (any strategy) -/

/-- Does a trace of `write`/`lseek(SEEK_CUR)` calls deliver the bytes `W` to a file it started at the end of?
    Every `write n` stands for the next `n` bytes of `W`; every `lseek(+d)` skips the next `d` bytes of `W`, which must all
    be zero; a skipped range must be followed by a later write (a hole at the very end would not extend the file); all of `W`
    is accounted for. `gap` = a hole is open. Flag changes and `lseek(0, SEEK_END)` move nothing. Any partition of `W` into
    written ranges and skipped all-zero ranges is accepted — whole buffers, sub-blocks, byte-exact runs. -/
def traceDelivers : List Ev → List UInt8 → Bool → Bool
  | [], W, gap => W.isEmpty && !gap
  | .write n :: t, W, _ => decide (0 < n) && decide (n ≤ W.length) && traceDelivers t (W.drop n) false
  | .seekCur d _ :: t, W, gap => decide (d ≤ W.length) && isSparse (W.take d) && traceDelivers t (W.drop d) (gap || decide (0 < d))
  | .setfl _ _ :: t, W, gap => traceDelivers t W gap
  | .seekEnd _ :: t, W, gap => traceDelivers t W gap

/-- Replaying such a trace against the kernel model, the data of each write being the corresponding slice of `W`. -/
def replayTrace : List Ev → List UInt8 → Dest → Dest
  | [], _, d => d
  | .write n :: t, W, d => replayTrace t (W.drop n) (d.write (W.take n))
  | .seekCur k _ :: t, W, d => replayTrace t (W.drop k) ((d.seekCur k).getD d)
  | .setfl _ _ :: t, W, d => replayTrace t W d
  | .seekEnd _ :: t, W, d => replayTrace t W d

/-! ### liblzma as seen by the tool -/

inductive Ret
  | ok | streamEnd | noCheck | unsupportedCheck | getCheck | memError | memlimitError
  | formatError | optionsError | dataError | bufError | progError | seekNeeded
  deriving DecidableEq, Repr

def Ret.all : List Ret :=
  [.ok, .streamEnd, .noCheck, .unsupportedCheck, .getCheck, .memError, .memlimitError,
   .formatError, .optionsError, .dataError, .bufError, .progError, .seekNeeded]

def Ret.code : Ret → Nat
  | .ok => 0 | .streamEnd => 1 | .noCheck => 2 | .unsupportedCheck => 3 | .getCheck => 4 | .memError => 5
  | .memlimitError => 6 | .formatError => 7 | .optionsError => 8 | .dataError => 9 | .bufError => 10
  | .progError => 11 | .seekNeeded => 12

def Ret.ofCode (n : Nat) : Ret := (Ret.all.find? (·.code == n)).getD .progError

/-- One `lzma_code()` call: the bytes it appended to the output buffer and its return value. -/
structure Step where
  out : List UInt8
  ret : Ret
  deriving Repr

inductive Msg | warning | error
  deriving DecidableEq, Repr

structure CoderRes where
  /-- arguments of the `io_write` calls, in order (the last one may be empty) -/
  writes : List (List UInt8)
  success : Bool
  msgs : List Msg
  deriving Repr

/-- A return value that ends the coding loop (`stop` in coder_normal; everything except OK and the warning). -/
def Ret.stops (r : Ret) : Bool := r != .ok && r != .unsupportedCheck

/-- The loop of `coder_normal()` when decompressing, without I/O errors. `buf` is the filled part of `out_buf`.
    `allowTrailing`: `--single-stream` or .lz; `trailing`: some input is left after LZMA_STREAM_END.
    An exhausted step list models leaving the loop through `user_abort` / a read error. -/
def coderNormal (cfg : Cfg) (allowTrailing trailing : Bool) : List Step → List UInt8 → CoderRes
  | [], _ => { writes := [], success := false, msgs := [] }
  | st :: rest, buf =>
    let buf1 := buf ++ st.out
    -- if (strm.avail_out == 0) coder_write_output()
    let full := buf1.length == cfg.bufSize
    let w1 : List (List UInt8) := if full then [buf1] else []
    let buf2 : List UInt8 := if full then [] else buf1
    if st.ret == .ok then
      let r := coderNormal cfg allowTrailing trailing rest buf2
      { r with writes := w1 ++ r.writes }
    else if st.ret == .unsupportedCheck then
      -- not `stop`: a warning, coding continues
      let r := coderNormal cfg allowTrailing trailing rest buf2
      { r with writes := w1 ++ r.writes, msgs := .warning :: r.msgs }
    else
      -- stop: write the remaining bytes even if something went wrong
      let w := w1 ++ [buf2]
      if st.ret == .streamEnd then
        if allowTrailing || !trailing then { writes := w, success := true, msgs := [] }
        else { writes := w, success := false, msgs := [.error] }      -- ret = LZMA_DATA_ERROR
      else { writes := w, success := false, msgs := [.error] }

/-- What the library produced up to and including the call that ended the loop. -/
def libOutput : List Step → List UInt8
  | [] => []
  | st :: rest => if st.ret.stops then st.out else st.out ++ libOutput rest

/-- The return value that ended the loop (`none`: the step list ran out first). -/
def libFinal : List Step → Option Ret
  | [] => none
  | st :: rest => if st.ret.stops then some st.ret else libFinal rest

/-- Number of LZMA_UNSUPPORTED_CHECK returns before the end. -/
def libWarnings : List Step → Nat
  | [] => 0
  | st :: rest => if st.ret.stops then 0 else (if st.ret == .unsupportedCheck then 1 else 0) + libWarnings rest

/-- Each call has room for what it produces (`out.length ≤ avail_out`). -/
def stepsFit (cfg : Cfg) : List Step → Nat → Bool
  | [], _ => true
  | st :: rest, fill =>
    decide (fill + st.out.length ≤ cfg.bufSize) &&
      stepsFit cfg rest (if fill + st.out.length == cfg.bufSize then 0 else fill + st.out.length)

def chunksAux (B : Nat) : Nat → List UInt8 → List (List UInt8)
  | 0, _ => []
  | fuel + 1, l => if l.isEmpty then [] else l.take B :: chunksAux B fuel (l.drop B)

/-- `io_read` fills the buffer completely unless the input ends: consecutive `B`-byte pieces. -/
def chunks (B : Nat) (l : List UInt8) : List (List UInt8) := chunksAux B (l.length + 1) l

/-- `coder_passthru()`: `xz -dcf` on an unrecognised file copies the input through `io_write`. -/
def coderPassthru (cfg : Cfg) (input : List UInt8) : CoderRes :=
  { writes := chunks cfg.bufSize input, success := true, msgs := [] }

/-- The canonical call sequence used by the driver: `warn` warnings, then the output in full buffers, then `ret`. -/
def canonicalSteps (cfg : Cfg) (warn : Nat) (out : List UInt8) (ret : Ret) : List Step :=
  List.replicate warn { out := [], ret := .unsupportedCheck } ++
    (chunks cfg.bufSize out).map (fun c => { out := c, ret := .ok }) ++ [{ out := [], ret := ret }]

/-! ### One file, one invocation -/

structure Opts where
  mode : Mode
  /-- `opt_stdout` (`-c`, implied by `-t`) or the source is standard input -/
  toStdout : Bool
  force : Bool
  noSparse : Bool
  noWarn : Bool
  /-- `--single-stream` -/
  single : Bool
  /-- `enum message_verbosity` after the command line: 0 V_SILENT, 1 V_ERROR, 2 V_WARNING (default), 3 V_VERBOSE, 4 V_DEBUG -/
  verbosity : Nat
  deriving Repr

/-- Everything the tool learns about one input file from liblzma and from its own format detection. -/
structure FileIn where
  /-- `is_format_xz/lzip/lzma` recognised the first chunk -/
  fmtKnown : Bool
  /-- LZMA_UNSUPPORTED_CHECK returns of the header-decoding loop in `coder_init` -/
  initWarn : Nat
  /-- the value that ended that loop -/
  initRet : Ret
  steps : List Step
  /-- the detected format is .lz (`FORMAT_LZIP`) -/
  isLzip : Bool
  trailing : Bool
  /-- the raw input (passthru mode only) -/
  raw : List UInt8
  deriving Repr

structure FileRes where
  /-- standard output afterwards -/
  out : Dest
  trace : List Ev
  msgs : List Msg
  /-- `xz -d FILE`: the file xz created, if it survives `io_close` -/
  created : Option (List UInt8)
  /-- trace on the created file's descriptor -/
  createdTrace : List Ev
  deriving Repr

/-- `allow_trailing_input = false;` — the FIRST statement of `coder_init()`: the static variable is reset for every
    file, whatever the previous file left in it. -/
def resetAllowTrailing (_previous : Bool) : Bool := false

/-- The value of the static `allow_trailing_input` after `coder_init()` for this file, given the value the previous file
    of the same invocation left behind: reset, then `--single-stream` sets it, then a detected .lz file sets it. -/
def coderInitFlag (o : Opts) (fi : FileIn) (previous : Bool) : Bool :=
  let a := resetAllowTrailing previous
  let a := if o.single then true else a
  if fi.fmtKnown && fi.isLzip then true else a

/-- `coder_run()` for one file when decompressing or testing, with `allow_trailing_input` as `coder_init` left it. -/
def xzFileWith (cfg : Cfg) (o : Opts) (fi : FileIn) (out : Dest) (allowTrailing : Bool) : FileRes :=
  let nothing (msgs : List Msg) : FileRes := { out := out, trace := [], msgs := msgs, created := none, createdTrace := [] }
  let run (r : CoderRes) (extra : List Msg) : FileRes :=
    if o.mode == .test then nothing (extra ++ r.msgs)
    else if o.toStdout then
      let s := openStdout o.noSparse o.mode out
      let (s, _) := ioWrites cfg s r.writes
      let s := ioClose cfg s r.success
      { out := s.dest, trace := s.trace, msgs := extra ++ r.msgs, created := none, createdTrace := [] }
    else
      let s := openNew o.noSparse o.mode
      let (s, _) := ioWrites cfg s r.writes
      let s := ioClose cfg s r.success
      { out := out, trace := [], msgs := extra ++ r.msgs,
        created := if r.success then some s.dest.content else none, createdTrace := s.trace }
  if !fi.fmtKnown then
    if o.mode == .decompress && o.toStdout && o.force then run (coderPassthru cfg fi.raw) []
    else nothing [.error]                              -- LZMA_FORMAT_ERROR
  else
    let warns := List.replicate fi.initWarn Msg.warning
    if fi.initRet != .ok && fi.initRet != .streamEnd then nothing (warns ++ [.error])
    else run (coderNormal cfg allowTrailing fi.trailing fi.steps []) warns

/-- The trailing-input permission in force for a file processed on its own. -/
def allowOf (o : Opts) (fi : FileIn) : Bool := coderInitFlag o fi false

/-- A single-file invocation. -/
def xzFile (cfg : Cfg) (o : Opts) (fi : FileIn) (out : Dest) : FileRes :=
  xzFileWith cfg o fi out (allowOf o fi)

/-! ### Exit status -/

inductive Exit | success | error | warning
  deriving DecidableEq, Repr

def Exit.code : Exit → Nat
  | .success => 0 | .error => 1 | .warning => 2

/-- `set_exit_status()` -/
def setExit (old new : Exit) : Exit := if old != .error then new else old

def Msg.exit : Msg → Exit
  | .warning => .warning
  | .error => .error

/-- `message_warning` / `message_error` call `set_exit_status`. -/
def exitOfMsgs (msgs : List Msg) : Exit := msgs.foldl (fun e m => setExit e m.exit) .success

/-! #### Verbosity (`-q`, `-v`): what is printed, never what is decided -/

/-- The level a diagnostic is issued at: `message_error` → V_ERROR (1), `message_warning` → V_WARNING (2). -/
def Msg.level : Msg → Nat
  | .error => 1
  | .warning => 2

/-- `vmessage()`: the text goes to stderr iff `v <= verbosity`. -/
def Msg.printed (verbosity : Nat) (m : Msg) : Bool := decide (m.level ≤ verbosity)

/-- `message_warning()` / `message_error()` at verbosity `verbosity`: print (or not), then ALWAYS `set_exit_status`. -/
def messageExit (_verbosity : Nat) (old : Exit) (m : Msg) : Exit := setExit old m.exit

def exitOfMsgsAt (verbosity : Nat) (msgs : List Msg) : Exit := msgs.foldl (messageExit verbosity) .success

/-- Verbosity after the command line: V_WARNING, each `-q` one down (not below V_SILENT), each `-v` one up (not above V_DEBUG);
    `true` = `-q`, `false` = `-v`. -/
def verbosityOf (flags : List Bool) : Nat :=
  flags.foldl (fun v q => if q then v - 1 else (if v < 4 then v + 1 else v)) 2

/-- Number of diagnostic lines on stderr. -/
def printedCount (verbosity : Nat) (msgs : List Msg) : Nat := (msgs.filter (Msg.printed verbosity)).length

def msgExitRowOk (row : Nat × Nat × Nat) : Bool :=
  (messageExit row.1 .success .warning).code == row.2.1 && (messageExit row.1 .success .error).code == row.2.2

/-- `if (es == E_WARNING && no_warn) es = E_SUCCESS;` -/
def finalExit (noWarn : Bool) (e : Exit) : Nat :=
  if e == .warning && noWarn then 0 else e.code

structure RunRes where
  out : Dest
  trace : List Ev
  msgs : List Msg
  created : List (Option (List UInt8))
  createdTraces : List (List Ev)
  deriving Repr

/-- `main()`: the files one after the other on the same standard output; the static `allow_trailing_input` is carried
    from file to file (and reset by each `coder_init`). -/
def xzRunFrom (cfg : Cfg) (o : Opts) : Bool → List FileIn → Dest → RunRes
  | _, [], out => { out := out, trace := [], msgs := [], created := [], createdTraces := [] }
  | previous, fi :: rest, out =>
    let flag := coderInitFlag o fi previous
    let r := xzFileWith cfg o fi out flag
    let rr := xzRunFrom cfg o flag rest r.out
    { out := rr.out, trace := r.trace ++ rr.trace, msgs := r.msgs ++ rr.msgs,
      created := r.created :: rr.created, createdTraces := r.createdTrace :: rr.createdTraces }

def xzRun (cfg : Cfg) (o : Opts) (files : List FileIn) (out : Dest) : RunRes := xzRunFrom cfg o false files out

/-- SPECIFICATION: every file handled as if it were the only one (fold of single-file runs over the same standard output). -/
def xzRunFold (cfg : Cfg) (o : Opts) : List FileIn → Dest → RunRes
  | [], out => { out := out, trace := [], msgs := [], created := [], createdTraces := [] }
  | fi :: rest, out =>
    let r := xzFile cfg o fi out
    let rr := xzRunFold cfg o rest r.out
    { out := rr.out, trace := r.trace ++ rr.trace, msgs := r.msgs ++ rr.msgs,
      created := r.created :: rr.created, createdTraces := r.createdTrace :: rr.createdTraces }

def xzExit (o : Opts) (r : RunRes) : Nat := finalExit o.noWarn (exitOfMsgsAt o.verbosity r.msgs)

/-! ### xzdec / lzmadec -/

/-- `uncompress()` of xzdec.c for one file: every produced byte is written before the return value is judged.
    `lzmadec`: trailing input after LZMA_STREAM_END is an error; xzdec's decoder (LZMA_CONCATENATED) handles it itself. -/
def xzdecFileOk (lzmadec : Bool) (ret : Ret) (trailing : Bool) : Bool :=
  ret == .streamEnd && (!lzmadec || !trailing)

/-- Files are `(bytes produced before the final return value, final return value, trailing input)`.
    Returns the bytes written to standard output and the exit status (`exit(EXIT_FAILURE)` at the first bad file). -/
def xzdecRun (lzmadec : Bool) : List (List UInt8 × Ret × Bool) → List UInt8 × Nat
  | [] => ([], 0)
  | (o, r, t) :: rest =>
    if xzdecFileOk lzmadec r t then
      let (o', e) := xzdecRun lzmadec rest
      (o ++ o', e)
    else (o, 1)

/-- xzdec writes through stdio: plain `write`s, no `lseek`, no `fcntl`. -/
def xzdecDeliver (d : Dest) (bytes : List UInt8) : Dest :=
  if bytes.isEmpty then d else d.write bytes

/-! ### Bridges to the generated tables (evaluated by `decide` in Props/C18.lean) -/

def exitOfNat (n : Nat) : Exit := if n == 1 then .error else if n == 2 then .warning else .success

def setExitRowOk (row : Nat × Nat × Nat) : Bool :=
  (setExit (exitOfNat row.1) (exitOfNat row.2.1)).code == row.2.2

/-- One row of `Gen.C18.openTable` (see harness/gen_c18.c) against `openStdout` + `ioCloseDest`. -/
def openRowOk (row : List Nat) : Bool :=
  match row with
  | [isReg, app, nb, pos, nosp, mode, failed, ts, appOpen, nbOpen, offOpen, appClosed, nbClosed] =>
    let size := 100
    let off := if pos == 0 then 40 else if pos == 1 then 100 else 160
    let d : Dest := { kind := if isReg == 1 then .regular else .other,
                      content := List.replicate size 120,
                      offset := if isReg == 1 then off else 0,
                      flags := { append := app == 1, nonblock := nb == 1 } }
    let s := openStdout (nosp == 1) (if mode == 1 then .decompress else .compress) d
    let c := ioCloseDest s
    failed == 0 && (s.trySparse == (ts == 1)) && (s.dest.flags.append == (appOpen == 1))
      && (s.dest.flags.nonblock == (nbOpen == 1)) && (s.dest.offset == offOpen)
      && (c.dest.flags.append == (appClosed == 1)) && (c.dest.flags.nonblock == (nbClosed == 1))
      && (c.restoreFlags == false) && s.dest.content == d.content
  | _ => false

end XzVerif.Sparse
