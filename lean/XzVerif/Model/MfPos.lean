/-
  Position arithmetic of the encoder's match finders (src/liblzma/lz/lz_encoder_mf.c `normalize`, `move_pos`;
  src/liblzma/lz/lz_encoder.c `move_window`, `lz_encoder_init`), as far as C01 needs it: hash/son entries are positions
  `read_pos + offset` (uint32), `EMPTY_HASH_VALUE = 0`, a candidate `cur_match` is used iff
  `delta = pos - cur_match < cyclic_size`, `normalize()` runs when `pos == UINT32_MAX` and subtracts
  `subvalue = UINT32_MAX - cyclic_size` from every entry (entries ≤ subvalue become EMPTY) and from `offset`.
  Core Lean only.
-/
namespace XzVerif.MfPos

abbrev U32 : Nat := 4294967296
abbrev MUST_NORMALIZE_POS : Nat := 4294967295
abbrev EMPTY_HASH_VALUE : Nat := 0

/-- `const uint32_t subvalue = (MUST_NORMALIZE_POS - mf->cyclic_size);` -/
def subvalue (cyclicSize : Nat) : Nat := MUST_NORMALIZE_POS - cyclicSize

/-- one hash/son entry through `normalize()` -/
def normEntry (cyclicSize h : Nat) : Nat := if h ≤ subvalue cyclicSize then EMPTY_HASH_VALUE else h - subvalue cyclicSize

/-- `mf->offset -= subvalue` (uint32_t) -/
def normOffset (cyclicSize offset : Nat) : Nat := (offset + U32 - subvalue cyclicSize) % U32

/-- `pos = mf->read_pos + mf->offset` (uint32_t) -/
def posOf (readPos offset : Nat) : Nat := (readPos + offset) % U32

/-- is `curMatch` a usable candidate at `pos`? (`delta = pos - cur_match` as uint32_t, `delta < cyclic_size`) -/
def usable (cyclicSize pos curMatch : Nat) : Bool := (pos + U32 - curMatch) % U32 < cyclicSize

/-- `move_window`: `move_offset = (read_pos - keep_size_before) & ~15` -/
def moveOffset (readPos keepBefore : Nat) : Nat := ((readPos - keepBefore) / 16) * 16

end XzVerif.MfPos
