/-
  The LZ decoder dictionary (history window) of liblzma: src/liblzma/lz/lz_decoder.h, lz_decoder.c.

  Two levels, sharing the same position arithmetic:

  * `DictPos` — the scalar members of `lzma_dict` (`pos`, `full`, `limit`, `size`, `has_wrapped`, `need_reset`) with the
    exact update rules of `dict_put`, `dict_repeat`, `dict_write`, `lz_decoder_reset`, the wrap step and the limit
    computation of `decode_buffer`. The executable decoders (`Model/Lzma.lean`, `Model/Lzma2.lean`) carry a `DictPos`
    next to an abstract history (all bytes produced so far), because the positions decide where the C code splits its
    work (`dict.limit`), what `pos_state`/the literal context see (`dict.pos & mask`), and which distances are valid
    (`dict.full`).
  * `Dict` — `DictPos` + the concrete buffer `buf` of `size + LZ_DICT_EXTRA` bytes, with `dictGet`, `dictPut`,
    `dictRepeat`, `dictWrite`, `wrap` computing the very index expressions of the C code. This is the level at which
    "every index is in bounds" (`Props/C03.lean`, reused by C04) is stated.

  Layout facts mirrored (lz_decoder.h): LZ_DICT_REPEAT_MAX = 288, LZ_DICT_INIT_POS = 2·288 = 576,
  LZ_DICT_EXTRA = 32 (SSE2 copy variant; 0 otherwise — the model takes the larger one for the allocation and never
  relies on the extra bytes), `dict.size = dict_size_rounded + 2·LZ_DICT_REPEAT_MAX`,
  dict_size_rounded = (max(dict_size, 4096) + 15) & ~15.
  Core Lean only.
-/
namespace XzVerif.LzDict

abbrev LZ_DICT_REPEAT_MAX : Nat := 288
abbrev LZ_DICT_INIT_POS : Nat := 576
abbrev LZ_DICT_EXTRA : Nat := 32
abbrev MATCH_LEN_MAX : Nat := 273

/-- lz_decoder.c `lzma_lz_decoder_init`: `if (dict_size < 4096) dict_size = 4096; dict_size = (dict_size + 15) & ~15`
    (the documented relaxation: a too small declared dictionary is tolerated). -/
def roundDictSize (dictSize : Nat) : Nat :=
  let d := if dictSize < 4096 then 4096 else dictSize
  (d + 15) / 16 * 16

/-- `alloc_size = dict_size + 2 * LZ_DICT_REPEAT_MAX` — the value of `lzma_dict.size` -/
def allocSize (dictSize : Nat) : Nat := roundDictSize dictSize + 2 * LZ_DICT_REPEAT_MAX

/-! ### positions -/

structure DictPos where
  pos : Nat
  full : Nat
  limit : Nat
  size : Nat
  hasWrapped : Bool
  needReset : Bool
  deriving Repr, DecidableEq, Inhabited

namespace DictPos

/-- `lz_decoder_reset`: pos = LZ_DICT_INIT_POS, full = 0, has_wrapped = need_reset = false (limit is set per call). -/
@[inline] def reset (p : DictPos) : DictPos :=
  { p with pos := LZ_DICT_INIT_POS, full := 0, hasWrapped := false, needReset := false }

/-- State after `lzma_lz_decoder_init` with a preset dictionary of `presetLen` bytes (0 = none):
    `copy_size = min(preset_dict_size, dict_size_rounded)`, `pos += copy_size`, `full = copy_size`. -/
def init (dictSize presetLen : Nat) : DictPos :=
  let copy := min presetLen (roundDictSize dictSize)
  { pos := LZ_DICT_INIT_POS + copy, full := copy, limit := LZ_DICT_INIT_POS + copy,
    size := allocSize dictSize, hasWrapped := false, needReset := false }

/-- `dict_is_distance_valid`: `dict->full > distance` -/
@[inline] def isDistanceValid (p : DictPos) (distance : Nat) : Bool := distance < p.full

/-- `dict_is_empty` -/
@[inline] def isEmpty (p : DictPos) : Bool := p.full == 0

/-- `dict->limit - dict->pos` -/
@[inline] def avail (p : DictPos) : Nat := p.limit - p.pos

/-- The position update shared by `dict_put` (n = 1), `dict_repeat` (n = left) and `dict_write` (n = copied):
    `pos += n; if (!has_wrapped) full = pos - LZ_DICT_INIT_POS`. -/
@[inline] def advance (p : DictPos) (n : Nat) : DictPos :=
  let pos := p.pos + n
  { p with pos := pos, full := if p.hasWrapped then p.full else pos - LZ_DICT_INIT_POS }

/-- The wrap step at the top of the `decode_buffer` loop:
    `if (pos == size) { pos = LZ_DICT_REPEAT_MAX; has_wrapped = true; memcpy(buf, buf + size - 288, 288); }` -/
@[inline] def wrap (p : DictPos) : DictPos :=
  if p.pos == p.size then { p with pos := LZ_DICT_REPEAT_MAX, hasWrapped := true } else p

/-- `dict.limit = dict.pos + my_min(out_size - *out_pos, dict.size - dict.pos)` -/
@[inline] def setLimit (p : DictPos) (outAvail : Nat) : DictPos :=
  { p with limit := p.pos + min outAvail (p.size - p.pos) }

/-- Index read by `dict_get(dict, distance)`:
    `pos - distance - 1 + (distance < pos ? 0 : size - LZ_DICT_REPEAT_MAX)`
    (the C expression is evaluated in `size_t`; the sum is written so that no intermediate value is negative). -/
@[inline] def getIndex (p : DictPos) (distance : Nat) : Nat :=
  if distance < p.pos then p.pos - distance - 1
  else p.pos + (p.size - LZ_DICT_REPEAT_MAX) - distance - 1

/-- `left = my_min(dict_avail, *len)` of `dict_repeat` -/
@[inline] def repeatLeft (p : DictPos) (len : Nat) : Nat := min p.avail len

/-- `back` of `dict_repeat` (same expression as `getIndex`). -/
@[inline] def repeatBack (p : DictPos) (distance : Nat) : Nat := p.getIndex distance

end DictPos

/-- The invariant of the position members. `dsz` is the rounded dictionary size. -/
structure PosInv (p : DictPos) : Prop where
  size_ge : 4096 + 2 * LZ_DICT_REPEAT_MAX ≤ p.size
  pos_le_limit : p.pos ≤ p.limit
  limit_le_size : p.limit ≤ p.size
  full_le : p.full + 2 * LZ_DICT_REPEAT_MAX ≤ p.size
  not_wrapped : p.hasWrapped = false → LZ_DICT_INIT_POS ≤ p.pos ∧ p.full = p.pos - LZ_DICT_INIT_POS
  wrapped : p.hasWrapped = true → LZ_DICT_REPEAT_MAX ≤ p.pos ∧ p.full + 2 * LZ_DICT_REPEAT_MAX = p.size

/-! ### concrete buffer -/

structure Dict where
  p : DictPos
  buf : Array UInt8
  deriving Inhabited

namespace Dict

/-- `lzma_lz_decoder_init` + `lz_decoder_reset` + preset dictionary copy (tail of the preset if it is too long).
    The buffer has `alloc_size + LZ_DICT_EXTRA` bytes; `buf[LZ_DICT_INIT_POS - 1] = 0`. -/
def init (dictSize : Nat) (preset : List UInt8) : Dict :=
  let p := DictPos.init dictSize preset.length
  let copy := min preset.length (roundDictSize dictSize)
  let tail := preset.drop (preset.length - copy)
  let buf0 : Array UInt8 := Array.replicate (allocSize dictSize + LZ_DICT_EXTRA) 0
  let buf := (List.range copy).foldl (fun (b : Array UInt8) i => b.setIfInBounds (LZ_DICT_INIT_POS + i) (tail.getD i 0)) buf0
  { p := p, buf := buf }

/-- `lz_decoder_reset` incl. `buf[LZ_DICT_INIT_POS - 1] = '\0'` -/
def reset (d : Dict) : Dict :=
  { p := d.p.reset, buf := d.buf.setIfInBounds (LZ_DICT_INIT_POS - 1) 0 }

/-- `dict_get` -/
@[inline] def get (d : Dict) (distance : Nat) : UInt8 := d.buf.getD (d.p.getIndex distance) 0

/-- `dict_get0`: `buf[pos - 1]` -/
@[inline] def get0 (d : Dict) : UInt8 := d.buf.getD (d.p.pos - 1) 0

/-- `dict_put`: `buf[pos++] = byte; if (!has_wrapped) full = pos - LZ_DICT_INIT_POS` -/
@[inline] def put (d : Dict) (b : UInt8) : Dict :=
  { p := d.p.advance 1, buf := d.buf.setIfInBounds d.p.pos b }

/-- `dict_put_safe`: returns `true` (and leaves the dictionary alone) when `pos == limit`. -/
def putSafe (d : Dict) (b : UInt8) : Bool × Dict :=
  if d.p.pos == d.p.limit then (true, d) else (false, d.put b)

/-- The byte loop `buf[pos++] = buf[back++]` run `n` times (also what the non-overlapping memcpy/SSE2 variants
    compute on the first `left` bytes). -/
def copyLoop : Nat → Nat → Nat → Array UInt8 → Array UInt8
  | 0, _, _, buf => buf
  | n + 1, back, pos, buf => copyLoop n (back + 1) (pos + 1) (buf.setIfInBounds pos (buf.getD back 0))

/-- `dict_repeat(dict, distance, &len)`: returns (`*len != 0`, remaining len, dictionary). -/
def «repeat» (d : Dict) (distance len : Nat) : Bool × Nat × Dict :=
  let left := d.p.repeatLeft len
  let back := d.p.repeatBack distance
  let buf := copyLoop left back d.p.pos d.buf
  (len - left != 0, len - left, { p := d.p.advance left, buf := buf })

/-- `dict_write`: copies `min(in_avail, *left, limit - pos)` bytes of `inp` (from its start). Returns (copied, dict). -/
def write (d : Dict) (inp : List UInt8) (left : Nat) : Nat × Dict :=
  let n := min (min inp.length left) d.p.avail
  let buf := (List.range n).foldl (fun (b : Array UInt8) i => b.setIfInBounds (d.p.pos + i) (inp.getD i 0)) d.buf
  (n, { p := d.p.advance n, buf := buf })

/-- the wrap step of `decode_buffer` incl. `memcpy(buf, buf + size - LZ_DICT_REPEAT_MAX, LZ_DICT_REPEAT_MAX)` -/
def wrap (d : Dict) : Dict :=
  if d.p.pos == d.p.size then
    { p := d.p.wrap, buf := copyLoop LZ_DICT_REPEAT_MAX (d.p.size - LZ_DICT_REPEAT_MAX) 0 d.buf }
  else d

/-- Largest index touched by the SSE2 variant of `dict_repeat` (32-byte blocks: `do {…; pos += 32} while (pos < dict->pos)`),
    for the write side; the read side is `back + (this − pos)`. With `left = 0` one block is still copied. -/
def sse2WriteEnd (pos left : Nat) : Nat := pos + (if left == 0 then 32 else (left + 31) / 32 * 32)

end Dict

end XzVerif.LzDict
