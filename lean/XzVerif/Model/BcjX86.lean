/-
  BCJ filters, part 2: x86 (src/liblzma/simple/x86.c).  Core Lean only.

  `x86Code` mirrors `x86_code()`: the state `prev_mask`/`prev_pos` is carried between calls; candidates are the
  bytes E8/E9 with at least four more bytes in the buffer.  `pc` below is `now_pos + (uint32_t)buffer_pos`.
-/
import XzVerif.Model.Bcj
namespace XzVerif.Bcj

structure X86State where
  prevMask : BitVec 32
  prevPos : BitVec 32
deriving Repr, DecidableEq

/-- the state set by `x86_coder_init` and by the one-shot functions -/
def X86State.init : X86State := ⟨0#32, 0#32 - 5#32⟩

/-- `Test86MSByte(b)` -/
def test86 (b : UInt8) : Bool := b == 0 || b == 0xFF

/-- `MASK_TO_BIT_NUMBER[5] = { 0, 1, 2, 2, 3 }` -/
def maskToBitNumber : List Nat := [0, 1, 2, 2, 3]

/-- `for (i < offset) { prev_mask &= 0x77; prev_mask <<= 1; }` -/
def maskShift : Nat → BitVec 32 → BitVec 32
  | 0, m => m
  | n + 1, m => maskShift n ((m &&& 0x77#32) <<< 1)

/-- The inner `while (true)` loop. `pc5` is `now_pos + buffer_pos + 5`. The C loop has no bound; `fuel` iterations
    are modelled and the last `dest` is returned when the fuel runs out (Props/C15 shows that under the filter's
    own invariant the loop exits within two iterations, so any fuel ≥ 2 gives the C result). -/
def x86Loop (enc : Bool) (pc5 : BitVec 32) (prevMask : BitVec 32) : Nat → BitVec 32 → BitVec 32
  | 0, src => if enc then src + pc5 else src - pc5
  | fuel + 1, src =>
    let dest := if enc then src + pc5 else src - pc5
    if prevMask = 0#32 then dest
    else
      let i := maskToBitNumber.getD (prevMask >>> 1).toNat 0
      let b := u8 (dest >>> (24 - i * 8))
      if !test86 b then dest
      else x86Loop enc pc5 prevMask fuel (dest ^^^ ((1#32 <<< (32 - i * 8)) - 1#32))

def x86Fuel : Nat := 4

/-- The four operand bytes written back after a conversion. -/
def x86Store (dest : BitVec 32) : UInt8 × UInt8 × UInt8 × UInt8 :=
  (u8 dest, u8 (dest >>> 8), u8 (dest >>> 16), u8 (~~~ (((dest >>> 24) &&& 1#32) - 1#32)))

/-- the 32-bit operand as the C code assembles it from `buffer[pos+1 .. pos+4]` -/
def x86Src (b1 b2 b3 b4 : UInt8) : BitVec 32 :=
  (u32 b4 <<< 24) ||| (u32 b3 <<< 16) ||| (u32 b2 <<< 8) ||| u32 b1

/-- conversion of one operand: the new bytes `pos+1 .. pos+4` -/
def x86Conv (enc : Bool) (pc5 : BitVec 32) (mask : BitVec 32) (b1 b2 b3 b4 : UInt8) : UInt8 × UInt8 × UInt8 × UInt8 :=
  x86Store (x86Loop enc pc5 mask x86Fuel (x86Src b1 b2 b3 b4))

/-- `prev_mask` after the shift by `offset = pc - prev_pos`. -/
def x86NewMask (st : X86State) (pc : BitVec 32) : BitVec 32 :=
  let offset := pc - st.prevPos
  if offset > 5#32 then 0#32 else maskShift offset.toNat st.prevMask

/-- the test that makes a candidate convertible -/
def x86Convertible (b4 : UInt8) (mask : BitVec 32) : Bool :=
  test86 b4 && decide ((mask >>> 1) ≤ 4#32) && decide ((mask >>> 1) ≠ 3#32)

/-- The main loop `while (buffer_pos <= size - 5)`. Returns bytes, `buffer_pos` at exit, and the state. -/
def x86Go (enc : Bool) : BitVec 32 → X86State → List UInt8 → List UInt8 × Nat × X86State
  | pc, st, b0 :: b1 :: b2 :: b3 :: b4 :: rest =>
    if b0 != 0xE8 && b0 != 0xE9 then
      let (r, n, st') := x86Go enc (pc + 1#32) st (b1 :: b2 :: b3 :: b4 :: rest)
      (b0 :: r, n + 1, st')
    else
      let mask := x86NewMask st pc
      if x86Convertible b4 mask then
        let (o1, o2, o3, o4) := x86Conv enc (pc + 5#32) mask b1 b2 b3 b4
        let (r, n, st') := x86Go enc (pc + 5#32) ⟨0#32, pc⟩ rest
        (b0 :: o1 :: o2 :: o3 :: o4 :: r, n + 5, st')
      else
        let mask := mask ||| 1#32
        let mask := if test86 b4 then mask ||| 0x10#32 else mask
        let (r, n, st') := x86Go enc (pc + 1#32) ⟨mask, pc⟩ (b1 :: b2 :: b3 :: b4 :: rest)
        (b0 :: r, n + 1, st')
  | _, st, l => (l, 0, st)

/-- `x86_code(simple, now_pos, is_encoder, buffer, size)` -/
def x86Code (enc : Bool) (st : X86State) (nowPos : BitVec 32) (buf : List UInt8) : List UInt8 × Nat × X86State :=
  if buf.length < 5 then (buf, 0, st)
  else
    let prevPos := if nowPos - st.prevPos > 5#32 then nowPos - 5#32 else st.prevPos
    x86Go enc nowPos ⟨st.prevMask, prevPos⟩ buf

end XzVerif.Bcj
