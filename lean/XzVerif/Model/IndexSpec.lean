/-
  C13 — abstract list-of-records specification of the lzma_index_* API (src/liblzma/common/index.c, index.h,
  vli_size.c, index_encoder.c, index_decoder.c, index_hash.c; public contract in api/lzma/index.h).

  `Index = List StreamRec`, `StreamRec = {flags?, padding, blocks : List Block}`; every getter is a plain sum over
  the lists, every failure rule of append / stream_flags / stream_padding / cat is stated over those sums
  (limits ⇒ error, index unchanged).  Core Lean only (the model driver links this file).
-/
import XzVerif.Model.Crc

namespace XzVerif.Index

/-! ### Constants (bridged to the regenerated `Gen.C13` by `decide` in Props/C13.lean) -/

def VLI_MAX : Nat := 9223372036854775807
def VLI_UNKNOWN : Nat := 18446744073709551615
def U64 : Nat := 18446744073709551616
def VLI_BYTES_MAX : Nat := 9
def UNPADDED_SIZE_MIN : Nat := 5
def UNPADDED_SIZE_MAX : Nat := 9223372036854775804
def BACKWARD_SIZE_MIN : Nat := 4
def BACKWARD_SIZE_MAX : Nat := 17179869184
def STREAM_HEADER_SIZE : Nat := 12
def INDEX_GROUP_SIZE : Nat := 512
def CHECK_ID_MAX : Nat := 15
def UINT32_MAX : Nat := 4294967295
def SIZEOF_INDEX_STREAM : Nat := 168
def SIZEOF_INDEX_GROUP : Nat := 64
def SIZEOF_INDEX_RECORD : Nat := 16
def SIZEOF_LZMA_INDEX : Nat := 80
def SIZEOF_VOID_PTR : Nat := 8
/-- `(SIZE_MAX - sizeof(index_group)) / sizeof(index_record)` -/
def PREALLOC_MAX : Nat := (U64 - 1 - SIZEOF_INDEX_GROUP) / SIZEOF_INDEX_RECORD
/-- The harness allocator (and therefore the model's allocator oracle) refuses requests above this size. -/
def ALLOC_MAX : Nat := 268435456

/-- `lzma_ret`, constructors in the order of the enum in api/lzma/base.h. -/
inductive Ret where
  | ok | streamEnd | noCheck | unsupportedCheck | getCheck | memError | memlimitError
  | formatError | optionsError | dataError | bufError | progError | seekNeeded
  deriving DecidableEq, Repr, Inhabited

def Ret.toNat : Ret → Nat
  | .ok => 0 | .streamEnd => 1 | .noCheck => 2 | .unsupportedCheck => 3 | .getCheck => 4 | .memError => 5
  | .memlimitError => 6 | .formatError => 7 | .optionsError => 8 | .dataError => 9 | .bufError => 10
  | .progError => 11 | .seekNeeded => 12

/-! ### Scalar kernels -/

/-- The `do { vli >>= 7; ++i; } while (vli != 0)` loop of `lzma_vli_size` with explicit fuel. -/
def vliSizeGo : Nat → Nat → Nat → Nat
  | 0, _, i => i
  | f + 1, v, i => if v / 128 = 0 then i + 1 else vliSizeGo f (v / 128) (i + 1)

/-- `lzma_vli_size` (vli_size.c): 0 for invalid values. -/
def vliSize (v : Nat) : Nat := if v > VLI_MAX then 0 else vliSizeGo 10 v 0

/-- `vli_ceil4` (index.h): `(vli + 3) & ~3` for `vli ≤ UNPADDED_SIZE_MAX` (no wrap-around on that domain). -/
def vliCeil4 (v : Nat) : Nat := (v + 3) / 4 * 4

/-- `index_size_unpadded`: Index Indicator + Number of Records + List of Records + CRC32 -/
def indexSizeUnpadded (count listSize : Nat) : Nat := 1 + vliSize count + listSize + 4

def indexSize (count listSize : Nat) : Nat := vliCeil4 (indexSizeUnpadded count listSize)

/-- `index_stream_size` -/
def indexStreamSize (blocksSize count listSize : Nat) : Nat :=
  STREAM_HEADER_SIZE + blocksSize + indexSize count listSize + STREAM_HEADER_SIZE

/-- `lzma_index_padding_size`: `(4 - index_size_unpadded) & 3` -/
def indexPadding (count listSize : Nat) : Nat := (4 - indexSizeUnpadded count listSize % 4) % 4

/-- `index_file_size` (index.c), on the domain where the 64-bit sum does not wrap (reachable states have
    `compressed_base + stream_padding ≤ LZMA_VLI_MAX`). -/
def indexFileSize (compressedBase unpaddedSum recordCount listSize streamPadding : Nat) : Nat :=
  let fs := compressedBase + 2 * STREAM_HEADER_SIZE + streamPadding + vliCeil4 unpaddedSum
  if fs > VLI_MAX then VLI_UNKNOWN
  else
    let fs := fs + indexSize recordCount listSize
    if fs > VLI_MAX then VLI_UNKNOWN else fs

/-- `lzma_index_memusage` with its 64-bit wrap-arounds and overflow guards. -/
def memusage (streams blocks : Nat) : Nat :=
  let allocOverhead := 4 * SIZEOF_VOID_PTR
  let streamBase := SIZEOF_INDEX_STREAM + SIZEOF_INDEX_GROUP + 2 * allocOverhead
  let groupBase := SIZEOF_INDEX_GROUP + INDEX_GROUP_SIZE * SIZEOF_INDEX_RECORD + allocOverhead
  let groups := ((blocks + INDEX_GROUP_SIZE - 1) % U64) / INDEX_GROUP_SIZE
  let streamsMem := (streams * streamBase) % U64
  let groupsMem := (groups * groupBase) % U64
  let indexBase := SIZEOF_LZMA_INDEX + allocOverhead
  let limit := U64 - 1 - indexBase
  if streams = 0 ∨ streams > UINT32_MAX ∨ blocks > VLI_MAX ∨ streams > limit / streamBase
      ∨ groups > limit / groupBase ∨ limit - streamsMem < groupsMem then U64 - 1
  else indexBase + streamsMem + groupsMem

/-! ### Variable-length integers (vli_encoder.c / vli_decoder.c), byte level -/

/-- The bytes `lzma_vli_encode` produces for a valid VLI. -/
def vliEncode (v : Nat) : List UInt8 :=
  if h : v < 128 then [UInt8.ofNat v] else UInt8.ofNat (v % 128 + 128) :: vliEncode (v / 128)
termination_by v
decreasing_by omega

inductive VliRes where
  /-- complete: value and number of bytes used -/
  | done (v : Nat) (used : Nat)
  /-- input ended inside the integer (`LZMA_OK` in multi-call mode): bytes used -/
  | more (used : Nat)
  /-- `LZMA_DATA_ERROR`: bytes used including the offending one -/
  | bad (used : Nat)
  deriving Repr, DecidableEq

/-- `lzma_vli_decode` from `vli_pos = n` with accumulated value `acc`; `used` counts consumed bytes. -/
def vliDecodeGo : List UInt8 → Nat → Nat → Nat → VliRes
  | [], _, _, used => .more used
  | b :: rest, n, acc, used =>
    let acc := acc + (b.toNat % 128) * 2 ^ (7 * n)
    if b.toNat < 128 then
      if b.toNat = 0 ∧ n + 1 > 1 then .bad (used + 1) else .done acc (used + 1)
    else if n + 1 = VLI_BYTES_MAX then .bad (used + 1)
    else vliDecodeGo rest (n + 1) acc (used + 1)

def vliDecode (bs : List UInt8) : VliRes := vliDecodeGo bs 0 0 0

/-! ### The specification state -/

structure StreamFlags where
  version : Nat
  backwardSize : Nat
  check : Nat
  deriving DecidableEq, Repr, Inhabited

structure Block where
  unpadded : Nat
  uncompressed : Nat
  deriving DecidableEq, Repr, Inhabited

structure StreamRec where
  /-- `none` until `lzma_index_stream_flags` has been called for this Stream -/
  flags : Option StreamFlags
  padding : Nat
  blocks : List Block
  deriving DecidableEq, Repr, Inhabited

abbrev Index := List StreamRec

/-- Sum of the Block sizes including Block Padding. -/
def blocksSize (bs : List Block) : Nat := (bs.map fun b => vliCeil4 b.unpadded).sum
def uncompSize (bs : List Block) : Nat := (bs.map fun b => b.uncompressed).sum
/-- Size of the List of Records field. -/
def listSize (bs : List Block) : Nat := (bs.map fun b => vliSize b.unpadded + vliSize b.uncompressed).sum

namespace StreamRec
/-- Stream Header + Blocks + Index + Stream Footer -/
def compressedSize (s : StreamRec) : Nat :=
  2 * STREAM_HEADER_SIZE + blocksSize s.blocks + indexSize s.blocks.length (listSize s.blocks)
def uncompressedSize (s : StreamRec) : Nat := uncompSize s.blocks
/-- space the Stream occupies in the file, with its Stream Padding -/
def span (s : StreamRec) : Nat := s.compressedSize + s.padding
end StreamRec

namespace Spec

def init : Index := [{ flags := none, padding := 0, blocks := [] }]

def streamCount (i : Index) : Nat := i.length
def blockCount (i : Index) : Nat := (i.map fun s => s.blocks.length).sum
def listSizeAll (i : Index) : Nat := (i.map fun s => listSize s.blocks).sum
def totalSize (i : Index) : Nat := (i.map fun s => blocksSize s.blocks).sum
def uncompressedSize (i : Index) : Nat := (i.map fun s => s.uncompressedSize).sum
def rawFileSize (i : Index) : Nat := (i.map fun s => s.span).sum
/-- `lzma_index_file_size` -/
def fileSize (i : Index) : Nat := if rawFileSize i > VLI_MAX then VLI_UNKNOWN else rawFileSize i
/-- `lzma_index_size`: the Index field if all Streams were combined into one -/
def indexSizeAll (i : Index) : Nat := indexSize (blockCount i) (listSizeAll i)
/-- `lzma_index_stream_size` -/
def streamSize (i : Index) : Nat := indexStreamSize (totalSize i) (blockCount i) (listSizeAll i)
def checkBit (s : StreamRec) : Nat := match s.flags with | none => 0 | some f => 2 ^ f.check
/-- `lzma_index_checks`: bitwise or over all Streams whose flags are known -/
def checks (i : Index) : Nat := i.foldl (fun m s => m ||| checkBit s) 0
def memused (i : Index) : Nat := memusage (streamCount i) (blockCount i)
def paddingSize (i : Index) : Nat := indexPadding (blockCount i) (listSizeAll i)

/-- Replace the last element. -/
def modifyLast {α : Type} (f : α → α) : List α → List α
  | [] => []
  | [x] => [f x]
  | x :: y :: r => x :: modifyLast f (y :: r)

/-- The limit checks of `lzma_index_append` in the order of the code; `none` = all passed. -/
def appendCheck (i : Index) (unpadded uncompressed : Nat) : Option Ret :=
  if unpadded < UNPADDED_SIZE_MIN ∨ unpadded > UNPADDED_SIZE_MAX ∨ uncompressed > VLI_MAX then some .progError
  else match i.getLast? with
    | none => some .progError
    | some s =>
      let add := vliSize unpadded + vliSize uncompressed
      if uncompSize s.blocks + uncompressed > VLI_MAX ∨ uncompressedSize i + uncompressed > VLI_MAX then some .dataError
      else if blocksSize s.blocks + unpadded > UNPADDED_SIZE_MAX then some .dataError
      else if indexFileSize (rawFileSize i.dropLast) (blocksSize s.blocks + unpadded) (s.blocks.length + 1)
                (listSize s.blocks + add) s.padding = VLI_UNKNOWN then some .dataError
      else if indexSize (blockCount i + 1) (listSizeAll i + add) > BACKWARD_SIZE_MAX then some .dataError
      else none

/-- `lzma_index_append` -/
def append (i : Index) (unpadded uncompressed : Nat) : Ret × Index :=
  match appendCheck i unpadded uncompressed with
  | some r => (r, i)
  | none => (.ok, modifyLast (fun s => { s with blocks := s.blocks ++ [⟨unpadded, uncompressed⟩] }) i)

def backwardSizeValid (b : Nat) : Bool := BACKWARD_SIZE_MIN ≤ b ∧ b ≤ BACKWARD_SIZE_MAX ∧ b % 4 = 0

/-- `lzma_stream_flags_compare(f, f)` as used for validation by `lzma_index_stream_flags`. -/
def flagsCheck (f : StreamFlags) : Option Ret :=
  if f.version ≠ 0 then some .optionsError
  else if f.check > CHECK_ID_MAX then some .progError
  else if f.backwardSize ≠ VLI_UNKNOWN ∧ ¬ backwardSizeValid f.backwardSize then some .progError
  else none

def streamFlags (i : Index) (f : StreamFlags) : Ret × Index :=
  match flagsCheck f with
  | some r => (r, i)
  | none => (.ok, modifyLast (fun s => { s with flags := some f }) i)

def paddingCheck (i : Index) (p : Nat) : Option Ret :=
  if p > VLI_MAX ∨ p % 4 ≠ 0 then some .progError
  else if fileSize (modifyLast (fun s => { s with padding := 0 }) i) + p > VLI_MAX then some .dataError
  else none

def streamPadding (i : Index) (p : Nat) : Ret × Index :=
  match paddingCheck i p with
  | some r => (r, i)
  | none => (.ok, modifyLast (fun s => { s with padding := p }) i)

def catCheck (dest src : Index) : Option Ret :=
  if fileSize dest + fileSize src > VLI_MAX ∨ uncompressedSize dest + uncompressedSize src > VLI_MAX then some .dataError
  else if vliCeil4 (indexSizeUnpadded (blockCount dest) (listSizeAll dest)
                    + indexSizeUnpadded (blockCount src) (listSizeAll src)) > BACKWARD_SIZE_MAX then some .dataError
  else none

/-- `lzma_index_cat`: on success `src` is consumed. -/
def cat (dest src : Index) : Ret × Index :=
  match catCheck dest src with
  | some r => (r, dest)
  | none => (.ok, dest ++ src)

def dup (i : Index) : Index := i

/-! ### Iteration and locate on the list of records -/

structure StreamInfo where
  number : Nat
  blockCount : Nat
  compressedOffset : Nat
  uncompressedOffset : Nat
  compressedSize : Nat
  uncompressedSize : Nat
  padding : Nat
  flags : Option StreamFlags
  deriving DecidableEq, Repr, Inhabited

structure BlockInfo where
  numberInFile : Nat
  compressedFileOffset : Nat
  uncompressedFileOffset : Nat
  numberInStream : Nat
  compressedStreamOffset : Nat
  uncompressedStreamOffset : Nat
  uncompressedSize : Nat
  unpaddedSize : Nat
  totalSize : Nat
  deriving DecidableEq, Repr, Inhabited

/-- What `lzma_index_iter` shows after a successful `next`/`locate` (the block part is defined iff the Stream has Blocks). -/
structure IterInfo where
  stream : StreamInfo
  block : Option BlockInfo
  deriving DecidableEq, Repr, Inhabited

def streamInfo (i : Index) (si : Nat) (s : StreamRec) : StreamInfo :=
  { number := si + 1, blockCount := s.blocks.length,
    compressedOffset := rawFileSize (i.take si), uncompressedOffset := uncompressedSize (i.take si),
    compressedSize := s.compressedSize, uncompressedSize := s.uncompressedSize, padding := s.padding, flags := s.flags }

def blockInfo (i : Index) (si : Nat) (s : StreamRec) (bi : Nat) (b : Block) : BlockInfo :=
  let cso := STREAM_HEADER_SIZE + blocksSize (s.blocks.take bi)
  let uso := uncompSize (s.blocks.take bi)
  { numberInFile := blockCount (i.take si) + bi + 1,
    compressedFileOffset := rawFileSize (i.take si) + cso,
    uncompressedFileOffset := uncompressedSize (i.take si) + uso,
    numberInStream := bi + 1, compressedStreamOffset := cso, uncompressedStreamOffset := uso,
    uncompressedSize := b.uncompressed, unpaddedSize := b.unpadded, totalSize := vliCeil4 b.unpadded }

/-- Iterator fields when the iterator points to Stream `si`, Block `bi` (Block 0 if `bi = none` and the Stream has Blocks). -/
def infoAt (i : Index) (si : Nat) (bi : Option Nat) : Option IterInfo :=
  match i[si]? with
  | none => none
  | some s =>
    let k := bi.getD 0
    some { stream := streamInfo i si s, block := (s.blocks[k]?).map (blockInfo i si s k) }

/-- All (stream, block) positions in file order; a Stream without Blocks contributes `(si, none)` iff `withEmpty`. -/
def positions (i : Index) (withEmpty : Bool) : List (Nat × Option Nat) :=
  (List.range i.length).flatMap fun si =>
    match i[si]? with
    | none => []
    | some s =>
      if s.blocks.isEmpty then (if withEmpty then [(si, none)] else [])
      else (List.range s.blocks.length).map fun bi => (si, some bi)

/-- What a full iteration with a fresh iterator returns in each mode (`LZMA_INDEX_ITER_ANY/STREAM/BLOCK/NONEMPTY_BLOCK`). -/
def iterAll (i : Index) (mode : Nat) : List IterInfo :=
  let pos : List (Nat × Option Nat) :=
    if mode = 0 then positions i true
    else if mode = 1 then (List.range i.length).map fun si => (si, none)
    else if mode = 2 then positions i false
    else if mode = 3 then (positions i false).filter fun p =>
      match i[p.1]? with
      | none => false
      | some s => match s.blocks[p.2.getD 0]? with | none => false | some b => b.uncompressed ≠ 0
    else []
  pos.filterMap fun p => infoAt i p.1 p.2

/-- First Block (in Stream order) whose cumulative uncompressed end is above `target`, searching Blocks from index `bi`. -/
def locateInBlocks : List Block → Nat → Nat → Nat → Option Nat
  | [], _, _, _ => none
  | b :: rest, bi, off, target =>
    if target < off + b.uncompressed then some bi else locateInBlocks rest (bi + 1) (off + b.uncompressed) target

def locateInStreams : List StreamRec → Nat → Nat → Nat → Option (Nat × Nat)
  | [], _, _, _ => none
  | s :: rest, si, off, target =>
    if target < off + s.uncompressedSize then (locateInBlocks s.blocks 0 off target).map fun bi => (si, bi)
    else locateInStreams rest (si + 1) (off + s.uncompressedSize) target

/-- `lzma_index_iter_locate`: `none` iff `target ≥ uncompressed size`. -/
def locatePos (i : Index) (target : Nat) : Option (Nat × Nat) :=
  if uncompressedSize i ≤ target then none else locateInStreams i 0 0 target

def locate (i : Index) (target : Nat) : Option IterInfo :=
  (locatePos i target).bind fun p => infoAt i p.1 (some p.2)

/-! #### A persistent iterator on the list of records (position = Stream index, Block index?) -/

/-- first Stream with index ≥ `si` that may be returned in `mode` (modes ≥ 2 skip Streams without Blocks) -/
def nextStreamFrom (i : Index) (mode : Nat) : Nat → Nat → Option Nat
  | 0, _ => none
  | fuel + 1, si =>
    match i[si]? with
    | none => none
    | some s => if mode ≥ 2 ∧ s.blocks.isEmpty then nextStreamFrom i mode fuel (si + 1) else some si

def firstPosOf (i : Index) (si : Nat) : Nat × Option Nat :=
  match i[si]? with
  | none => (si, none)
  | some s => (si, if s.blocks.isEmpty then none else some 0)

/-- One advance in BLOCK-like fashion (used by ANY, BLOCK, NONEMPTY_BLOCK) or to the next Stream (STREAM).
    A position `(si, none)` on a Stream that has meanwhile received Blocks counts as "Block 0 already returned"
    — this is what the code does (finding F6b). -/
def advance (i : Index) (mode : Nat) (pos : Option (Nat × Option Nat)) : Option (Nat × Option Nat) :=
  match pos with
  | none => (nextStreamFrom i mode (i.length + 1) 0).map (firstPosOf i)
  | some (si, bi) =>
    match i[si]? with
    | none => none
    | some s =>
      let eff := bi.getD 0
      if mode ≠ 1 ∧ eff + 1 < s.blocks.length then some (si, some (eff + 1))
      else (nextStreamFrom i mode (i.length + 1) (si + 1)).map (firstPosOf i)

def blockEmptyAt (i : Index) (p : Nat × Option Nat) : Bool :=
  match i[p.1]? with
  | none => false
  | some s => match s.blocks[p.2.getD 0]? with | none => false | some b => b.uncompressed = 0

/-- `lzma_index_iter_next`: new position, or `none` (= returns true, iterator unchanged). -/
def iterNextPos (i : Index) (mode : Nat) : Nat → Option (Nat × Option Nat) → Option (Nat × Option Nat)
  | 0, _ => none
  | fuel + 1, pos =>
    if mode > 3 then none
    else match advance i mode pos with
      | none => none
      | some p => if mode = 3 ∧ blockEmptyAt i p then iterNextPos i mode fuel (some p) else some p

def iterFuel (i : Index) : Nat := blockCount i + i.length + 2

end Spec

/-! ### Index field codec, generic in the index representation (instantiated for the spec and for the concrete model) -/

/-- The operations the Index decoder needs from an index representation. -/
structure DecOps (σ : Type) where
  init : σ
  prealloc : σ → Nat → σ
  append : σ → Nat → Nat → Ret × σ
  recordCount : σ → Nat
  listSize : σ → Nat

structure DecResult (σ : Type) where
  ret : Ret
  /-- bytes consumed (including the offending byte on `dataError`) -/
  used : Nat
  index : Option σ
  /-- `lzma_index_memusage(1, count)` when `ret = memlimitError` -/
  memNeeded : Nat

def crc32Bytes (bs : List UInt8) : List UInt8 :=
  let c := (Crc.crc32Ref bs 0).toNat
  [UInt8.ofNat (c % 256), UInt8.ofNat (c / 256 % 256), UInt8.ofNat (c / 65536 % 256), UInt8.ofNat (c / 16777216 % 256)]

/-- Compare input with expected bytes one at a time: `none` = all matched (returns bytes used), else the failing result. -/
def matchBytes : List UInt8 → List UInt8 → Nat → (Ret × Nat) ⊕ (List UInt8 × Nat)
  | [], rest, used => .inr (rest, used)
  | _ :: _, [], used => .inl (.ok, used)
  | e :: es, b :: rest, used => if b = e then matchBytes es rest (used + 1) else .inl (.dataError, used + 1)

/-- Decode `count` Records (SEQ_UNPADDED / SEQ_UNCOMPRESSED / lzma_index_append). -/
def decodeRecords {σ : Type} (ops : DecOps σ) : Nat → σ → List UInt8 → Nat → (Ret × Nat) ⊕ (σ × List UInt8 × Nat)
  | 0, s, bs, used => .inr (s, bs, used)
  | n + 1, s, bs, used =>
    match vliDecodeGo bs 0 0 used with
    | .more u => .inl (.ok, u)
    | .bad u => .inl (.dataError, u)
    | .done unpadded u1 =>
      if unpadded < UNPADDED_SIZE_MIN ∨ unpadded > UNPADDED_SIZE_MAX then .inl (.dataError, u1)
      else
        match vliDecodeGo (bs.drop (u1 - used)) 0 0 u1 with
        | .more u => .inl (.ok, u)
        | .bad u => .inl (.dataError, u)
        | .done uncompressed u2 =>
          match ops.append s unpadded uncompressed with
          | (.ok, s') => decodeRecords ops n s' (bs.drop (u2 - used)) u2
          | (r, _) => .inl (r, u2)

/-- `index_decode` over the whole input (the result does not depend on how the input is sliced).
    `ret = ok` means "more input needed". -/
def decodeG {σ : Type} (ops : DecOps σ) (memlimit : Nat) (bs : List UInt8) : DecResult σ :=
  let memlimit := max 1 memlimit
  match bs with
  | [] => ⟨.ok, 0, none, 0⟩
  | b0 :: rest =>
    if b0.toNat ≠ 0 then ⟨.dataError, 1, none, 0⟩
    else
      match vliDecodeGo rest 0 0 1 with
      | .more u => ⟨.ok, u, none, 0⟩
      | .bad u => ⟨.dataError, u, none, 0⟩
      | .done count u0 =>
        if memusage 1 count > memlimit then ⟨.memlimitError, u0, none, memusage 1 count⟩
        else
          match decodeRecords ops count (ops.prealloc ops.init count) (bs.drop u0) u0 with
          | .inl (r, u) => ⟨r, u, none, 0⟩
          | .inr (s, rest1, u1) =>
            let pad := indexPadding (ops.recordCount s) (ops.listSize s)
            match matchBytes (List.replicate pad 0) rest1 u1 with
            | .inl (r, u) => ⟨r, u, none, 0⟩
            | .inr (rest2, u2) =>
              match matchBytes (crc32Bytes (bs.take u2)) rest2 u2 with
              | .inl (r, u) => ⟨r, u, none, 0⟩
              | .inr (_, u3) => ⟨.streamEnd, u3, some s, 0⟩

/-- The Index field for a list of Blocks (`index_encode`): indicator, count, Records, padding, CRC32. -/
def encodeBlocks (bs : List Block) : List UInt8 :=
  let body := [0] ++ vliEncode bs.length ++ bs.flatMap (fun b => vliEncode b.unpadded ++ vliEncode b.uncompressed)
  let body := body ++ List.replicate (indexPadding bs.length (listSize bs)) 0
  body ++ crc32Bytes body

namespace Spec

def allBlocks (i : Index) : List Block := i.flatMap fun s => s.blocks

/-- `lzma_index_buffer_encode` / `lzma_index_encoder`: all Blocks of all Streams as one Index field. -/
def encode (i : Index) : List UInt8 := encodeBlocks (allBlocks i)

def decOps : DecOps Index :=
  { init := init, prealloc := fun i _ => i, append := append, recordCount := blockCount, listSize := listSizeAll }

def decode (memlimit : Nat) (bs : List UInt8) : DecResult Index := decodeG decOps memlimit bs

end Spec

end XzVerif.Index
