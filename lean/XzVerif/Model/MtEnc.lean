/-
  Model of the threaded .xz encoder (src/liblzma/common/stream_encoder_mt.c + outqueue.c) as a labelled transition system at
  mutex-critical-section granularity. Core Lean only.

  One transition = one critical section (everything a thread does while it holds `coder->mutex` or a `thr->mutex`) together
  with the unlocked code that leads up to it. Mutex ownership is therefore implicit. A `cond_wait` is a program counter
  (`MPc.waiting`, `WCtx.asleep`) plus a `woken` flag set by the matching `mythread_cond_signal`; spurious wake-ups and the
  expiry of the timed wait are explicit transitions.

  Representation. Every Block that has been started and not yet delivered is one `Entry` of `outq` (= the lzma_outbuf in the
  queue, in queue order) and carries the worker that encodes it (`wk`, = the worker_thread structure from get_thread() until
  the worker has pushed itself back onto `threads_free`). Idle workers are interchangeable, so `threads_free` is the counter
  `idle`. Block encoding is abstract: `Params.enc ord chain data` is the complete encoded Block (Block Header, compressed or,
  after the incompressible fallback, uncompressed LZMA2 chunks, padding, Check) that a worker produces for the `ord`-th Block
  of the Stream with filter chain `chain` and uncompressed `data`. (The real encoder does not depend on `ord`; the parameter
  lets the model driver replay traces by sizes only.)

  Re-initialisation follows the fixed code (commit "Don't reuse worker threads when the MT encoder is reinitialized"):
  lzma_stream_encoder_mt() on a used handle = threads_end() (THR_EXIT to all, join all) + fresh state. The original reuse
  protocol (threads_stop + wait for THR_IDLE) is modelled separately and minimally in `namespace OldReinit` at the end,
  where the lost-worker and stale-progress states are exhibited.

  Invariants and their preservation: Lemmas/MtEncA..I.lean; theorems: Props/C08.lean; trace replay: Driver/C08.lean.
  threads_stop(coder, false) on an error return is one atomic step (`stopAll`); threads_end() is per worker (`mExitOne`/`mExitIdle`).

  Not modelled: allocation failures other than through the generic worker error / get_thread error events, the
  lzma_code() wrapper's LZMA_BUF_ERROR and action-consistency checks (C11), LZMA_SYNC_FLUSH (unsupported by this encoder),
  the outbuf cache.
-/
namespace XzVerif.MtEnc

abbrev Bytes := List UInt8

abbrev Ret := Nat
def OK : Ret := 0
def END : Ret := 1
def MEM_ERROR : Ret := 5
def PROG_ERROR : Ret := 11
def TIMED_OUT : Ret := 101      -- internal; lzma_code maps it to LZMA_OK

inductive Action | run | fullFlush | fullBarrier | finish
  deriving DecidableEq, Repr, Inhabited

/-- `worker_state` of stream_encoder_mt.c. -/
inductive WState | idle | run | finish | stop | exit
  deriving DecidableEq, Repr, Inhabited

/-- Where a busy worker is: `top` = wait loop at the top of worker_start(); `enc` = the loop of worker_encode(), about to
    enter `mythread_sync(thr->mutex)`; `fb` = the incompressible fallback, about to wait for the whole input;
    `markIdle` = worker_encode() returned, about to set THR_IDLE under thr->mutex; `tail` = about to lock coder->mutex,
    publish the outbuf, move the progress counters and push itself onto threads_free. -/
inductive WPc | top | enc | fb | markIdle | tail
  deriving DecidableEq, Repr, Inhabited

structure WCtx where
  tid : Nat := 0                 -- index in coder->threads[] (identification only)
  state : WState := .run         -- thr->state
  pc : WPc := .top
  asleep : Bool := false         -- inside mythread_cond_wait(&thr->cond, &thr->mutex)
  woken : Bool := false          -- a signal on thr->cond arrived while asleep
  lIn : Nat := 0                 -- the worker's local copy `in_size`
  inPos : Nat := 0               -- local in_pos
  outPos : Nat := 0              -- local *out_pos
  resFinish : Bool := false      -- worker_encode() returned THR_FINISH (true) or THR_STOP (false)
  progIn : Nat := 0              -- thr->progress_in
  progOut : Nat := 0             -- thr->progress_out
  deriving Repr, Inhabited, DecidableEq

structure Entry where
  ord : Nat                      -- ordinal of the Block in the Stream (ghost)
  chain : Nat                    -- filter chain copied into the worker by get_thread()
  data : Bytes := []             -- thr->in[0, thr->in_size)
  closed : Bool := false         -- the main thread has set THR_FINISH: no more input for this Block
  wk : Option WCtx := none
  finished : Bool := false       -- outbuf->finished (then outbuf->pos = size of the encoded Block)
  deriving Repr, Inhabited, DecidableEq

structure Blk where
  ord : Nat
  chain : Nat
  data : Bytes
  deriving Repr, Inhabited, DecidableEq

inductive Seq | header | block | index | ended
  deriving DecidableEq, Repr, Inhabited

/-- Where the main thread is. `out` = outside lzma_code (the application's turn); `hdrOut` = copying the Stream Header;
    `loopTop` = top of the `while (true)` of SEQ_BLOCK (about to lock coder->mutex and read the queue); `encIn` = loop head of
    stream_encode_in(); `afterIn` = after stream_encode_in() returned LZMA_OK; `waiting` = inside the cond wait of
    wait_for_work(); `tailOut` = SEQ_INDEX/SEQ_STREAM_FOOTER; `failed` = lzma_code returned an error (ISEQ_ERROR);
    `ending` = inside threads_end() (sending THR_EXIT to each worker, then joining); `dead` = after lzma_end. -/
inductive MPc | out | hdrOut | loopTop | encIn | afterIn | waiting | tailOut | failed | ending | dead
  deriving DecidableEq, Repr, Inhabited

structure Cfg where
  bs : Nat := 1                  -- block_size
  tmax : Nat := 1                -- options->threads
  timeout : Nat := 0
  chain : Nat := 0
  deriving Repr, Inhabited, DecidableEq

structure Params where
  hdr : Bytes                                  -- Stream Header
  enc : Nat → Nat → Bytes → Bytes              -- ord, chain, data ↦ encoded Block
  unpadded : Nat → Nat → Bytes → Nat           -- Unpadded Size stored in the Index
  tailBytes : List (Nat × Nat) → Bytes         -- Index ++ Stream Footer for these Records
  alloc : Nat                                  -- outbuf allocation (lzma_block_buffer_bound64(block_size))
  chunk : Nat := 16384                         -- in_chunk_max of worker_encode(): input given to the Block encoder per critical section
                                               -- (any value: no theorem depends on it; the driver takes it from Gen/C08.lean)

structure St where
  cfg : Cfg := {}
  seq : Seq := .header
  hdrPos : Nat := 0
  tailPos : Nat := 0
  thr : Bool := false            -- coder->thr != NULL (then it is the worker of the last entry of outq)
  idle : Nat := 0                -- length of coder->threads_free
  ninit : Nat := 0               -- coder->threads_initialized
  exiting : Nat := 0             -- idle workers that have been told THR_EXIT and have not exited yet
  err : Option Ret := none       -- coder->thread_error
  outq : List Entry := []
  readPos : Nat := 0             -- outq.read_pos
  index : List (Nat × Nat) := []
  progIn : Nat := 0              -- coder->progress_in
  progOut : Nat := 0             -- coder->progress_out
  mpc : MPc := .out
  inp : Bytes := []              -- in[in_pos, in_size) of the current lzma_code call
  cap : Nat := 0                 -- out_size - out_pos of the current call
  act : Action := .run
  hasBlocked : Bool := false
  mWoken : Bool := false         -- waiting: the wait condition must be (re)evaluated (first check, or a signal on coder->cond arrived)
  pending : Option Cfg := none   -- `ending` because of a re-init with this configuration (none: lzma_end)
  -- ghost state / observables
  out : Bytes := []              -- everything written to the application's output buffers in this Stream
  done : List Blk := []          -- Blocks completely delivered, in delivery order
  consumed : Bytes := []         -- all input accepted in this Stream
  flushPts : List Nat := []      -- input offsets at which a FULL_FLUSH/FULL_BARRIER/FINISH request took effect (all its input consumed)
  nblk : Nat := 0                -- Blocks started
  lastRet : Option (Action × Ret) := none
  lastUpd : Option Ret := none
  deriving Inhabited

def initSt (c : Cfg) (P : Params) : St := { cfg := c, progOut := P.hdr.length }

/-- Labels. The parameters are the environment's / the abstract encoder's choices. -/
inductive Ev
  | call (inp : Bytes) (cap : Nat) (act : Action)   -- lzma_code
  | mHdr | mRead | mEncIn | mAfterIn | mTail
  | mGetThreadErr (r : Ret)                           -- lzma_outq_prealloc_buf / lzma_filters_copy / thread creation failed
  | mWake | mTimeout | mSpurious
  | update (chain : Nat)                              -- lzma_filters_update
  | reinit (c : Cfg) | lzmaEnd                        -- lzma_stream_encoder_mt on the same handle / lzma_end
  | mExitOne (i : Nat) | mExitIdle | mJoin
  | wTop (i : Nat) (o0 : Nat) | wEnc (i : Nat) (full : Bool) (newOut : Nat) | wEncErr (i : Nat) (r : Ret) | wFb (i : Nat)
  | wMarkIdle (i : Nat) | wTail (i : Nat) | wSpurious (i : Nat) | wExitIdle
  deriving Repr, Inhabited

def Ev.isReal : Ev → Bool
  | .mTimeout | .mSpurious | .wSpurious _ => false
  | _ => true

-- ---------------------------------------------------------------------------------------------------------------------
-- helpers
-- ---------------------------------------------------------------------------------------------------------------------

def Entry.blk (e : Entry) : Blk := { ord := e.ord, chain := e.chain, data := e.data }
def Blk.enc (P : Params) (b : Blk) : Bytes := P.enc b.ord b.chain b.data
def Blk.record (P : Params) (b : Blk) : Nat × Nat := (P.unpadded b.ord b.chain b.data, b.data.length)
def Entry.enc (P : Params) (e : Entry) : Bytes := e.blk.enc P

def hasBuf (s : St) : Bool := s.outq.length < 2 * s.cfg.tmax          -- lzma_outq_has_buf: bufs_in_use < bufs_limit

def readable (s : St) : Bool :=                                        -- lzma_outq_is_readable
  match s.outq with
  | [] => false
  | e :: _ => e.finished

/-- The condition under which wait_for_work() stops waiting (apart from the time-out). -/
def waitCond (s : St) : Bool :=
  (!s.inp.isEmpty && s.idle > 0 && hasBuf s) || readable s || s.err.isSome

def wakeWorker (w : WCtx) : WCtx := { w with woken := true }            -- mythread_cond_signal(&thr->cond)

def mapWorkers (f : WCtx → WCtx) (q : List Entry) : List Entry :=
  q.map fun e => { e with wk := e.wk.map f }

def busy (q : List Entry) : Nat := (q.filter fun e => e.wk.isSome).length

/-- threads_stop(coder, false): THR_STOP + signal to every initialised worker. -/
def stopAll (s : St) : St :=
  { s with outq := mapWorkers (fun w => { w with state := .stop, woken := true }) s.outq }

def ret (s : St) (r : Ret) : St :=
  if r = OK ∨ r = END ∨ r = TIMED_OUT then { s with mpc := .out, lastRet := some (s.act, r) }
  else { stopAll s with mpc := .failed, lastRet := some (s.act, r) }

/-- lzma_get_progress(): coder totals + the per-thread counters of every initialised worker (idle ones hold 0). -/
def progress (s : St) : Nat × Nat :=
  (s.progIn + (s.outq.map fun e => match e.wk with | some w => w.progIn | none => 0).sum,
   s.progOut + (s.outq.map fun e => match e.wk with | some w => w.progOut | none => 0).sum)

-- ---------------------------------------------------------------------------------------------------------------------
-- main thread
-- ---------------------------------------------------------------------------------------------------------------------

def mCall (s : St) (inp : Bytes) (cap : Nat) (act : Action) : Option St :=
  -- (lzma_code: once LZMA_FINISH has been used, the action must stay LZMA_FINISH)
  if s.mpc = .out ∧ s.seq ≠ .ended ∧ (s.seq = .index → act = .finish) then
    let s1 := { s with inp := inp, cap := cap, act := act, hasBlocked := false, lastRet := none }
    some { s1 with mpc := (match s.seq with | .header => MPc.hdrOut | .block => MPc.loopTop | _ => MPc.tailOut) }
  else none

def mHdr (P : Params) (s : St) : Option St :=
  if s.mpc = .hdrOut then
    let n := min s.cap (P.hdr.length - s.hdrPos)
    let s1 := { s with out := s.out ++ (P.hdr.drop s.hdrPos).take n, cap := s.cap - n, hdrPos := s.hdrPos + n }
    if s1.hdrPos < P.hdr.length then some (ret s1 OK)
    else some { s1 with hdrPos := 0, seq := .block, mpc := .loopTop }
  else none

/-- `mythread_sync(coder->mutex) { thread_error?; lzma_outq_read() }` + lzma_index_append(). -/
def mRead (P : Params) (s : St) : Option St :=
  if s.mpc = .loopTop then
    match s.err with
    | some r => some (ret s r)
    | none =>
      match s.outq with
      | [] => some { s with mpc := .encIn }
      | e :: rest =>
        if !e.finished then some { s with mpc := .encIn }
        else
          let encd := e.enc P
          let n := min s.cap (encd.length - s.readPos)
          let s1 := { s with out := s.out ++ (encd.drop s.readPos).take n, cap := s.cap - n, readPos := s.readPos + n }
          if s1.readPos < encd.length then some { s1 with mpc := .encIn }
          else
            let s2 := { s1 with outq := rest, readPos := 0, done := s.done ++ [e.blk], index := s.index ++ [e.blk.record P] }
            some { s2 with mpc := if s2.cap > 0 then .loopTop else .encIn }
  else none

/-- One iteration of the loop of stream_encode_in(): get_thread() when coder->thr == NULL, else copy input and update the worker. -/
def mEncIn (s : St) : Option St :=
  if s.mpc = .encIn then
    if s.inp.isEmpty ∧ ¬(s.thr ∧ s.act ≠ .run) then some { s with mpc := .afterIn }
    else if ¬s.thr then
      -- get_thread()
      if ¬hasBuf s then some { s with mpc := .afterIn }
      else if s.idle > 0 then
        -- pop threads_free; THR_RUN, in_size = 0, outbuf = lzma_outq_get_buf(); signal
        let w : WCtx := { tid := 0, state := .run, pc := .top, asleep := true, woken := true }
        some { s with idle := s.idle - 1, thr := true, nblk := s.nblk + 1,
                      outq := s.outq ++ [{ ord := s.nblk, chain := s.cfg.chain, wk := some w }] }
      else if s.ninit < s.cfg.tmax then
        -- initialize_new_thread(): the new thread starts at the top of worker_start()
        let w : WCtx := { tid := s.ninit, state := .run, pc := .top }
        some { s with ninit := s.ninit + 1, thr := true, nblk := s.nblk + 1,
                      outq := s.outq ++ [{ ord := s.nblk, chain := s.cfg.chain, wk := some w }] }
      else some { s with mpc := .afterIn }
    else
      match s.outq.getLast? with
      | none => none
      | some e =>
        let k := min s.inp.length (s.cfg.bs - e.data.length)
        let data' := e.data ++ s.inp.take k
        let flush : Bool := (s.inp.drop k).isEmpty && s.act ≠ .run
        let finish : Bool := data'.length = s.cfg.bs || flush
        -- block_error: the worker has gone idle (it has reported an error). The bytes were already copied and *in_pos advanced;
        -- the ghost `consumed` only counts bytes accepted into Blocks.
        let s0 := { s with inp := s.inp.drop k }
        match e.wk with
        | none => some (ret s0 (s.err.getD PROG_ERROR))
        | some w =>
          if w.state = .idle then some (ret s0 (s.err.getD PROG_ERROR))
          else
            let w' := { w with state := if finish then .finish else w.state, woken := true }
            let e' := { e with data := data', closed := finish, wk := some w' }
            some { s0 with consumed := s.consumed ++ s.inp.take k,
                           flushPts := if flush then s.flushPts ++ [s.consumed.length + k] else s.flushPts,
                           outq := s.outq.dropLast ++ [e'], thr := !finish }
  else none

def mGetThreadErr (s : St) (r : Ret) : Option St :=
  if s.mpc = .encIn ∧ ¬s.thr ∧ ¬s.inp.isEmpty ∧ r ≠ OK ∧ r ≠ END ∧ r ≠ TIMED_OUT then some (ret s r) else none

/-- ghost: the encoder has honoured a FULL_FLUSH/FULL_BARRIER/FINISH request at the current input offset. -/
def noteFlush (s : St) : St := { s with flushPts := s.flushPts ++ [s.consumed.length] }

def mAfterIn (P : Params) (s : St) : Option St :=
  if s.mpc = .afterIn then
    if s.inp.isEmpty ∧ s.act = .run then some (ret s OK)
    else if s.inp.isEmpty ∧ s.act = .fullBarrier then some (ret (noteFlush s) END)
    else if s.inp.isEmpty ∧ s.outq.isEmpty ∧ s.act = .finish then
      some { noteFlush s with seq := .index, tailPos := 0, progOut := s.progOut + (P.tailBytes s.index).length, mpc := .tailOut }
    else if s.inp.isEmpty ∧ s.outq.isEmpty ∧ s.act = .fullFlush then some (ret (noteFlush s) END)
    else if s.cap = 0 then some (ret s OK)
    else some { s with mpc := .waiting, hasBlocked := true, mWoken := true }   -- mWoken: the condition must be (re)evaluated
  else none

def mWake (s : St) : Option St :=
  if s.mpc = .waiting ∧ s.mWoken then
    if waitCond s then some { s with mpc := .loopTop, mWoken := false }
    else some { s with mWoken := false }
  else none

def mSpurious (s : St) : Option St :=
  if s.mpc = .waiting then some { s with mWoken := true } else none

def mTimeout (s : St) : Option St :=
  if s.mpc = .waiting ∧ s.cfg.timeout ≠ 0 then some (ret s TIMED_OUT) else none

def mTail (P : Params) (s : St) : Option St :=
  if s.mpc = .tailOut then
    let tb := P.tailBytes s.index
    let n := min s.cap (tb.length - s.tailPos)
    let s1 := { s with out := s.out ++ (tb.drop s.tailPos).take n, cap := s.cap - n, tailPos := s.tailPos + n }
    if s1.tailPos < tb.length then some (ret s1 OK)
    else some (ret { s1 with seq := .ended } END)
  else none

def mUpdate (s : St) (chain : Nat) : Option St :=
  if s.mpc = .out then
    if s.seq = .index ∨ s.seq = .ended ∨ s.thr then some { s with lastUpd := some PROG_ERROR }
    else some { s with cfg := { s.cfg with chain := chain }, lastUpd := some OK }
  else none

/-- lzma_end() / lzma_stream_encoder_mt() on a used handle: enter threads_end(). -/
def mEnd (s : St) (pending : Option Cfg) : Option St :=
  if s.mpc = .out ∨ s.mpc = .failed then some { s with mpc := .ending, pending := pending } else none

/-- threads_end(), first loop, for a worker that is attached to a queue entry: THR_EXIT + signal under its mutex. -/
def mExitOne (s : St) (i : Nat) : Option St :=
  if s.mpc = .ending then
    match s.outq[i]? with
    | none => none
    | some e =>
      match e.wk with
      | none => none
      | some w => if w.state ≠ .exit then some { s with outq := s.outq.set i { e with wk := some { w with state := .exit, woken := true } } } else none
  else none

/-- threads_end(), first loop, for a worker that sits in threads_free. -/
def mExitIdle (s : St) : Option St :=
  if s.mpc = .ending ∧ s.idle > 0 then some { s with idle := s.idle - 1, exiting := s.exiting + 1 } else none

/-- threads_end(), second loop (all joins succeeded) + the rest of stream_encoder_mt_end / stream_encoder_mt_init. -/
def mJoin (P : Params) (s : St) : Option St :=
  if s.mpc = .ending ∧ s.idle = 0 ∧ s.exiting = 0 ∧ busy s.outq = 0 then
    match s.pending with
    | none => some { (initSt s.cfg P) with mpc := .dead }
    | some c => some (initSt c P)
  else none

-- ---------------------------------------------------------------------------------------------------------------------
-- workers
-- ---------------------------------------------------------------------------------------------------------------------

def setW (s : St) (i : Nat) (e : Entry) (w : Option WCtx) : St := { s with outq := s.outq.set i { e with wk := w } }

/-- The worker of entry `i` leaves worker_start() (it saw THR_EXIT) and frees its resources. -/
def leave (s : St) (i : Nat) (e : Entry) : St := { s with outq := s.outq.set i { e with wk := none }, ninit := s.ninit - 1 }

/-- A worker that is inside cond_wait can only run after a signal (or spurious wake-up). -/
def WCtx.canRun (w : WCtx) : Bool := !w.asleep || w.woken

def sleep (w : WCtx) : WCtx := { w with asleep := true, woken := false }
def awake (w : WCtx) : WCtx := { w with asleep := false, woken := false }

/-- The wait loop at the top of worker_start(); on THR_RUN/THR_FINISH also the prologue of worker_encode() (Block Header size
    `o0` reserved at the start of the output buffer, Block encoder initialised). -/
def wTop (P : Params) (s : St) (i : Nat) (o0 : Nat) : Option St :=
  match s.outq[i]? with
  | none => none
  | some e =>
    match e.wk with
    | none => none
    | some w =>
      if w.pc = .top ∧ w.canRun then
        match w.state with
        | .stop => some (setW s i e (some (sleep { w with state := .idle })))       -- STOP -> IDLE, signal, wait again
        | .idle => some (setW s i e (some (sleep w)))
        | .exit => some (leave s i e)
        | _ => if o0 ≤ P.alloc then some (setW s i e (some { awake w with pc := .enc, lIn := 0, inPos := 0, outPos := o0 })) else none
      else none

/-- One iteration of the loop of worker_encode(): the critical section (progress, wait for input, snapshot) and the call of
    the Block encoder on at most `P.chunk` bytes (16 KiB in xz 5.8.1). `full`: the output buffer became full (incompressible). `newOut`: new *out_pos. -/
def wEnc (P : Params) (s : St) (i : Nat) (full : Bool) (newOut : Nat) : Option St :=
  match s.outq[i]? with
  | none => none
  | some e =>
    match e.wk with
    | none => none
    | some w =>
      if w.pc = .enc ∧ w.canRun then
        let w1 := { w with progIn := w.inPos, progOut := w.outPos }
        if w.lIn = e.data.length ∧ w.state = .run then some (setW s i e (some (sleep w1)))
        else
          let w2 := { awake w1 with lIn := e.data.length }
          match w.state with
          | .stop | .idle => some (setW s i e (some { w2 with pc := .markIdle, resFinish := false }))
          | .exit => some (leave s i e)
          | st =>
            let rem := w2.lIn - w2.inPos
            let k := min P.chunk rem
            if full then
              if newOut ≤ k then some (setW s i e (some { w2 with pc := .fb, inPos := w2.inPos + newOut, outPos := P.alloc }))
              else none
            else if st = .finish ∧ rem ≤ P.chunk then
              some (setW s i e (some { w2 with pc := .markIdle, resFinish := true, inPos := w2.lIn, outPos := (e.enc P).length }))
            else if w2.outPos ≤ newOut ∧ newOut < P.alloc then
              some (setW s i e (some { w2 with inPos := w2.inPos + k, outPos := newOut }))
            else none
      else none

/-- worker_error(): the Block encoder (or its initialisation) failed. -/
def wEncErr (s : St) (i : Nat) (r : Ret) : Option St :=
  match s.outq[i]? with
  | none => none
  | some e =>
    match e.wk with
    | none => none
    | some w =>
      if w.pc = .enc ∧ w.canRun ∧ r ≠ OK ∧ r ≠ END ∧ r ≠ TIMED_OUT then
        let s1 := setW s i e (some { awake w with pc := .markIdle, resFinish := false })
        some { s1 with err := some (s.err.getD r), mWoken := true }
      else none

/-- Incompressible fallback: wait until the main thread has said THR_FINISH, then lzma_block_uncomp_encode(). -/
def wFb (P : Params) (s : St) (i : Nat) : Option St :=
  match s.outq[i]? with
  | none => none
  | some e =>
    match e.wk with
    | none => none
    | some w =>
      if w.pc = .fb ∧ w.canRun then
        match w.state with
        | .run => some (setW s i e (some (sleep w)))
        | .stop | .idle => some (setW s i e (some { awake w with pc := .markIdle, resFinish := false, lIn := e.data.length }))
        | .exit => some (leave s i e)
        | .finish => some (setW s i e (some { awake w with pc := .markIdle, resFinish := true, lIn := e.data.length,
                                                             outPos := (e.enc P).length }))
      else none

def wMarkIdle (s : St) (i : Nat) : Option St :=
  match s.outq[i]? with
  | none => none
  | some e =>
    match e.wk with
    | none => none
    | some w =>
      if w.pc = .markIdle then
        some (setW s i e (some { w with pc := .tail, state := if w.state = .exit then .exit else .idle }))
      else none

/-- `mythread_sync(coder->mutex)` at the end of worker_start(): publish, move the progress counters, return to threads_free, signal. -/
def wTail (s : St) (i : Nat) : Option St :=
  match s.outq[i]? with
  | none => none
  | some e =>
    match e.wk with
    | none => none
    | some w =>
      if w.pc = .tail then
        let e' := { e with finished := e.finished || w.resFinish, wk := none }
        let s1 := { s with outq := s.outq.set i e',
                           progIn := s.progIn + (if w.resFinish then e.data.length else 0),
                           progOut := s.progOut + w.outPos, mWoken := true }
        if w.state = .exit then some { s1 with exiting := s1.exiting + 1 } else some { s1 with idle := s1.idle + 1 }
      else none

def wSpurious (s : St) (i : Nat) : Option St :=
  match s.outq[i]? with
  | none => none
  | some e =>
    match e.wk with
    | none => none
    | some w => if w.asleep then some (setW s i e (some { w with woken := true })) else none

def wExitIdle (s : St) : Option St :=
  if s.exiting > 0 then some { s with exiting := s.exiting - 1, ninit := s.ninit - 1 } else none

-- ---------------------------------------------------------------------------------------------------------------------
-- the transition system
-- ---------------------------------------------------------------------------------------------------------------------

def step (P : Params) (s : St) : Ev → Option St
  | .call inp cap act => mCall s inp cap act
  | .mHdr => mHdr P s
  | .mRead => mRead P s
  | .mEncIn => mEncIn s
  | .mAfterIn => mAfterIn P s
  | .mTail => mTail P s
  | .mGetThreadErr r => mGetThreadErr s r
  | .mWake => mWake s
  | .mTimeout => mTimeout s
  | .mSpurious => mSpurious s
  | .update c => mUpdate s c
  | .reinit c => if 0 < c.bs ∧ 0 < c.tmax then mEnd s (some c) else none      -- get_options() rejects anything else
  | .lzmaEnd => mEnd s none
  | .mExitOne i => mExitOne s i
  | .mExitIdle => mExitIdle s
  | .mJoin => mJoin P s
  | .wTop i o0 => wTop P s i o0
  | .wEnc i full newOut => wEnc P s i full newOut
  | .wEncErr i r => wEncErr s i r
  | .wFb i => wFb P s i
  | .wMarkIdle i => wMarkIdle s i
  | .wTail i => wTail s i
  | .wSpurious i => wSpurious s i
  | .wExitIdle => wExitIdle s

def run (P : Params) (s : St) : List Ev → Option St
  | [] => some s
  | e :: es => (step P s e).bind fun s' => run P s' es

inductive Reachable (P : Params) (c : Cfg) : St → Prop
  | init : Reachable P c (initSt c P)
  | step {s s' : St} (e : Ev) : Reachable P c s → step P s e = some s' → Reachable P c s'


/-!
  The ORIGINAL re-initialisation protocol of xz 5.8.1 (threads reused when the thread count is unchanged:
  `threads_stop(coder, true)` = THR_STOP to every worker, then wait until each `state == THR_IDLE`), reduced to one worker.
  It is kept only to exhibit the two schedule-dependent defects found by this check (findings/C08-F5.md, C08-F7.md);
  `Props/C08.lean` shows the bad states reachable. The fixed code (threads_end + join) is what `step` above models.
-/
namespace OldReinit

inductive Pc | top | job | markIdle | tail
  deriving DecidableEq, Repr

structure S where
  state : WState := .idle        -- thr->state
  pc : Pc := .top
  resStop : Bool := false
  outPos : Nat := 0              -- bytes the worker has produced for its current Block
  inFree : Bool := true          -- the worker is on coder->threads_free
  coderProgOut : Nat := 12       -- coder->progress_out
  stopping : Bool := false       -- main is inside threads_stop(wait)
  newStream : Bool := false      -- the re-initialisation has completed
  deriving DecidableEq, Repr

inductive E | assign | stopSignal | stopWaitDone | wTop | wJob | wMarkIdle | wTail
  deriving DecidableEq, Repr

def step (s : S) : E → Option S
  | .assign => if s.inFree ∧ ¬s.stopping then some { s with inFree := false, state := .run } else none              -- get_thread()
  | .stopSignal => if ¬s.stopping ∧ ¬s.newStream then some { s with stopping := true, state := .stop } else none     -- threads_stop: THR_STOP
  | .stopWaitDone =>                                                                                                 -- ... wait for THR_IDLE; reset counters
      if s.stopping ∧ s.state = .idle then some { s with stopping := false, newStream := true, coderProgOut := 12 } else none
  | .wTop =>
      if s.pc = .top then
        match s.state with
        | .stop => some { s with state := .idle }                               -- STOP -> IDLE, keep waiting
        | .run | .finish => some { s with pc := .job, outPos := 16 }
        | _ => none
      else none
  | .wJob =>
      if s.pc = .job then some { s with pc := .markIdle, resStop := s.state = .stop, outPos := s.outPos + 100 } else none
  | .wMarkIdle => if s.pc = .markIdle then some { s with pc := .tail, state := .idle } else none
  | .wTail =>                                                                    -- under coder->mutex: progress, push to threads_free
      if s.pc = .tail then some { s with pc := .top, coderProgOut := s.coderProgOut + s.outPos, outPos := 0, inFree := true } else none

def run (s : S) : List E → Option S
  | [] => some s
  | e :: es => (step s e).bind fun s' => run s' es

end OldReinit

end XzVerif.MtEnc
