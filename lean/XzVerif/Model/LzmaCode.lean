/-
  Model of the external-to-internal API wrapper of liblzma (src/liblzma/common/common.c):
  `lzma_strm_init`, `lzma_code`, `lzma_end`, plus the trivial accessors `lzma_get_progress`,
  `lzma_memusage`, `lzma_memlimit_get`, `lzma_memlimit_set`.

  The model is line-by-line: same state variables (`sequence`, saved `avail_in`, `supported_actions`,
  `allow_buf_error`, the public `lzma_stream` members), same order of checks, same return codes.
  It is parametric in an ARBITRARY inner coder: `lzmaCode` receives a function `code : InnerArgs → Resp`
  that says what `strm->internal->next.code(...)` reports on this call (bytes consumed, bytes produced,
  return value). Nothing is assumed about it here; the property theorems add the coder law
  (`consumed ≤ in_size`, `produced ≤ out_size`, never LZMA_BUF_ERROR) where they need it.
  Buffer contents do not appear: the wrapper never looks at them.

  Core Lean only (the driver `xzm_c11` links this file).
-/
namespace XzVerif.LzmaCode

/-! ### `lzma_ret` and `lzma_action` (api/lzma/base.h); values bridged to the header by Gen/C11 -/

abbrev LZMA_OK : Nat := 0
abbrev LZMA_STREAM_END : Nat := 1
abbrev LZMA_NO_CHECK : Nat := 2
abbrev LZMA_UNSUPPORTED_CHECK : Nat := 3
abbrev LZMA_GET_CHECK : Nat := 4
abbrev LZMA_MEM_ERROR : Nat := 5
abbrev LZMA_MEMLIMIT_ERROR : Nat := 6
abbrev LZMA_FORMAT_ERROR : Nat := 7
abbrev LZMA_OPTIONS_ERROR : Nat := 8
abbrev LZMA_DATA_ERROR : Nat := 9
abbrev LZMA_BUF_ERROR : Nat := 10
abbrev LZMA_PROG_ERROR : Nat := 11
abbrev LZMA_SEEK_NEEDED : Nat := 12
abbrev LZMA_RET_INTERNAL1 : Nat := 101
abbrev LZMA_RET_INTERNAL8 : Nat := 108
/-- common.h: `#define LZMA_TIMED_OUT LZMA_RET_INTERNAL1` -/
abbrev LZMA_TIMED_OUT : Nat := LZMA_RET_INTERNAL1

abbrev LZMA_RUN : Nat := 0
abbrev LZMA_SYNC_FLUSH : Nat := 1
abbrev LZMA_FULL_FLUSH : Nat := 2
abbrev LZMA_FINISH : Nat := 3
abbrev LZMA_FULL_BARRIER : Nat := 4
/-- common.h: `#define LZMA_ACTION_MAX ((unsigned int)(LZMA_FULL_BARRIER))` -/
abbrev LZMA_ACTION_MAX : Nat := LZMA_FULL_BARRIER

/-- `lzma_internal.sequence` (common.h). The numbering of the C enum is private and NOT relied upon: probe and harness map the tree's ISEQ_* constants symbolically. -/
inductive Seq where
  | run | syncFlush | fullFlush | finish | fullBarrier | end_ | error
  deriving DecidableEq, Repr, Inhabited

def Seq.code : Seq → Nat
  | .run => 0 | .syncFlush => 1 | .fullFlush => 2 | .finish => 3 | .fullBarrier => 4 | .end_ => 5 | .error => 6

def Seq.ofCode : Nat → Seq
  | 0 => .run | 1 => .syncFlush | 2 => .fullFlush | 3 => .finish | 4 => .fullBarrier | 5 => .end_ | _ => .error

/-- Symbolic name used on the wire by the harness and the driver (the numbering of the private C enum is not
    part of the property; the harness maps the tree's own ISEQ_* constants to these names). -/
def Seq.name : Seq → String
  | .run => "run" | .syncFlush => "sync" | .fullFlush => "fullflush" | .finish => "finish"
  | .fullBarrier => "barrier" | .end_ => "end" | .error => "error"

/-- The action a flush/finish state is locked to (`none` for RUN, END, ERROR). -/
def Seq.lockedAction : Seq → Option Nat
  | .syncFlush => some LZMA_SYNC_FLUSH
  | .fullFlush => some LZMA_FULL_FLUSH
  | .finish => some LZMA_FINISH
  | .fullBarrier => some LZMA_FULL_BARRIER
  | _ => none

/-- The reserved members of `lzma_stream` (pointers as addresses, 0 = NULL; LZMA_RESERVED_ENUM = 0).
    `seek_pos` is not reserved and is not looked at by `lzma_code`. -/
structure Reserved where
  ptr1 : Nat := 0
  ptr2 : Nat := 0
  ptr3 : Nat := 0
  ptr4 : Nat := 0
  int2 : Nat := 0
  int3 : Nat := 0
  int4 : Nat := 0
  enum1 : Nat := 0
  enum2 : Nat := 0
  deriving DecidableEq, Repr, Inhabited

/-- The test `reserved_ptr1 != NULL || … || reserved_enum2 != LZMA_RESERVED_ENUM` of `lzma_code`. -/
def Reserved.bad (r : Reserved) : Bool :=
  r.ptr1 != 0 || r.ptr2 != 0 || r.ptr3 != 0 || r.ptr4 != 0
  || r.int2 != 0 || r.int3 != 0 || r.int4 != 0
  || r.enum1 != 0 || r.enum2 != 0

/-- `struct lzma_internal_s` without the coder's private data. `supported` is the bool array
    `supported_actions[LZMA_ACTION_MAX + 1]` as a bit mask (bit a = supported_actions[a]). -/
structure Internal where
  hasCode : Bool            -- next.code != NULL
  sequence : Seq
  availIn : Nat             -- copy of strm->avail_in made at the end of the previous coding call
  supported : Nat
  allowBufError : Bool
  deriving DecidableEq, Repr, Inhabited

/-- The public members of `lzma_stream`. Pointers are `none` = NULL or `some address`. -/
structure Stream where
  nextIn : Option Nat
  availIn : Nat
  totalIn : Nat
  nextOut : Option Nat
  availOut : Nat
  totalOut : Nat
  reserved : Reserved
  internal : Option Internal
  deriving DecidableEq, Repr, Inhabited

/-- `LZMA_STREAM_INIT` -/
def Stream.init : Stream :=
  { nextIn := none, availIn := 0, totalIn := 0, nextOut := none, availOut := 0, totalOut := 0,
    reserved := {}, internal := none }

/-- What the inner coder is handed: `in`, `in_size` (with `*in_pos = 0`), `out`, `out_size`, `action`. -/
structure InnerArgs where
  inPtr : Option Nat
  inSize : Nat
  outPtr : Option Nat
  outSize : Nat
  action : Nat
  deriving DecidableEq, Repr, Inhabited

/-- What the inner coder reports: final `in_pos`, final `out_pos`, return value. -/
structure Resp where
  consumed : Nat
  produced : Nat
  ret : Nat
  deriving DecidableEq, Repr, Inhabited

/-- Result of one `lzma_code` call: the stream afterwards, the returned `lzma_ret`, and whether
    (and how) the inner coder was called. -/
structure Result where
  strm : Stream
  ret : Nat
  called : Option (InnerArgs × Resp)
  deriving DecidableEq, Repr, Inhabited

def U64 : Nat := 2 ^ 64

/-! ### lzma_strm_init / lzma_end -/

/-- `lzma_strm_init` for a non-NULL `strm` whose allocation succeeds. Two cases, as in the C code:
    * `strm->internal == NULL` (fresh handle, or after `lzma_end`): `internal` is allocated with
      `next = LZMA_NEXT_CODER_INIT`, i.e. no code function; `avail_in` is NOT initialised — it is whatever `junk`
      the allocator returned;
    * `strm->internal != NULL` (a LIVE handle is initialised again without `lzma_end`, which the API allows):
      the allocation, the installed coder (`hasCode`) and the saved `avail_in` are kept.
    In BOTH cases every entry of `supported_actions[]` is cleared (`memzero`), `sequence = ISEQ_RUN`,
    `allow_buf_error = false`, `total_in = total_out = 0`. The public buffer members are not touched. -/
def lzmaStrmInit (strm : Stream) (junk : Nat := 0) : Stream :=
  let i : Internal := match strm.internal with
    | none => { hasCode := false, sequence := .run, availIn := junk, supported := 0, allowBufError := false }
    | some i => i
  { strm with
    internal := some { i with supported := 0, sequence := .run, allowBufError := false }
    totalIn := 0
    totalOut := 0 }

/-- What a public init function does: `lzma_next_strm_init(func, strm, …)` (= `lzma_strm_init`, then the coder's
    init function, which frees a previous coder of another type and installs its own: `next.code != NULL`), and then
    ONLY ENABLES its own actions: `supported_actions[X] = true` for each X in `mask` — it never clears an entry.
    That the result is exactly `mask` whatever the handle did before is the theorem `reinit_resets_supported`. -/
def installCoder (strm : Stream) (mask : Nat) (junk : Nat := 0) : Stream :=
  let s := lzmaStrmInit strm junk
  { s with internal := s.internal.map fun i => { i with hasCode := true, supported := i.supported ||| mask } }

/-- `lzma_end`: frees the coder and `internal`; the public members are left alone. -/
def lzmaEnd (strm : Stream) : Stream := { strm with internal := none }

/-! ### lzma_code -/

/-- `supported_actions[action]` guarded by the range check
    `(unsigned int)(action) > LZMA_ACTION_MAX || !supported_actions[action]`. -/
def actionRejected (i : Internal) (action : Nat) : Bool :=
  decide (action > LZMA_ACTION_MAX) || !(i.supported.testBit action)

/-- The first `if` of `lzma_code` ("Sanity checks"): true = return LZMA_PROG_ERROR. -/
def sanityFail (strm : Stream) (action : Nat) : Bool :=
  (strm.nextIn.isNone && strm.availIn != 0)
  || (strm.nextOut.isNone && strm.availOut != 0)
  || (match strm.internal with
      | none => true
      | some i => !i.hasCode || actionRejected i action)

/-- `switch (strm->internal->sequence)`: `.error r` = early `return r`, `.ok s` = fall through with
    `sequence = s`. -/
def seqSwitch (i : Internal) (action : Nat) (availIn : Nat) : Except Nat Seq :=
  match i.sequence with
  | .run =>
    if action = LZMA_RUN then .ok .run
    else if action = LZMA_SYNC_FLUSH then .ok .syncFlush
    else if action = LZMA_FULL_FLUSH then .ok .fullFlush
    else if action = LZMA_FINISH then .ok .finish
    else if action = LZMA_FULL_BARRIER then .ok .fullBarrier
    else .ok .run
  | .syncFlush =>
    if action != LZMA_SYNC_FLUSH || i.availIn != availIn then .error LZMA_PROG_ERROR else .ok .syncFlush
  | .fullFlush =>
    if action != LZMA_FULL_FLUSH || i.availIn != availIn then .error LZMA_PROG_ERROR else .ok .fullFlush
  | .finish =>
    if action != LZMA_FINISH || i.availIn != availIn then .error LZMA_PROG_ERROR else .ok .finish
  | .fullBarrier =>
    if action != LZMA_FULL_BARRIER || i.availIn != availIn then .error LZMA_PROG_ERROR else .ok .fullBarrier
  | .end_ => .error LZMA_STREAM_END
  | .error => .error LZMA_PROG_ERROR

/-- The pointer/counter updates after the inner call (`if (in_pos > 0) {…} if (out_pos > 0) {…}`).
    `total_in`/`total_out` are `uint64_t`. -/
def advance (strm : Stream) (r : Resp) : Stream :=
  let s1 := if r.consumed > 0 then
      { strm with nextIn := strm.nextIn.map (· + r.consumed)
                  availIn := strm.availIn - r.consumed
                  totalIn := (strm.totalIn + r.consumed) % U64 }
    else strm
  if r.produced > 0 then
      { s1 with nextOut := s1.nextOut.map (· + r.produced)
                availOut := s1.availOut - r.produced
                totalOut := (s1.totalOut + r.produced) % U64 }
  else s1

/-- `switch (ret)` at the end of `lzma_code`: new `sequence`, new `allow_buf_error`, returned value.
    (`i.sequence` is the value after the sequence switch.) -/
def classify (i : Internal) (r : Resp) : Internal × Nat :=
  if r.ret = LZMA_OK then
    if r.produced = 0 ∧ r.consumed = 0 then
      if i.allowBufError then (i, LZMA_BUF_ERROR)
      else ({ i with allowBufError := true }, LZMA_OK)
    else ({ i with allowBufError := false }, LZMA_OK)
  else if r.ret = LZMA_TIMED_OUT then
    ({ i with allowBufError := false }, LZMA_OK)
  else if r.ret = LZMA_SEEK_NEEDED then
    ({ i with allowBufError := false,
              sequence := if i.sequence = .finish then .run else i.sequence }, LZMA_SEEK_NEEDED)
  else if r.ret = LZMA_STREAM_END then
    ({ i with allowBufError := false,
              sequence := if i.sequence = .syncFlush ∨ i.sequence = .fullFlush ∨ i.sequence = .fullBarrier
                          then .run else .end_ }, LZMA_STREAM_END)
  else if r.ret = LZMA_NO_CHECK ∨ r.ret = LZMA_UNSUPPORTED_CHECK ∨ r.ret = LZMA_GET_CHECK
          ∨ r.ret = LZMA_MEMLIMIT_ERROR then
    ({ i with allowBufError := false }, r.ret)
  else
    -- default: fatal (the C code asserts ret != LZMA_BUF_ERROR here)
    ({ i with sequence := .error }, r.ret)

/-- `lzma_code(strm, action)` with `code` = what the installed inner coder does on this call.
    `action` is the value of `(unsigned int)(action)`. -/
def lzmaCode (code : InnerArgs → Resp) (strm : Stream) (action : Nat) : Result :=
  if sanityFail strm action then ⟨strm, LZMA_PROG_ERROR, none⟩
  else if strm.reserved.bad then ⟨strm, LZMA_OPTIONS_ERROR, none⟩
  else match strm.internal with
    | none => ⟨strm, LZMA_PROG_ERROR, none⟩
    | some i =>
      match seqSwitch i action strm.availIn with
      | .error e => ⟨strm, e, none⟩
      | .ok sq =>
        let args : InnerArgs := ⟨strm.nextIn, strm.availIn, strm.nextOut, strm.availOut, action⟩
        let r := code args
        let s1 := advance strm r
        let i1 : Internal := { i with sequence := sq, availIn := s1.availIn }
        let (i2, ret) := classify i1 r
        ⟨{ s1 with internal := some i2 }, ret, some (args, r)⟩

/-! ### Call histories -/

/-- One application step: the application (re)writes the public members it owns, then calls
    `lzma_code(strm, action)`. `totals = some (a, b)` models an application that overwrites
    `total_in`/`total_out` (allowed: they are plain public members). `code` is the behaviour of the inner
    coder should it be reached on this call. -/
structure Call where
  action : Nat
  nextIn : Option Nat
  availIn : Nat
  nextOut : Option Nat
  availOut : Nat
  reserved : Reserved := {}
  totals : Option (Nat × Nat) := none
  code : InnerArgs → Resp

def Call.apply (c : Call) (strm : Stream) : Stream :=
  { strm with nextIn := c.nextIn, availIn := c.availIn, nextOut := c.nextOut, availOut := c.availOut,
              reserved := c.reserved,
              totalIn := match c.totals with | some (a, _) => a % U64 | none => strm.totalIn
              totalOut := match c.totals with | some (_, b) => b % U64 | none => strm.totalOut }

def step (strm : Stream) (c : Call) : Result := lzmaCode c.code (c.apply strm) c.action

/-- One entry of an executed history: the stream before the application touched it, the call, the result. -/
structure Entry where
  pre : Stream
  call : Call
  result : Result

/-- Executes a history and records every call. -/
def trace : Stream → List Call → List Entry
  | _, [] => []
  | s, c :: cs => ⟨s, c, step s c⟩ :: trace (step s c).strm cs

/-- The stream after a history. -/
def finalState : Stream → List Call → Stream
  | s, [] => s
  | s, c :: cs => finalState (step s c).strm cs

/-! ### Accessors (trivial pass-throughs; the inner coder's callbacks are parameters) -/

/-- `lzma_get_progress`: the coder's `get_progress` if it has one, else the totals. -/
def lzmaGetProgress (strm : Stream) (coderProgress : Option (Nat × Nat)) : Nat × Nat :=
  match coderProgress with
  | some p => p
  | none => (strm.totalIn, strm.totalOut)

/-- `memconfig(coder, &memusage, &old_memlimit, new_memlimit)` answers `(ret, memusage, old_memlimit)`. -/
abbrev MemConfig := Nat → Nat × Nat × Nat

/-- `lzma_memusage`: 0 unless there is an initialised coder with a `memconfig` that answers LZMA_OK. -/
def lzmaMemusage (strm : Stream) (memconfig : Option MemConfig) : Nat :=
  match strm.internal, memconfig with
  | some _, some f => let (ret, usage, _) := f 0; if ret != LZMA_OK then 0 else usage
  | _, _ => 0

def lzmaMemlimitGet (strm : Stream) (memconfig : Option MemConfig) : Nat :=
  match strm.internal, memconfig with
  | some _, some f => let (ret, _, old) := f 0; if ret != LZMA_OK then 0 else old
  | _, _ => 0

/-- `lzma_memlimit_set`: PROG_ERROR without a memconfig; a limit of 0 is replaced by 1.
    Returns (ret, the limit value handed to the coder). -/
def lzmaMemlimitSet (strm : Stream) (memconfig : Option MemConfig) (newLimit : Nat) : Nat × Option Nat :=
  match strm.internal, memconfig with
  | some _, some f =>
    let l := if newLimit = 0 then 1 else newLimit
    ((f l).1, some l)
  | _, _ => (LZMA_PROG_ERROR, none)

/-! ### Documented `supported_actions` of every public initialisation function
    (api/lzma/container.h, filter.h, block.h, index.h: which actions each coder accepts). -/

def maskOf (actions : List Nat) : Nat := actions.foldl (fun m a => m ||| (1 <<< a)) 0

def documentedSupported : String → Option Nat
  | "lzma_easy_encoder" => some (maskOf [LZMA_RUN, LZMA_SYNC_FLUSH, LZMA_FULL_FLUSH, LZMA_FULL_BARRIER, LZMA_FINISH])
  | "lzma_stream_encoder" => some (maskOf [LZMA_RUN, LZMA_SYNC_FLUSH, LZMA_FULL_FLUSH, LZMA_FULL_BARRIER, LZMA_FINISH])
  | "lzma_stream_encoder_mt" => some (maskOf [LZMA_RUN, LZMA_FULL_FLUSH, LZMA_FULL_BARRIER, LZMA_FINISH])
  | "lzma_alone_encoder" => some (maskOf [LZMA_RUN, LZMA_FINISH])
  | "lzma_raw_encoder" => some (maskOf [LZMA_RUN, LZMA_SYNC_FLUSH, LZMA_FINISH])
  | "lzma_block_encoder" => some (maskOf [LZMA_RUN, LZMA_SYNC_FLUSH, LZMA_FINISH])
  | "lzma_index_encoder" => some (maskOf [LZMA_RUN, LZMA_FINISH])
  | "lzma_microlzma_encoder" => some (maskOf [LZMA_FINISH])
  | "lzma_stream_decoder" => some (maskOf [LZMA_RUN, LZMA_FINISH])
  | "lzma_stream_decoder_mt" => some (maskOf [LZMA_RUN, LZMA_FINISH])
  | "lzma_auto_decoder" => some (maskOf [LZMA_RUN, LZMA_FINISH])
  | "lzma_alone_decoder" => some (maskOf [LZMA_RUN, LZMA_FINISH])
  | "lzma_lzip_decoder" => some (maskOf [LZMA_RUN, LZMA_FINISH])
  | "lzma_raw_decoder" => some (maskOf [LZMA_RUN, LZMA_FINISH])
  | "lzma_block_decoder" => some (maskOf [LZMA_RUN, LZMA_FINISH])
  | "lzma_index_decoder" => some (maskOf [LZMA_RUN, LZMA_FINISH])
  | "lzma_microlzma_decoder" => some (maskOf [LZMA_RUN, LZMA_FINISH])
  | "lzma_file_info_decoder" => some (maskOf [LZMA_RUN, LZMA_FINISH])
  | _ => none

/-! ### The transition table (the finite control part of `lzma_code`), enumerated in a fixed order.
    `Gen/C11.lean` contains the same table produced by running the REAL `lzma_code` on a stub coder with
    `internal->sequence`, `allow_buf_error` poked to every value; the bridge is `decide +kernel`. -/

/-- Inner return values enumerated by the table: everything 0..13 and 100..109 except LZMA_BUF_ERROR
    (which trips `assert(ret != LZMA_BUF_ERROR)` in a debug build). -/
def tableRets : List Nat := [0, 1, 2, 3, 4, 5, 6, 7, 8, 9, 11, 12, 13, 100, 101, 102, 103, 104, 105, 106, 107, 108, 109]

/-- One cell of the table: input = (sequence, allow_buf_error, action 0..5, avail_in changed?, inner ret,
    progress kind (consumed, produced) ∈ {(0,0),(1,0),(0,1),(1,1)}); the fixed context is avail_in 5 (saved 5,
    or 6 when "changed"), avail_out 7, totals 40/50, all five actions supported.
    Output code packs: returned ret, new sequence, new allow_buf_error, inner called, Δtotal_in, Δtotal_out,
    saved avail_in == avail_in afterwards. -/
def tableCell (sq abe action changed retIdx prog : Nat) : Nat :=
  let i : Internal := { hasCode := true, sequence := Seq.ofCode sq, availIn := 5, supported := 31,
                        allowBufError := abe = 1 }
  let strm : Stream := { nextIn := some 1000, availIn := if changed = 1 then 6 else 5, totalIn := 40,
                         nextOut := some 2000, availOut := 7, totalOut := 50, reserved := {}, internal := some i }
  let resp : Resp := ⟨prog % 2, prog / 2, tableRets.getD retIdx 0⟩
  let r := lzmaCode (fun _ => resp) strm action
  match r.strm.internal with
  | none => 0
  | some i' =>
    ((((((r.ret * 8 + i'.sequence.code) * 2 + i'.allowBufError.toNat) * 2 + (if r.called.isSome then 1 else 0)) * 2
      + (r.strm.totalIn - 40)) * 2 + (r.strm.totalOut - 50)) * 2 + (if i'.availIn = r.strm.availIn then 1 else 0))

/-- All cells of one (sequence, allow_buf_error, action, changed) combination. Whether the inner coder is
    reached cannot depend on what it is going to answer, so a combination whose first cell did not reach it
    is represented by that single cell; otherwise all 23 × 4 (inner ret, progress) cells are listed. -/
def tableCombo (sq abe action changed : Nat) : List Nat :=
  let first := tableCell sq abe action changed 0 0
  if (first / 8) % 2 = 1 then (List.range 92).map (fun j => tableCell sq abe action changed (j / 4) (j % 4))
  else [first]

/-- Chunk `k = (sq * 2 + abe) * 6 + action`: the two combinations changed = 0, 1. -/
def tableChunk (k : Nat) : List Nat :=
  tableCombo (k / 12) ((k / 6) % 2) (k % 6) 0 ++ tableCombo (k / 12) ((k / 6) % 2) (k % 6) 1

/-- The whole table (7 sequences × 2 × 6 actions = 84 chunks), the shape Gen/C11 prints. -/
def modelTable : List (List Nat) := (List.range 84).map tableChunk

/-- Gate table: every sanity / reserved-member check on its own, on an otherwise healthy handle
    (same cases, in the same order, as harness/gen_c11.c). Cell = returned ret * 2 + (inner called). -/
def gateCell (k : Nat) : Nat :=
  let i : Internal := { hasCode := k != 13, sequence := .run, availIn := if k = 10 then 0 else 5,
                        supported := if 14 ≤ k ∧ k ≤ 18 then 31 - 2 ^ (k - 14) else 31, allowBufError := false }
  let r : Reserved := match k with
    | 0 => { ptr1 := 1 } | 1 => { ptr2 := 1 } | 2 => { ptr3 := 1 } | 3 => { ptr4 := 1 }
    | 4 => { int2 := 1 } | 5 => { int3 := 1 } | 6 => { int4 := 1 } | 7 => { enum1 := 1 } | 8 => { enum2 := 1 }
    | _ => {}
  let strm : Stream := { nextIn := if k = 9 ∨ k = 10 then none else some 1000, availIn := if k = 10 then 0 else 5,
                         totalIn := 40, nextOut := if k = 11 ∨ k = 12 then none else some 2000,
                         availOut := if k = 12 then 0 else 7, totalOut := 50, reserved := r,
                         internal := if k = 19 then none else some i }
  let action := if 14 ≤ k ∧ k ≤ 18 then k - 14 else LZMA_RUN
  let res := lzmaCode (fun a => ⟨min 1 a.inSize, min 1 a.outSize, LZMA_OK⟩) strm action
  res.ret * 2 + (if res.called.isSome then 1 else 0)

def modelGateTable : List Nat := (List.range 20).map gateCell

/-- Wide table: a flush/finish (actions 1..4) is started with avail_in = 2^32 + 5 on a coder that consumes nothing
    and produces one byte per call; then avail_in = 5 (reduced by exactly 2^32: must be rejected), 2^32 + 5 again
    (accepted), 2^32 + 4 (rejected). Cell = returned ret * 2 + (inner called); same order as harness/gen_c11.c. -/
def wideCells (action : Nat) : List Nat :=
  let i : Internal := { hasCode := true, sequence := .run, availIn := 0, supported := 31, allowBufError := false }
  let s0 : Stream := { nextIn := some 1000, availIn := 0, totalIn := 0, nextOut := some 2000, availOut := 16,
                       totalOut := 0, reserved := {}, internal := some i }
  let mk (ain : Nat) : Call := { action := action, nextIn := some 1000, availIn := ain, nextOut := some 2000,
                                 availOut := 16, code := fun a => ⟨0, min 1 a.outSize, LZMA_OK⟩ }
  (trace s0 [mk (2 ^ 32 + 5), mk 5, mk (2 ^ 32 + 5), mk (2 ^ 32 + 4)]).map fun e =>
    e.result.ret * 2 + (if e.result.called.isSome then 1 else 0)

def modelWideTable : List Nat := wideCells 1 ++ wideCells 2 ++ wideCells 3 ++ wideCells 4

end XzVerif.LzmaCode
