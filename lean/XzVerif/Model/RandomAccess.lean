/-
  C13 — decoding the Block found at a file offset (what a random-access reader does with the offsets of the index):
  `lzma_block_header_size_decode`, `lzma_block_header_decode`, `lzma_block_decoder` (→ `lzma_raw_decoder_init`, which
  validates the chain), `block_decode`.  Same steps as one iteration of `XzDecode.blocksLoop`.  Core Lean only.
-/
import XzVerif.Model.XzDecode

namespace XzVerif.RandomAccess
open XzVerif XzVerif.XzDecode XzVerif.Container

/-- What a random-access reader does with the bytes `inp` that start at a Block's offset: `lzma_block_header_size_decode`
    of the first byte, `lzma_block_header_decode` (`check` = the Check ID of the Stream, from the index), validation of the
    chain (`lzma_block_decoder` → `lzma_raw_decoder_init`), then `block_decode` with `outCap` bytes of output space.
    `consumed` counts from the Block's first byte. -/
def blockAt (E : Env) (check : Nat) (ign : Bool) (inp : List UInt8) (outCap : Nat) : BRes :=
  match inp with
  | [] => { ret := .ok, out := [], consumed := 0, compressed := 0 }
  | b0 :: _ =>
    let hs := (b0.toNat + 1) * 4
    if inp.length < hs then { ret := .ok, out := [], consumed := inp.length, compressed := 0 }
    else
      match blockHeaderDecodeWith hs check (inp.take hs) with
      | .error e => { ret := e, out := [], consumed := hs, compressed := 0 }
      | .ok h =>
        match validateChain (h.filters.map (·.id)) with
        | .error _ => { ret := .optionsError, out := [], consumed := hs, compressed := 0 }
        | .ok _ =>
          let b := blockDecode E check ign hs h (inp.drop hs) outCap
          { ret := b.ret, out := b.out, consumed := hs + b.consumed, compressed := b.compressed }

end XzVerif.RandomAccess
