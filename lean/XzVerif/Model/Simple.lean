/-
  simple_coder.c: the buffering wrapper shared by all BCJ filters, plus the dispatch to the eight `*_code` models,
  the one-shot `lzma_bcj_*` functions and the delta coder's `code` callbacks.  Core Lean only.

  The "next coder in the chain" is either absent (`next.code == NULL`: `simple_code` copies with `lzma_bufcpy`) or the
  harness's pass-through coder (copies, and returns LZMA_STREAM_END when `action == LZMA_FINISH` and all input is consumed).
-/
import XzVerif.Model.Bcj
import XzVerif.Model.BcjX86
import XzVerif.Model.BcjRiscv
import XzVerif.Model.Delta
namespace XzVerif.Simple
open XzVerif.Bcj

inductive FilterId | x86 | powerpc | ia64 | arm | armthumb | sparc | arm64 | riscv
deriving Repr, DecidableEq, Inhabited

/-- `unfiltered_max` passed to `lzma_simple_coder_init` -/
def FilterId.unfilteredMax : FilterId → Nat
  | .x86 => 5 | .powerpc => 4 | .ia64 => 16 | .arm => 4 | .armthumb => 4 | .sparc => 4 | .arm64 => 4 | .riscv => 8

/-- `alignment` passed to `lzma_simple_coder_init` -/
def FilterId.alignment : FilterId → Nat
  | .x86 => 1 | .powerpc => 4 | .ia64 => 16 | .arm => 4 | .armthumb => 2 | .sparc => 4 | .arm64 => 4 | .riscv => 2

/-- `coder->filter(coder->simple, now_pos, is_encoder, buffer, size)`: new buffer, return value, new filter state. -/
def filterCode (id : FilterId) (enc : Bool) (st : X86State) (nowPos : BitVec 32) (buf : List UInt8) :
    List UInt8 × Nat × X86State :=
  match id with
  | .x86 => x86Code enc st nowPos buf
  | .powerpc => let (o, n) := powerpcCode enc nowPos buf; (o, n, st)
  | .ia64 => let (o, n) := ia64Code enc nowPos buf; (o, n, st)
  | .arm => let (o, n) := armCode enc nowPos buf; (o, n, st)
  | .armthumb => let (o, n) := armthumbCode enc nowPos buf; (o, n, st)
  | .sparc => let (o, n) := sparcCode enc nowPos buf; (o, n, st)
  | .arm64 => let (o, n) := arm64Code enc nowPos buf; (o, n, st)
  | .riscv => let (o, n) := riscvCode enc nowPos buf; (o, n, st)

/-- `lzma_bcj_{x86,arm64,riscv}_{encode,decode}(start_offset, buf, size)`; `none` for filters without a one-shot API. -/
def oneShot (id : FilterId) (enc : Bool) (startOffset : BitVec 32) (buf : List UInt8) : Option (List UInt8 × Nat) :=
  match id with
  | .x86 => let (o, n, _) := x86Code enc X86State.init startOffset buf; some (o, n)
  | .arm64 => some (arm64Code enc (startOffset &&& ~~~ 3#32) buf)
  | .riscv => some (riscvCode enc (startOffset &&& ~~~ 1#32) buf)
  | _ => none

inductive Action | run | syncFlush | fullFlush | finish
deriving Repr, DecidableEq

inductive Next | null | passthrough
deriving Repr, DecidableEq

/-- `lzma_ret` values that occur here -/
def LZMA_OK : Nat := 0
def LZMA_STREAM_END : Nat := 1
def LZMA_OPTIONS_ERROR : Nat := 8

structure Coder where
  id : FilterId
  isEncoder : Bool
  next : Next
  endWasReached : Bool
  nowPos : BitVec 32
  allocated : Nat
  pos : Nat
  filtered : Nat
  size : Nat
  buffer : List UInt8        -- `buffer[0 .. size)`
  st : X86State
deriving Repr

/-- `lzma_simple_coder_init` + the per-filter init; `none` = LZMA_OPTIONS_ERROR (misaligned start offset).
    `allocated` is the size of the temporary buffer: `2 * unfiltered_max` in the reference code; any value ≥ that gives the same
    stream (only the per-call split differs), so the model driver takes the value the tree under test really uses (Gen/C15.lean). -/
def Coder.init (id : FilterId) (enc : Bool) (next : Next) (startOffset : BitVec 32) (allocated : Nat := 2 * id.unfilteredMax) :
    Option Coder :=
  if startOffset.toNat % id.alignment ≠ 0 then none
  else some { id := id, isEncoder := enc, next := next, endWasReached := false, nowPos := startOffset,
              allocated := allocated, pos := 0, filtered := 0, size := 0, buffer := [], st := X86State.init }

/-- `lzma_simple_coder_init` + per-filter init on an already allocated coder of the same filter (handle reuse): `now_pos`, `is_encoder`,
    `end_was_reached`, `pos`, `filtered`, `size` and the x86 state are reset; `allocated` is kept; the stale bytes of `buffer[]` are
    unreachable because `size = 0`. -/
def Coder.reinit (prev : Coder) (enc : Bool) (next : Next) (startOffset : BitVec 32) : Option Coder :=
  if startOffset.toNat % prev.id.alignment ≠ 0 then none
  else some { prev with isEncoder := enc, next := next, endWasReached := false, nowPos := startOffset,
                        pos := 0, filtered := 0, size := 0, buffer := [], st := X86State.init }

/-- `copy_or_code`: copies `min(|inp|, cap)` bytes and updates `end_was_reached`. Returns (copied, coder). -/
def copyOrCode (c : Coder) (inp : List UInt8) (cap : Nat) (action : Action) : List UInt8 × Coder :=
  let n := min inp.length cap
  let all := n == inp.length
  let fin := action == Action.finish && all
  let endNow := match c.next with
    | .null => c.isEncoder && fin
    | .passthrough => fin
  (inp.take n, if endNow then { c with endWasReached := true } else c)

/-- `call_filter` -/
def callFilter (c : Coder) (buf : List UInt8) : List UInt8 × Nat × Coder :=
  let (o, n, st) := filterCode c.id c.isEncoder c.st c.nowPos buf
  (o, n, { c with nowPos := c.nowPos + BitVec.ofNat 32 n, st := st })

structure Resp where
  consumed : Nat
  out : List UInt8
  ret : Nat
deriving Repr

/-- The part of `simple_code` after "Flush already filtered data". `out0` is what this call has already produced. -/
def simpleCodeMain (c : Coder) (inp : List UInt8) (outCap : Nat) (action : Action) (out0 : List UInt8) : Coder × Resp :=
  let c := { c with filtered := 0 }
  let outAvail := outCap - out0.length
  let bufAvail := c.size - c.pos
  -- first part: flush coder->buffer to out[], copy more, filter in out[]
  let (c, out, consumed) :=
    if outAvail > bufAvail || bufAvail == 0 then
      let fromBuf := (c.buffer.drop c.pos).take bufAvail
      let (copied, c) := copyOrCode c inp (outAvail - bufAvail) action
      let region := fromBuf ++ copied
      let size := region.length
      let (region, filtered, c) := if size == 0 then (region, 0, c) else callFilter c region
      let unfiltered := size - filtered
      let c := { c with pos := 0, size := unfiltered }
      if c.endWasReached then
        ({ c with size := 0, buffer := [] }, out0 ++ region, copied.length)
      else if unfiltered > 0 then
        ({ c with buffer := region.drop filtered }, out0 ++ region.take filtered, copied.length)
      else
        ({ c with buffer := [] }, out0 ++ region, copied.length)
    else if c.pos > 0 then
      ({ c with buffer := (c.buffer.drop c.pos).take bufAvail, size := c.size - c.pos, pos := 0 }, out0, 0)
    else (c, out0, 0)
  -- second part: fill coder->buffer, filter there, flush what was filtered
  let (c, out, consumed) :=
    if c.size > 0 then
      let (copied, c) := copyOrCode c (inp.drop consumed) (c.allocated - c.size) action
      let buf := c.buffer ++ copied
      let (buf, filtered, c) := callFilter c buf
      let filtered := if c.endWasReached then buf.length else filtered
      let n := min filtered (outCap - out.length)
      ({ c with buffer := buf, size := buf.length, filtered := filtered, pos := n }, out ++ buf.take n, consumed + copied.length)
    else (c, out, consumed)
  let ret := if c.endWasReached && c.pos == c.size then LZMA_STREAM_END else LZMA_OK
  (c, ⟨consumed, out, ret⟩)

/-- `simple_code(coder, in[0..|inp|), out with outCap free bytes, action)` -/
def simpleCode (c : Coder) (inp : List UInt8) (outCap : Nat) (action : Action) : Coder × Resp :=
  if action == Action.syncFlush then (c, ⟨0, [], LZMA_OPTIONS_ERROR⟩)
  else if c.pos < c.filtered then
    let n := min (c.filtered - c.pos) outCap
    let out := (c.buffer.drop c.pos).take n
    let c := { c with pos := c.pos + n }
    if c.pos < c.filtered then (c, ⟨0, out, LZMA_OK⟩)
    else if c.endWasReached then (c, ⟨0, out, LZMA_STREAM_END⟩)
    else simpleCodeMain c inp outCap action out
  else simpleCodeMain c inp outCap action []

/-! ### Delta as a coder (`delta_encode` with next == NULL or a pass-through next; `delta_decode` with a pass-through next) -/

/-- One `code` call of the delta coder. With `Next.null` (encoder only) the return value is
    `action != LZMA_RUN && in_pos == in_size ? LZMA_STREAM_END : LZMA_OK`. -/
def deltaCode (enc : Bool) (next : Next) (s : Delta.State) (inp : List UInt8) (outCap : Nat) (action : Action) :
    Delta.State × Resp :=
  let n := min inp.length outCap
  let all := n == inp.length
  let ret := match next with
    | .null => if action != Action.run && all then LZMA_STREAM_END else LZMA_OK
    | .passthrough => if action == Action.finish && all then LZMA_STREAM_END else LZMA_OK
  let (s, o) := if enc then Delta.encode s (inp.take n) else Delta.decode s (inp.take n)
  (s, ⟨n, o, ret⟩)

end XzVerif.Simple
