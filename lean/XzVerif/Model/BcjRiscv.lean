/-
  BCJ filters, part 3: RISC-V (src/liblzma/simple/riscv.c).  Core Lean only.
  Encoder and decoder are separate functions in C; both walk the buffer in 2-byte steps over an 8-byte window.
  `pc` is `now_pos + (uint32_t)i`.
-/
import XzVerif.Model.Bcj
namespace XzVerif.Bcj

/-- `read32le` of four buffer bytes -/
def le32 (b0 b1 b2 b3 : UInt8) : BitVec 32 :=
  u32 b0 ||| (u32 b1 <<< 8) ||| (u32 b2 <<< 16) ||| (u32 b3 <<< 24)

/-- `read32be` -/
def be32 (b0 b1 b2 b3 : UInt8) : BitVec 32 :=
  (u32 b0 <<< 24) ||| (u32 b1 <<< 16) ||| (u32 b2 <<< 8) ||| u32 b3

/-- `NOT_AUIPC_PAIR(auipc, inst2)` ≠ 0 -/
def notAuipcPair (auipc inst2 : BitVec 32) : Bool :=
  ((auipc <<< 8) ^^^ (inst2 - 3#32)) &&& 0xF8003#32 != 0#32

/-- `NOT_SPECIAL_AUIPC(auipc, inst2_rs1)` -/
def notSpecialAuipc (auipc rs1 : BitVec 32) : Bool :=
  decide (((auipc - 0x3117#32) <<< 18) ≥ (rs1 &&& 0x1D#32))

/-- JAL, encoder: new bytes 1..3. -/
def rvJalEnc (pc : BitVec 32) (b1 b2 b3 : UInt8) : UInt8 × UInt8 × UInt8 :=
  let x1 := u32 b1; let x2 := u32 b2; let x3 := u32 b3
  let addr := ((x1 &&& 0xF0#32) <<< 8) ||| ((x2 &&& 0x0F#32) <<< 16) ||| ((x2 &&& 0x10#32) <<< 7)
    ||| ((x2 &&& 0xE0#32) >>> 4) ||| ((x3 &&& 0x7F#32) <<< 4) ||| ((x3 &&& 0x80#32) <<< 13)
  let addr := addr + pc
  (u8 ((x1 &&& 0x0F#32) ||| ((addr >>> 13) &&& 0xF0#32)), u8 (addr >>> 9), u8 (addr >>> 1))

/-- JAL, decoder. -/
def rvJalDec (pc : BitVec 32) (b1 b2 b3 : UInt8) : UInt8 × UInt8 × UInt8 :=
  let x1 := u32 b1; let x2 := u32 b2; let x3 := u32 b3
  let addr := ((x1 &&& 0xF0#32) <<< 13) ||| (x2 <<< 9) ||| (x3 <<< 1)
  let addr := addr - pc
  (u8 ((x1 &&& 0x0F#32) ||| ((addr >>> 8) &&& 0xF0#32)),
   u8 (((addr >>> 16) &&& 0x0F#32) ||| ((addr >>> 7) &&& 0x10#32) ||| ((addr <<< 4) &&& 0xE0#32)),
   u8 (((addr >>> 4) &&& 0x7F#32) ||| ((addr >>> 13) &&& 0x80#32)))

/-- bytes of `write32le(x)` followed by `write32le(y)` -/
def le32x2 (x y : BitVec 32) : List UInt8 :=
  [u8 x, u8 (x >>> 8), u8 (x >>> 16), u8 (x >>> 24), u8 y, u8 (y >>> 8), u8 (y >>> 16), u8 (y >>> 24)]

/-- bytes of `write32le(x)` followed by `write32be(y)` -/
def le32be32 (x y : BitVec 32) : List UInt8 :=
  [u8 x, u8 (x >>> 8), u8 (x >>> 16), u8 (x >>> 24), u8 (y >>> 24), u8 (y >>> 16), u8 (y >>> 8), u8 y]

/-- encoder, AUIPC with rd ∉ {x0, x2} paired with inst2: the 8 new bytes -/
def rvPairEnc (pc inst inst2 : BitVec 32) : List UInt8 :=
  let addr := inst &&& 0xFFFFF000#32
  let addr := addr + ((inst2 >>> 20) - ((inst2 >>> 19) &&& 0x1000#32))
  let addr := addr + pc
  let inst := 0x17#32 ||| (2#32 <<< 7) ||| (inst2 <<< 12)
  le32be32 inst addr

/-- encoder, special AUIPC (rd = x2, packed inst2): "fake" decoding -/
def rvSpecialEnc (inst fakeAddr : BitVec 32) : List UInt8 :=
  let fakeRs1 := inst >>> 27
  let fakeInst2 := (inst >>> 12) ||| (fakeAddr <<< 20)
  let inst := 0x17#32 ||| (fakeRs1 <<< 7) ||| (fakeAddr &&& 0xFFFFF000#32)
  le32x2 inst fakeInst2

/-- decoder, AUIPC with rd ∉ {x0, x2} that looks like a pair: "fake" re-encoding -/
def rvPairDec (inst inst2 : BitVec 32) : List UInt8 :=
  let addr := inst &&& 0xFFFFF000#32
  let addr := addr + (inst2 >>> 20)
  let inst := 0x17#32 ||| (2#32 <<< 7) ||| (inst2 <<< 12)
  le32x2 inst addr

/-- decoder, special AUIPC: the real pair is restored (`addrBE` is `read32be(buffer + i + 4)`) -/
def rvSpecialDec (pc inst addrBE : BitVec 32) : List UInt8 :=
  let rs1 := inst >>> 27
  let addr := addrBE - pc
  let inst2 := (inst >>> 12) ||| (addr <<< 20)
  let inst := 0x17#32 ||| (rs1 <<< 7) ||| ((addr + 0x800#32) &&& 0xFFFFF000#32)
  le32x2 inst inst2

/-- `riscv_encode` main loop (`for (i = 0; i <= size - 8; i += 2)`). Returns the new bytes and `i` at exit. -/
def rvEncGo : BitVec 32 → List UInt8 → List UInt8 × Nat
  | pc, b0 :: b1 :: b2 :: b3 :: b4 :: b5 :: b6 :: b7 :: rest =>
    if b0 == 0xEF then
      if u32 b1 &&& 0x0D#32 != 0#32 then
        let (r, n) := rvEncGo (pc + 2#32) (b2 :: b3 :: b4 :: b5 :: b6 :: b7 :: rest)
        (b0 :: b1 :: r, n + 2)
      else
        let (o1, o2, o3) := rvJalEnc pc b1 b2 b3
        let (r, n) := rvEncGo (pc + 4#32) (b4 :: b5 :: b6 :: b7 :: rest)
        (b0 :: o1 :: o2 :: o3 :: r, n + 4)
    else if u32 b0 &&& 0x7F#32 == 0x17#32 then
      let inst := le32 b0 b1 b2 b3
      if inst &&& 0xE80#32 != 0#32 then
        let inst2 := le32 b4 b5 b6 b7
        if notAuipcPair inst inst2 then
          let (r, n) := rvEncGo (pc + 6#32) (b6 :: b7 :: rest)
          (b0 :: b1 :: b2 :: b3 :: b4 :: b5 :: r, n + 6)
        else
          let (r, n) := rvEncGo (pc + 8#32) rest
          (rvPairEnc pc inst inst2 ++ r, n + 8)
      else
        if notSpecialAuipc inst (inst >>> 27) then
          let (r, n) := rvEncGo (pc + 4#32) (b4 :: b5 :: b6 :: b7 :: rest)
          (b0 :: b1 :: b2 :: b3 :: r, n + 4)
        else
          let (r, n) := rvEncGo (pc + 8#32) rest
          (rvSpecialEnc inst (le32 b4 b5 b6 b7) ++ r, n + 8)
    else
      let (r, n) := rvEncGo (pc + 2#32) (b2 :: b3 :: b4 :: b5 :: b6 :: b7 :: rest)
      (b0 :: b1 :: r, n + 2)
  | _, l => (l, 0)

/-- `riscv_decode` main loop. -/
def rvDecGo : BitVec 32 → List UInt8 → List UInt8 × Nat
  | pc, b0 :: b1 :: b2 :: b3 :: b4 :: b5 :: b6 :: b7 :: rest =>
    if b0 == 0xEF then
      if u32 b1 &&& 0x0D#32 != 0#32 then
        let (r, n) := rvDecGo (pc + 2#32) (b2 :: b3 :: b4 :: b5 :: b6 :: b7 :: rest)
        (b0 :: b1 :: r, n + 2)
      else
        let (o1, o2, o3) := rvJalDec pc b1 b2 b3
        let (r, n) := rvDecGo (pc + 4#32) (b4 :: b5 :: b6 :: b7 :: rest)
        (b0 :: o1 :: o2 :: o3 :: r, n + 4)
    else if u32 b0 &&& 0x7F#32 == 0x17#32 then
      let inst := le32 b0 b1 b2 b3
      if inst &&& 0xE80#32 != 0#32 then
        let inst2 := le32 b4 b5 b6 b7
        if notAuipcPair inst inst2 then
          let (r, n) := rvDecGo (pc + 6#32) (b6 :: b7 :: rest)
          (b0 :: b1 :: b2 :: b3 :: b4 :: b5 :: r, n + 6)
        else
          let (r, n) := rvDecGo (pc + 8#32) rest
          (rvPairDec inst inst2 ++ r, n + 8)
      else
        if notSpecialAuipc inst (inst >>> 27) then
          let (r, n) := rvDecGo (pc + 4#32) (b4 :: b5 :: b6 :: b7 :: rest)
          (b0 :: b1 :: b2 :: b3 :: r, n + 4)
        else
          let (r, n) := rvDecGo (pc + 8#32) rest
          (rvSpecialDec pc inst (be32 b4 b5 b6 b7) ++ r, n + 8)
    else
      let (r, n) := rvDecGo (pc + 2#32) (b2 :: b3 :: b4 :: b5 :: b6 :: b7 :: rest)
      (b0 :: b1 :: r, n + 2)
  | _, l => (l, 0)

/-- `riscv_encode` / `riscv_decode` selected by `is_encoder` (C selects them at init time). -/
def riscvCode (enc : Bool) (nowPos : BitVec 32) (buf : List UInt8) : List UInt8 × Nat :=
  if enc then rvEncGo nowPos buf else rvDecGo nowPos buf

end XzVerif.Bcj
