/-
  C04 model pieces that no other model provides (core Lean only).

  1. Range-only view of the range decoder (`src/liblzma/rangecoder/range_decoder.h`): how `range` evolves and how many
     input bytes are read while ONE LZMA symbol is decoded. `rc_normalize` reads exactly one byte when `range < 2^24`;
     a probability bit replaces `range` by `bound = (range >> 11) * prob` or by `range - bound`; a direct bit halves it.
     The decoded bit values (which depend on `code`, i.e. on the input) are left as free choices, so a statement about
     `runR` holds for every input.
  2. The bit-kind sequences ("shapes") of all paths through one symbol of `lzma_decode()` (`lzma_decoder.c`,
     SEQ_IS_MATCH … SEQ_ALIGN / SEQ_REP_LEN_BITTREE), read off the fast loop.
  3. `rc_is_fast_allowed()` / `rc_to_local(…, LZMA_IN_REQUIRED)`.
  4. The arithmetic on `file_target_pos` and the two `seek_to_pos()` call sites of `file_info.c`.
-/
import XzVerif.Model.RangeDec

namespace XzVerif.C04Sym
open XzVerif.RangeDec

/-! ### 1. range evolution -/

inductive Kind where
  | prob      -- rc_if_0 / rc_update_0 / rc_update_1 (any of the rc_bit* macros)
  | direct    -- one iteration of rc_direct
  deriving DecidableEq, Repr, Inhabited

/-- One decoded bit: its kind, the probability variable it uses (ignored for direct bits) and the branch taken. -/
structure Op where
  kind : Kind
  p : Nat := 1024
  bit : Bool := false
  deriving Repr, Inhabited

/-- `rc_normalize` on the range alone: (range afterwards, bytes read). `range <<= 8` is a `uint32_t` operation. -/
def normR (r : Nat) : Nat × Nat := if r < RC_TOP_VALUE then ((r * 256) % U32, 1) else (r, 0)

/-- The range after one decoded bit, from a normalised range `r`. -/
def opR (r : Nat) (op : Op) : Nat :=
  match op.kind with
  | .prob => let bound := rcBound r op.p; if op.bit then r - bound else bound
  | .direct => r / 2

/-- Decode the bits `ops` in order (each preceded by `rc_normalize`): (final range, bytes read). -/
def runR : Nat → List Op → Nat × Nat
  | r, [] => (r, 0)
  | r, op :: ops =>
    let n := normR r
    let t := runR (opR n.1 op) ops
    (t.1, n.2 + t.2)

/-- `bitCore` changes the range exactly as `opR` says, for the branch it takes. -/
theorem bitCore_range (rc : Rc) (p : Nat) :
    (bitCore rc p).2.1.range = opR rc.range { kind := .prob, p := p, bit := (bitCore rc p).1 == 1 } := by
  unfold bitCore opR
  by_cases h : rc.code < rcBound rc.range p <;> simp [h]

theorem directCore_range (rc : Rc) : (directCore rc).2.range = opR rc.range { kind := .direct } := by
  unfold directCore opR
  by_cases h : (rc.code + U32 - rc.range / 2) % U32 / 2147483648 = 1 <;> simp [h]

/-- `normalizeL` (= `rc_normalize_safe`) reads exactly `(normR range).2` bytes and leaves `(normR range).1`. -/
theorem normalizeL_bytes (rc : Rc) (inp : List UInt8) (rc' : Rc) (rest : List UInt8)
    (h : normalizeL rc inp = some (rc', rest)) :
    inp.length = rest.length + (normR rc.range).2 ∧ rc'.range = (normR rc.range).1 := by
  unfold normalizeL at h
  unfold normR
  by_cases hn : rc.range < RC_TOP_VALUE
  · have hb : rc.needsByte = true := by simp [Rc.needsByte, hn]
    simp only [hb, if_true] at h
    cases inp with
    | nil => simp at h
    | cons b t =>
      simp only [Option.some.injEq, Prod.mk.injEq] at h
      obtain ⟨h1, h2⟩ := h
      subst h1; subst h2
      simp [hn, Rc.shiftIn]
  · have hb : rc.needsByte = false := by simp [Rc.needsByte, hn]
    simp only [hb] at h
    simp only [Bool.false_eq_true, if_false, Option.some.injEq, Prod.mk.injEq] at h
    obtain ⟨h1, h2⟩ := h
    subst h1; subst h2
    simp [hn]

/-! ### 2. shapes of one LZMA symbol -/

abbrev P : Kind := .prob
abbrev D : Kind := .direct

/-- match/rep length: choice [+ choice2] + bittree of 3, 3 or 8 bits (`len_decode`) -/
def lenShapes : List (List Kind) :=
  [List.replicate 4 P, List.replicate 5 P, List.replicate 10 P]

/-- distance after the 6 dist_slot bits, for dist_slot `s` (0..63):
    s < 4: nothing; s < 14: `(s >> 1) - 1` reverse-bittree bits on pos_special; else `(s >> 1) - 1 - 4` direct bits and
    4 reverse-bittree bits on pos_align. -/
def distTail (s : Nat) : List Kind :=
  if s < 4 then []
  else if s < 14 then List.replicate ((s >>> 1) - 1) P
  else List.replicate ((s >>> 1) - 1 - 4) D ++ List.replicate 4 P

def distShapes : List (List Kind) := (List.range 64).map fun s => List.replicate 6 P ++ distTail s

/-- All bit-kind sequences of one symbol:
    literal: is_match + 8 bits (plain or matched literal);
    match:   is_match, is_rep, length, dist_slot (6), distance tail;
    short rep: is_match, is_rep, is_rep0, is_rep0_long;
    long rep:  is_match, is_rep, is_rep0 (+ is_rep0_long | is_rep1 | is_rep1, is_rep2), length. -/
def symbolShapes : List (List Kind) :=
  [List.replicate 9 P]
  ++ (lenShapes.flatMap fun l => distShapes.map fun d => [P, P] ++ l ++ d)
  ++ [List.replicate 4 P]
  ++ (lenShapes.flatMap fun l => [List.replicate 4 P ++ l, List.replicate 4 P ++ l, List.replicate 5 P ++ l])

def countKind (k : Kind) (s : List Kind) : Nat := (s.filter (· == k)).length

/-- The range-shrink budget of `a` probability bits and `b` direct bits (the bits BEFORE the last one of a symbol):
    each probability bit shrinks the range by less than a factor 67, each direct bit by 2^25 / (2^24 - 1); starting from
    ≥ 8192·31 = 253952, 21 normalisations would push the range to 2^32 or more, and 20 of them leave it ≥ 2^24.
    (22 probability bits + 26 direct bits, the worst case named in lzma_decoder.c, passes with a = 21, b = 26; the
    23-bit all-probability path of dist_slot 12/13 passes with a = 22, b = 0.) -/
def budgetOk (a b : Nat) : Bool :=
  decide (4294967296 * (67 ^ a * 33554432 ^ b) < 253952 * 256 ^ 21 * 16777215 ^ b)
  && decide (16777216 * (67 ^ a * 33554432 ^ b) < 253952 * 256 ^ 20 * 16777215 ^ b)

/-- what the byte bound needs of a shape: the last bit is a probability bit (the direct bits of a distance are always
    followed by the 4 align bits) and the bits before it are within the budget. -/
def shapeOk (s : List Kind) : Bool :=
  (s.getLast? == some P) && budgetOk (countKind P s - 1) (countKind D s)

/-- The shape of a list of decoded bits. -/
def shapeOf (ops : List Op) : List Kind := ops.map (·.kind)

/-! ### 3. fast-mode guard -/

/-- `rc_is_fast_allowed()` after `rc_to_local(rc, in_pos, required)`:
    `rc_in_fast_end = (avail <= required) ? rc_in_ptr : rc_in_end - required; allowed = rc_in_ptr < rc_in_fast_end`. -/
def fastAllowed (avail required : Nat) : Bool :=
  if avail ≤ required then false else decide (0 < avail - required)

/-! ### 4. file_info.c: positions the application is asked to seek to -/

abbrev STREAM_HEADER_SIZE : Nat := 12
abbrev TEMP_SIZE : Nat := 8192

/-- `reverse_seek`: `none` = LZMA_DATA_ERROR (`file_target_pos < 2 * LZMA_STREAM_HEADER_SIZE`); otherwise
    (`temp_size`, position handed to `seek_to_pos` = `file_target_pos - temp_size`). -/
def reverseSeek (target : Nat) : Option (Nat × Nat) :=
  if target < 2 * STREAM_HEADER_SIZE then none
  else
    let ts := if target - STREAM_HEADER_SIZE < TEMP_SIZE then target - STREAM_HEADER_SIZE else TEMP_SIZE
    some (ts, target - ts)

/-- The statements of `file_info_decode` that assign `file_target_pos` (uint64_t), with the guard that precedes each;
    `none` = the guard fails and the function returns an error instead of assigning. -/
inductive TargetStep where
  | padding (newPadding tempSize : Nat)     -- SEQ_PADDING_DECODE: `-= new_padding`, new_padding ≤ temp_size ≤ target - 12
  | footer                                  -- SEQ_FOOTER: `-= LZMA_STREAM_HEADER_SIZE` (after a reverse_seek or with temp_size ≥ 12)
  | index (backwardSize : Nat)              -- `if (target < backward_size + 12) return DATA_ERROR; -= backward_size`
  | blocks (totalSize : Nat)                -- `seek_amount = total_size + 12; if (target < seek_amount) DATA_ERROR; -= seek_amount`
  | headerBack                              -- SEQ_HEADER_DECODE: `+= LZMA_STREAM_HEADER_SIZE` right after `blocks` left target ≠ 0
  | headerDone                              -- `-= LZMA_STREAM_HEADER_SIZE` after the Stream Header was read

/-- One assignment; the precondition each C statement relies on is part of the step. -/
def TargetStep.apply (t : Nat) : TargetStep → Option Nat
  | .padding np ts => if np ≤ ts ∧ ts + STREAM_HEADER_SIZE ≤ t then some (t - np) else none
  | .footer => if STREAM_HEADER_SIZE ≤ t then some (t - STREAM_HEADER_SIZE) else none
  | .index bs => if t < bs + STREAM_HEADER_SIZE then none else some (t - bs)
  | .blocks tot => if t < tot + STREAM_HEADER_SIZE then none else some (t - (tot + STREAM_HEADER_SIZE))
  | .headerBack => some (t + STREAM_HEADER_SIZE)
  | .headerDone => if STREAM_HEADER_SIZE ≤ t then some (t - STREAM_HEADER_SIZE) else none

/-- Positions passed to `seek_to_pos` in a state with `file_target_pos = t`: `reverse_seek` (t - temp_size) and the
    Index seek (t itself). -/
def seekTargets (t : Nat) : List Nat :=
  (match reverseSeek t with | some (_, p) => [p] | none => []) ++ [t]

/-- Run assignments from `t`; `headerBack` is only legal directly after `blocks` (as in the C code, where it undoes
    12 of the bytes just subtracted). Returns every value `file_target_pos` takes. -/
def targetTrace : Nat → List TargetStep → List Nat
  | t, [] => [t]
  | t, .blocks tot :: .headerBack :: rest =>
    match TargetStep.apply t (.blocks tot) with
    | none => [t]
    | some t1 => t :: t1 :: targetTrace (t1 + STREAM_HEADER_SIZE) rest
  | t, .headerBack :: _ => [t]          -- not a path of the C code
  | t, s :: rest =>
    match TargetStep.apply t s with
    | none => [t]
    | some t1 => t :: targetTrace t1 rest

end XzVerif.C04Sym
