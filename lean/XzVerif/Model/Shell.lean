/-
  L11 — the fragment of POSIX sh and sed that xzgrep/xzdiff rely on when they re-quote arguments for `eval`,
  label output lines with a file name, pick a decompressor from a file name suffix, and combine exit statuses
  (src/scripts/xzgrep.in, src/scripts/xzdiff.in).  Core Lean only.

  (i)   `shWords`   : the word syntax `eval` sees — unquoted blanks, '…', \c, "…$var…" (variables stay opaque),
                      the idiom ${1+"$@"}; every byte that would make the shell *do* something (operator,
                      command substitution, glob, comment, newline outside quotes) is an error, so
                      `shWords t = .ok ws` with all-literal `ws` means: t is data, nothing is evaluated.
  (ii)  `sedRun`    : a mini-sed: commands separated by newline/`;`, addresses `$` and `$!`, `s` with any
                      delimiter, BRE subset (literals, bracket sets, `^`, `$`), replacement with `&`, `\c`,
                      `\`newline, flag `g`.  Line cycle as in sed (pattern space without the newline).
  (iii) `cmdSubst`  : `$(…)` strips all trailing newlines.
  (iv)  `globMatch` : `case` patterns: `*`, `?`, `[…]`, `[!…]`, quoting with \c and '…', alternatives with `|`.
  (v)   status logic: a tiny statement language (`test … && act`, if/elif chains, exit/continue/assign) for the
                      blocks that combine exit statuses, plus closed forms.
-/
namespace XzVerif.Shell

abbrev Bytes := List UInt8

deriving instance DecidableEq for Except

abbrev TAB : UInt8 := 9
abbrev NL : UInt8 := 10
abbrev SP : UInt8 := 32
abbrev BANG : UInt8 := 33
abbrev DQ : UInt8 := 34
abbrev DOLLAR : UInt8 := 36
abbrev AMP : UInt8 := 38
abbrev SQ : UInt8 := 39
abbrev BSL : UInt8 := 92
abbrev BQ : UInt8 := 96
abbrev BAR : UInt8 := 124

/-! ## (i) shell word reader -/

inductive Seg where
  | lit (bs : Bytes)        -- literal bytes (quoted or not)
  | var (name : Bytes)      -- "$name": expanded later by the shell as ONE field, never re-parsed
  | args                    -- ${1+"$@"}: the remaining positional parameters, each one field
  deriving DecidableEq, Repr, Inhabited

abbrev Word := List Seg

inductive RErr where
  | nul                       -- a NUL byte cannot occur in a shell string
  | operator (c : UInt8)      -- ; & | < > ( ) or an unquoted newline: the text is more than one simple command
  | expansion (c : UInt8)     -- ` $ * ? [ # ~ in a position where the shell would expand / ignore text
  | badDollar                 -- `$` not followed by one of the supported forms
  | unterminated              -- input ended inside a quote or after a backslash
  deriving DecidableEq, Repr, Inhabited

inductive Mode where
  | blank                 -- between words
  | word                  -- inside a word, unquoted
  | sq | dq               -- inside '…' / "…"
  | bs | dqBs             -- just after a backslash (unquoted / inside "…")
  | dollar (k : Nat)      -- unquoted, k bytes of ${1+"$@"} seen
  | dqDollar | dqVar      -- inside "…": after `$` / reading a variable name
  | fail (e : RErr)
  deriving DecidableEq, Repr, Inhabited

structure RS where
  mode : Mode := .blank
  done : List Word := []     -- completed words, in order
  segs : List Seg := []      -- completed segments of the current word
  lit  : Bytes := []         -- current literal run of the current word
  name : Bytes := []         -- variable name being read
  deriving DecidableEq, Repr, Inhabited

def RS.failWith (st : RS) (e : RErr) : RS := { st with mode := .fail e }
def RS.push (st : RS) (c : UInt8) (m : Mode) : RS := { st with mode := m, lit := st.lit ++ [c] }
def RS.flushLit (st : RS) : List Seg := if st.lit = [] then st.segs else st.segs ++ [.lit st.lit]
/-- The current word: `''` is the word with one empty literal. -/
def RS.curWord (st : RS) : Word := if st.segs = [] then [.lit st.lit] else st.flushLit
def RS.endWord (st : RS) : RS := { mode := .blank, done := st.done ++ [st.curWord], segs := [], lit := [], name := [] }

def isOperator (c : UInt8) : Bool :=
  c = 59 || c = 38 || c = 124 || c = 60 || c = 62 || c = 40 || c = 41 || c = 10    -- ; & | < > ( ) newline
def isExpansion (c : UInt8) : Bool :=
  c = 96 || c = 42 || c = 63 || c = 91                                                -- ` * ? [
def isNameByte (c : UInt8) : Bool :=
  (48 ≤ c && c ≤ 57) || (65 ≤ c && c ≤ 90) || (97 ≤ c && c ≤ 122) || c = 95
def isDigit (c : UInt8) : Bool := 48 ≤ c && c ≤ 57

/-- `${1+"$@"}` -/
def argsPat : Bytes := [36, 123, 49, 43, 34, 36, 64, 34, 125]

def stepUnq (st : RS) (inWord : Bool) (c : UInt8) : RS :=
  if c = SP ∨ c = TAB then (if inWord then st.endWord else st)
  else if isOperator c then st.failWith (.operator c)
  else if isExpansion c then st.failWith (.expansion c)
  else if c = SQ then { st with mode := .sq }
  else if c = DQ then { st with mode := .dq }
  else if c = BSL then { st with mode := .bs }
  else if c = DOLLAR then (if inWord then st.failWith (.expansion c) else { st with mode := .dollar 1 })
  else if !inWord ∧ (c = 35 ∨ c = 126) then st.failWith (.expansion c)               -- # comment, ~ tilde
  else st.push c .word

def stepDq (st : RS) (c : UInt8) : RS :=
  if c = DQ then { st with mode := .word }
  else if c = BSL then { st with mode := .dqBs }
  else if c = DOLLAR then { st with mode := .dqDollar, segs := st.flushLit, lit := [] }
  else if c = BQ then st.failWith (.expansion c)
  else st.push c .dq

def step (st : RS) (c : UInt8) : RS :=
  if c = 0 then st.failWith .nul else
  match st.mode with
  | .fail _ => st
  | .blank => stepUnq st false c
  | .word => stepUnq st true c
  | .sq => if c = SQ then { st with mode := .word } else st.push c .sq
  | .bs => if c = NL then st.failWith (.operator c) else st.push c .word
  | .dq => stepDq st c
  | .dqBs =>
      if c = DOLLAR ∨ c = BQ ∨ c = DQ ∨ c = BSL then st.push c .dq
      else if c = NL then { st with mode := .dq }
      else { st with mode := .dq, lit := st.lit ++ [BSL, c] }
  | .dqDollar => if isNameByte c then { st with mode := .dqVar, name := [c] } else st.failWith .badDollar
  | .dqVar =>
      if isNameByte c ∧ !(st.name.head?.map isDigit).getD false then { st with name := st.name ++ [c] }
      else stepDq { st with mode := .dq, segs := st.segs ++ [.var st.name], name := [] } c
  | .dollar k =>
      if argsPat[k]? = some c then
        (if k = 8 then { st with mode := .word, segs := st.segs ++ [.args] } else { st with mode := .dollar (k + 1) })
      else st.failWith .badDollar

def finish (st : RS) : Except RErr (List Word) :=
  match st.mode with
  | .blank => .ok st.done
  | .word => .ok st.endWord.done
  | .fail e => .error e
  | _ => .error .unterminated

def readFrom (st : RS) (t : Bytes) : RS := t.foldl step st

/-- The words of a simple command as the shell reads them from the text `t`. -/
def shWords (t : Bytes) : Except RErr (List Word) := finish (readFrom {} t)

def Word.litOnly? : Word → Option Bytes
  | [.lit b] => some b
  | _ => none

/-- `some ws` iff `t` is read as words that are all literal (no variable, nothing evaluated). -/
def shWordsLit (t : Bytes) : Option (List Bytes) :=
  match shWords t with
  | .ok ws => ws.mapM Word.litOnly?
  | .error _ => none

/-- A script fragment that must be exactly one literal word (e.g. the right-hand side `'…'` of `escape=`). -/
def litWord (src : Bytes) : Option Bytes :=
  match shWordsLit src with
  | some [b] => some b
  | _ => none

/-- Value of a word (as in an assignment: no field splitting) under an environment. -/
def Word.subst (env : Bytes → Bytes) (w : Word) : Bytes :=
  w.flatMap fun
    | .lit b => b
    | .var n => env n
    | .args => []

/-! ## (iii) command substitution, printf -/

/-- `$(…)` removes all trailing newlines. -/
def cmdSubst (out : Bytes) : Bytes := (out.reverse.dropWhile (· = NL)).reverse

/-- `printf FMT ARG` for formats built from `%s` (once or more, same ARG… the scripts pass one), `%%`,
    `\n`, `\\` and ordinary bytes. -/
def printfS : Bytes → Bytes → Option Bytes
  | [], _ => some []
  | 37 :: 115 :: rest, a => (printfS rest a).map (a ++ ·)          -- %s
  | 37 :: 37 :: rest, a => (printfS rest a).map (37 :: ·)          -- %%
  | 92 :: 110 :: rest, a => (printfS rest a).map (NL :: ·)         -- \n
  | 92 :: 92 :: rest, a => (printfS rest a).map (BSL :: ·)         -- \\
  | c :: rest, a => if c = 37 ∨ c = 92 then none else (printfS rest a).map (c :: ·)

/-- One place where a script re-quotes a value for `eval` (raw script text; see Gen/C20.lean):
    `case VALUE in (guard) lhs=pre$(printf fmt "$var" | sed "$escape");; (*) lhs=plain;; esac`. -/
structure QuoteSite where
  line : Nat
  guard : Bytes      -- `case` pattern that selects the escaping path
  pre : Bytes        -- shell word(s) in front of the command substitution, e.g. `" '"`
  fmt : Bytes        -- printf format word, e.g. `'%sX\n'`
  plain : Bytes      -- the word used when the guard does not match, e.g. `" '$1'"`
  var : Bytes        -- name of the variable that holds the value
  deriving DecidableEq, Repr, Inhabited

/-! ## (ii) mini-sed -/

/-- A one-byte matcher: a literal is a singleton set. -/
structure Atom where
  set : Bytes
  deriving DecidableEq, Repr, Inhabited

def Atom.mem (a : Atom) (c : UInt8) : Bool := a.set.contains c

/-- `^`? atoms… `$`?  — every match has length `atoms.length`. -/
structure Regex where
  bol : Bool
  atoms : List Atom
  eol : Bool
  deriving DecidableEq, Repr, Inhabited

inductive RItem where
  | lit (b : UInt8)
  | whole               -- `&`
  deriving DecidableEq, Repr, Inhabited

inductive Addr where
  | all | last | notLast
  deriving DecidableEq, Repr, Inhabited

structure Cmd where
  addr : Addr
  re : Regex
  repl : List RItem
  global : Bool
  deriving DecidableEq, Repr, Inhabited

def atomsMatch : List Atom → Bytes → Bool
  | [], _ => true
  | _ :: _, [] => false
  | a :: as, c :: cs => a.mem c && atomsMatch as cs

/-- Does `re` match at the current position (`rest` = the line from here on)? -/
def matchAt (re : Regex) (atStart : Bool) (rest : Bytes) : Bool :=
  (!re.bol || atStart) && atomsMatch re.atoms rest && (!re.eol || rest.length == re.atoms.length)

def expand (repl : List RItem) (m : Bytes) : Bytes :=
  repl.flatMap fun
    | .lit b => [b]
    | .whole => m

/-- Left-to-right substitution over one line. `skip` bytes belong to the previous match; `active` is false
    once a non-global substitution has been made. -/
def substGo (re : Regex) (repl : List RItem) (g : Bool) : Bool → Nat → Bool → Bytes → Bytes
  | atStart, _, active, [] => if active && matchAt re atStart [] then expand repl [] else []
  | _, skip + 1, active, _ :: cs => substGo re repl g false skip active cs
  | atStart, 0, active, c :: cs =>
      if active && matchAt re atStart (c :: cs) then
        let n := re.atoms.length
        if n = 0 then expand repl [] ++ c :: substGo re repl g false 0 g cs
        else expand repl ((c :: cs).take n) ++ substGo re repl g false (n - 1) g cs
      else c :: substGo re repl g false 0 active cs

def subst (c : Cmd) (line : Bytes) : Bytes := substGo c.re c.repl c.global true 0 true line

def Addr.applies : Addr → Bool → Bool
  | .all, _ => true
  | .last, l => l
  | .notLast, l => !l

def runCmds (cmds : List Cmd) (line : Bytes) (last : Bool) : Bytes :=
  cmds.foldl (fun l c => if c.addr.applies last then subst c l else l) line

/-- The sed cycle over the input bytes; `cur` is the part of the current line read so far.
    A last line without a terminating newline is printed without one (GNU sed). -/
def sedStream (cmds : List Cmd) : Bytes → Bytes → Bytes
  | cur, [] => if cur = [] then [] else runCmds cmds cur true
  | cur, c :: rest =>
      if c = NL then
        if rest = [] then runCmds cmds cur true ++ [NL]
        else runCmds cmds cur false ++ NL :: sedStream cmds [] rest
      else sedStream cmds (cur ++ [c]) rest

/-! ### sed program parser -/

/-- Bytes of a bracket expression up to `]` (no ranges, classes or negation in the subset). -/
def parseBracket : Bytes → Option (Bytes × Bytes)
  | [] => none
  | c :: cs =>
      if c = 93 then some ([], cs)
      else if c = NL ∨ c = 91 then none
      else (parseBracket cs).map fun (s, r) => (c :: s, r)

/-- Regex = `^`? (literal | `\c` | `[set]`)* `$`? up to the delimiter. Fuel-driven because a bracket
    expression is skipped as a block. -/
def parseRegexGo (d : UInt8) : Nat → Bytes → Option (List Atom × Bool × Bytes)
  | 0, _ => none
  | fuel + 1, t =>
      match t with
      | [] => none
      | c :: cs =>
          if c = d then some ([], false, cs)
          else if c = NL then none
          else if c = 91 then
            match parseBracket cs with
            | some (s, r) =>
                if s = [] ∨ s.head? = some 94 ∨ (s.dropLast.drop 1).contains 45 then none   -- empty, negated, range
                else (parseRegexGo d fuel r).map fun (as, eol, r') => (⟨s⟩ :: as, eol, r')
            | none => none
          else if c = DOLLAR then
            match cs with
            | e :: cs' => if e = d then some ([], true, cs') else none
            | [] => none
          else if c = BSL then
            match cs with
            | e :: cs' =>
                if e = d ∨ e = BSL ∨ e = DOLLAR ∨ e = 46 ∨ e = 42 ∨ e = 91 ∨ e = 93 ∨ e = 94 then
                  (parseRegexGo d fuel cs').map fun (as, eol, r) => (⟨[e]⟩ :: as, eol, r)
                else none
            | [] => none
          else if c = 46 ∨ c = 42 then none
          else (parseRegexGo d fuel cs).map fun (as, eol, r) => (⟨[c]⟩ :: as, eol, r)

def parseRegex (d : UInt8) (t : Bytes) : Option (Regex × Bytes) :=
  match t with
  | 94 :: cs => (parseRegexGo d (cs.length + 1) cs).map fun (as, eol, r) => (⟨true, as, eol⟩, r)
  | _ => (parseRegexGo d (t.length + 1) t).map fun (as, eol, r) => (⟨false, as, eol⟩, r)

/-- Replacement text up to the unescaped delimiter. `\` may be followed by the delimiter, `&`, `\` or a newline;
    any other escape (`\1`, `\n`, `\L` …) and an unescaped newline are outside the subset. -/
def parseRepl (d : UInt8) : Bytes → Option (List RItem × Bytes)
  | [] => none
  | c :: cs =>
      if c = d then some ([], cs)
      else if c = NL then none
      else if c = BSL then
        match cs with
        | e :: cs' =>
            if e = d ∨ e = AMP ∨ e = BSL ∨ e = NL then (parseRepl d cs').map fun (is, r) => (.lit e :: is, r)
            else none
        | [] => none
      else if c = AMP then (parseRepl d cs).map fun (is, r) => (.whole :: is, r)
      else (parseRepl d cs).map fun (is, r) => (.lit c :: is, r)

def isSedBlank (c : UInt8) : Bool := c = SP || c = TAB || c = NL || c = 59

def parseFlags : Bytes → Option (Bool × Bytes)
  | [] => some (false, [])
  | c :: cs =>
      if c = 103 then                                         -- g
        match cs with
        | [] => some (true, [])
        | e :: _ => if isSedBlank e then some (true, cs) else none
      else if isSedBlank c then some (false, c :: cs)
      else none

/-- One command: `[$[!]] s D regex D replacement D [g]`. -/
def parseCmd (t : Bytes) : Option (Cmd × Bytes) :=
  let (addr, t1) : Addr × Bytes :=
    match t with
    | 36 :: 33 :: r => (.notLast, r)
    | 36 :: r => (.last, r)
    | _ => (.all, t)
  match t1 with
  | 115 :: d :: t2 =>
      if d = NL ∨ d = BSL ∨ d = SP then none else
      match parseRegex d t2 with
      | some (re, t3) =>
          match parseRepl d t3 with
          | some (repl, t4) =>
              match parseFlags t4 with
              | some (g, t5) => some (⟨addr, re, repl, g⟩, t5)
              | none => none
          | none => none
      | none => none
  | _ => none

def parseProg : Nat → Bytes → Option (List Cmd)
  | _, [] => some []
  | 0, _ :: _ => none
  | fuel + 1, c :: cs =>
      if isSedBlank c then parseProg fuel cs
      else match parseCmd (c :: cs) with
        | some (cmd, rest) => (parseProg fuel rest).map (cmd :: ·)
        | none => none

def sedParse (prog : Bytes) : Option (List Cmd) := parseProg (prog.length + 1) prog

/-- `sed PROG` applied to `input`; `none` if PROG is outside the modelled subset. -/
def sedRun (prog input : Bytes) : Option Bytes :=
  (sedParse prog).map fun cmds => sedStream cmds [] input

/-! ## (iv) `case` patterns -/

inductive GAtom where
  | star
  | any
  | cls (neg : Bool) (set : Bytes)
  deriving DecidableEq, Repr, Inhabited

abbrev Glob := List GAtom

def GAtom.lit (c : UInt8) : GAtom := .cls false [c]

def anySuffix (p : Bytes → Bool) : Bytes → Bool
  | [] => p []
  | c :: cs => p (c :: cs) || anySuffix p cs

def globMatch : Glob → Bytes → Bool
  | [], s => s.isEmpty
  | .star :: ps, s => anySuffix (globMatch ps) s
  | .any :: ps, s => match s with
      | [] => false
      | _ :: cs => globMatch ps cs
  | .cls neg set :: ps, s => match s with
      | [] => false
      | c :: cs => (set.contains c != neg) && globMatch ps cs

/-- One pattern (no unquoted `|`): `*`, `?`, `[…]`/`[!…]` (no ranges), `\c`, `'…'`, ordinary bytes. -/
def globParseGo : Nat → Bytes → Option Glob
  | 0, _ => none
  | fuel + 1, t =>
      match t with
      | [] => some []
      | c :: cs =>
          if c = 42 then (globParseGo fuel cs).map (.star :: ·)
          else if c = 63 then (globParseGo fuel cs).map (.any :: ·)
          else if c = BSL then
            match cs with
            | e :: cs' => (globParseGo fuel cs').map (.lit e :: ·)
            | [] => none
          else if c = SQ then
            let q := cs.takeWhile (· ≠ SQ)
            match cs.dropWhile (· ≠ SQ) with
            | _ :: r => (globParseGo fuel r).map (q.map GAtom.lit ++ ·)
            | [] => none
          else if c = 91 then
            let (neg, body) : Bool × Bytes := match cs with
              | 33 :: b => (true, b)
              | b => (false, b)
            match parseBracket body with
            | some (s, r) =>
                if s = [] ∨ (s.dropLast.drop 1).contains 45 then none
                else (globParseGo fuel r).map (.cls neg s :: ·)
            | none => none
          else if c = DQ ∨ c = DOLLAR ∨ c = BQ ∨ c = SP ∨ c = TAB ∨ c = NL ∨ c = BAR ∨ c = 40 ∨ c = 41 then none
          else (globParseGo fuel cs).map (.lit c :: ·)

def globParse (t : Bytes) : Option Glob := globParseGo (t.length + 1) t

/-- Split a `case` pattern list at unquoted `|`, dropping blanks/newlines around the alternatives.
    `skip` bytes are copied verbatim (after a backslash; a bracket expression is copied as a block so that a
    `|` inside it is not a separator). -/
def splitAlts : Bytes → Bool → Nat → Bytes → List Bytes
  | cur, _, _, [] => [cur]
  | cur, inSq, skip + 1, c :: cs => splitAlts (cur ++ [c]) inSq skip cs
  | cur, true, 0, c :: cs => splitAlts (cur ++ [c]) (c ≠ SQ) 0 cs
  | cur, false, 0, c :: cs =>
      if c = SQ then splitAlts (cur ++ [c]) true 0 cs
      else if c = BSL then splitAlts (cur ++ [c]) false 1 cs
      else if c = BAR then cur :: splitAlts [] false 0 cs
      else if c = SP ∨ c = TAB ∨ c = NL then
        (if cur = [] ∨ (cs.dropWhile fun x => x = SP ∨ x = TAB ∨ x = NL).head? = some BAR
            ∨ cs.all (fun x => x = SP ∨ x = TAB ∨ x = NL)
         then splitAlts cur false 0 cs else splitAlts (cur ++ [c]) false 0 cs)
      else if c = 91 then
        match parseBracket (match cs with | 33 :: b => b | b => b) with
        | some (s, _) => splitAlts (cur ++ [c]) false (s.length + 1 + (if cs.head? = some 33 then 1 else 0)) cs
        | none => splitAlts (cur ++ [c]) false 0 cs
      else splitAlts (cur ++ [c]) false 0 cs

def parseAlts (t : Bytes) : Option (List Glob) :=
  let t' := match t.dropWhile (fun x => x = SP ∨ x = TAB ∨ x = NL) with
    | 40 :: r => r
    | r => r
  (splitAlts [] false 0 t').mapM globParse

/-- Does the value match one of the alternatives of the pattern list `t`? `none`: pattern outside the subset. -/
def caseMatch (t : Bytes) (s : Bytes) : Option Bool :=
  (parseAlts t).map fun gs => gs.any (globMatch · s)

/-- `case s in arm₁) r₁;; arm₂) r₂;; … esac`: the result of the first arm with a matching pattern. -/
def caseSelect {α : Type} : List (List Glob × α) → Bytes → Option α
  | [], _ => none
  | (gs, r) :: arms, s => if gs.any (globMatch · s) then some r else caseSelect arms s

/-- `case name in PATS₁) r₁;; PATS₂) r₂;; … esac` with the pattern lists given as script text.
    Outer `none`: a pattern outside the modelled subset; inner `none`: no arm matches. -/
def dispatch {α : Type} (arms : List (Bytes × α)) (name : Bytes) : Option (Option α) :=
  (arms.mapM fun (pr : Bytes × α) => (parseAlts pr.1).map fun gs => (gs, pr.2)).map fun as => caseSelect as name

/-! ## the quoting pipelines of the scripts, parametric in the script text (instantiated with Gen/C20.lean) -/

abbrev VarEnv := Bytes → Bytes

def VarEnv.set (env : VarEnv) (name val : Bytes) : VarEnv := fun n => if n = name then val else env n

/-- Value of a script word such as `"$operands '"` (one word, variables from `env`). -/
def evalWordSrc (src : Bytes) (env : VarEnv) : Option Bytes :=
  match shWords src with
  | .ok [w] => some (w.subst env)
  | _ => none

def joinSp : List Bytes → Bytes
  | [] => []
  | [a] => a
  | a :: b :: r => a ++ SP :: joinSp (b :: r)

/-- The string `eval` builds from its arguments (script words `src`, variables from `env`): the expanded arguments
    joined by single blanks. -/
def evalArgs (src : Bytes) (env : VarEnv) : Option Bytes :=
  match shWords src with
  | .ok ws => some (joinSp (ws.map (Word.subst env)))
  | .error _ => none

/-- `$(printf FMT "$v" | sed PROG)` where FMT and PROG are given as script words. -/
def printfSedSubst (progSrc fmtSrc : Bytes) (v : Bytes) : Option Bytes := do
  let prog ← litWord progSrc
  let fmt ← litWord fmtSrc
  let inp ← printfS fmt v
  let out ← sedRun prog inp
  pure (cmdSubst out)

/-- The new value of the site's left-hand side variable. -/
def QuoteSite.value (s : QuoteSite) (escapeSrc : Bytes) (env : VarEnv) : Option Bytes := do
  let v := env s.var
  let m ← caseMatch s.guard v
  if m then do
    let pre ← evalWordSrc s.pre env
    let q ← printfSedSubst escapeSrc s.fmt v
    pure (pre ++ q)
  else evalWordSrc s.plain env

/-- Script text of the sed-fallback labelling (xzgrep). -/
structure LabelSrc where
  suffix : Bytes     -- `"$i:"`
  guard : Bytes      -- pattern list: names that need escaping
  fmt : Bytes        -- `'%s\n'`
  sed : Bytes        -- the escaping program (script word)
  script : Bytes     -- `"s|^|$i|"`

/-- The `sed_script` xzgrep builds for the file name `name`. -/
def LabelSrc.sedScript (l : LabelSrc) (name : Bytes) : Option Bytes := do
  let env0 : VarEnv := fun _ => []
  let i1 ← evalWordSrc l.suffix (env0.set [105] name)
  let needs ← caseMatch l.guard i1
  let i2 ← if needs then printfSedSubst l.sed l.fmt i1 else some i1
  evalWordSrc l.script (env0.set [105] i2)

/-! ## (v) exit-status logic -/

inductive SVar where
  | r | xz | sed | res | num | cmp | pipe
  deriving DecidableEq, Repr, Inhabited

inductive Opnd where
  | v (x : SVar)
  | n (k : Nat)
  deriving DecidableEq, Repr, Inhabited

inductive CmpOp where
  | lt | le | gt | ge | eq | ne
  deriving DecidableEq, Repr, Inhabited

inductive Cond where
  | cmp (op : CmpOp) (a b : Opnd)        -- test a -op b
  | empty (x : SVar)                      -- test -z "$x"
  | isPipe (x : SVar) (want : Bool)       -- test "$(kill -l "$x" 2>/dev/null)" = / != "PIPE"
  deriving DecidableEq, Repr, Inhabited

inductive Act where
  | set (x : SVar) (e : Opnd)
  | exit (e : Opnd)
  | continue_
  deriving DecidableEq, Repr, Inhabited

/-- `c₁ && c₂ && … && act` (no conditions: plain `act`). -/
structure Simple where
  conds : List Cond
  act : Act
  deriving DecidableEq, Repr, Inhabited

inductive Stmt where
  | simple (s : Simple)
  | ifChain (arms : List (List Cond × List Simple))     -- if/elif/…; `else` is an arm with no condition
  deriving Repr, Inhabited

/-- The status variables. `xzEmpty`: `$xz_status` is the empty string (the decompressor's status never arrived). -/
structure Env where
  r : Nat := 0
  xz : Nat := 0
  sed : Nat := 0
  res : Nat := 0
  num : Nat := 0
  cmp : Nat := 0
  pipe : Nat := 0
  xzEmpty : Bool := false
  deriving DecidableEq, Repr, Inhabited

inductive Flow where
  | go (e : Env)           -- fall through to the next statement
  | exit (n : Nat)         -- the script exits with this status
  | next (e : Env)         -- `continue`: next loop iteration
  deriving DecidableEq, Repr, Inhabited

/-- `kill -l N` prints PIPE exactly for 128 + SIGPIPE (13 on every platform xz supports). -/
def pipeStatus : Nat := 141

def Env.get (e : Env) : SVar → Nat
  | .r => e.r | .xz => e.xz | .sed => e.sed | .res => e.res | .num => e.num | .cmp => e.cmp | .pipe => e.pipe

def Env.put (e : Env) (x : SVar) (k : Nat) : Env :=
  match x with
  | .r => { e with r := k } | .xz => { e with xz := k } | .sed => { e with sed := k } | .res => { e with res := k }
  | .num => { e with num := k } | .cmp => { e with cmp := k } | .pipe => { e with pipe := k }

def Opnd.eval (e : Env) : Opnd → Nat
  | .v x => e.get x
  | .n k => k

def CmpOp.eval : CmpOp → Nat → Nat → Bool
  | .lt, a, b => a < b | .le, a, b => a ≤ b | .gt, a, b => a > b
  | .ge, a, b => a ≥ b | .eq, a, b => a = b | .ne, a, b => a ≠ b

def Cond.eval (e : Env) : Cond → Bool
  | .cmp op a b => op.eval (a.eval e) (b.eval e)
  | .empty x => x = .xz && e.xzEmpty
  | .isPipe x want => (e.get x = pipeStatus) = want

def Act.run (e : Env) : Act → Flow
  | .set x v => .go (e.put x (v.eval e))
  | .exit v => .exit (v.eval e)
  | .continue_ => .next e

def Simple.run (e : Env) (s : Simple) : Flow :=
  if s.conds.all (Cond.eval e) then s.act.run e else .go e

def runSimples : List Simple → Env → Flow
  | [], e => .go e
  | s :: ss, e => match s.run e with
      | .go e' => runSimples ss e'
      | f => f

def runArms : List (List Cond × List Simple) → Env → Flow
  | [], e => .go e
  | (cs, body) :: arms, e => if cs.all (Cond.eval e) then runSimples body e else runArms arms e

def Stmt.run (e : Env) : Stmt → Flow
  | .simple s => s.run e
  | .ifChain arms => runArms arms e

def runStmts : List Stmt → Env → Flow
  | [], e => .go e
  | s :: ss, e => match s.run e with
      | .go e' => runStmts ss e'
      | f => f

/-! ### closed forms (what the blocks are meant to compute) -/

/-- `res` after a file whose final grep-side status is `r`: errors (≥ 2) only ever raise it, a match (0) turns the
    initial 1 into 0, "no match" (1) leaves it alone. -/
def resUpdate (r res : Nat) : Nat :=
  if r ≥ 2 then (if res < r then r else res)
  else if r = 0 then (if res = 1 then 0 else res)
  else res

/-- xzgrep, after one file: `r` = status of the grep side, `xz` = decompressor status (`none`: never reported),
    `res` = running result. `inl n`: exit immediately with n; `inr res'`: go on with the next file. -/
def grepFileStep (r : Nat) (xz : Option Nat) (res : Nat) : Nat ⊕ Nat :=
  if r ≥ 128 then .inl r else
  match xz with
  | none => .inl 2
  | some x =>
      if x ≥ 128 then (if x = pipeStatus then .inr (resUpdate r res) else .inl x)
      else if x > 0 then .inr (resUpdate (if r < 2 then 2 else r) res)
      else .inr (resUpdate r res)

/-- xzgrep sed fallback: grep's status `r`, the pipeline's (sed's) status `p`. -/
def grepSedStatus (r p : Nat) : Nat := if p = 0 then r else max r (max p 2)

/-- xzdiff: cmp/diff status and the list of decompressor statuses. -/
def diffFinal (cmp : Nat) (nums : List Nat) : Nat :=
  if nums.all (fun n => n = 0 ∨ n = pipeStatus) then cmp else 2

/-- The `for num in $xz_status` loop of xzdiff run on the statement list `body`. -/
def diffLoop (body : List Stmt) (e : Env) : List Nat → Flow
  | [] => .go e
  | n :: ns => match runStmts body { e with num := n } with
      | .exit k => .exit k
      | .go e' => diffLoop body e' ns
      | .next e' => diffLoop body e' ns

/-- The per-file loop of xzgrep: fold `grepFileStep` over the files; the final `exit "$res"`. -/
def grepFold : List (Nat × Option Nat) → Nat → Nat
  | [], res => res
  | (r, xz) :: fs, res => match grepFileStep r xz res with
      | .inl n => n
      | .inr res' => grepFold fs res'

end XzVerif.Shell
