/-
  C09 (part 2): memory-limit state machines of the decoders, on top of an explicit heap (live bytes, peak, request list).
    common/stream_decoder.c   SEQ_BLOCK_INIT: decode Block Header (allocates the filter options), compare
                              lzma_raw_decoder_memusage() with the limit BEFORE initialising the Block decoder,
                              LZMA_MEMLIMIT_ERROR is restartable after lzma_memlimit_set()
    common/alone_decoder.c / lzip_decoder.c   SEQ_CODER_INIT
    common/auto_decoder.c     delegation + its own copy of the limit
    common/index_decoder.c    SEQ_MEMUSAGE, lzma_index_buffer_decode
    common/stream_decoder_mt.c   memlimit_stop check at SEQ_BLOCK_INIT, direct mode, stream_decoder_mt_memconfig
    common/common.c           lzma_memusage / lzma_memlimit_get / lzma_memlimit_set
  The Block payload itself is not modelled here (C03 does that): a Block is skipped using the Compressed Size of its
  header, i.e. the next coder is an abstract coder that accepts its input.
  Core Lean only.
-/
import XzVerif.Model.Memusage
import XzVerif.Model.Container

namespace XzVerif.Memlimit
open XzVerif XzVerif.Memusage

/-! ## Heap bookkeeping (what the counting allocator of the harness sees) -/

structure Heap where
  live : Nat := 0
  peak : Nat := 0
  /-- sizes requested, most recent first -/
  reqs : List Nat := []
  deriving Repr, DecidableEq

def Heap.alloc (h : Heap) (n : Nat) : Heap :=
  { live := h.live + n, peak := max h.peak (h.live + n), reqs := n :: h.reqs }

def Heap.allocs (h : Heap) (ns : List Nat) : Heap := ns.foldl Heap.alloc h

def Heap.free (h : Heap) (n : Nat) : Heap := { h with live := h.live - n }

/-! ## The filter chain that stays allocated between Blocks (lzma_next_coder reuse) -/

inductive Kind where
  | bcj (id : Nat) | delta | lzma1 | lzma2
  deriving Repr, DecidableEq

/-- One initialised filter: which init function owns it, the bytes of its structs, and its dictionary buffer. -/
structure Node where
  kind : Kind
  bytes : Nat
  dict : Nat := 0
  deriving Repr, DecidableEq

def Node.total (n : Node) : Nat := n.bytes + n.dict

def chainBytes (c : List Node) : Nat := (c.map Node.total).sum

def kindOf : Filter → Option Kind
  | .lzma1 _ => some .lzma1
  | .lzma2 _ => some .lzma2
  | .bcj id _ => some (.bcj id)
  | .delta _ => some .delta
  | .other _ => none

/-- One allocator call. A coder's initialisation is a *script* of such calls that depends only on the filter chain and
    on what is already allocated, never on the heap counters; the heap is updated by replaying the script. -/
inductive Op where
  | alloc (n : Nat) | free (n : Nat)
  deriving Repr, DecidableEq

def Heap.step (h : Heap) : Op → Heap
  | .alloc n => h.alloc n
  | .free n => h.free n

def Heap.apply (h : Heap) (ops : List Op) : Heap := ops.foldl Heap.step h

/-- Fresh initialisation of filter `f`: (return code, sizes requested in order, node describing what is now allocated). -/
def freshInit (b : Build) (f : Filter) : Nat × List Nat × Option Node :=
  match kindOf f with
  | none => (8, [], none)
  | some k =>
    if filterDecInitRet f ≠ 0 then
      let a := filterDecAllocsOnError b f
      (filterDecInitRet f, a, some { kind := k, bytes := a.sum })
    else
      match f with
      | .lzma1 o =>
        (0, filterDecAllocs b f, some { kind := k, bytes := b.szLzDecoder + b.szLzma1Decoder, dict := lzDictAllocSize b o.dict })
      | .lzma2 o =>
        (0, filterDecAllocs b f,
          some { kind := k, bytes := b.szLzDecoder + b.szLzma2Decoder + b.szLzma1Decoder, dict := lzDictAllocSize b o.dict })
      | _ => (0, filterDecAllocs b f, some { kind := k, bytes := (filterDecAllocs b f).sum })

/-- Re-initialisation of an existing node with a filter of the same init function: structs are kept, the dictionary
    is freed and reallocated only when its size changes. -/
def reuseInit (b : Build) (n : Node) (f : Filter) : Nat × List Op × Node :=
  if filterDecInitRet f ≠ 0 then (filterDecInitRet f, [], n)
  else
    match f with
    | .lzma1 o | .lzma2 o =>
      let d := lzDictAllocSize b o.dict
      if n.dict = d then (0, [], n) else (0, [.free n.dict, .alloc d], { n with dict := d })
    | _ => (0, [], n)

/-- `lzma_next_filter_init` along the chain: (return code, allocator calls in order, the chain as allocated now).
    On an error the caller (`lzma_raw_coder_init`) frees whatever the returned chain holds. -/
def chainScript (b : Build) : List Filter → List Node → Nat × List Op × List Node
  | [], old => (0, [.free (chainBytes old)], [])
  | f :: rest, [] =>
    match freshInit b f with
    | (r, a, none) => (r, a.map .alloc, [])
    | (r, a, some n) =>
      if r ≠ 0 then (r, a.map .alloc, [n])
      else
        let (r2, ops2, c2) := chainScript b rest []
        (r2, a.map .alloc ++ ops2, n :: c2)
  | f :: rest, n :: olds =>
    if kindOf f = some n.kind then
      let (r, ops1, n1) := reuseInit b n f
      if r ≠ 0 then (r, ops1, n1 :: olds)
      else
        let (r2, ops2, c2) := chainScript b rest olds
        (r2, ops1 ++ ops2, n1 :: c2)
    else
      let fr := Op.free (chainBytes (n :: olds))
      match freshInit b f with
      | (r, a, none) => (r, fr :: a.map .alloc, [])
      | (r, a, some n1) =>
        if r ≠ 0 then (r, fr :: a.map .alloc, [n1])
        else
          let (r2, ops2, c2) := chainScript b rest []
          (r2, fr :: (a.map .alloc ++ ops2), n1 :: c2)

def chainInit (b : Build) (fs : List Filter) (h : Heap) (old : List Node) : Nat × Heap × List Node :=
  let (r, ops, c) := chainScript b fs old
  (r, h.apply ops, c)

/-- `lzma_raw_decoder_init(next, filters)` on a possibly already initialised `next`. -/
def rawDecoderReinitScript (b : Build) (old : List Node) (fs : List Filter) : Nat × List Op × List Node :=
  if validateChainRet fs ≠ 0 then (validateChainRet fs, [], old)
  else if !(fs.all decoderKnown) then (8, [], old)
  else
    let (r, ops, c1) := chainScript b fs old
    if r ≠ 0 then (r, ops ++ [.free (chainBytes c1)], []) else (0, ops, c1)

/-! ## lzma_memlimit_set on the simple decoders (stream, alone, lzip, index): the `memconfig` callbacks -/

/-- `lzma_memlimit_set(strm, v)` where the coder's memconfig is the usual one: (return code, new limit).
    0 is replaced by 1; a limit below the current `memusage` is rejected and the limit stays. -/
def memlimitSet (memusage memlimit v : Nat) : Nat × Nat :=
  let v' := if v = 0 then 1 else v
  if v' < memusage then (6, memlimit) else (0, v')

/-- Initial limit: `my_max(1, memlimit)`. -/
def initLimit (l : Nat) : Nat := if l = 0 then 1 else l

/-! ## Limit tokens of the line protocol -/

inductive SetTok where
  | needed | minus (k : Nat) | plus (k : Nat) | abs (v : Nat)
  deriving Repr, DecidableEq

def SetTok.value (needed : Nat) : SetTok → Nat
  | .needed => needed
  | .minus k => (needed + 18446744073709551616 - k) % 18446744073709551616     -- uint64_t arithmetic of the harness
  | .plus k => needed + k
  | .abs v => v

/-- Try the tokens in order until one is accepted: (events, new limit if accepted, remaining tokens). An event is
    (value passed, return code, limit afterwards). -/
def trySets (memusage : Nat) : Nat → List SetTok → List (Nat × Nat × Nat) × Option Nat × List SetTok
  | _, [] => ([], none, [])
  | limit, t :: rest =>
    let v := t.value memusage
    let (r, l') := memlimitSet memusage limit v
    if r = 0 then ([(v, r, l')], some l', rest)
    else
      let (ev, res, rem) := trySets memusage limit rest
      ((v, r, l') :: ev, res, rem)

/-! ## SEQ_BLOCK_INIT of the single-threaded .xz Stream decoder -/

/-- The part of `lzma_stream_coder` that SEQ_BLOCK_INIT reads and writes. -/
structure Core where
  memlimit : Nat
  memusage : Nat
  heap : Heap
  blockAlloc : Bool := false
  chain : List Node := []
  deriving Repr, DecidableEq

inductive InitResult where
  | memlimit              -- LZMA_MEMLIMIT_ERROR, sequence stays SEQ_BLOCK_INIT
  | done (ret : Nat)      -- any other return code (0 = go on to SEQ_BLOCK_RUN)
  deriving Repr, DecidableEq

/-- `lzma_block_decoder_init` (the Block options themselves are valid here): the Block coder struct is allocated the
    first time, then the filter chain is (re)initialised. -/
def blockInitScript (b : Build) (blockAlloc : Bool) (chain : List Node) (fs : List Filter) : Nat × List Op × List Node :=
  let (r, ops, ch) := rawDecoderReinitScript b chain fs
  (r, (if blockAlloc then [] else [Op.alloc b.szBlockDecoder]) ++ ops, ch)

/-- SEQ_BLOCK_INIT after a successful `lzma_block_header_decode` that left `optBytes` bytes of filter options allocated
    (they are freed again at the end whatever happens). `fs` = the decoded filter chain. -/
def blockInit (b : Build) (c : Core) (optBytes : Nat) (fs : List Filter) : InitResult × Core :=
  match rawDecoderMemusage b fs with
  | none => (.done 8, { c with heap := c.heap.free optBytes })
  | some m =>
    if m > c.memlimit then (.memlimit, { c with memusage := m, heap := c.heap.free optBytes })
    else
      let (r, ops, ch) := blockInitScript b c.blockAlloc c.chain fs
      (.done r, { c with memusage := m, heap := (c.heap.apply ops).free optBytes, blockAlloc := true, chain := ch })

/-! ## Block Header → filter chain, with the allocations of `lzma_block_header_decode` -/

/-- `lzma_filter.options` allocated by `lzma_properties_decode`: (requested sizes, bytes that stay allocated). A BCJ
    start offset of 0 is allocated and freed at once. -/
def optionAlloc (b : Build) : Container.FilterOpts → List Nat × Nat
  | .lzma1 .. => ([b.szOptionsLzma], b.szOptionsLzma)
  | .lzma2 _ => ([b.szOptionsLzma], b.szOptionsLzma)
  | .bcj _ off => ([b.szOptionsBcj], if off = 0 then 0 else b.szOptionsBcj)
  | .delta _ => ([b.szOptionsDelta], b.szOptionsDelta)
  | .other _ => ([], 0)

def toFilter : Container.FilterOpts → Filter
  | .lzma1 _ lc lp pb d => .lzma1 { dict := d, lc := lc, lp := lp, pb := pb }
  | .lzma2 d => .lzma2 { dict := d }
  | .bcj id off => .bcj id (if off = 0 then none else some off)
  | .delta d => .delta (some d)
  | .other id => .other id

/-- The options of the stored filters are allocated in order (properties were validated by the header decoder; a BCJ
    filter with empty properties allocates nothing, a BCJ start offset of 0 is freed at once):
    (allocator calls, bytes that stay allocated, the decoded chain). -/
def optionScript (b : Build) : List Container.Filter → List Op × Nat × List Filter
  | [] => ([], 0, [])
  | f :: rest =>
    match Container.propsDecode f.id f.props with
    | .error _ => optionScript b rest          -- cannot happen after a successful header decode
    | .ok o =>
      let (req, keep) := if f.props.isEmpty then (([] : List Nat), 0) else optionAlloc b o
      let (ops2, k2, fs) := optionScript b rest
      (req.map Op.alloc ++ (if req.sum - keep = 0 then [] else [Op.free (req.sum - keep)]) ++ ops2, keep + k2, toFilter o :: fs)

/-- Options allocated before `lzma_block_header_decode` fails inside Filter Flags number `n` (they are freed again):
    the requested sizes. `bytes` starts at the first Filter Flags field. -/
def failedHeaderAllocs (b : Build) : Nat → List UInt8 → List Nat
  | 0, _ => []
  | n + 1, bytes =>
    match Container.filterFlagsDecode bytes with
    | .error _ => []
    | .ok (f, rest) =>
      match Container.propsDecode f.id f.props with
      | .error _ => []
      | .ok o => (if f.props.isEmpty then [] else (optionAlloc b o).1) ++ failedHeaderAllocs b n rest

/-! ## Events a run reports (one token each on the harness line) -/

inductive Ev where
  /-- after initialisation: return code, lzma_memusage(), lzma_memlimit_get() -/
  | init (ret usage limit : Nat)
  /-- LZMA_MEMLIMIT_ERROR: lzma_memusage(), lzma_memlimit_get(), live bytes, peak bytes -/
  | mem (usage limit live peak : Nat)
  /-- the same for the threaded decoder (allocation counters are schedule dependent there) -/
  | memMt (usage limit : Nat)
  /-- lzma_memlimit_set(v): return code, limit afterwards, lzma_memusage() afterwards -/
  | set (v ret limitAfter usageAfter : Nat)
  /-- LZMA_NO_CHECK / LZMA_UNSUPPORTED_CHECK / LZMA_GET_CHECK -/
  | chk (code : Nat)
  /-- threaded decoder, end of SEQ_BLOCK_DIRECT_INIT (hook event 118): bytes live at that moment -/
  | direct (live : Nat)
  deriving Repr, DecidableEq

def Ev.fmt : Ev → String
  | .init r u l => s!"I{r}/{u}/{l}"
  | .mem u l live peak => s!"M{u}/{l}/{live}/{peak}"
  | .memMt u l => s!"M{u}/{l}"
  | .set v r la ua => s!"S{v}={r}/{la}/{ua}"
  | .chk c => s!"C{c}"
  | .direct l => s!"D{l}"

def fmtList (l : List Nat) : String :=
  if l.isEmpty then "-" else ",".intercalate (l.map toString)

def parseSets (s : String) : Option (List SetTok) :=
  if s == "-" then some []
  else (s.splitOn ",").mapM fun t =>
    if t == "n" then some SetTok.needed
    else if t.startsWith "n-" then (t.drop 2).toNat?.map SetTok.minus
    else if t.startsWith "n+" then (t.drop 2).toNat?.map SetTok.plus
    else t.toNat?.map SetTok.abs

/-- Supported integrity checks of this build (`lzma_check_is_supported`): None, CRC32, CRC64, SHA-256. -/
def checkSupported (c : Nat) : Bool := c = 0 ∨ c = 1 ∨ c = 4 ∨ c = 10

/-! ## .xz Stream decoder run over a complete file -/

structure Flags where
  tellNoCheck : Bool
  tellUnsupported : Bool
  tellAny : Bool
  concatenated : Bool
  deriving Repr

def Flags.ofNat (f : Nat) : Flags :=
  { tellNoCheck := f % 2 = 1, tellUnsupported := f / 2 % 2 = 1, tellAny := f / 4 % 2 = 1, concatenated := f / 8 % 2 = 1 }

/-- Run state: the core, pending limit tokens, events printed so far (most recent first), bytes consumed. -/
structure Run where
  core : Core
  sets : List SetTok
  out : List Ev := []
  consumed : Nat := 0
  /-- ghost: what has been handed to a payload decoder so far, most recent first — for .xz every Block whose decoder
      was initialised successfully (Block Header ++ Compressed Data ++ padding ++ Check), for .lzma/.lz the whole file.
      The decoded OUTPUT of a run is a function of this list (the payload decoders are C03's subject). -/
  decoded : List (List UInt8) := []
  deriving Repr

def Run.emit (r : Run) (e : Ev) : Run := { r with out := e :: r.out }

/-- After LZMA_MEMLIMIT_ERROR: print the M event, then try limit tokens. `some run` = a token was accepted. -/
def handleMemlimit (r : Run) : Run × Bool :=
  let c := r.core
  let r1 := r.emit (.mem c.memusage c.memlimit c.heap.live c.heap.peak)
  let (evs, res, rest) := trySets c.memusage c.memlimit r1.sets
  let r2 := evs.foldl (fun acc ev => acc.emit (.set ev.1 ev.2.1 ev.2.2 c.memusage)) r1
  match res with
  | none => ({ r2 with sets := rest }, false)
  | some l => ({ r2 with sets := rest, core := { c with memlimit := l } }, true)

/-- A restartable initialisation step (SEQ_BLOCK_INIT, SEQ_CODER_INIT, SEQ_MEMUSAGE) run until it stops returning
    LZMA_MEMLIMIT_ERROR or the limit tokens are used up: every LZMA_MEMLIMIT_ERROR is reported, then the application
    calls lzma_memlimit_set() with the next tokens until one is accepted and calls lzma_code() again.
    Returns the code that ends the step (6 = no token was accepted; 11 only if the fuel runs out, which it cannot:
    every retry consumes a token). -/
def retryLoop (attempt : Core → InitResult × Core) : Nat → Run → Nat × Run
  | 0, r => (11, r)
  | fuel + 1, r =>
    let (res, c1) := attempt r.core
    let r1 := { r with core := c1 }
    match res with
    | .done code => (code, r1)
    | .memlimit =>
      let (r2, ok) := handleMemlimit r1
      if ok then retryLoop attempt fuel r2 else (6, r2)

/-- One pass through SEQ_BLOCK_INIT for the Block Header `hdr`: `lzma_block_header_decode` (allocating the filter
    options), the limit check, the Block decoder initialisation, freeing the options. -/
def blockAttempt (b : Build) (check : Nat) (hdr : List UInt8) (c : Core) : InitResult × Core :=
  match Container.blockHeaderDecodeWith hdr.length check hdr with
  | .error e =>
    -- options of the filters decoded before the failure were allocated and are freed again
    let fl := (hdr.getD 1 0).toNat
    let skip1 := if fl / 64 % 2 = 1 then (match Vli.vliDecode (hdr.drop 2) with | some (_, rest) => rest | none => []) else hdr.drop 2
    let skip2 := if fl / 128 % 2 = 1 then (match Vli.vliDecode skip1 with | some (_, rest) => rest | none => []) else skip1
    let a := if e = .dataError ∧ Container.crc32 (hdr.take (hdr.length - 4)) ≠ Container.rd32 (hdr.drop (hdr.length - 4)) then []
             else if fl / 4 % 16 ≠ 0 then []
             else failedHeaderAllocs b (fl % 4 + 1) (skip2.take (skip2.length - 4))
    (.done e.toNat, { c with heap := (c.heap.allocs a).free a.sum })
  | .ok bh =>
    let (ops, keep, fs) := optionScript b bh.filters
    blockInit b { c with heap := c.heap.apply ops } keep fs

/-- SEQ_BLOCK_INIT with retries. `hdr` = the complete Block Header. -/
def blockInitLoop (b : Build) (check : Nat) (hdr : List UInt8) (fuel : Nat) (r : Run) : Nat × Run :=
  retryLoop (blockAttempt b check hdr) fuel r

/-- Blocks, Index, Footer of one Stream (after the Stream Header). Returns (code, run, unread input); code 1 = the
    Stream Footer was accepted. -/
def streamBody (b : Build) (check : Nat) : Nat → Run → List UInt8 → Nat × Run × List UInt8
  | 0, r, inp => (11, r, inp)
  | fuel + 1, r, inp =>
    match inp with
    | [] => (10, r, inp)
    | b0 :: _ =>
      if b0.toNat = 0 then
        match Container.indexDecode inp with
        | .error e => (e.toNat, r, inp)
        | .ok (_, rest) =>
          let r1 := { r with consumed := r.consumed + (inp.length - rest.length) }
          if rest.length < 12 then (10, r1, rest)
          else match Container.streamFooterDecode rest with
            | .error e => ((if e = .formatError then Ret.dataError else e).toNat, { r1 with consumed := r1.consumed + 12 }, rest.drop 12)
            | .ok (ff, _) =>
              if ff.check ≠ check then (9, { r1 with consumed := r1.consumed + 12 }, rest.drop 12)
              else (1, { r1 with consumed := r1.consumed + 12 }, rest.drop 12)
      else
        let hs := (b0.toNat + 1) * 4
        if inp.length < hs then (10, { r with consumed := r.consumed + inp.length }, [])
        else
          let r0 := { r with consumed := r.consumed + hs }
          let (code, r1) := blockInitLoop b check (inp.take hs) (r0.sets.length + 2) r0
          if code ≠ 0 then (code, r1, inp.drop hs)
          else
            match Container.blockHeaderDecodeWith hs check (inp.take hs) with
            | .error _ => (11, r1, inp.drop hs)
            | .ok bh =>
              match bh.compressedSize with
              | none => (11, r1, inp.drop hs)          -- the generator always stores the sizes
              | some cs =>
                let total := Container.ceil4 cs + Container.checkSize check
                let rest := inp.drop hs
                if rest.length < total then (10, { r1 with consumed := r1.consumed + rest.length }, [])
                else streamBody b check fuel
                  { r1 with consumed := r1.consumed + total, decoded := inp.take (hs + total) :: r1.decoded } (rest.drop total)

def countZeros : List UInt8 → Nat
  | [] => 0
  | x :: t => if x.toNat = 0 then 1 + countZeros t else 0

/-- Streams one after another (LZMA_CONCATENATED or not). The whole input is available and the last call uses
    LZMA_FINISH. Returns the final code. -/
def streams (b : Build) (fl : Flags) : Nat → Bool → Run → List UInt8 → Nat × Run
  | 0, _, r, _ => (11, r)
  | fuel + 1, first, r, inp =>
    if inp.length < 12 then (10, { r with consumed := r.consumed + inp.length })
    else
      let r0 := { r with consumed := r.consumed + 12 }
      match Container.streamHeaderDecode inp with
      | .error e => ((if e = .formatError ∧ !first then Ret.dataError else e).toNat, r0)
      | .ok sf =>
        let r1 :=
          if fl.tellNoCheck ∧ sf.check = 0 then r0.emit (.chk 2)
          else if fl.tellUnsupported ∧ !checkSupported sf.check then r0.emit (.chk 3)
          else if fl.tellAny then r0.emit (.chk 4) else r0
        let (code, r2, rest) := streamBody b sf.check (inp.length + 2) r1 (inp.drop 12)
        if code ≠ 1 then (code, r2)
        else if !fl.concatenated then (1, r2)
        else
          let z := countZeros rest
          let after := rest.drop z
          if after.isEmpty then
            ((if z % 4 = 0 then 1 else 9), { r2 with consumed := r2.consumed + z })
          else if z % 4 ≠ 0 then (9, { r2 with consumed := r2.consumed + z + 1 })
          else streams b fl fuel false { r2 with consumed := r2.consumed + z } after

def fmtFinal (code : Nat) (r : Run) (withAllocs : Bool := true) : String :=
  let c := r.core
  let evs := " ".intercalate (r.out.reverse.map Ev.fmt)
  let pre := if evs.isEmpty then "" else evs ++ " "
  if withAllocs then
    s!"{pre}R{code} in={r.consumed} live={c.heap.live} peak={c.heap.peak} allocs={fmtList c.heap.reqs.reverse} end={c.memusage}/{c.memlimit} leak=0"
  else s!"{pre}R{code}"

/-- `dec xz <flags> <limit> <sets> <chunk> <hex>`: everything the harness prints before " | ". -/
def xzStart (b : Build) (limit : Nat) (sets : List SetTok) : Run :=
  let h := ({} : Heap).allocs [b.szInternal, b.szStreamDecoder, b.szIndexHash]
  let core : Core := { memlimit := initLimit limit, memusage := MEMUSAGE_BASE, heap := h }
  let r : Run := { core := core, sets := sets }
  r.emit (.init 0 MEMUSAGE_BASE core.memlimit)

/-- `lzma_stream_decoder(limit, flags)` + `lzma_code` over the whole file, LZMA_MEMLIMIT_ERROR answered from `sets`:
    (final return code, final state). -/
def xzRun (b : Build) (flags limit : Nat) (sets : List SetTok) (inp : List UInt8) : Nat × Run :=
  streams b (Flags.ofNat flags) (inp.length + 2) true (xzStart b limit sets) inp

def runXz (b : Build) (flags limit : Nat) (sets : List SetTok) (inp : List UInt8) : String :=
  let (code, r') := xzRun b flags limit sets inp
  fmtFinal code r'

/-! ## .lzma (LZMA_Alone) and .lz decoders: SEQ_CODER_INIT -/

/-- One pass through SEQ_CODER_INIT of the .lzma / .lz decoders (only filter: LZMA1 with options `o`;
    `coder->memusage` was set from the header just before). -/
def coderAttempt (b : Build) (o : LzmaOpts) (c : Core) : InitResult × Core :=
  if c.memusage > c.memlimit then (.memlimit, c)
  else
    let (code, h, ch) := chainInit b [.lzma1 o] c.heap c.chain
    -- a failing lzma_next_filter_init leaves the partially initialised coder for lzma_end()
    (.done code, { c with heap := h, chain := ch })

def coderInitLoop (b : Build) (o : LzmaOpts) (fuel : Nat) (r : Run) : Nat × Run :=
  retryLoop (coderAttempt b o) fuel r

/-- The 13-byte .lzma header. `picky` = called through lzma_auto_decoder. Returns the options, or the error code
    together with the number of header bytes consumed when it is returned. -/
def aloneHeader (picky : Bool) (inp : List UInt8) : Except (Nat × Nat) LzmaOpts :=
  match Container.lclppbDecode (inp.getD 0 0).toNat with
  | none => .error (7, 0)
  | some (lc, lp, pb) =>
    let d := Container.rd32 (inp.drop 1)
    let smear :=
      let d0 := (d + U32 - 1) % U32
      let d1 := d0 ||| (d0 >>> 2)
      let d2 := d1 ||| (d1 >>> 3)
      let d3 := d2 ||| (d2 >>> 4)
      let d4 := d3 ||| (d3 >>> 8)
      let d5 := d4 ||| (d4 >>> 16)
      (d5 + 1) % U32
    if picky ∧ d ≠ UINT32_MAX ∧ smear ≠ d then .error (7, 4)      -- the fourth dictionary byte is not consumed
    else
      let us := Container.rd64 (inp.drop 5)
      if picky ∧ us ≠ UINT64_MAX ∧ us ≥ 274877906944 then .error (7, 13)
      else .ok { dict := d, lc := lc, lp := lp, pb := pb }

/-- `dec alone …` (or the .lzma branch of auto): the payload is taken to be a valid LZMA1 stream that ends with the input. -/
def runAloneFrom (b : Build) (picky : Bool) (r : Run) (inp : List UInt8) : Nat × Run :=
  if inp.length < 13 then (10, { r with consumed := r.consumed + inp.length })
  else
    match aloneHeader picky inp with
    | .error (e, used) => (e, { r with consumed := r.consumed + used })
    | .ok o =>
      match lzmaDecoderMemusage b o with
      | none => (11, r)
      | some m =>
        let r1 := { r with consumed := r.consumed + 13, core := { r.core with memusage := m + MEMUSAGE_BASE } }
        let (code, r2) := coderInitLoop b o (r1.sets.length + 2) r1
        if code ≠ 0 then (code, r2)
        else (1, { r2 with consumed := r2.consumed + (inp.length - 13), decoded := inp :: r2.decoded })

def aloneStart (b : Build) (limit : Nat) (sets : List SetTok) : Run :=
  let h := ({} : Heap).allocs [b.szInternal, b.szAloneDecoder]
  let core : Core := { memlimit := initLimit limit, memusage := MEMUSAGE_BASE, heap := h }
  let r : Run := { core := core, sets := sets }
  r.emit (.init 0 MEMUSAGE_BASE core.memlimit)

def aloneRun (b : Build) (limit : Nat) (sets : List SetTok) (inp : List UInt8) : Nat × Run :=
  runAloneFrom b false (aloneStart b limit sets) inp

def runAlone (b : Build) (limit : Nat) (sets : List SetTok) (inp : List UInt8) : String :=
  let (code, r') := aloneRun b limit sets inp
  fmtFinal code r'

/-- Dictionary size of the .lz header byte: `none` = LZMA_DATA_ERROR. -/
def lzipDict (ds : Nat) : Option Nat :=
  let b2log := ds % 32
  let frac := ds / 32
  if b2log < 12 ∨ b2log > 29 ∨ (b2log = 12 ∧ frac > 0) then none
  else some (2 ^ b2log - frac * 2 ^ (b2log - 4))

/-- A single-member .lz file whose payload is a valid LZMA1 stream and whose footer matches. -/
def runLzipFrom (b : Build) (fl : Flags) (r : Run) (inp : List UInt8) : Nat × Run :=
  if inp.length < 4 then (10, { r with consumed := r.consumed + inp.length })
  else if inp.take 4 ≠ [0x4C, 0x5A, 0x49, 0x50] then (7, { r with consumed := r.consumed + 4 })
  else if inp.length < 5 then (10, { r with consumed := r.consumed + 4 })
  else
    let ver := (inp.getD 4 0).toNat
    if ver > 1 then (8, { r with consumed := r.consumed + 5 })
    else
      let r0 := if fl.tellAny then r.emit (.chk 4) else r
      if inp.length < 6 then (10, { r0 with consumed := r0.consumed + 5 })
      else
        match lzipDict (inp.getD 5 0).toNat with
        | none => (9, { r0 with consumed := r0.consumed + 6 })
        | some d =>
          let o : LzmaOpts := { dict := d, lc := 3, lp := 0, pb := 2 }
          let m := lzmaDecoderMemusageNocheck b o + MEMUSAGE_BASE
          let r1 := { r0 with consumed := r0.consumed + 6, core := { r0.core with memusage := m } }
          let (code, r2) := coderInitLoop b o (r1.sets.length + 2) r1
          if code ≠ 0 then (code, r2)
          else (1, { r2 with consumed := r2.consumed + (inp.length - 6), decoded := inp :: r2.decoded })

def lzipStart (b : Build) (limit : Nat) (sets : List SetTok) : Run :=
  let h := ({} : Heap).allocs [b.szInternal, b.szLzipDecoder]
  let core : Core := { memlimit := initLimit limit, memusage := MEMUSAGE_BASE, heap := h }
  let r : Run := { core := core, sets := sets }
  r.emit (.init 0 MEMUSAGE_BASE core.memlimit)

def lzipRun (b : Build) (flags limit : Nat) (sets : List SetTok) (inp : List UInt8) : Nat × Run :=
  runLzipFrom b (Flags.ofNat flags) (lzipStart b limit sets) inp

def runLzip (b : Build) (flags limit : Nat) (sets : List SetTok) (inp : List UInt8) : String :=
  let (code, r') := lzipRun b flags limit sets inp
  fmtFinal code r'

/-- `lzma_auto_decoder`: the first byte selects the format; the sub-decoder gets the auto decoder's current limit.
    (final return code, final state). -/
def autoRun (b : Build) (flags limit : Nat) (sets : List SetTok) (inp : List UInt8) : Nat × Run :=
  let fl := Flags.ofNat flags
  let h0 := ({} : Heap).allocs [b.szInternal, b.szAutoDecoder]
  let lim := initLimit limit
  let i := Ev.init 0 MEMUSAGE_BASE lim
  match inp with
  | [] =>
    let r : Run := { core := { memlimit := lim, memusage := MEMUSAGE_BASE, heap := h0 }, sets := sets, out := [i] }
    (10, r)
  | b0 :: _ =>
    if b0.toNat = 0xFD then
      let h := h0.allocs [b.szStreamDecoder, b.szIndexHash]
      let r : Run := { core := { memlimit := lim, memusage := MEMUSAGE_BASE, heap := h }, sets := sets, out := [i] }
      streams b fl (inp.length + 2) true r inp
    else if b0.toNat = 0x4C then
      let h := h0.alloc b.szLzipDecoder
      let r : Run := { core := { memlimit := lim, memusage := MEMUSAGE_BASE, heap := h }, sets := sets, out := [i] }
      let (code, r') := runLzipFrom b fl r inp
      let code' := if code = 1 ∧ fl.concatenated then 1 else code
      (code', r')
    else
      let h := h0.alloc b.szAloneDecoder
      let r : Run := { core := { memlimit := lim, memusage := MEMUSAGE_BASE, heap := h }, sets := sets, out := [i] }
      let r := if fl.tellNoCheck then r.emit (.chk 2) else if fl.tellAny then r.emit (.chk 4) else r
      runAloneFrom b true r inp

def runAuto (b : Build) (flags limit : Nat) (sets : List SetTok) (inp : List UInt8) : String :=
  let (code, r') := autoRun b flags limit sets inp
  fmtFinal code r'

/-! ## Index decoder -/

/-- SEQ_MEMUSAGE of the Index decoder (`coder->memusage` holds lzma_index_memusage(1, count)). -/
def indexAttempt (c : Core) : InitResult × Core :=
  if c.memusage > c.memlimit then (.memlimit, c) else (.done 0, c)

/-- `lzma_index_decoder` + lzma_code over a complete, valid Index field.
    `count` = Number of Records. SEQ_MEMUSAGE compares `lzma_index_memusage(1, count)` with the limit before the
    first group (count Records) is allocated. (final return code, final state). -/
def indexRun (b : Build) (limit : Nat) (sets : List SetTok) (inp : List UInt8) : Nat × Run :=
  let h := ({} : Heap).allocs [b.szInternal, b.szIndexDecoder, b.szIndex, b.szIndexStream]
  let lim := initLimit limit
  let mu0 := (indexMemusage b 1 0).getD UINT64_MAX
  let i := Ev.init 0 mu0 lim
  let r : Run := { core := { memlimit := lim, memusage := mu0, heap := h }, sets := sets, out := [i] }
  match inp with
  | [] => (10, r)
  | ind :: r0 =>
    if ind.toNat ≠ 0 then (9, { r with consumed := 1 })
    else match Vli.vliDecode r0 with
      | none => (9, { r with consumed := inp.length })
      | some (count, r1) =>
        let used := inp.length - r1.length
        let mu := (indexMemusage b 1 count).getD UINT64_MAX
        let (code, r2) := retryLoop indexAttempt (sets.length + 2) { r with consumed := used, core := { r.core with memusage := mu } }
        if code ≠ 0 then (code, r2)
        else match Container.indexDecode inp with
          | .error e => (e.toNat, r2)
          | .ok (_, rest) =>
            let h2 := if count = 0 then r2.core.heap else r2.core.heap.alloc (b.szIndexGroup + count * b.szIndexRecord)
            -- after the last Record `coder->count` is 0, so memconfig reports lzma_index_memusage(1, 0) again
            (1, { r2 with consumed := inp.length - rest.length, core := { r2.core with heap := h2, memusage := mu0 } })

def runIndex (b : Build) (limit : Nat) (sets : List SetTok) (inp : List UInt8) : String :=
  let (code, r') := indexRun b limit sets inp
  fmtFinal code r'

/-- `lzma_index_buffer_decode(&i, &memlimit, allocator, in, &in_pos, in_size)` on a valid Index:
    "ret memlimit_out peak live sizes". -/
def runIndexBuf (b : Build) (limit : Nat) (inp : List UInt8) : String :=
  let h := ({} : Heap).allocs [b.szIndex, b.szIndexStream]
  let lim := initLimit limit
  match inp with
  | [] => s!"9 {limit} {h.peak} 0 {fmtList h.reqs.reverse} leak=0"
  | _ :: r0 =>
    match Vli.vliDecode r0 with
    | none => s!"9 {limit} {h.peak} 0 {fmtList h.reqs.reverse} leak=0"
    | some (count, _) =>
      let mu := (indexMemusage b 1 count).getD UINT64_MAX
      if mu > lim then s!"6 {mu} {h.peak} 0 {fmtList h.reqs.reverse} leak=0"
      else match Container.indexDecode inp with
        | .error _ => s!"9 {limit} {h.peak} 0 {fmtList h.reqs.reverse} leak=0"
        | .ok _ =>
          let h2 := if count = 0 then h else h.alloc (b.szIndexGroup + count * b.szIndexRecord)
          s!"0 {limit} {h2.peak} {h2.live} {fmtList h2.reqs.reverse} leak=0"

/-! ## Threaded .xz decoder: the memlimit_stop check and direct mode (no worker threads) -/

/-- State of `stream_decoder_mt.c` as far as single-threaded ("direct") operation is concerned. -/
structure MtCore where
  memlimitThreading : Nat
  memlimitStop : Nat
  memDirectMode : Nat := 0
  deriving Repr, DecidableEq

/-- `stream_decoder_mt_memconfig` with no worker threads and an empty output queue:
    `*memusage = max(mem_direct_mode, LZMA_MEMUSAGE_BASE)`. -/
def MtCore.memusage (c : MtCore) : Nat := max c.memDirectMode MEMUSAGE_BASE

/-- `stream_decoder_mt_init`: both limits are at least 1 and memlimit_threading ≤ memlimit_stop. -/
def MtCore.init (limThr limStop : Nat) : MtCore :=
  let t := initLimit limThr
  let s := initLimit limStop
  { memlimitThreading := if t > s then s else t, memlimitStop := s }

/-- Does SEQ_BLOCK_INIT choose threaded mode for a Block with these header sizes? -/
def mtThreaded (b : Build) (c : MtCore) (memNextFilters : Nat) (check : Nat) (cs us : Option Nat) : Bool :=
  match cs, us with
  | some cs, some us =>
    if cs > UINT64_MAX / 3 ∨ us > UINT64_MAX / 3 then false
    else
      let memNextIn := Container.ceil4 cs + Container.checkSize check
      let buffers := memNextIn + outbufMemusage b us
      if UINT64_MAX - buffers < memNextFilters then false
      else memNextFilters + buffers ≤ c.memlimitThreading
  | _, _ => false

/-- What the threaded decoder holds besides its fixed structs (lzma_internal, the coder, the Index hash): the
    direct-mode Block decoder with its filter chain, the cached buffers of the output queue, and everything that
    belongs to the worker threads (the `threads` array, input buffers, their Block decoders and filter chains). The
    last two are schedule dependent while Blocks are decoded by workers; SEQ_BLOCK_DIRECT_INIT releases both. -/
structure MtMem where
  heap : Heap := {}
  blockAlloc : Bool := false
  chain : List Node := []
  cache : Nat := 0
  thr : Nat := 0
  deriving Repr, DecidableEq

/-- SEQ_BLOCK_DIRECT_INIT once the output queue is empty, in the order of the code: `lzma_outq_clear_cache` (the cached
    output buffers are given back BEFORE the single-threaded decoder is set up), `threads_end`,
    `lzma_block_decoder_init`, `lzma_filters_free` of the `opt` bytes of options decoded from the Block Header. -/
def mtDirectInitScript (b : Build) (mm : MtMem) (opt : Nat) (fs : List Filter) : Nat × List Op × List Node :=
  let (r, ops, ch) := blockInitScript b mm.blockAlloc mm.chain fs
  (r, Op.free mm.cache :: Op.free mm.thr :: (ops ++ [Op.free opt]), ch)

def mtDirectInit (b : Build) (mm : MtMem) (opt : Nat) (fs : List Filter) : Nat × MtMem :=
  let (r, ops, ch) := mtDirectInitScript b mm opt fs
  (r, { heap := mm.heap.apply ops, blockAlloc := true, chain := ch, cache := 0, thr := 0 })

/-- SEQ_BLOCK_INIT choosing threaded mode: `lzma_next_end(&coder->block_decoder)` frees the direct-mode decoder. What
    the workers and the output queue then allocate depends on the schedule; the run model books ONE worker (the
    `threads` array, its input buffer, its filter chain; freed again with the options) and ONE output buffer that ends
    up in the cache — the least that is there when the Block has been decoded. -/
def mtThreadedEnter (b : Build) (mm : MtMem) (threads memNextIn m outbuf opt : Nat) : MtMem :=
  let own := (if mm.blockAlloc then b.szBlockDecoder else 0) + chainBytes mm.chain
  let thr := if mm.thr = 0 then threads * b.szWorkerDec + memNextIn + m else mm.thr
  let h := ((mm.heap.free own).free (mm.thr + mm.cache + opt)).allocs [thr, outbuf]
  { heap := h, blockAlloc := false, chain := [], cache := outbuf, thr := thr }

structure MtRun where
  core : MtCore
  sets : List SetTok
  out : List Ev := []
  /-- some Block so far may have been decoded by worker threads (memory counters are then schedule dependent) -/
  threaded : Bool := false
  /-- `lzma_mt.threads` -/
  threads : Nat := 1
  mem : MtMem := {}
  deriving Repr

def MtRun.emit (r : MtRun) (e : Ev) : MtRun := { r with out := e :: r.out }

def mtHandleMemlimit (r : MtRun) : MtRun × Bool :=
  let c := r.core
  let usage := c.memusage
  let r1 := r.emit (.memMt usage c.memlimitStop)
  let (evs, res, rest) := trySets usage c.memlimitStop r1.sets
  let r2 := evs.foldl (fun acc ev => acc.emit (.set ev.1 ev.2.1 ev.2.2 usage)) r1
  match res with
  | none => ({ r2 with sets := rest }, false)
  | some l => ({ r2 with sets := rest, core := { c with memlimitStop := l } }, true)

/-- SEQ_BLOCK_INIT of the threaded decoder for a Block whose filter chain needs `m` bytes. -/
def mtBlockInitLoop (b : Build) (m : Nat) (check : Nat) (cs us : Option Nat) : Nat → MtRun → Nat × MtRun
  | 0, r => (11, r)
  | fuel + 1, r =>
    if m > r.core.memlimitStop then
      let (r2, ok) := mtHandleMemlimit r
      if ok then mtBlockInitLoop b m check cs us fuel r2 else (6, r2)
    else if mtThreaded b r.core m check cs us then
      (0, { r with threaded := true, core := { r.core with memDirectMode := 0 } })
    else (0, { r with core := { r.core with memDirectMode := m } })

/-- The allocator side of a Block that passed SEQ_BLOCK_INIT (`memDirectMode = 0` ⇔ threaded mode was chosen): the
    options decoded from the header (`optOps` leaves `opt` bytes), then SEQ_BLOCK_THR_INIT or SEQ_BLOCK_DIRECT_INIT.
    Returns the code of the Block decoder initialisation. -/
def mtBlockMem (b : Build) (r : MtRun) (optOps : List Op) (opt : Nat) (fs : List Filter) (m check : Nat)
    (cs us : Option Nat) : Nat × MtRun :=
  let mm0 := { r.mem with heap := r.mem.heap.apply optOps }
  if r.core.memDirectMode = 0 then
    let memNextIn := Container.ceil4 (cs.getD 0) + Container.checkSize check
    ((rawDecoderInit b fs).1, { r with mem := mtThreadedEnter b mm0 r.threads memNextIn m (outbufMemusage b (us.getD 0)) opt })
  else
    let (code, mm) := mtDirectInit b mm0 opt fs
    (code, { r with mem := mm, out := Ev.direct mm.heap.live :: r.out })

def mtStreamBody (b : Build) (check : Nat) : Nat → MtRun → List UInt8 → Nat × MtRun × List UInt8
  | 0, r, inp => (11, r, inp)
  | fuel + 1, r, inp =>
    match inp with
    | [] => (10, r, inp)
    | b0 :: _ =>
      if b0.toNat = 0 then
        match Container.indexDecode inp with
        | .error e => (e.toNat, r, inp)
        | .ok (_, rest) =>
          if rest.length < 12 then (10, r, rest)
          else match Container.streamFooterDecode rest with
            | .error e => ((if e = .formatError then Ret.dataError else e).toNat, r, rest.drop 12)
            | .ok (ff, _) => if ff.check ≠ check then (9, r, rest.drop 12) else (1, r, rest.drop 12)
      else
        let hs := (b0.toNat + 1) * 4
        if inp.length < hs then (10, r, [])
        else match Container.blockHeaderDecodeWith hs check (inp.take hs) with
          | .error e => (e.toNat, r, inp.drop hs)
          | .ok bh =>
            let (optOps, opt, fs) := optionScript b bh.filters
            match rawDecoderMemusage b fs with
            | none => (8, r, inp.drop hs)
            | some m =>
              let (code, r1) := mtBlockInitLoop b m check bh.compressedSize bh.uncompressedSize (r.sets.length + 2) r
              if code ≠ 0 then (code, r1, inp.drop hs)
              else
                let (code2, r2) := mtBlockMem b r1 optOps opt fs m check bh.compressedSize bh.uncompressedSize
                if code2 ≠ 0 then (code2, r2, inp.drop hs)
                else match bh.compressedSize with
                | none => (11, r2, inp.drop hs)
                | some cs =>
                  let total := Container.ceil4 cs + Container.checkSize check
                  let rest := inp.drop hs
                  if rest.length < total then (10, r2, [])
                  else mtStreamBody b check fuel r2 (rest.drop total)

def mtStreams (b : Build) (fl : Flags) : Nat → Bool → MtRun → List UInt8 → Nat × MtRun
  | 0, _, r, _ => (11, r)
  | fuel + 1, first, r, inp =>
    if inp.length < 12 then (10, r)
    else match Container.streamHeaderDecode inp with
      | .error e => ((if e = .formatError ∧ !first then Ret.dataError else e).toNat, r)
      | .ok sf =>
        let r1 :=
          if fl.tellNoCheck ∧ sf.check = 0 then r.emit (.chk 2)
          else if fl.tellUnsupported ∧ !checkSupported sf.check then r.emit (.chk 3)
          else if fl.tellAny then r.emit (.chk 4) else r
        let (code, r2, rest) := mtStreamBody b sf.check (inp.length + 2) r1 (inp.drop 12)
        if code ≠ 1 then (code, r2)
        else if !fl.concatenated then (1, r2)
        else
          let z := countZeros rest
          let after := rest.drop z
          if after.isEmpty then ((if z % 4 = 0 then 1 else 9), r2)
          else if z % 4 ≠ 0 then (9, r2)
          else mtStreams b fl fuel false r2 after

/-- `decmt …`: the part of the harness line before " | " (limit events and the final code). -/
def runXzMt (b : Build) (threads flags limThr limStop : Nat) (sets : List SetTok) (inp : List UInt8) : String :=
  let core := MtCore.init limThr limStop
  let h := ({} : Heap).allocs [b.szInternal, b.szStreamDecoderMt, b.szIndexHash]
  let r : MtRun := { core := core, sets := sets, threads := threads, mem := { heap := h } }
  let r := r.emit (.init 0 core.memusage core.memlimitStop)
  let (code, r') := mtStreams b (Flags.ofNat flags) (inp.length + 2) true r inp
  let evs := " ".intercalate (r'.out.reverse.map Ev.fmt)
  s!"{evs} R{code}"

end XzVerif.Memlimit
