/-
  Delta filter (src/liblzma/delta/delta_encoder.c, delta_decoder.c, delta_common.c, delta_private.h).  Core Lean only.

  `lzma_delta_coder`: `distance` (1..256), `pos` (uint8_t, decremented after every byte), `history[256]`.
-/
namespace XzVerif.Delta

structure State where
  distance : Nat
  pos : Nat                 -- uint8_t
  history : List UInt8      -- 256 entries
deriving Repr

/-- `lzma_delta_coder_init`: `pos = 0`, `memzero(history)`. -/
def State.init (dist : Nat) : State := ⟨dist, 0, List.replicate 256 0⟩

/-- `lzma_delta_coder_init` on an already allocated coder (handle reuse: the next Block, a re-initialised `lzma_stream`):
    `distance = opt->dist; pos = 0; memzero(history, LZMA_DELTA_DIST_MAX)` — nothing of the previous use survives. -/
def State.reinit (_prev : State) (dist : Nat) : State :=
  { distance := dist, pos := 0, history := List.replicate 256 0 }

/-- `lzma_delta_coder_memusage(options) != UINT64_MAX` for a non-NULL options of type BYTE -/
def distValid (dist : Nat) : Bool := decide (1 ≤ dist) && decide (dist ≤ 256)

/-- One iteration of `copy_and_encode` / `encode_in_place`:
    `tmp = history[(distance + pos) & 0xFF]; history[pos-- & 0xFF] = in; out = in - tmp`. -/
def encStep (s : State) (b : UInt8) : State × UInt8 :=
  let tmp := s.history.getD ((s.distance + s.pos) % 256) 0
  ({ s with history := s.history.set (s.pos % 256) b, pos := (s.pos + 255) % 256 }, b - tmp)

/-- One iteration of `decode_buffer`: `buf += history[(distance + pos) & 0xFF]; history[pos-- & 0xFF] = buf`. -/
def decStep (s : State) (b : UInt8) : State × UInt8 :=
  let o := b + s.history.getD ((s.distance + s.pos) % 256) 0
  ({ s with history := s.history.set (s.pos % 256) o, pos := (s.pos + 255) % 256 }, o)

def run (step : State → UInt8 → State × UInt8) : State → List UInt8 → State × List UInt8
  | s, [] => (s, [])
  | s, b :: bs =>
    let (s1, o) := step s b
    let (s2, os) := run step s1 bs
    (s2, o :: os)

def encode (s : State) (bs : List UInt8) : State × List UInt8 := run encStep s bs
def decode (s : State) (bs : List UInt8) : State × List UInt8 := run decStep s bs

/-- Whole-buffer functions from the initial state. -/
def encodeAll (dist : Nat) (bs : List UInt8) : List UInt8 := (encode (State.init dist) bs).2
def decodeAll (dist : Nat) (bs : List UInt8) : List UInt8 := (decode (State.init dist) bs).2

/-! ### The specification: `out[i] = in[i] - in[i - d]` (bytes before the start count as 0) -/

/-- `recent` holds the already processed original bytes, most recent first. -/
def specEnc (d : Nat) : List UInt8 → List UInt8 → List UInt8
  | _, [] => []
  | recent, b :: bs => (b - recent.getD (d - 1) 0) :: specEnc d (b :: recent) bs

def specDec (d : Nat) : List UInt8 → List UInt8 → List UInt8
  | _, [] => []
  | recent, b :: bs => let o := b + recent.getD (d - 1) 0; o :: specDec d (o :: recent) bs

end XzVerif.Delta
