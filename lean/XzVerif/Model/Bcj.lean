/-
  BCJ filters, part 1: common definitions and the filters that work on fixed-size, aligned blocks
  (src/liblzma/simple/arm.c, arm64.c, powerpc.c, sparc.c, ia64.c) plus ARM-Thumb (armthumb.c, 2-byte stride).

  Conventions (core Lean only):
  * `uint32_t` is `BitVec 32` (wrapping `+`/`-`, logical shifts), bytes in buffers are `UInt8`.
  * A block of `w` buffer bytes is handled as one `BitVec (8*w)`, byte `k` of the buffer being bits `8k..8k+7`
    (`getB`/`setB` are `buffer[i + k]` read / write).  The per-block function is a transcription of the loop body of the
    C function, `pc` being `now_pos + (uint32_t)i`.
  * Every `*Code` function returns `(new buffer, processed)`; `processed` is the C function's return value.
-/
namespace XzVerif.Bcj

/-! ### bytes, words, blocks -/

/-- `(uint32_t)b` -/
@[inline] def u32 (b : UInt8) : BitVec 32 := b.toBitVec.setWidth 32
/-- `(uint8_t)x` -/
@[inline] def u8 (x : BitVec 32) : UInt8 := UInt8.ofBitVec (x.setWidth 8)

/-- little-endian value of a byte string -/
def packLE : List UInt8 → Nat
  | [] => 0
  | b :: r => b.toNat + 256 * packLE r

/-- the `k` low bytes of a number, little endian -/
def unpackLE : Nat → Nat → List UInt8
  | 0, _ => []
  | k + 1, n => UInt8.ofNat (n % 256) :: unpackLE k (n / 256)

/-- `buffer[i + k]` of a block, as `uint32_t` -/
@[inline] def getB {n : Nat} (v : BitVec n) (k : Nat) : BitVec 32 :=
  (v >>> (8 * k)).setWidth 32 &&& 0xFF#32

/-- `buffer[i + k] = (uint8_t)x` -/
@[inline] def setB {n : Nat} (v : BitVec n) (k : Nat) (x : BitVec 32) : BitVec n :=
  (v &&& ~~~ ((BitVec.ofNat n 0xFF) <<< (8 * k))) ||| (((x &&& 0xFF#32).setWidth n) <<< (8 * k))

/-- Apply `f pc block` to `n` consecutive `w`-byte blocks; the rest of the buffer is left as is. -/
def blocks (w : Nat) (f : BitVec 32 → BitVec (8 * w) → BitVec (8 * w)) : Nat → BitVec 32 → List UInt8 → List UInt8
  | 0, _, l => l
  | n + 1, pc, l =>
    unpackLE w (f pc (BitVec.ofNat (8 * w) (packLE (l.take w)))).toNat
      ++ blocks w f n (pc + BitVec.ofNat 32 w) (l.drop w)

/-- `size &= ~(w-1); for (i = 0; i < size; i += w) body; return i;` -/
def blockCode (w : Nat) (f : BitVec 32 → BitVec (8 * w) → BitVec (8 * w)) (nowPos : BitVec 32) (buf : List UInt8) :
    List UInt8 × Nat :=
  (blocks w f (buf.length / w) nowPos buf, buf.length / w * w)

/-! ### ARM (arm.c): BL, little endian, `buffer[i+3] == 0xEB` -/

def armWord (enc : Bool) (pc : BitVec 32) (v : BitVec 32) : BitVec 32 :=
  if getB v 3 = 0xEB#32 then
    let src := (getB v 2 <<< 16) ||| (getB v 1 <<< 8) ||| getB v 0
    let src := src <<< 2
    let dest := if enc then pc + 8#32 + src else src - (pc + 8#32)
    let dest := dest >>> 2
    setB (setB (setB v 2 (dest >>> 16)) 1 (dest >>> 8)) 0 dest
  else v

def armCode (enc : Bool) (nowPos : BitVec 32) (buf : List UInt8) : List UInt8 × Nat :=
  blockCode 4 (armWord enc) nowPos buf

/-! ### ARM64 (arm64.c): BL and ADRP (±512 MiB gate) -/

def arm64Word (enc : Bool) (pc0 : BitVec 32) (instr : BitVec 32) : BitVec 32 :=
  if instr >>> 26 = 0x25#32 then
    let src := instr
    let pc := pc0 >>> 2
    let pc := if enc then pc else 0#32 - pc
    0x94000000#32 ||| ((src + pc) &&& 0x03FFFFFF#32)
  else if instr &&& 0x9F000000#32 = 0x90000000#32 then
    let src := ((instr >>> 29) &&& 3#32) ||| ((instr >>> 3) &&& 0x001FFFFC#32)
    if (src + 0x00020000#32) &&& 0x001C0000#32 ≠ 0#32 then instr
    else
      let instr1 := instr &&& 0x9000001F#32
      let pc := pc0 >>> 12
      let pc := if enc then pc else 0#32 - pc
      let dest := src + pc
      instr1 ||| ((dest &&& 3#32) <<< 29) ||| ((dest &&& 0x0003FFFC#32) <<< 3)
        ||| ((0#32 - (dest &&& 0x00020000#32)) &&& 0x00E00000#32)
  else instr

def arm64Code (enc : Bool) (nowPos : BitVec 32) (buf : List UInt8) : List UInt8 × Nat :=
  blockCode 4 (arm64Word enc) nowPos buf

/-! ### PowerPC (powerpc.c): big endian `bl`, `(b0 >> 2) == 0x12 && (b3 & 3) == 1` -/

def powerpcWord (enc : Bool) (pc : BitVec 32) (v : BitVec 32) : BitVec 32 :=
  if getB v 0 >>> 2 = 0x12#32 ∧ getB v 3 &&& 3#32 = 1#32 then
    let src := ((getB v 0 &&& 3#32) <<< 24) ||| (getB v 1 <<< 16) ||| (getB v 2 <<< 8) ||| (getB v 3 &&& ~~~ 3#32)
    let dest := if enc then pc + src else src - pc
    let v := setB v 0 (0x48#32 ||| ((dest >>> 24) &&& 0x03#32))
    let v := setB v 1 (dest >>> 16)
    let v := setB v 2 (dest >>> 8)
    let v := setB v 3 (getB v 3 &&& 0x03#32)
    setB v 3 (getB v 3 ||| dest)
  else v

def powerpcCode (enc : Bool) (nowPos : BitVec 32) (buf : List UInt8) : List UInt8 × Nat :=
  blockCode 4 (powerpcWord enc) nowPos buf

/-! ### SPARC (sparc.c): `call`, big endian, sign bits 0x40 0b00…… / 0x7F 0b11…… -/

def sparcWord (enc : Bool) (pc : BitVec 32) (v : BitVec 32) : BitVec 32 :=
  if (getB v 0 = 0x40#32 ∧ getB v 1 &&& 0xC0#32 = 0x00#32) ∨ (getB v 0 = 0x7F#32 ∧ getB v 1 &&& 0xC0#32 = 0xC0#32) then
    let src := (getB v 0 <<< 24) ||| (getB v 1 <<< 16) ||| (getB v 2 <<< 8) ||| getB v 3
    let src := src <<< 2
    let dest := if enc then pc + src else src - pc
    let dest := dest >>> 2
    let dest := (((0#32 - ((dest >>> 22) &&& 1#32)) <<< 22) &&& 0x3FFFFFFF#32) ||| (dest &&& 0x3FFFFF#32) ||| 0x40000000#32
    setB (setB (setB (setB v 0 (dest >>> 24)) 1 (dest >>> 16)) 2 (dest >>> 8)) 3 dest
  else v

def sparcCode (enc : Bool) (nowPos : BitVec 32) (buf : List UInt8) : List UInt8 × Nat :=
  blockCode 4 (sparcWord enc) nowPos buf

/-! ### IA-64 (ia64.c): 16-byte bundles, template → slot mask, 41-bit slots -/

def ia64BranchTable : List Nat :=
  [0, 0, 0, 0, 0, 0, 0, 0,
   0, 0, 0, 0, 0, 0, 0, 0,
   4, 4, 6, 6, 0, 0, 7, 7,
   4, 4, 0, 0, 4, 4, 0, 0]

/-- One slot of a bundle: `bit_pos = 5 + 41*slot`. -/
def ia64Slot (enc : Bool) (pc : BitVec 32) (slot : Nat) (v : BitVec 128) : BitVec 128 :=
  let bitPos := 5 + 41 * slot
  let bytePos := bitPos / 8
  let bitRes := bitPos % 8
  -- for (j < 6) instruction += (uint64_t)buffer[i + j + byte_pos] << (8 * j)
  let instruction : BitVec 64 := (v >>> (8 * bytePos)).setWidth 64 &&& 0xFFFFFFFFFFFF#64
  let instNorm := instruction >>> bitRes
  if (instNorm >>> 37) &&& 0xF#64 = 0x5#64 ∧ (instNorm >>> 9) &&& 0x7#64 = 0#64 then
    let src : BitVec 32 := ((instNorm >>> 13) &&& 0xFFFFF#64).setWidth 32
    let src := src ||| ((((instNorm >>> 36) &&& 1#64) <<< 20).setWidth 32)
    let src := src <<< 4
    let dest := if enc then pc + src else src - pc
    let dest := dest >>> 4
    let instNorm := instNorm &&& ~~~ (0x8FFFFF#64 <<< 13)
    let instNorm := instNorm ||| ((dest &&& 0xFFFFF#32).setWidth 64 <<< 13)
    let instNorm := instNorm ||| ((dest &&& 0x100000#32).setWidth 64 <<< (36 - 20))
    let instruction := instruction &&& (((1#32 <<< bitRes) - 1#32).setWidth 64)
    let instruction := instruction ||| (instNorm <<< bitRes)
    -- for (j < 6) buffer[i + j + byte_pos] = (uint8_t)(instruction >> (8 * j))
    (v &&& ~~~ ((0xFFFFFFFFFFFF#128) <<< (8 * bytePos)))
      ||| (((instruction &&& 0xFFFFFFFFFFFF#64).setWidth 128) <<< (8 * bytePos))
  else v

/-- The three slots in order, for a given 3-bit slot mask. -/
def ia64Slots (enc : Bool) (pc : BitVec 32) (mask : Nat) (v : BitVec 128) : BitVec 128 :=
  let v := if mask % 2 = 1 then ia64Slot enc pc 0 v else v
  let v := if (mask / 2) % 2 = 1 then ia64Slot enc pc 1 v else v
  if (mask / 4) % 2 = 1 then ia64Slot enc pc 2 v else v

def ia64Bundle (enc : Bool) (pc : BitVec 32) (v : BitVec 128) : BitVec 128 :=
  ia64Slots enc pc (ia64BranchTable.getD (getB v 0 &&& 0x1F#32).toNat 0) v

def ia64Code (enc : Bool) (nowPos : BitVec 32) (buf : List UInt8) : List UInt8 × Nat :=
  blockCode 16 (ia64Bundle enc) nowPos buf

/-! ### ARM-Thumb (armthumb.c): BL pair, 2-byte stride over a 4-byte window -/

/-- `(buffer[i+1] & 0xF8) == 0xF0 && (buffer[i+3] & 0xF8) == 0xF8` -/
def thumbCond (b1 b3 : UInt8) : Bool :=
  (u32 b1 &&& 0xF8#32 == 0xF0#32) && (u32 b3 &&& 0xF8#32 == 0xF8#32)

/-- The converted four bytes. -/
def thumbConv (enc : Bool) (pc : BitVec 32) (b0 b1 b2 b3 : UInt8) : UInt8 × UInt8 × UInt8 × UInt8 :=
  let src := ((u32 b1 &&& 7#32) <<< 19) ||| (u32 b0 <<< 11) ||| ((u32 b3 &&& 7#32) <<< 8) ||| u32 b2
  let src := src <<< 1
  let dest := if enc then pc + 4#32 + src else src - (pc + 4#32)
  let dest := dest >>> 1
  (u8 (dest >>> 11), u8 (0xF0#32 ||| ((dest >>> 19) &&& 0x7#32)), u8 dest, u8 (0xF8#32 ||| ((dest >>> 8) &&& 0x7#32)))

/-- The loop `for (i = 0; i <= size - 4; i += 2)`; `pc = now_pos + i`. Returns the new bytes and `i` at exit. -/
def thumbGo (enc : Bool) : BitVec 32 → List UInt8 → List UInt8 × Nat
  | pc, b0 :: b1 :: b2 :: b3 :: rest =>
    if thumbCond b1 b3 then
      let (o0, o1, o2, o3) := thumbConv enc pc b0 b1 b2 b3
      let (r, n) := thumbGo enc (pc + 4#32) rest
      (o0 :: o1 :: o2 :: o3 :: r, n + 4)
    else
      let (r, n) := thumbGo enc (pc + 2#32) (b2 :: b3 :: rest)
      (b0 :: b1 :: r, n + 2)
  | _, l => (l, 0)

def armthumbCode (enc : Bool) (nowPos : BitVec 32) (buf : List UInt8) : List UInt8 × Nat :=
  thumbGo enc nowPos buf

end XzVerif.Bcj
