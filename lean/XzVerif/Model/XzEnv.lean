/-
  The standard instantiation of `XzDecode.Env`: the raw filter-chain decoder of Model/Lzma2.lean (`rawDecode`) with the
  delta / BCJ models of Model/Delta.lean, Model/Simple.lean in front of it, and the integrity checks of Model/Check.lean
  (CRC32 / CRC64 reference definitions, SHA-256 as in sha256.c).

  `payload filters input outCap` follows `lzma_raw_decoder_init` (filter_decoder.c / filter_common.c `lzma_raw_coder_init`):
  the Filter Properties have already been accepted by `lzma_properties_decode` (Block Header decoder) and the chain by
  `lzma_validate_chain`; what is left is each filter's own initialisation:
    BCJ     start offset not a multiple of the filter's alignment → LZMA_OPTIONS_ERROR  (simple_coder.c)
    LZMA1   invalid lc/lp/pb → LZMA_PROG_ERROR (cannot happen after the properties decoder), LZMA1EXT as decoded from
            Filter Properties has ext_flags = 0 and an unknown size
  and then one `code` call with everything present.

  Core Lean only.
-/
import XzVerif.Model.XzDecode
import XzVerif.Model.Lzma2
import XzVerif.Model.Simple
import XzVerif.Model.Check
import XzVerif.Model.XzStruct

namespace XzVerif.XzEnv
open XzVerif XzVerif.Container XzVerif.XzDecode

def bcjId (id : Nat) : Option Simple.FilterId :=
  if id = FILTER_X86 then some .x86 else if id = FILTER_POWERPC then some .powerpc
  else if id = FILTER_IA64 then some .ia64 else if id = FILTER_ARM then some .arm
  else if id = FILTER_ARMTHUMB then some .armthumb else if id = FILTER_SPARC then some .sparc
  else if id = FILTER_ARM64 then some .arm64 else if id = FILTER_RISCV then some .riscv else none

/-- Decoding function of a non-last filter on a complete byte string (what `simple_code` / `delta_decode` produce when
    the whole stream has passed through them). -/
def preFilterWith (deltaDec : Nat → List UInt8 → List UInt8) : FilterOpts → Option (List UInt8 → List UInt8)
  | .delta dist => some (deltaDec dist)
  | .bcj id off =>
    (bcjId id).map fun fid => fun buf => (Simple.filterCode fid false Bcj.X86State.init (BitVec.ofNat 32 off) buf).1
  | _ => none

def lastFilter : FilterOpts → Option Lzma2.LastFilter
  | .lzma2 d => some (.lzma2 d [])
  | .lzma1 id lc lp pb d =>
    if id = FILTER_LZMA1 then some (.lzma1 { lc := lc, lp := lp, pb := pb } d [])
    else some (.lzma1ext { lc := lc, lp := lp, pb := pb } d [] 0 Lzma2.UINT64_MAX)
  | _ => none

def fail (r : Ret) : PRes := { ret := r, out := [], consumed := 0 }

/-- `lzma_raw_decoder_init(filters)` + `code` on the complete `input` with `outCap` bytes of output space. -/
def payloadWith (deltaDec : Nat → List UInt8 → List UInt8) (filters : List Filter) (input : List UInt8) (outCap : Nat) : PRes :=
  match filters.mapM (fun f => (propsDecode f.id f.props).toOption) with
  | none => fail .optionsError
  | some opts =>
    match opts.reverse with
    | [] => fail .progError
    | lastO :: preRev =>
      if !(preRev.all filterInitOk) then fail .optionsError
      else
        match lastFilter lastO, preRev.reverse.mapM (preFilterWith deltaDec) with
        | some last, some pre =>
          let r := Lzma2.rawDecode { pre := pre, last := last } input outCap
          { ret := r.ret, out := r.out, consumed := r.consumed }
        | _, _ => fail .optionsError

def payload : List Filter → List UInt8 → Nat → PRes := payloadWith Delta.decodeAll

def checkImpl : Check.Impl :=
  { crc32 := Crc.crc32Ref, crc64 := Crc.crc64Ref, shaK := Sha256.K, shaInit := Sha256.H0 }

def checkState0 : Check.State :=
  { buf := List.replicate 64 0, crc32 := 0, crc64 := 0, shaState := List.replicate 8 0, shaSize := 0 }

/-- The Check field a Block with data `data` must carry (`lzma_check_init`, one `lzma_check_update`, `lzma_check_finish`). -/
def check (id : Nat) (data : List UInt8) : List UInt8 := Check.run checkImpl id checkState0 [data]

/-- The environment of this liblzma build (all checks and filters enabled). -/
def stdEnv : Env := { payload := payload, checkSupported := Check.isSupported, check := check }

/-! ## Fast executable checks (drivers only)

  `stdEnv.check` runs the list-based models of Model/Check.lean / Model/Sha256.lean, which take about a millisecond per
  64-byte block. The correspondence runs decode tens of thousands of damaged files, so the drivers use `fastEnv`: the
  same payload decoder (with an array-based delta decoder), the table-driven CRCs of Model/XzStruct.lean and a SHA-256 over `UInt32` arrays. `fastSelfTest`
  (run by the drivers before they answer anything) compares `fastCheck` with `check` on messages around every block boundary, and `deltaFast` with `Delta.decodeAll`.
  No theorem depends on `fastEnv`: the container theorems hold for every `Env`. -/

def shaK32 : Array UInt32 := (Sha256.K.map fun w => w.toNat.toUInt32).toArray
def shaH32 : Array UInt32 := (Sha256.H0.map fun w => w.toNat.toUInt32).toArray

@[inline] def rotr32 (x : UInt32) (n : UInt32) : UInt32 := (x >>> n) ||| (x <<< (32 - n))

/-- one SHA-256 compression of the 64 bytes at `off` -/
def shaBlock (h : Array UInt32) (d : ByteArray) (off : Nat) : Array UInt32 := Id.run do
  let mut w : Array UInt32 := Array.replicate 64 0
  for i in [0:16] do
    let b (k : Nat) : UInt32 := (d.get! (off + 4 * i + k)).toUInt32
    w := w.set! i ((b 0 <<< 24) ||| (b 1 <<< 16) ||| (b 2 <<< 8) ||| b 3)
  for i in [16:64] do
    let x := w[i - 15]!
    let y := w[i - 2]!
    let s0 := rotr32 x 7 ^^^ rotr32 x 18 ^^^ (x >>> 3)
    let s1 := rotr32 y 17 ^^^ rotr32 y 19 ^^^ (y >>> 10)
    w := w.set! i (w[i - 16]! + s0 + w[i - 7]! + s1)
  let mut a := h[0]!
  let mut b := h[1]!
  let mut c := h[2]!
  let mut dd := h[3]!
  let mut e := h[4]!
  let mut f := h[5]!
  let mut g := h[6]!
  let mut hh := h[7]!
  for i in [0:64] do
    let s1 := rotr32 e 6 ^^^ rotr32 e 11 ^^^ rotr32 e 25
    let ch := (e &&& f) ^^^ ((~~~ e) &&& g)
    let t1 := hh + s1 + ch + shaK32[i]! + w[i]!
    let s0 := rotr32 a 2 ^^^ rotr32 a 13 ^^^ rotr32 a 22
    let mj := (a &&& b) ^^^ (a &&& c) ^^^ (b &&& c)
    let t2 := s0 + mj
    hh := g
    g := f
    f := e
    e := dd + t1
    dd := c
    c := b
    b := a
    a := t1 + t2
  return #[h[0]! + a, h[1]! + b, h[2]! + c, h[3]! + dd, h[4]! + e, h[5]! + f, h[6]! + g, h[7]! + hh]

def shaFast (m : ByteArray) : List UInt8 := Id.run do
  let bitLen := m.size * 8
  let padLen := (119 - m.size % 64) % 64        -- zero bytes after 0x80 so that the total is ≡ 56 (mod 64)
  let mut d := m.push 0x80
  for _ in [0:padLen] do
    d := d.push 0
  for i in [0:8] do
    d := d.push (UInt8.ofNat (bitLen / 256 ^ (7 - i) % 256))
  let mut h := shaH32
  for k in [0:d.size / 64] do
    h := shaBlock h d (64 * k)
  return h.toList.flatMap fun (x : UInt32) =>
    [(x >>> 24).toUInt8, (x >>> 16).toUInt8, (x >>> 8).toUInt8, x.toUInt8]

def fastCheck (id : Nat) (data : List UInt8) : List UInt8 :=
  let d := ByteArray.mk data.toArray
  if id = 1 then le32 (XzStruct.crc32Slice d 0 d.size)
  else if id = 4 then le64 (XzStruct.crc64Slice d 0 d.size)
  else if id = 10 then shaFast d
  else check id data

/-- `delta_decode`: `out[i] = in[i] + out[i - dist]` (bytes before the start count as zero). -/
def deltaFast (dist : Nat) (inp : List UInt8) : List UInt8 := Id.run do
  let a := inp.toArray
  let mut o := ByteArray.emptyWithCapacity a.size
  for i in [0:a.size] do
    let prev : UInt8 := if i ≥ dist then o.get! (i - dist) else 0
    o := o.push (a[i]! + prev)
  return o.toList

def fastEnv : Env := { payload := payloadWith deltaFast, checkSupported := Check.isSupported, check := fastCheck }

def fastSelfTest : Bool :=
  ([0, 1, 2, 3, 54, 55, 56, 57, 63, 64, 65, 118, 119, 120, 127, 128, 129, 150].all fun n =>
    let msg := (List.range n).map fun i => UInt8.ofNat (i * 37 + n * 11 + 5)
    [0, 1, 2, 4, 7, 10, 13].all fun id => fastCheck id msg == check id msg)
  && ([1, 2, 3, 4, 16, 255, 256].all fun dist =>
    let msg := (List.range 600).map fun i => UInt8.ofNat (i * i + 7 * i + dist)
    deltaFast dist msg == Delta.decodeAll dist msg)

end XzVerif.XzEnv
