/-
  L7: Stream Padding and concatenation rules of the .xz Stream decoder, src/liblzma/common/stream_decoder.c
  (SEQ_STREAM_HEADER's `first_stream`, the end of SEQ_STREAM_FOOTER, SEQ_STREAM_PADDING; the same rules are in
  stream_decoder_mt.c), as a small state machine over a PARAMETER `One` = "decode exactly one Stream from the front of
  the input" (what `lzma_stream_decoder` without LZMA_CONCATENATED observes: LZMA_STREAM_END with the Stream's length,
  LZMA_FORMAT_ERROR for bad Header Magic Bytes, LZMA_OK = input ended inside the Stream, other errors).

    * a later Stream whose header magic is wrong gives LZMA_DATA_ERROR, the first one LZMA_FORMAT_ERROR;
    * without LZMA_CONCATENATED the decoder returns LZMA_STREAM_END right after the Stream Footer;
    * with it, zero bytes are skipped counting modulo 4; when the input ends: LZMA_OK unless the action is LZMA_FINISH,
      then LZMA_STREAM_END if the padding is a multiple of four, else LZMA_DATA_ERROR; a non-zero byte at a position that
      is not a multiple of four is consumed and gives LZMA_DATA_ERROR; otherwise the next Stream starts there.

  Core Lean only.
-/
import XzVerif.Model.Alone

namespace XzVerif.XzConcat
open XzVerif.Alone

abbrev One := List UInt8 → DRes

structure Cfg where
  concatenated : Bool
  finish : Bool
  deriving Repr

/-- number of leading 0x00 bytes -/
def leadingZeros : List UInt8 → Nat
  | [] => 0
  | b :: bs => if b = 0 then leadingZeros bs + 1 else 0

/-- SEQ_STREAM_PADDING on the bytes after a Stream Footer. `inl r` = final result (consumed relative to the start of
    the padding), `inr n` = `n` bytes of valid padding skipped, the next Stream starts there. -/
def padding (cfg : Cfg) (t : List UInt8) : DRes ⊕ Nat :=
  let z := leadingZeros t
  match t.drop z with
  | [] =>
    .inl { ret := if !cfg.finish then .ok else if z % 4 = 0 then .streamEnd else .dataError,
           out := [], consumed := z }
  | _ :: _ =>
    if z % 4 ≠ 0 then .inl { ret := .dataError, out := [], consumed := z + 1 }
    else .inr z

def prepend (a : DRes) (r : DRes) : DRes :=
  { ret := r.ret, out := a.out ++ r.out, consumed := a.consumed + r.consumed, events := a.events ++ r.events, mem := r.mem }

/-- one Stream per unit of fuel -/
def xzLoop (X1 : One) (cfg : Cfg) : Nat → Bool → List UInt8 → DRes
  | 0, _, _ => fail .progError 0
  | f + 1, first, inp =>
    let r := X1 inp
    let ret1 := if r.ret = .formatError && !first then Ret.dataError else r.ret
    if ret1 ≠ .streamEnd then { r with ret := ret1 }
    else if !cfg.concatenated then r
    else
      let t := inp.drop r.consumed
      match padding cfg t with
      | .inl p => prepend r p
      | .inr z => prepend { r with consumed := r.consumed + z } (xzLoop X1 cfg f false (t.drop z))

def xzDecode (X1 : One) (cfg : Cfg) (inp : List UInt8) : DRes :=
  xzLoop X1 cfg (inp.length + 1) true inp

end XzVerif.XzConcat
