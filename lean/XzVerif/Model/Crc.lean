/-
  CRC32 / CRC64: reference definition (bit at a time, reflected) and models of the table-driven
  implementations in src/liblzma/check/crc32_fast.c, crc64_fast.c, crc32_tablegen.c, crc64_tablegen.c.
  Core Lean only.
-/
namespace XzVerif.Crc

/-- IEEE 802.3 polynomial, reflected. -/
def P32 : BitVec 32 := 0xEDB88320#32
/-- ECMA-182 polynomial, reflected. -/
def P64 : BitVec 64 := 0xC96C5795D7870F42#64

/-- One bit of the reflected shift register. -/
def step1 {w : Nat} (poly c : BitVec w) : BitVec w :=
  if c.getLsbD 0 then (c >>> 1) ^^^ poly else c >>> 1

def stepN {w : Nat} (poly : BitVec w) : Nat → BitVec w → BitVec w
  | 0, c => c
  | n + 1, c => stepN poly n (step1 poly c)

/-- Eight zero-input bit steps. -/
def step8 {w : Nat} (poly c : BitVec w) : BitVec w := stepN poly 8 c

/-- Reference: process one message byte (xor it into the low byte, then 8 bit steps). -/
def byteStep {w : Nat} (poly c : BitVec w) (b : UInt8) : BitVec w :=
  step8 poly (c ^^^ BitVec.ofNat w b.toNat)

def refRaw {w : Nat} (poly : BitVec w) (bs : List UInt8) (c : BitVec w) : BitVec w :=
  bs.foldl (byteStep poly) c

/-- The standard CRC-32 (as in zlib, IEEE 802.3): pre- and post-inverted; `init` is the value from a previous call. -/
def crc32Ref (bs : List UInt8) (init : BitVec 32) : BitVec 32 := ~~~ (refRaw P32 bs (~~~ init))
/-- CRC-64/XZ (ECMA-182 reflected, inverted). -/
def crc64Ref (bs : List UInt8) (init : BitVec 64) : BitVec 64 := ~~~ (refRaw P64 bs (~~~ init))

/-! ### Table generation (crc32_tablegen.c `init_crc32_table`) -/

/-- `table[0][b]`. -/
def tab0 {w : Nat} (poly : BitVec w) (b : Nat) : BitVec w := step8 poly (BitVec.ofNat w b)

/-- `table[s][b] = (table[s-1][b] >> 8) ^ table[0][table[s-1][b] & 0xFF]`. -/
def tabS {w : Nat} (poly : BitVec w) : Nat → Nat → BitVec w
  | 0, b => tab0 poly b
  | s + 1, b => let r := tabS poly s b; (r >>> 8) ^^^ tab0 poly (r.toNat % 256)

def genTable {w : Nat} (poly : BitVec w) (slices : Nat) : List (List Nat) :=
  (List.range slices).map fun s => (List.range 256).map fun b => (tabS poly s b).toNat

/-! ### Models of the C implementations, parametric in the lookup tables they use -/

abbrev Tables := List (List Nat)

def look (w : Nat) (T : Tables) (s : Nat) (i : Nat) : BitVec w :=
  BitVec.ofNat w ((T.getD s []).getD i 0)

/-- `crc = table[0][*buf++ ^ A(crc)] ^ S8(crc)` -/
def tblByte (w : Nat) (T : Tables) (c : BitVec w) (b : UInt8) : BitVec w :=
  look w T 0 ((c.toNat % 256) ^^^ b.toNat) ^^^ (c >>> 8)

def le32 (b0 b1 b2 b3 : UInt8) : BitVec 32 :=
  BitVec.ofNat 32 (b0.toNat + 256 * b1.toNat + 65536 * b2.toNat + 16777216 * b3.toNat)

def A (x : BitVec 32) : Nat := x.toNat % 256
def B (x : BitVec 32) : Nat := (x.toNat / 256) % 256
def C (x : BitVec 32) : Nat := (x.toNat / 65536) % 256
def D (x : BitVec 32) : Nat := x.toNat / 16777216

/-- One iteration of the slice-by-eight loop of `lzma_crc32_generic`. -/
def slice8 (T : Tables) (c : BitVec 32) (b0 b1 b2 b3 b4 b5 b6 b7 : UInt8) : BitVec 32 :=
  let c1 := c ^^^ le32 b0 b1 b2 b3
  let c2 := look 32 T 7 (A c1) ^^^ look 32 T 6 (B c1) ^^^ look 32 T 5 (C c1) ^^^ look 32 T 4 (D c1)
  let tmp := le32 b4 b5 b6 b7
  look 32 T 3 (A tmp) ^^^ look 32 T 2 (B tmp) ^^^ c2 ^^^ look 32 T 1 (C tmp) ^^^ look 32 T 0 (D tmp)

/-- The `while (buf < limit)` loop: whole 8-byte groups, returns the rest. -/
def slice8Loop (T : Tables) : BitVec 32 → List UInt8 → BitVec 32 × List UInt8
  | c, b0 :: b1 :: b2 :: b3 :: b4 :: b5 :: b6 :: b7 :: rest => slice8Loop T (slice8 T c b0 b1 b2 b3 b4 b5 b6 b7) rest
  | c, rest => (c, rest)

/-- `lzma_crc32_generic(buf, size, crc)` where `align = (uintptr_t)buf`. -/
def crc32Generic (T : Tables) (align : Nat) (bs : List UInt8) (init : BitVec 32) : BitVec 32 :=
  let c := ~~~ init
  if bs.length > 8 then
    let pre := (8 - align % 8) % 8
    let c := (bs.take pre).foldl (tblByte 32 T) c
    let (c, rest) := slice8Loop T c (bs.drop pre)
    ~~~ (rest.foldl (tblByte 32 T) c)
  else
    ~~~ (bs.foldl (tblByte 32 T) c)

/-- One iteration of the slice-by-four loop of `lzma_crc64_generic`. -/
def slice4 (T : Tables) (c : BitVec 64) (b0 b1 b2 b3 : UInt8) : BitVec 64 :=
  let tmp : BitVec 32 := (BitVec.ofNat 32 c.toNat) ^^^ le32 b0 b1 b2 b3
  look 64 T 3 (A tmp) ^^^ look 64 T 2 (B tmp) ^^^ (c >>> 32) ^^^ look 64 T 1 (C tmp) ^^^ look 64 T 0 (D tmp)

def slice4Loop (T : Tables) : BitVec 64 → List UInt8 → BitVec 64 × List UInt8
  | c, b0 :: b1 :: b2 :: b3 :: rest => slice4Loop T (slice4 T c b0 b1 b2 b3) rest
  | c, rest => (c, rest)

def crc64Generic (T : Tables) (align : Nat) (bs : List UInt8) (init : BitVec 64) : BitVec 64 :=
  let c := ~~~ init
  if bs.length > 4 then
    let pre := (4 - align % 4) % 4
    let c := (bs.take pre).foldl (tblByte 64 T) c
    let (c, rest) := slice4Loop T c (bs.drop pre)
    ~~~ (rest.foldl (tblByte 64 T) c)
  else
    ~~~ (bs.foldl (tblByte 64 T) c)

/-! ### The size-optimised implementations (crc32_small.c / crc64_small.c, `HAVE_SMALL`) -/

/-- `crc32_init` / `crc64_init`: the 256-entry table generated at run time is `genTable poly 1`;
    `lzma_crc32`/`lzma_crc64` of those files: `crc = table[*buf++ ^ (crc & 0xFF)] ^ (crc >> 8)` over all bytes. -/
def crcSmall {w : Nat} (poly : BitVec w) (bs : List UInt8) (init : BitVec w) : BitVec w :=
  ~~~ (bs.foldl (tblByte w (genTable poly 1)) (~~~ init))

/-! ### Constants of the carry-less-multiplication implementation (crc_clmul_consts_gen.c, crc_x86_clmul.h) -/

/-- `x^k mod P` for `P = x^w + poly`, in the reflected representation (bit `i` is the coefficient of `x^(w-1-i)`):
    start from the polynomial `1` and multiply by `x` (one shift-register step) `k` times. -/
def xpowMod {w : Nat} (poly : BitVec w) (k : Nat) : BitVec w := stepN poly k (BitVec.twoPow w (w - 1))

/-- `calc_clrem(p, bits)`: `r = p; for (i = 1; i < bits; ++i) r = (r >> 1) ^ (r & 1 ? p : 0);` = `x^(bits + 63) mod P`. -/
def clrem (p : BitVec 64) (bits : Nat) : BitVec 64 := stepN p (bits - 1) p

/-- Loop of `calc_cldiv`: `q |= (r & 1) << i; r = (r >> 1) ^ (r & 1 ? p : 0);` for `i = i0 … i0+n-1`. -/
def cldivLoop (p : BitVec 64) : Nat → Nat → BitVec 64 × BitVec 64 → BitVec 64 × BitVec 64
  | 0, _, qr => qr
  | n + 1, i, (q, r) => cldivLoop p n (i + 1) (q ||| ((r &&& 1#64) <<< i), step1 p r)

/-- `calc_cldiv(p)` = `floor(x^128 / P)` by polynomial long division (the top quotient bit is implied). -/
def cldiv (p : BitVec 64) : BitVec 64 := (cldivLoop p 64 0 (0#64, p)).1

/-- The six 64-bit constants in the order the code writes them:
    `fold512 = _mm_set_epi64x(clrem(4*128-64), clrem(4*128))`, `fold128 = (clrem(128-64), clrem(128))`,
    `mu_p = ((cldiv << 1) | 1, p << 1)`. -/
def clmulConsts (p : BitVec 64) : List Nat :=
  [(clrem p (4 * 128 - 64)).toNat, (clrem p (4 * 128)).toNat, (clrem p (128 - 64)).toNat, (clrem p 128).toNat,
   ((cldiv p <<< 1) ||| 1#64).toNat, (p <<< 1).toNat]

/-- CRC32 "modulus-scaled to a CRC64": the 32-bit reflected polynomial in a 64-bit register (`P32(x)·x^32`). -/
def P32in64 : BitVec 64 := 0xEDB88320#64

/-- `vmasks[64]`: 16×0x00, 16×0xFF, 0…15, 16×0xFF. -/
def vmasksSpec : List Nat :=
  List.replicate 16 0 ++ List.replicate 16 255 ++ List.range 16 ++ List.replicate 16 255

end XzVerif.Crc
