/-
  C18 — model of how xz turns its options into a configuration (src/xz/args.c parse_real / parse_environment,
  mytime.c mytime_get_flush_timeout), for the options that matter when decompressing or testing.

  Options come from XZ_DEFAULTS, then XZ_OPT, then the command line, and are applied ONE BY ONE, in that order, each
  by a plain assignment to its own variable (`parseStep`). No option's effect may depend on the operation mode seen so
  far, because the mode is only known when parsing has finished (`-d` may follow `--flush-timeout=N`, or live in XZ_OPT).
  What depends on the mode is decided at use time from the FINAL configuration (`effectiveFlushTimeout`).
  Core Lean only.
-/
namespace XzVerif.XzArgs

inductive OpMode | compress | decompress | test | list
  deriving DecidableEq, Repr

inductive Arg
  | mode (m : OpMode)            -- -z -d -t -l
  | flushTimeout (ms : Nat)      -- --flush-timeout=N
  | blockSize (n : Nat)          -- --block-size=N
  | threads (n : Nat)            -- -T N
  | memlimit (n : Nat)           -- --memlimit-decompress=N
  | toStdout                     -- -c
  | keep                         -- -k
  | force                        -- -f
  | noSparse                     -- --no-sparse
  | noWarn                       -- -Q
  | single                       -- --single-stream
  | ignoreCheck                  -- --ignore-check
  deriving DecidableEq, Repr

structure Conf where
  mode : OpMode := .compress
  flushTimeout : Nat := 0
  blockSize : Nat := 0
  threads : Nat := 0
  memlimit : Nat := 0
  toStdout : Bool := false
  keep : Bool := false
  force : Bool := false
  noSparse : Bool := false
  noWarn : Bool := false
  single : Bool := false
  ignoreCheck : Bool := false
  deriving DecidableEq, Repr

/-- One `case` of the getopt loop: an assignment to the option's own variable, nothing else. -/
def parseStep (c : Conf) : Arg → Conf
  | .mode m => { c with mode := m }
  | .flushTimeout n => { c with flushTimeout := n }
  | .blockSize n => { c with blockSize := n }
  | .threads n => { c with threads := n }
  | .memlimit n => { c with memlimit := n }
  | .toStdout => { c with toStdout := true }
  | .keep => { c with keep := true }
  | .force => { c with force := true }
  | .noSparse => { c with noSparse := true }
  | .noWarn => { c with noWarn := true }
  | .single => { c with single := true }
  | .ignoreCheck => { c with ignoreCheck := true }

/-- `args_parse`: XZ_DEFAULTS, XZ_OPT, then the command line. -/
def parseArgs (xzDefaults xzOpt cmdline : List Arg) : Conf :=
  (xzDefaults ++ xzOpt ++ cmdline).foldl parseStep {}

/-- The variable an option assigns (options on the same variable do not commute: the last one wins). -/
def Arg.slot : Arg → Nat
  | .mode _ => 0 | .flushTimeout _ => 1 | .blockSize _ => 2 | .threads _ => 3 | .memlimit _ => 4 | .toStdout => 5
  | .keep => 6 | .force => 7 | .noSparse => 8 | .noWarn => 9 | .single => 10 | .ignoreCheck => 11

/-- `mytime_get_flush_timeout()`: the timeout is in force only when COMPRESSING — judged when it is used, from the final mode. -/
def effectiveFlushTimeout (c : Conf) : Nat := if c.mode = .compress then c.flushTimeout else 0

end XzVerif.XzArgs
