/-
  `lzma_vli_encode` in multi-call mode as a chunk-faithful `Coder` and as a byte machine (property C06).  Core Lean only.

  The C function (src/liblzma/common/vli_encoder.c) is called as `lzma_vli_encode(vli, &vli_pos, out, &out_pos, out_size)`:
  the value `vli` is passed again on every call, the only persistent state is `vli_pos` (number of bytes already written).
  Each call shifts the value (`vli >>= *vli_pos * 7`), writes continuation bytes while `vli >= 0x80` and room is left
  (`LZMA_OK` when the window becomes full), and finally the last byte (`LZMA_STREAM_END`).

  * `vliEncCoder v`    one call = `Vli.vliEncodeMulti v vli_pos cap`
  * `vliEncMachine v`  byte-at-a-time normal form: one `emit` per byte of the encoding, then `done LZMA_STREAM_END`
  * `VliE.abs`, `VliE.live`   abstraction to `vli_pos` and the invariant under which the function may be called again

  `Lemmas/CoderVliEnc.lean` proves `Sim (vliEncCoder v) (vliEncMachine v) VliE.abs VliE.live` for `v ≤ VLI_MAX` and derives
  n-window slicing independence.
-/
import XzVerif.Model.CoderMachines

namespace XzVerif.Coder
open XzVerif.Vli

/-- One call of `lzma_vli_encode(v, &vli_pos, out, &out_pos, out_size)` with `out_size - out_pos = cap`. State = `vli_pos`,
    initially `0`; the value `v` is a parameter, as in C. No input is ever consumed (`consumed = 0`, the offered input and the
    action are ignored). With an empty window (`cap = 0`) the C function answers `LZMA_BUF_ERROR` and changes nothing; its only
    multi-call caller (`index_encode()`, inside `while (*out_pos < out_size)`) calls it only when there is room, so here — as for
    `vliDecCoder` with empty input — an empty call is "nothing happened", `LZMA_OK`, not `LZMA_BUF_ERROR`. -/
def vliEncCoder (v : Nat) : Coder Nat where
  code pos _inp cap _a :=
    if cap = 0 then (pos, ⟨0, [], .ok⟩)
    else
      let r := vliEncodeMulti v pos cap
      (r.2.1, ⟨0, r.2.2, r.1⟩)

/-- States of the VLI-encoder byte machine: `writing pos` = `pos` bytes have been written and more are to come,
    `finished pos` = the last byte has been written (`pos` = length of the encoding). -/
inductive VliE where
  | writing (pos : Nat)
  | finished (pos : Nat)
  deriving DecidableEq, Repr

/-- One byte of `lzma_vli_encode`: shift the value as the C function does on entry (`vli >>= *vli_pos * 7`; inside the loop the
    same value is reached by `vli >>= 7` per byte), then one iteration of `Vli.vliEncLoop`: a continuation byte
    `(uint8_t)(vli) | 0x80` while `vli >= 0x80`, else the last byte and `LZMA_STREAM_END`. -/
def vliEncMachine (v : Nat) : ByteMachine VliE where
  step
    | .writing pos =>
      if v >>> (pos * 7) ≥ 128 then .emit (UInt8.ofNat (v >>> (pos * 7) % 128 + 128)) (.writing (pos + 1))
      else .emit (UInt8.ofNat (v >>> (pos * 7))) (.finished (pos + 1))
    | .finished _ => .done .streamEnd

/-- The machine state as the C state `vli_pos`. -/
def VliE.abs : VliE → Nat
  | .writing pos => pos
  | .finished pos => pos

/-- The states in which `lzma_vli_encode` may be called again: the last call answered `LZMA_OK` (not finished) and the argument
    check `vli_pos < LZMA_VLI_BYTES_MAX` passes. The initial state `writing 0` is one. (The other half of the argument check,
    `vli ≤ LZMA_VLI_MAX`, is about the parameter `v` and is a hypothesis of `vliEnc_sim`.) -/
def VliE.live : VliE → Prop
  | .writing pos => pos < 9
  | .finished _ => False

end XzVerif.Coder
