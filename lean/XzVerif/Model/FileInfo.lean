/-
  C13 — models of src/liblzma/common/file_info.c (the backward parser of a whole .xz file as a pure function:
  footer → Backward Size → Index → Stream Header compare → Stream Padding → previous Stream, with the bookkeeping of
  the 8 KiB `temp` window that decides where `reverse_seek` rejects a file) and of index_hash.c (size/count rules).
  Core Lean only.
-/
import XzVerif.Model.IndexImpl

namespace XzVerif.Index

/-! ### Stream Header / Stream Footer (stream_flags_decoder.c) -/

def headerMagic : List UInt8 := [0xFD, 0x37, 0x7A, 0x58, 0x5A, 0x00]
def footerMagic : List UInt8 := [0x59, 0x5A]

def bytesAt (file : Array UInt8) (pos n : Nat) : List UInt8 := (file.extract pos (pos + n)).toList

def le32 (bs : List UInt8) : Nat :=
  (bs.getD 0 0).toNat + 256 * (bs.getD 1 0).toNat + 65536 * (bs.getD 2 0).toNat + 16777216 * (bs.getD 3 0).toNat

def crc32Nat (bs : List UInt8) : Nat := (Crc.crc32Ref bs 0).toNat

/-- `stream_flags_decode`: `none` = reserved bits set -/
def flagsDecode (b0 b1 : UInt8) : Option Nat :=
  if b0.toNat ≠ 0 ∨ b1.toNat / 16 ≠ 0 then none else some (b1.toNat % 16)

/-- `lzma_stream_header_decode` on 12 bytes: the Check ID or the error -/
def headerDecode (h : List UInt8) : Except Ret Nat :=
  if h.take 6 ≠ headerMagic then .error .formatError
  else if crc32Nat ((h.drop 6).take 2) ≠ le32 (h.drop 8) then .error .dataError
  else match flagsDecode (h.getD 6 0) (h.getD 7 0) with
    | none => .error .optionsError
    | some c => .ok c

/-- `lzma_stream_footer_decode` on 12 bytes: (Check ID, Backward Size) or the error -/
def footerDecode (f : List UInt8) : Except Ret (Nat × Nat) :=
  if (f.drop 10).take 2 ≠ footerMagic then .error .formatError
  else if crc32Nat ((f.drop 4).take 6) ≠ le32 f then .error .dataError
  else match flagsDecode (f.getD 8 0) (f.getD 9 0) with
    | none => .error .optionsError
    | some c => .ok (c, (le32 (f.drop 4) + 1) * 4)

def hideFormatError (r : Ret) : Ret := if r = .formatError then .dataError else r

/-! ### file_info.c -/

def TEMP_SIZE : Nat := 8192

/-- the positions the coder keeps (all absolute or relative to the `temp` window as in the C code) -/
structure FI where
  /-- `file_target_pos` -/
  target : Nat
  /-- absolute file position of `temp[0]` -/
  tempStart : Nat
  tempPos : Nat
  tempSize : Nat
  streamPadding : Nat
  combined : Option Impl.Index

/-- `reverse_seek` followed by the `fill_temp` that completes it -/
def reverseSeek (st : FI) : Except Ret FI :=
  if st.target < 2 * STREAM_HEADER_SIZE then .error .dataError
  else
    let ts := if st.target - STREAM_HEADER_SIZE < TEMP_SIZE then st.target - STREAM_HEADER_SIZE else TEMP_SIZE
    .ok { st with tempPos := 0, tempSize := ts, tempStart := st.target - ts }

/-- `get_padding_size` on `temp[0 .. n)` -/
def trailingZeros (file : Array UInt8) (start : Nat) : Nat → Nat
  | 0 => 0
  | n + 1 => if (file.getD (start + n) 0).toNat = 0 then trailingZeros file start n + 1 else 0

inductive PadRes where
  | err (r : Ret)
  /-- the window held only zeros: seek further back and continue counting -/
  | again (st : FI)
  /-- the Stream Footer ends at `st.target`, and the window holds it -/
  | footer (st : FI)

/-- SEQ_PADDING_SEEK, SEQ_PADDING_DECODE and the `reverse_seek` that may precede SEQ_FOOTER -/
def padPhase (file : Array UInt8) (needSeek : Bool) (st : FI) : PadRes :=
  match (if needSeek then reverseSeek st else .ok st) with
  | .error r => .err r
  | .ok st =>
    let np := trailingZeros file st.tempStart st.tempSize
    let st1 := { st with streamPadding := st.streamPadding + np, target := st.target - np }
    if np = st.tempSize then .again st1
    else if st1.streamPadding % 4 ≠ 0 then .err .dataError
    else
      let st2 := { st1 with tempSize := st.tempSize - np, tempPos := st.tempSize - np }
      match (if st2.tempSize < STREAM_HEADER_SIZE then reverseSeek st2 else .ok st2) with
      | .error r => .err r
      | .ok st3 => .footer st3

/-- SEQ_FOOTER: the Check ID, the Backward Size and the state positioned at the start of the Index field -/
def footerPhase (file : Array UInt8) (st3 : FI) : Except Ret (Nat × Nat × FI) :=
  let st4 := { st3 with target := st3.target - STREAM_HEADER_SIZE, tempSize := st3.tempSize - STREAM_HEADER_SIZE }
  match footerDecode (bytesAt file (st4.tempStart + st4.tempSize) 12) with
  | .error r => .error (hideFormatError r)
  | .ok (footerCheck, bsz) =>
    if st4.target < bsz + STREAM_HEADER_SIZE then .error .dataError
    else
      let st5 := { st4 with target := st4.target - bsz }
      let st6 := if st5.tempSize ≥ bsz then { st5 with tempPos := st5.tempSize - bsz }
                 else { st5 with tempPos := 0, tempSize := 0 }
      .ok (footerCheck, bsz, st6)

/-- `lzma_index_memused(coder->combined_index)`, 0 while there is none -/
def memusedOpt : Option Impl.Index → Nat
  | none => 0
  | some c => Impl.memused c

/-- SEQ_INDEX_INIT and SEQ_INDEX_DECODE: exactly Backward Size bytes are offered to the Index decoder -/
def indexPhase (file : Array UInt8) (memlimit : Nat) (st6 : FI) (bsz : Nat) : Except Ret Impl.Index :=
  let memused := memusedOpt st6.combined
  if memused > memlimit then .error .progError
  else
    let idxBytes := if st6.tempSize ≠ 0 then bytesAt file (st6.tempStart + st6.tempPos) bsz
                    else bytesAt file st6.target bsz
    let r := Impl.decode (memlimit - memused) idxBytes
    match r.ret, r.index with
    | .streamEnd, some this => if r.used ≠ bsz then .error .dataError else .ok this
    | .ok, _ => .error .dataError
    | .streamEnd, none => .error .progError
    | r', _ => .error r'

/-- the seek back over the Blocks and SEQ_HEADER_DECODE (skipped for the first Stream of the file: cached flags) -/
def headerPhase (file : Array UInt8) (firstCheck : Nat) (st6 : FI) (bsz : Nat) (this : Impl.Index) : Except Ret (Nat × FI) :=
  let seekAmount := this.totalSize + STREAM_HEADER_SIZE
  if st6.target < seekAmount then .error .dataError
  else
    let st7 := { st6 with target := st6.target - seekAmount }
    if st7.target = 0 then .ok (firstCheck, st7)
    else
      let st8 := { st7 with target := st7.target + STREAM_HEADER_SIZE }
      let st9 : Except Ret FI :=
        if st8.tempSize ≠ 0 ∧ st8.tempSize - bsz ≥ seekAmount then
          let tp := st8.tempSize - bsz - seekAmount + STREAM_HEADER_SIZE
          .ok { st8 with tempPos := tp, tempSize := tp }
        else reverseSeek st8
      match st9 with
      | .error r => .error r
      | .ok st9 =>
        let st10 := { st9 with target := st9.target - STREAM_HEADER_SIZE,
                               tempSize := st9.tempSize - STREAM_HEADER_SIZE,
                               tempPos := st9.tempSize - STREAM_HEADER_SIZE }
        match headerDecode (bytesAt file (st10.tempStart + st10.tempSize) 12) with
        | .error r => .error (hideFormatError r)
        | .ok c => .ok (c, st10)

/-- SEQ_HEADER_COMPARE: set the flags and the padding of this Stream's index, put it in front of the combined one -/
def combinePhase (st11 : FI) (this : Impl.Index) (bsz footerCheck headerCheck : Nat) : Except Ret Impl.Index :=
  if headerCheck ≠ footerCheck then .error .dataError
  else
    match Impl.streamFlags this ⟨0, bsz, footerCheck⟩ with
    | (.ok, this1) =>
      match Impl.streamPadding this1 st11.streamPadding with
      | (.ok, this2) =>
        let cat : Ret × Impl.Index :=
          match st11.combined with
          | none => (.ok, this2)
          | some c => Impl.cat this2 c
        match cat with
        | (.ok, comb) => .ok comb
        | (r, _) => .error r
      | _ => .error .progError
    | _ => .error .progError

inductive StepRes where
  /-- `lzma_code` returns -/
  | done (r : Ret × Option Impl.Index)
  /-- back to SEQ_PADDING_SEEK (`needSeek`) or SEQ_PADDING_DECODE -/
  | next (needSeek : Bool) (st : FI)

/-- One Stream (or one window full of Stream Padding), from SEQ_PADDING_SEEK / SEQ_PADDING_DECODE to
    SEQ_HEADER_COMPARE. -/
def streamStep (file : Array UInt8) (memlimit : Nat) (firstCheck : Nat) (needSeek : Bool) (st : FI) : StepRes :=
  match padPhase file needSeek st with
  | .err r => .done (r, none)
  | .again st1 => .next true st1
  | .footer st3 =>
    match footerPhase file st3 with
    | .error r => .done (r, none)
    | .ok (footerCheck, bsz, st6) =>
      match indexPhase file memlimit st6 bsz with
      | .error r => .done (r, none)
      | .ok this =>
        match headerPhase file firstCheck st6 bsz this with
        | .error r => .done (r, none)
        | .ok (headerCheck, st11) =>
          match combinePhase st11 this bsz footerCheck headerCheck with
          | .error r => .done (r, none)
          | .ok comb =>
            if st11.target = 0 then .done (.streamEnd, some comb)
            else .next (st11.tempSize = 0) { st11 with streamPadding := 0, combined := some comb }

/-- the loop of `file_info_decode` -/
def streamLoop (file : Array UInt8) (memlimit : Nat) (firstCheck : Nat) : Nat → Bool → FI → Ret × Option Impl.Index
  | 0, _, _ => (.progError, none)
  | fuel + 1, needSeek, st =>
    match streamStep file memlimit firstCheck needSeek st with
    | .done r => r
    | .next needSeek' st' => streamLoop file memlimit firstCheck fuel needSeek' st'

/-- `lzma_file_info_decoder` + `lzma_code` over a whole file (`file_size = file.size`); the result does not depend
    on how the application slices its reads or serves the seek requests. -/
def fileInfo (memlimit : Nat) (file : Array UInt8) : Ret × Option Impl.Index :=
  let memlimit := max 1 memlimit
  -- SEQ_MAGIC_BYTES
  if file.size < STREAM_HEADER_SIZE then (.formatError, none)
  else
    match headerDecode (bytesAt file 0 12) with
    | .error r => (r, none)
    | .ok firstCheck =>
      if file.size > VLI_MAX ∨ file.size % 4 ≠ 0 then (.dataError, none)
      else streamLoop file memlimit firstCheck (file.size + 2) true
             { target := file.size, tempStart := 0, tempPos := 0, tempSize := 0, streamPadding := 0, combined := none }

/-! ### index_hash.c: the size/count rules (the SHA-256 comparison of the size pairs is modelled as list equality) -/

structure HashSt where
  /-- the (Unpadded Size, Uncompressed Size) pairs given to `lzma_index_hash_append`, newest first -/
  blocksRev : List Block
  blocksSize : Nat
  uncompressedSize : Nat
  listSize : Nat
  count : Nat
  /-- all Index bytes given to `lzma_index_hash_decode` so far, and how many of them were consumed -/
  buf : List UInt8
  used : Nat
  /-- `sequence != SEQ_BLOCK` -/
  started : Bool

namespace HashSt

def init : HashSt := ⟨[], 0, 0, 0, 0, [], 0, false⟩

/-- `lzma_index_hash_size` -/
def size (h : HashSt) : Nat := indexSize h.count h.listSize

/-- `lzma_index_hash_append` -/
def append (h : HashSt) (unpadded uncompressed : Nat) : Ret × HashSt :=
  if h.started ∨ unpadded < UNPADDED_SIZE_MIN ∨ unpadded > UNPADDED_SIZE_MAX ∨ uncompressed > VLI_MAX then (.progError, h)
  else
    let h' : HashSt := { h with blocksRev := ⟨unpadded, uncompressed⟩ :: h.blocksRev,
                                blocksSize := h.blocksSize + vliCeil4 unpadded,
                                uncompressedSize := h.uncompressedSize + uncompressed,
                                listSize := h.listSize + vliSize unpadded + vliSize uncompressed,
                                count := h.count + 1 }
    if h'.blocksSize > VLI_MAX ∨ h'.uncompressedSize > VLI_MAX ∨ indexSize h'.count h'.listSize > BACKWARD_SIZE_MAX
        ∨ indexStreamSize h'.blocksSize h'.count h'.listSize > VLI_MAX then (.dataError, h')
    else (.ok, h')

structure RecAcc where
  blocksSize : Nat
  uncompressedSize : Nat
  listSize : Nat
  recsRev : List Block

def records (h : HashSt) : Nat → RecAcc → List UInt8 → Nat → (Ret × Nat) ⊕ (RecAcc × List UInt8 × Nat)
  | 0, a, bs, used => .inr (a, bs, used)
  | n + 1, a, bs, used =>
    match vliDecodeGo bs 0 0 used with
    | .more u => .inl (.ok, u)
    | .bad u => .inl (.dataError, u)
    | .done unpadded u1 =>
      if unpadded < UNPADDED_SIZE_MIN ∨ unpadded > UNPADDED_SIZE_MAX then .inl (.dataError, u1)
      else
        match vliDecodeGo (bs.drop (u1 - used)) 0 0 u1 with
        | .more u => .inl (.ok, u)
        | .bad u => .inl (.dataError, u)
        | .done uncompressed u2 =>
          let a' : RecAcc := ⟨a.blocksSize + vliCeil4 unpadded, a.uncompressedSize + uncompressed,
                              a.listSize + vliSize unpadded + vliSize uncompressed, ⟨unpadded, uncompressed⟩ :: a.recsRev⟩
          if h.blocksSize < a'.blocksSize ∨ h.uncompressedSize < a'.uncompressedSize ∨ h.listSize < a'.listSize then
            .inl (.dataError, u2)
          else records h n a' (bs.drop (u2 - used)) u2

/-- `lzma_index_hash_decode` over all the input given so far: (ret, total bytes consumed) -/
def decodeAll (h : HashSt) (bs : List UInt8) : Ret × Nat :=
  match bs with
  | [] => (.ok, 0)
  | b0 :: rest =>
    if b0.toNat ≠ 0 then (.dataError, 1)
    else
      match vliDecodeGo rest 0 0 1 with
      | .more u => (.ok, u)
      | .bad u => (.dataError, u)
      | .done count u0 =>
        if count ≠ h.count then (.dataError, u0)
        else
          match records h count ⟨0, 0, 0, []⟩ (bs.drop u0) u0 with
          | .inl x => x
          | .inr (a, rest1, u1) =>
            match matchBytes (List.replicate (indexPadding count a.listSize) 0) rest1 u1 with
            | .inl x => x
            | .inr (rest2, u2) =>
              -- the comparison happens when the loop is entered again, i.e. only if another input byte exists
              if rest2.isEmpty then (.ok, u2)
              else if h.blocksSize ≠ a.blocksSize ∨ h.uncompressedSize ≠ a.uncompressedSize ∨ h.listSize ≠ a.listSize
                      ∨ h.blocksRev ≠ a.recsRev then (.dataError, u2)
              else
                match matchBytes (crc32Bytes (bs.take u2)) rest2 u2 with
                | .inl x => x
                | .inr (_, u3) => (.streamEnd, u3)

/-- one `hdecode` op of the harness: feeds more bytes, answers (ret, bytes consumed by this op) -/
def decode (h : HashSt) (bs : List UInt8) : Ret × Nat × HashSt :=
  if bs.isEmpty then (.ok, 0, h)
  else
    let buf := h.buf ++ bs
    let (r, u) := decodeAll h buf
    (r, u - h.used, { h with buf := buf, used := u, started := h.started || (buf.headD 1).toNat = 0 })

end HashSt

end XzVerif.Index
