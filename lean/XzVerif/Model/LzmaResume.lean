/-
  Call-level (resumable) form of the raw LZMA1 / LZMA2 decoders of `Model/Lzma.lean` and `Model/Lzma2.lean` (property C06).

  `Model/Lzma.lean` gives the decoder its COMPLETE input in the first call: "the input ran out inside a symbol" is final there
  (`Pending.stuck`). Here one call sees only the input offered so far (`St.inp` = the bytes consumed by earlier calls followed by
  the bytes offered to this call — the decoder never looks at a consumed byte again), may stop for lack of input at every byte
  fetch, and a later call with more input resumes at that point, as `lzma_decode` does with its `SEQ_*` labels
  (src/liblzma/lzma/lzma_decoder.c). Everything the C functions recompute PER CALL is recomputed per call here as well:
  `eopm_is_valid` (from `uncompressed_size` and the remembered `coder->eopm_is_valid`), `might_finish_without_eopm`, the clamped
  `dict.limit`, the end-of-call accounting of `uncompressed_size` and its "more output wanted" check (`lzmaCallR`), the
  `in_used > compressed_size` test of `lzma2_decode` per call of the LZMA decoder (`lzma2LoopR`), the wrap / limit / reset steps of
  `decode_buffer` (`decodeBufferR`). These are the same expressions as in `Model/Lzma.lean` / `Model/Lzma2.lean`; the functions of
  those files are reused wherever the C code is the same on both paths (`rcReadInit`, `symPrelude`, `decodeSymbol`, `doWrite`,
  `lzmaFinish`, `controlStep`, `controlApply`, `dictWrite`).

  RESUME POINTS.
   * `rc_read_init` (five bytes): `init_bytes_left` is state (`St.initLeft`), as in the one-shot model.
   * SEQ_NORMALIZE and SEQ_IS_MATCH (the first `rc_normalize_safe` of a symbol): the call ends with the state unchanged and the
     next call re-enters at the label above the known-size test (`symPrelude` is evaluated again), as in C.
   * every later byte fetch inside a symbol (SEQ_LITERAL … SEQ_REP_LEN_BITTREE, SEQ_EOPM): C saves the label and the locals
     `symbol`, `offset`, `len`, `limit`, `probs` and jumps back there. The model does not name the labels: the saved resume point
     is represented by `RSt.sym0`, the members of the decoder state at the top of the interrupted symbol (after `symPrelude`) that
     the symbol decoder changes, and resuming puts them back and decodes that symbol again from there over the longer input, with
     the `eopm_is_valid` and the dictionary position of the NEW call. This denotes the same function of the future input as
     continuing a suspended computation: `Lemmas/LzmaResumeProc.lean` gives the continuation semantics of the same monadic text
     (`decodeSymbolP`: every byte fetch suspends, the resume state is the continuation) and proves `resume_is_redecode_view`
     (continuing the suspended continuation over the longer input = decoding again from the start state); and the saved members
     are consistent with the state the call stopped in (`SymPre`, the replay invariant, proved for every call: `l1Spec`). That
     liblzma's saved `sequence` + locals denote this continuation is what the C-vs-C slicing oracle of tools/props/c06.py tests
     and no theorem shows. The observable state at the end of the call (`RSt.s`: input position = all input consumed, range
     decoder, probabilities, `state`, `rep0..3` in the middle of the symbol) is the real one.
   * SEQ_LITERAL_WRITE, SEQ_SHORTREP, SEQ_COPY (dictionary limit reached): `St.pending`, as in the one-shot model; `dict_repeat`
     interrupted by the limit resumes with the remaining length.
   * LZMA2: `sequence`/`next_sequence` and the sizes are state already in `Model/Lzma2.lean`; `dict_write` copies what fits.

  `RSt.overrun` is a ghost flag (no C counterpart): it records that `lzma2_decode` has returned LZMA_DATA_ERROR because the LZMA
  decoder consumed more than the chunk's compressed size (known finding C06:lzma2-chunk-overrun: how far the decoder got before
  that error depends on the slicing).
  Core Lean only.
-/
import XzVerif.Model.Lzma2

namespace XzVerif.LzmaR
open XzVerif.RangeDec XzVerif.LzDict XzVerif.Lzma XzVerif.Lzma2

/-- What the symbol decoder (between the top of a symbol and its output step) changes: the range decoder with its input position,
    the probabilities, `state` and `rep0..3`. -/
structure SymSnap where
  range : Nat
  code : Nat
  inPos : Nat
  probs : Array Nat
  state : Nat
  rep0 : Nat
  rep1 : Nat
  rep2 : Nat
  rep3 : Nat
  deriving Inhabited

def SymSnap.of (t : St) : SymSnap :=
  { range := t.range, code := t.code, inPos := t.inPos, probs := t.probs, state := t.state,
    rep0 := t.rep0, rep1 := t.rep1, rep2 := t.rep2, rep3 := t.rep3 }

/-- put the saved members back into the current coder state -/
def SymSnap.restore (k : SymSnap) (s : St) : St :=
  { s with range := k.range, code := k.code, inPos := k.inPos, probs := k.probs, state := k.state,
           rep0 := k.rep0, rep1 := k.rep1, rep2 := k.rep2, rep3 := k.rep3 }

/-- Decoder state between two calls. -/
structure RSt where
  s : St
  /-- `some k`: the last call ran out of input inside a symbol; `k` = the members of the state at the top of that symbol that the
      symbol decoder changes. `none`: `coder->sequence` is SEQ_IS_MATCH/SEQ_NORMALIZE or one of the three output labels (then
      `s.pending` says which). -/
  sym0 : Option SymSnap := none
  /-- ghost: the chunk-overrun error of `lzma2_decode` has been raised -/
  overrun : Bool := false
  deriving Inhabited

/-- the same decoder looking at another input buffer -/
def RSt.withInp (r : RSt) (b : ByteArray) : RSt := { r with s := { r.s with inp := b } }

/-- Decode one symbol from the top-of-symbol state `t0` (after the known-size test) and perform its output step.
    Second component: `some t0` iff the input ran out after the first normalisation of the symbol. -/
def symBodyR (ev : Bool) (t0 : St) : EStateM.Result Exit St Bool × Option SymSnap :=
  match rcNormalize t0 with
  | .error e _ => (.error e t0, none)                 -- SEQ_IS_MATCH: nothing has happened; re-enter at the label
  | .ok _ _ =>
    match decodeSymbol ev t0 with
    | .error .needInput t => (.error .needInput t, some (SymSnap.of t0))
    | .error e t => (.error e t, none)
    | .ok act t =>
      match doWrite act t with
      | .error e u => (.error e u, none)
      | .ok _ u => (.ok ev u, none)

/-- One iteration of the main loop from the top (SEQ_NORMALIZE / SEQ_IS_MATCH). -/
def symStepR (ev mf : Bool) (s : St) : EStateM.Result Exit St Bool × Option SymSnap :=
  match symPrelude ev mf s with
  | .error e t => (.error e t, none)
  | .ok ev t => symBodyR ev t

/-- The main loop of `lzma_decode` (same fuel as `Lzma.symLoop`). -/
def symLoopR : Nat → Bool → Bool → St → EStateM.Result Exit St Unit × Option SymSnap
  | 0, _, _, s => (.error .fuel s, none)
  | fuel + 1, ev, mf, s =>
    match symStepR ev mf s with
    | (.ok ev t, _) => symLoopR fuel ev mf t
    | (.error e t, k) => (.error e t, k)

/-- The body of `lzma_decode` after `rc_read_init`: per-call locals, jump to the saved label, main loop. -/
def lzmaRunR (s : St) (sym0 : Option SymSnap) : EStateM.Result Exit St Unit × Option SymSnap :=
  let ev := s.uncomp.isNone || s.eopmValid
  let mf := mightFinish s
  let s1 : St := { s with dp := { s.dp with limit := clampedLimit s }, pending := .none }
  let fuel := s1.dp.limit - s1.dp.pos + 2
  match sym0 with
  | none =>
    -- SEQ_LITERAL_WRITE / SEQ_SHORTREP / SEQ_COPY (or nothing pending), then the loop from its top
    match doWrite s.pending s1 with
    | .error e t => (.error e t, none)
    | .ok _ t => symLoopR fuel ev mf t
  | some k =>
    -- a label inside the symbol
    let t0 : St := k.restore s1
    match decodeSymbol ev t0 with
    | .error .needInput t => (.error .needInput t, some k)
    | .error e t => (.error e t, none)
    | .ok act t =>
      match doWrite act t with
      | .error e u => (.error e u, none)
      | .ok _ u => symLoopR fuel ev mf u

/-- `coder->sequence` after "input ran out" is a label, not a dead end -/
def unstick (s : St) : St := if s.pending == .stuck then { s with pending := .none } else s

/-- One call of `lzma_decode(coder, dict, in, in_pos, in_size)` with `dict.limit` set by the caller and `s.inp` the input so far. -/
def lzmaCallR (r : RSt) : Ret × RSt :=
  match rcReadInit r.s with
  | .error _ s => (.dataError, { r with s := s })
  | .ok false s => (.ok, { r with s := s })
  | .ok true s =>
    let run := lzmaRunR s r.sym0
    let fin := lzmaFinish run.1 s.dp.limit s.hist.size s.uncomp
    (fin.1, { r with s := unstick fin.2, sym0 := run.2 })

/-! ### LZMA2 -/

@[inline] def RSt.map (r : RSt) (f : St → St) : RSt := { r with s := f r.s }

/-- `lzma2_decode`: `Lzma2.lzma2Loop` with the resumable LZMA decoder. -/
def lzma2LoopR : Nat → RSt → Ret × RSt
  | 0, r => (.progError, r)
  | fuel + 1, r =>
    let s := r.s
    if !(s.inPos < s.inp.size || s.l2.seq == .lzma) then (.ok, r) else
    let byte : Nat := (if hlt : s.inPos < s.inp.size then s.inp[s.inPos] else 0).toNat
    match s.l2.seq with
    | .control =>
      let s := { s with inPos := s.inPos + 1 }
      let a := controlStep byte s.l2.needProperties s.l2.needDictionaryReset
      if a.isEnd then (.streamEnd, { r with s := s })
      else if a.isError then (.dataError, { r with s := s })
      else
        let s := controlApply s a
        if a.dictReset then (.ok, { r with s := { s with dp := { s.dp with needReset := true } } })
        else lzma2LoopR fuel { r with s := s }
    | .uncompressed1 =>
      lzma2LoopR fuel { r with s := setL2 { s with inPos := s.inPos + 1 } fun l =>
        { l with uncompressedSize := l.uncompressedSize + (byte <<< 8), seq := .uncompressed2 } }
    | .uncompressed2 =>
      let s := setL2 { s with inPos := s.inPos + 1 } fun l =>
        { l with uncompressedSize := l.uncompressedSize + byte + 1, seq := .compressed0 }
      lzma2LoopR fuel { r with s := { s with uncomp := some s.l2.uncompressedSize, allowEopm := false, eopmValid := false } }
    | .compressed0 =>
      lzma2LoopR fuel { r with s := setL2 { s with inPos := s.inPos + 1 } fun l => { l with compressedSize := byte <<< 8, seq := .compressed1 } }
    | .compressed1 =>
      lzma2LoopR fuel { r with s := setL2 { s with inPos := s.inPos + 1 } fun l =>
        { l with compressedSize := l.compressedSize + byte + 1, seq := l.nextSeq } }
    | .properties =>
      let s := { s with inPos := s.inPos + 1 }
      match propsDecode byte with
      | none => (.dataError, { r with s := s })
      | some p => lzma2LoopR fuel { r with s := (setL2 s fun l => { l with props := p, seq := .lzma }).resetLzma p }
    | .lzma =>
      let inStart := s.inPos
      let (ret, r) := lzmaCallR r
      let inUsed := r.s.inPos - inStart
      if inUsed > r.s.l2.compressedSize then (.dataError, { r with overrun := true })
      else
        let r := r.map fun s => setL2 s fun l => { l with compressedSize := l.compressedSize - inUsed }
        if ret != .streamEnd then (ret, r)
        else if r.s.l2.compressedSize != 0 then (.dataError, r)
        else lzma2LoopR fuel (r.map fun s => setL2 s fun l => { l with seq := .control })
    | .copy =>
      let (n, s) := dictWrite s s.l2.compressedSize
      let s := setL2 s fun l => { l with compressedSize := l.compressedSize - n }
      if s.l2.compressedSize != 0 then (.ok, { r with s := s })
      else lzma2LoopR fuel { r with s := setL2 s fun l => { l with seq := .control } }

def lzma2CallR (r : RSt) : Ret × RSt := lzma2LoopR (2 * (r.s.inp.size - r.s.inPos) + 4) r

/-! ### LZ layer -/

/-- `decode_buffer` (`Lzma.decodeBuffer` over `RSt`). -/
def decodeBufferR (code : RSt → Ret × RSt) : Nat → Nat → RSt → Ret × RSt
  | 0, _, r => (.progError, r)
  | fuel + 1, outSize, r =>
    let r := r.map fun s => { s with dp := (s.dp.wrap).setLimit (outSize - s.produced) }
    let (ret, r) := code r
    if r.s.dp.needReset then
      let r := r.map fun s => { s with dp := s.dp.reset }
      if ret != .ok || r.s.produced == outSize then (ret, r) else decodeBufferR code fuel outSize r
    else
      if ret != .ok || r.s.produced == outSize || r.s.dp.pos < r.s.dp.size then (ret, r)
      else decodeBufferR code fuel outSize r

/-! ### the coder: one `lz_decode` call on an input slice with an output capacity -/

def codeOf : Kind → RSt → Ret × RSt
  | .lzma1 => lzmaCallR
  | .lzma2 => lzma2CallR

/-- One call with the input so far being `buf` (its first `r.s.inPos` bytes are the consumed ones) and `outSize` = total output
    allowed so far. -/
def callR (kind : Kind) (buf : ByteArray) (outSize : Nat) (r : RSt) : Ret × RSt :=
  let r := r.withInp buf
  decodeBufferR (codeOf kind) (decodeBufferFuel r.s outSize) outSize r

def initLzma2R (dictSize : Nat) (preset : List UInt8) : RSt := { s := Lzma2.initLzma2 dictSize preset ByteArray.empty }

def initLzma1R (props : Props) (dictSize : Nat) (uncomp : Option Nat) (allowEopm : Bool) (preset : List UInt8) : RSt :=
  { s := St.initLzma1 props dictSize uncomp (allowEopm || uncomp.isNone) preset ByteArray.empty }

/-- everything written so far -/
def RSt.output (r : RSt) : List UInt8 := histFrom r.s.hist r.s.outBase

/-! ### sliced runs

  The application owns `input` and an output buffer. A slicing is a list of pieces `(k, cap)`: before the call, `k` more bytes of
  `input` become available (in addition to what earlier calls left unconsumed) and `cap` more bytes of output space (in addition
  to the space earlier calls left unused): the application adds resources between calls and never takes any away.
  `avail` = number of input bytes made available so far, `room` = total output space granted so far. Nothing is called any more
  once a call has returned something other than LZMA_OK. (`(1, 1)` repeated = one byte in, one byte of room per call;
  `(0, 0)` = an empty call.) -/

structure SRun where
  r : RSt
  avail : Nat := 0
  room : Nat := 0
  ret : Ret := .ok
  /-- the last call was offered all the input and left output room unused -/
  spare : Bool := false
  deriving Inhabited

def toBuf (l : List UInt8) : ByteArray := ByteArray.mk l.toArray

def runPieceR (kind : Kind) (input : List UInt8) (x : SRun) (k cap : Nat) : SRun :=
  let avail := min (x.avail + k) input.length
  let room := x.room + cap
  let res := callR kind (toBuf (input.take avail)) room x.r
  { r := res.2, avail := avail, room := room, ret := res.1,
    spare := decide (input.length ≤ avail) && decide (res.2.s.produced < room) }

def runSlicedR (kind : Kind) (input : List UInt8) : List (Nat × Nat) → SRun → SRun
  | [], x => x
  | (k, cap) :: sl, x => if x.ret ≠ .ok then x else runSlicedR kind input sl (runPieceR kind input x k cap)

end XzVerif.LzmaR
