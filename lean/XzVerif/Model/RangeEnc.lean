/-
  Range encoder of liblzma (src/liblzma/rangecoder/range_encoder.h), exactly as written:

    typedef struct { uint64_t low; uint64_t cache_size; uint32_t range; uint8_t cache; uint64_t out_total;
                     size_t count; size_t pos; enum {RC_BIT_0, RC_BIT_1, RC_DIRECT_0, RC_DIRECT_1, RC_FLUSH} symbols[53];
                     probability *probs[53]; } lzma_range_encoder;

    rc_reset       low = 0; cache_size = 1; range = UINT32_MAX; cache = 0; out_total = 0; count = pos = 0
    rc_shift_low   if ((uint32_t)low < 0xFF000000 || (uint32_t)(low >> 32) != 0) {
                       do { out[*out_pos] = cache + (uint8_t)(low >> 32); ++*out_pos; ++out_total; cache = 0xFF; }
                       while (--cache_size != 0);
                       cache = (low >> 24) & 0xFF; }
                   ++cache_size; low = (low & 0x00FFFFFF) << RC_SHIFT_BITS;
    rc_encode      for every queued symbol: if (range < RC_TOP_VALUE) { rc_shift_low; range <<= 8; }
                     RC_BIT_0    range = (range >> 11) * prob;            prob += (2048 - prob) >> 5
                     RC_BIT_1    bound = prob * (range >> 11); low += bound; range -= bound;   prob -= prob >> 5
                     RC_DIRECT_0 range >>= 1
                     RC_DIRECT_1 range >>= 1; low += range
                     RC_FLUSH    range = UINT32_MAX; one rc_shift_low per queued RC_FLUSH (rc_flush queues five); rc_reset
                   NOTE: the normalisation test runs before EVERY queued symbol, also before the first RC_FLUSH.
    rc_encode_dummy / rc_shift_low_dummy   the same arithmetic without writing, used for output-size limiting
    rc_pending     cache_size + 5 - 1

  Conventions (DESIGN §5): C integers are `Nat` with explicit `% 2^k` exactly where the C code truncates; the theorems in
  `Lemmas/RangeCoder*.lean` show that under the encoder invariant no other operation can wrap (`low < 2^33`, `range < 2^32`).
  The output is kept REVERSED (`outRev`, newest byte first) so that writing a byte is O(1) and so that the number the output
  denotes has a one-line recursive definition (`numLE`).
  The symbol queue (`symbols[]/probs[]/count/pos`) of the C code only delays the arithmetic until `rc_encode` is called; the
  probabilities are read and updated at that time, in queue order. The model therefore applies an operation list in order.
  Output-buffer exhaustion inside `rc_encode` (`*out_pos == out_size` → return true, resume later; LZMA1 only) does not change
  the byte stream and is not modelled here (it is a byte-machine refinement, C06; the relational tie runs it).

  Probability update, `ProbInv` and the decoder cores are shared with `Model/RangeDec.lean`.
  Core Lean only.
-/
import XzVerif.Model.RangeDec

namespace XzVerif.RangeEnc
open XzVerif.RangeDec

/-- `RC_SYMBOLS_MAX` -/
abbrev RC_SYMBOLS_MAX : Nat := 53

/-- `lzma_range_encoder` without the symbol queue; `outRev` = bytes written so far, newest first. -/
structure Enc where
  low : Nat
  cacheSize : Nat
  range : Nat
  cache : Nat
  /-- `out_total`: number of bytes written by `rc_shift_low` since `rc_reset` (always `outRev.length`) -/
  outTotal : Nat
  outRev : List UInt8
  deriving Repr, DecidableEq, Inhabited

/-- `rc_reset` (the output written so far is kept by the caller; here: empty) -/
def Enc.init : Enc := { low := 0, cacheSize := 1, range := UINT32_MAX, cache := 0, outTotal := 0, outRev := [] }

/-- `n` copies of `b` pushed onto a reversed output -/
def pushN : Nat → UInt8 → List UInt8 → List UInt8
  | 0, _, out => out
  | n + 1, b, out => pushN n b (b :: out)

/-- `rc_shift_low` (with unlimited output space). -/
def shiftLow (e : Enc) : Enc :=
  if e.low % U32 < 0xFF000000 ∨ (e.low / U32) % U32 ≠ 0 then
    -- `(uint8_t)(low >> 32)`
    let carry := (e.low / U32) % 256
    -- first iteration writes `cache + carry`, the remaining `cache_size - 1` iterations write `0xFF + carry` (as uint8_t)
    let out1 := UInt8.ofNat ((e.cache + carry) % 256) :: e.outRev
    let out2 := pushN (e.cacheSize - 1) (UInt8.ofNat ((0xFF + carry) % 256)) out1
    { low := (e.low % 16777216) * 256, cacheSize := 1, range := e.range, cache := (e.low / 16777216) % 256,
      outTotal := e.outTotal + e.cacheSize, outRev := out2 }
  else
    { e with cacheSize := e.cacheSize + 1, low := (e.low % 16777216) * 256 }

/-- the normalisation at the top of the `rc_encode` loop: `if (range < RC_TOP_VALUE) { rc_shift_low(); range <<= 8; }` -/
def normalize (e : Enc) : Enc :=
  if e.range < RC_TOP_VALUE then
    let e' := shiftLow e
    { e' with range := (e'.range * 256) % U32 }
  else e

/-- `RC_BIT_0` / `RC_BIT_1` with probability `p` (the caller updates the probability). -/
def encBit (e : Enc) (p : Nat) (b : Bool) : Enc :=
  let e := normalize e
  if b then
    let bound := (p * (e.range / RC_BIT_MODEL_TOTAL)) % U32
    { e with low := e.low + bound, range := e.range - bound }
  else
    { e with range := ((e.range / RC_BIT_MODEL_TOTAL) * p) % U32 }

/-- `RC_DIRECT_0` / `RC_DIRECT_1` -/
def encDirect (e : Enc) (b : Bool) : Enc :=
  let e := normalize e
  let r := e.range / 2
  if b then { e with low := e.low + r, range := r } else { e with range := r }

/-- the five `RC_FLUSH` symbols queued by `rc_flush`, as processed by `rc_encode`: normalisation test, `range = UINT32_MAX`,
    five `rc_shift_low`. (The `rc_reset` that follows is `Enc.init`; the bytes stay written.) -/
def encFlush (e : Enc) : Enc :=
  let e := normalize e
  let e := { e with range := UINT32_MAX }
  shiftLow (shiftLow (shiftLow (shiftLow (shiftLow e))))

/-- `rc_pending` -/
def Enc.pending (e : Enc) : Nat := e.cacheSize + 5 - 1

/-- bytes written so far, in order -/
def Enc.out (e : Enc) : List UInt8 := e.outRev.reverse

/-! ### operations with resolved probabilities -/

/-- One queued range-coder symbol with its probability already looked up. -/
inductive ROp where
  | bit (p : Nat) (b : Bool)
  | direct (b : Bool)
  deriving Repr, DecidableEq, Inhabited

def encROp (e : Enc) : ROp → Enc
  | .bit p b => encBit e p b
  | .direct b => encDirect e b

def encROps (e : Enc) (ops : List ROp) : Enc := ops.foldl encROp e

/-! ### operations with probability contexts (adaptive) -/

/-- One queued range-coder symbol: `rc_bit(rc, &probs[ctx], bit)` or one bit of `rc_direct`. -/
inductive Op where
  | bit (ctx : Nat) (b : Bool)
  | direct (b : Bool)
  deriving Repr, DecidableEq, Inhabited

/-- Probability variables, flat (same layout as `Model/Lzma.lean`). Out-of-range reads give 0 (never happens). -/
abbrev Probs := Array Nat

@[inline] def probUpdate (p : Nat) (b : Bool) : Nat := if b then probUpdate1 p else probUpdate0 p

/-- `rc_encode` of one queued symbol: reads `*probs[pos]`, encodes, writes the updated probability back.
    (The pair is taken apart first so that the array is updated in place.) -/
@[inline] def encOp (s : Probs × Enc) (op : Op) : Probs × Enc :=
  match s, op with
  | (ps, e), .bit ctx b =>
    let p := ps.getD ctx 0
    (ps.setIfInBounds ctx (probUpdate p b), encBit e p b)
  | (ps, e), .direct b => (ps, encDirect e b)

def encOps (ps : Probs) (e : Enc) (ops : List Op) : Probs × Enc := ops.foldl encOp (ps, e)

/-- The operation list with every probability looked up at the time it is used (and the final probabilities). -/
def resolve (ps : Probs) : List Op → List ROp × Probs
  | [] => ([], ps)
  | .bit ctx b :: ops =>
    let p := ps.getD ctx 0
    let r := resolve (ps.setIfInBounds ctx (probUpdate p b)) ops
    (.bit p b :: r.1, r.2)
  | .direct b :: ops =>
    let r := resolve ps ops
    (.direct b :: r.1, r.2)

/-- Complete range-coded stream for an operation list: `rc_reset`, the operations, `rc_flush`. Returns the bytes and
    the final probabilities. -/
def rcEncode (ps : Probs) (ops : List Op) : List UInt8 × Probs :=
  let r := encOps ps Enc.init ops
  ((encFlush r.2).out, r.1)

/-! ### specification decoder for an operation list (round-trip statement)

  What the decoder is asked for, in order: a probability bit in context `ctx`, or a direct bit. The decoder cores are the
  ones of `Model/RangeDec.lean` (`readInit`, `normalizeL`, `decodeBitL`, `directCore`). -/

inductive Shape where
  | bit (ctx : Nat)
  | direct
  deriving Repr, DecidableEq, Inhabited

def Op.shape : Op → Shape
  | .bit ctx _ => .bit ctx
  | .direct _ => .direct

def Op.value : Op → Bool
  | .bit _ b => b
  | .direct b => b

/-- Decode one bit per shape, updating the probabilities exactly as the decoder does. -/
def decodeShapes (ps : Probs) (rc : Rc) (rest : List UInt8) : List Shape → Option (List Bool × Probs × Rc × List UInt8)
  | [] => some ([], ps, rc, rest)
  | .bit ctx :: sh =>
    match decodeBitL rc (ps.getD ctx 0) rest with
    | none => none
    | some (b, rc', p', rest') =>
      match decodeShapes (ps.setIfInBounds ctx p') rc' rest' sh with
      | none => none
      | some (bs, r) => some ((b == 1) :: bs, r)
  | .direct :: sh =>
    match normalizeL rc rest with
    | none => none
    | some (rc1, rest1) =>
      let r := directCore rc1
      match decodeShapes ps r.2 rest1 sh with
      | none => none
      | some (bs, r') => some ((r.1 == 1) :: bs, r')

/-- `rc_read_init`, the requested bits, then `rc_normalize` + `rc_is_finished` (what LZMA2 chunk ends and the end marker
    test). Returns the bits, the final probabilities and the unread input. -/
def rcDecode (ps : Probs) (shapes : List Shape) (bytes : List UInt8) : Option (List Bool × Probs × List UInt8) :=
  match readInit bytes with
  | .ok rc rest =>
    match decodeShapes ps rc rest shapes with
    | none => none
    | some (bits, ps', rc', rest') =>
      match normalizeL rc' rest' with
      | none => none
      | some (rc'', rest'') => if rc''.code = 0 then some (bits, ps', rest'') else none
  | _ => none

/-! ### `rc_encode_dummy`: would the pending symbols (plus the final flush) fit into `outLimit` bytes in total?

  State of the dummy run: (low, cache_size, range, cache, out_pos). Returns `true` = does NOT fit (as the C function). -/

structure Dummy where
  low : Nat
  cacheSize : Nat
  range : Nat
  cache : Nat
  outPos : Nat
  deriving Repr, DecidableEq, Inhabited

/-- inner loop of `rc_shift_low_dummy`: `none` = `*out_pos == out_size` was hit -/
def dummyEmit (outLimit : Nat) : Nat → Nat → Option Nat
  | 0, outPos => some outPos
  | n + 1, outPos => if outPos = outLimit then none else dummyEmit outLimit n (outPos + 1)

/-- `rc_shift_low_dummy`: `none` = returns true (limit reached) -/
def shiftLowDummy (outLimit : Nat) (d : Dummy) : Option Dummy :=
  if d.low % U32 < 0xFF000000 ∨ (d.low / U32) % U32 ≠ 0 then
    match dummyEmit outLimit d.cacheSize d.outPos with
    | none => none
    | some op => some { d with low := (d.low % 16777216) * 256, cacheSize := 1, cache := (d.low / 16777216) % 256, outPos := op }
  else
    some { d with cacheSize := d.cacheSize + 1, low := (d.low % 16777216) * 256 }

def normalizeDummy (outLimit : Nat) (d : Dummy) : Option Dummy :=
  if d.range < RC_TOP_VALUE then
    match shiftLowDummy outLimit d with
    | none => none
    | some d' => some { d' with range := (d'.range * 256) % U32 }
  else some d

/-- the symbol loop of `rc_encode_dummy` (probabilities are read but NOT updated, as in the C code) -/
def dummyOps (outLimit : Nat) (ps : Probs) : Dummy → List Op → Option Dummy
  | d, [] => normalizeDummy outLimit d
  | d, op :: ops =>
    match normalizeDummy outLimit d with
    | none => none
    | some d =>
      match op with
      | .bit ctx false => dummyOps outLimit ps { d with range := ((d.range / RC_BIT_MODEL_TOTAL) * ps.getD ctx 0) % U32 } ops
      | .bit ctx true =>
        let bound := (ps.getD ctx 0 * (d.range / RC_BIT_MODEL_TOTAL)) % U32
        dummyOps outLimit ps { d with low := d.low + bound, range := d.range - bound } ops
      | .direct false => dummyOps outLimit ps { d with range := d.range / 2 } ops
      | .direct true => let r := d.range / 2; dummyOps outLimit ps { d with low := d.low + r, range := r } ops

/-- `rc_encode_dummy(rc, out_limit)` for the queued symbols `ops`. -/
def encodeDummy (ps : Probs) (e : Enc) (ops : List Op) (outLimit : Nat) : Bool :=
  match dummyOps outLimit ps { low := e.low, cacheSize := e.cacheSize, range := e.range, cache := e.cache, outPos := e.outTotal } ops with
  | none => true
  | some d =>
    match shiftLowDummy outLimit d with
    | none => true
    | some d => match shiftLowDummy outLimit d with
      | none => true
      | some d => match shiftLowDummy outLimit d with
        | none => true
        | some d => match shiftLowDummy outLimit d with
          | none => true
          | some d => match shiftLowDummy outLimit d with
            | none => true
            | some _ => false

end XzVerif.RangeEnc
