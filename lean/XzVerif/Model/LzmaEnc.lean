/-
  LZMA symbol coder of liblzma's encoder (src/liblzma/lzma/lzma_encoder.c, lzma_common.h, fastpos.h):
  `encode_init`, `literal` / `literal_matched`, `length`, `match`, `rep_match`, `encode_symbol`, `encode_eopm`,
  the state machine and the rep registers, and `lzma_lzma_encode`'s main loop incl. output-size limiting
  (`rc_encode_dummy` / `rc_forget`, MicroLZMA) — as a function from the SYMBOL SEQUENCE chosen by the parser to the queued
  range-coder operations (`RangeEnc.Op`, contexts = indices into the flat probability layout of `Model/Lzma.lean`) and to
  bytes.

  The parser (match finder + `lzma_lzma_optimum_fast/normal`) is NOT modelled as an algorithm: it is replaced by its
  contract `describes` (each literal is the next byte; each match/rep has 2 ≤ len ≤ 273, refers to available history
  within the dictionary size and copies true bytes; the symbols tile the data). The C values `(back, len)` of
  `encode_symbol()` are `Sym.ofBackLen`.

  C anchors (same names in comments below):
    rc_bittree / rc_bittree_reverse / rc_direct (range_encoder.h) — queue contents, `model_index` from 1
    literal_matched: offset = 0x100; symbol += 0x100; do { match_byte <<= 1; match_bit = match_byte & offset;
        idx = offset + match_bit + (symbol >> 8); bit = (symbol >> 7) & 1; rc_bit(&subcoder[idx], bit);
        symbol <<= 1; offset &= ~(match_byte ^ symbol); } while (symbol < 0x10000);
    length: len -= 2; <8: choice=0, low[pos_state] 3 bits; <16: choice=1, choice2=0, mid[pos_state] 3 bits; else 1,1, high 8 bits
    match: update_match(state); length(match_len); dist_slot = get_dist_slot(distance); rc_bittree(dist_slot[get_dist_state(len)], 6)
        if (dist_slot >= 4) { footer_bits = (dist_slot >> 1) - 1; base = (2 | (dist_slot & 1)) << footer_bits;
            dist_reduced = distance - base;
            if (dist_slot < 14) rc_bittree_reverse(dist_special + base - dist_slot - 1, footer_bits, dist_reduced)
            else { rc_direct(dist_reduced >> 4, footer_bits - 4); rc_bittree_reverse(dist_align, 4, dist_reduced & 15) } }
        reps[3..1] = reps[2..0]; reps[0] = distance
    rep_match / encode_symbol / encode_init / encode_eopm: see the functions below
  Core Lean only.
-/
import XzVerif.Model.RangeEnc
import XzVerif.Model.Lzma

namespace XzVerif.LzmaEnc
open XzVerif.RangeDec XzVerif.RangeEnc XzVerif.Lzma

abbrev MATCH_LEN_MAX : Nat := 273
abbrev REPS : Nat := 4
abbrev LEN_LOW_BITS : Nat := 3
abbrev LEN_MID_BITS : Nat := 3
abbrev LEN_HIGH_BITS : Nat := 8
abbrev DIST_SLOT_BITS : Nat := 6
abbrev ALIGN_MASK : Nat := 15
/-- `OPTS` (lzma_encoder_private.h) -/
abbrev OPTS : Nat := 4096
/-- `LOOP_INPUT_MAX` (lzma_encoder.c) -/
abbrev LOOP_INPUT_MAX : Nat := OPTS + 1

/-- One LZMA symbol. `dist` is the zero-based distance as coded (the C `distance`, i.e. `back - REPS`). -/
inductive Sym where
  | lit (b : UInt8)
  | mtch (dist len : Nat)
  | rep (idx len : Nat)
  | shortrep
  deriving Repr, DecidableEq, Inhabited

/-- number of uncompressed bytes a symbol stands for -/
def Sym.len : Sym → Nat
  | .lit _ => 1
  | .mtch _ len => len
  | .rep _ len => len
  | .shortrep => 1

/-- The C representation `(back, len)` of `encode_symbol()` at a position whose byte is `cur`:
    `back == UINT32_MAX` literal; `back < REPS` repeated match (`len == 1` with `back == 0` is a short rep);
    otherwise a normal match with `distance = back - REPS`. -/
def Sym.ofBackLen (back len : Nat) (cur : UInt8) : Sym :=
  if back == UINT32_MAX then .lit cur
  else if back < REPS then (if len == 1 && back == 0 then .shortrep else .rep back len)
  else .mtch (back - REPS) len

/-- `state`, `reps[4]` of `lzma_lzma1_encoder` -/
structure SymSt where
  state : Nat := 0
  rep0 : Nat := 0
  rep1 : Nat := 0
  rep2 : Nat := 0
  rep3 : Nat := 0
  deriving Repr, DecidableEq, Inhabited

def SymSt.rep (s : SymSt) : Nat → Nat
  | 0 => s.rep0 | 1 => s.rep1 | 2 => s.rep2 | _ => s.rep3

/-! ### fastpos.h -/

/-- position of the highest set bit (`bsr32`), 0 for 0 -/
def log2 (n : Nat) : Nat := Nat.log2 n

/-- `get_dist_slot(dist)`: `dist` for `dist < 4`, else `2·i + ((dist >> (i-1)) & 1)` with `i = bsr32(dist)`
    (the table version of fastpos.h computes the same function; bridged on a grid by Gen/C01). -/
def getDistSlot (dist : Nat) : Nat :=
  if dist < 4 then dist
  else
    let i := log2 dist
    2 * i + ((dist >>> (i - 1)) &&& 1)

/-! ### queue contents of the range-encoder helpers -/

/-- `rc_bittree(rc, probs, bit_count, symbol)`; `m` is `model_index` (callers pass 1) -/
def bittreeOps (base : Nat) : Nat → Nat → Nat → List Op
  | 0, _, _ => []
  | n + 1, sym, m =>
    let bit := (sym >>> n) &&& 1
    .bit (base + m) (bit == 1) :: bittreeOps base n sym (2 * m + bit)

/-- `rc_bittree_reverse(rc, probs, bit_count, symbol)` -/
def bittreeRevOps (base : Nat) : Nat → Nat → Nat → List Op
  | 0, _, _ => []
  | n + 1, sym, m =>
    let bit := sym &&& 1
    .bit (base + m) (bit == 1) :: bittreeRevOps base n (sym >>> 1) (2 * m + bit)

/-- `rc_direct(rc, value, bit_count)` -/
def directOps (value : Nat) : Nat → List Op
  | 0 => []
  | n + 1 => .direct (((value >>> n) &&& 1) == 1) :: directOps value n

/-- the loop of `literal_matched` (8 iterations); `sym` already has 0x100 added, `mb` is `match_byte` before the shift -/
def litMatchedOps (base : Nat) : Nat → Nat → Nat → Nat → List Op
  | 0, _, _, _ => []
  | n + 1, offset, mb, sym =>
    let mb := mb * 2
    let matchBit := mb &&& offset
    let idx := offset + matchBit + (sym >>> 8)
    let bit := (sym >>> 7) &&& 1
    let sym := sym * 2
    let offset := offset &&& ((mb ^^^ sym) ^^^ 0xFFFFFFFF)
    .bit (base + idx) (bit == 1) :: litMatchedOps base n offset mb sym

/-- `literal()`: returns the ops and the new state. `prev` = byte before the position, `mb` = byte at distance rep0. -/
def literalOps (p : Props) (state pos prev mb : Nat) (cur : UInt8) : List Op × Nat :=
  let base := P_LITERAL + literalSubcoder p.lc p.lp pos prev
  if isLiteralState state then
    (bittreeOps base 8 cur.toNat 1, updateLiteralNormal state)
  else
    (litMatchedOps base 8 0x100 mb (cur.toNat + 0x100), updateLiteralMatched state)

/-- `length(rc, lc, pos_state, len, fast_mode)` (the price-table bookkeeping has no effect on the output) -/
def lengthOps (lenBase posState len : Nat) : List Op :=
  let l := len - MATCH_LEN_MIN
  if l < LEN_LOW_SYMBOLS then
    .bit (lenBase + LEN_CHOICE) false :: bittreeOps (lenBase + LEN_LOW + posState * LEN_LOW_SYMBOLS) LEN_LOW_BITS l 1
  else
    let l := l - LEN_LOW_SYMBOLS
    if l < LEN_MID_SYMBOLS then
      .bit (lenBase + LEN_CHOICE) true :: .bit (lenBase + LEN_CHOICE2) false ::
        bittreeOps (lenBase + LEN_MID + posState * LEN_MID_SYMBOLS) LEN_MID_BITS l 1
    else
      .bit (lenBase + LEN_CHOICE) true :: .bit (lenBase + LEN_CHOICE2) true ::
        bittreeOps (lenBase + LEN_HIGH) LEN_HIGH_BITS (l - LEN_MID_SYMBOLS) 1

/-- the distance part of `match()` -/
def distOps (distance len : Nat) : List Op :=
  let slot := getDistSlot distance
  let head := bittreeOps (P_DIST_SLOT + getDistState len * DIST_SLOTS) DIST_SLOT_BITS slot 1
  if slot ≥ DIST_MODEL_START then
    let footerBits := (slot >>> 1) - 1
    let base := (2 ||| (slot &&& 1)) <<< footerBits
    let distReduced := distance - base
    if slot < DIST_MODEL_END then
      head ++ bittreeRevOps (P_POS_SPECIAL + base - slot - 1) footerBits distReduced 1
    else
      head ++ directOps (distReduced >>> ALIGN_BITS) (footerBits - ALIGN_BITS)
           ++ bittreeRevOps P_POS_ALIGN ALIGN_BITS (distReduced &&& ALIGN_MASK) 1
  else head

/-- `match(coder, pos_state, distance, len)` -/
def matchOps (s : SymSt) (posState distance len : Nat) : List Op × SymSt :=
  (lengthOps P_MATCH_LEN posState len ++ distOps distance len,
   { state := updateMatch s.state, rep0 := distance, rep1 := s.rep0, rep2 := s.rep1, rep3 := s.rep2 })

/-- `rep_match(coder, pos_state, rep, len)` (`len == 1` only with `rep == 0`: short rep) -/
def repOps (s : SymSt) (posState rep len : Nat) : List Op × SymSt :=
  let st := s.state
  let (sel, s1) : List Op × SymSt :=
    if rep == 0 then
      ([.bit (P_IS_REP0 + st) false, .bit (P_IS_REP0_LONG + st * POS_STATES_MAX + posState) (len != 1)], s)
    else if rep == 1 then
      ([.bit (P_IS_REP0 + st) true, .bit (P_IS_REP1 + st) false], { s with rep0 := s.rep1, rep1 := s.rep0 })
    else if rep == 2 then
      ([.bit (P_IS_REP0 + st) true, .bit (P_IS_REP1 + st) true, .bit (P_IS_REP2 + st) false],
       { s with rep0 := s.rep2, rep1 := s.rep0, rep2 := s.rep1 })
    else
      ([.bit (P_IS_REP0 + st) true, .bit (P_IS_REP1 + st) true, .bit (P_IS_REP2 + st) true],
       { s with rep0 := s.rep3, rep1 := s.rep0, rep2 := s.rep1, rep3 := s.rep2 })
  if len == 1 then
    (sel, { s1 with state := updateShortRep st })
  else
    (sel ++ lengthOps P_REP_LEN posState len, { s1 with state := updateLongRep st })

/-- `encode_symbol(coder, mf, back, len, position)`: queued operations and the new state/reps.
    `prev` = byte before the position (0 at the very beginning), `mb` = byte at distance `rep0` (used by literals after a match). -/
def symOps (p : Props) (s : SymSt) (pos prev mb : Nat) (sym : Sym) : List Op × SymSt :=
  let posState := pos &&& ((1 <<< p.pb) - 1)
  let isMatch := P_IS_MATCH + s.state * POS_STATES_MAX + posState
  match sym with
  | .lit b =>
    let r := literalOps p s.state pos prev mb b
    (.bit isMatch false :: r.1, { s with state := r.2 })
  | .mtch dist len =>
    let r := matchOps s posState dist len
    (.bit isMatch true :: .bit (P_IS_REP + s.state) false :: r.1, r.2)
  | .rep idx len =>
    let r := repOps s posState idx len
    (.bit isMatch true :: .bit (P_IS_REP + s.state) true :: r.1, r.2)
  | .shortrep =>
    let r := repOps s posState 0 1
    (.bit isMatch true :: .bit (P_IS_REP + s.state) true :: r.1, r.2)

/-- `encode_init`: the first byte of a stream without preset dictionary is a literal coded with `is_match[0][0]` and the
    literal coder 0 (position 0, previous byte 0); the state stays `STATE_LIT_LIT`. -/
def initOps (first : UInt8) : List Op :=
  .bit (P_IS_MATCH + 0) false :: bittreeOps (P_LITERAL + 0) 8 first.toNat 1

/-- `encode_eopm(coder, position)`: a match with distance `UINT32_MAX` and length `MATCH_LEN_MIN` -/
def eopmOps (p : Props) (s : SymSt) (pos : Nat) : List Op :=
  let posState := pos &&& ((1 <<< p.pb) - 1)
  .bit (P_IS_MATCH + s.state * POS_STATES_MAX + posState) true :: .bit (P_IS_REP + s.state) false ::
    (matchOps s posState UINT32_MAX MATCH_LEN_MIN).1

/-- `lzma_lzma_encoder_reset`: all probabilities 1024 -/
def initProbs (p : Props) : Probs := Array.replicate (probsSize p.lc p.lp) PROB_INIT

/-- state machine and rep registers after a symbol (what `symOps` returns as its second component) -/
def SymSt.next (s : SymSt) : Sym → SymSt
  | .lit _ => { s with state := updateLiteral s.state }
  | .mtch dist _ => { state := updateMatch s.state, rep0 := dist, rep1 := s.rep0, rep2 := s.rep1, rep3 := s.rep2 }
  | .rep idx _ =>
    let st := updateLongRep s.state
    if idx == 0 then { s with state := st }
    else if idx == 1 then { s with state := st, rep0 := s.rep1, rep1 := s.rep0 }
    else if idx == 2 then { s with state := st, rep0 := s.rep2, rep1 := s.rep0, rep2 := s.rep1 }
    else { state := st, rep0 := s.rep3, rep1 := s.rep0, rep2 := s.rep1, rep3 := s.rep2 }
  | .shortrep => { s with state := updateShortRep s.state }

/-! ### the parser's contract -/

/-! The window is kept REVERSED (`rb`: newest byte first), so "the byte at distance `d`" is `rb[d]?` and writing a byte is
    a cons. -/

/-- copy `len` bytes from distance `dist` (zero-based), byte by byte (overlap allowed) -/
def lzCopy : Nat → Nat → List UInt8 → Option (List UInt8)
  | 0, _, rb => some rb
  | n + 1, dist, rb =>
    match rb[dist]? with
    | some b => lzCopy n dist (b :: rb)
    | none => none

/-- Expand ONE symbol on the window (the LZ77 semantics every LZMA decoder implements), with the validity conditions of
    the format: lengths 2..273 (short rep: 1), rep index < 4, distance inside the dictionary and inside the available
    history. `none` = invalid. -/
def applySym (dictSize : Nat) (rb : List UInt8) (s : SymSt) : Sym → Option (List UInt8)
  | .lit b => some (b :: rb)
  | .mtch dist len => if 2 ≤ len ∧ len ≤ MATCH_LEN_MAX ∧ dist < dictSize then lzCopy len dist rb else none
  | .rep idx len => if 2 ≤ len ∧ len ≤ MATCH_LEN_MAX ∧ idx < REPS ∧ s.rep idx < dictSize then lzCopy len (s.rep idx) rb else none
  | .shortrep => if s.rep0 < dictSize then lzCopy 1 s.rep0 rb else none

/-- Expand a symbol sequence (state machine and rep registers advance by `SymSt.next`). -/
def lzExpand (dictSize : Nat) : List Sym → SymSt → List UInt8 → Option (List UInt8)
  | [], _, rb => some rb
  | sym :: rest, s, rb =>
    match applySym dictSize rb s sym with
    | none => none
    | some rb' => lzExpand dictSize rest (s.next sym) rb'

/-- The parser's contract: the symbols, expanded from the history `hist` (preset dictionary, or nothing) with rep
    registers `s`, give exactly `data`. -/
def Describes (dictSize : Nat) (hist : List UInt8) (s : SymSt) (syms : List Sym) (data : List UInt8) : Prop :=
  lzExpand dictSize syms s hist.reverse = some (data.reverse ++ hist.reverse)

/-! ### executable encoder state (driver; arrays are used linearly) -/

/-- `lzma_lzma1_encoder`: range encoder, probabilities, state/reps, `uncomp_size` -/
structure LzmaEnc where
  props : Props
  probs : Probs
  rc : Enc
  st : SymSt
  /-- `coder->uncomp_size` (the `position` given to `encode_symbol`) -/
  uncompSize : Nat
  deriving Inhabited

/-- `lzma_lzma_encoder_reset` (keeps `uncomp_size`) -/
def LzmaEnc.reset (e : LzmaEnc) (p : Props) : LzmaEnc :=
  { e with props := p, probs := initProbs p, rc := Enc.init, st := {} }

def LzmaEnc.new (p : Props) : LzmaEnc :=
  { props := p, probs := initProbs p, rc := Enc.init, st := {}, uncompSize := 0 }

/-- `rc_encode` of the queued `ops` -/
@[inline] def LzmaEnc.encode (e : LzmaEnc) (ops : List Op) : LzmaEnc :=
  let ps := e.probs
  let rc := e.rc
  let e := { e with probs := #[], rc := Enc.init }
  let r := encOps ps rc ops
  { e with probs := r.1, rc := r.2 }

/-- `rc_flush` + `rc_encode`: returns the bytes of the finished range-coder stream; the range encoder is reset
    (probabilities and state are kept, as between LZMA2 chunks). -/
@[inline] def LzmaEnc.flush (e : LzmaEnc) : List UInt8 × Nat × LzmaEnc :=
  let f := encFlush e.rc
  (f.out, f.outTotal, { e with rc := Enc.init })

/-! ### walking a symbol trace over real data (driver; `buf` = preset dictionary ++ data, `base` = preset size) -/

/-- one record of the H2 symbol trace: kind 0 = symbol, 1 = the previous symbol was dropped by the output-size limit,
    2 = a LZMA_SYNC_FLUSH completed here (written by the harness) -/
structure TraceRec where
  kind : Nat
  back : Nat
  len : Nat
  pos : Nat
  ra : Nat
  deriving Repr, Inhabited

/-- do `len` bytes at data offset `off` repeat the bytes `dist+1` back? -/
def matchesAt (buf : ByteArray) (i dist : Nat) : Nat → Bool
  | 0 => true
  | n + 1 => buf.get! i == buf.get! (i - dist - 1) && matchesAt buf (i + 1) dist n

/-- Check one parser decision `(back, len)` at data offset `off` against the data (the per-symbol part of `Describes`)
    and convert it to a `Sym`. Returns `(sym, prev, mb)` or an error text. -/
def checkSym (dictSize : Nat) (buf : ByteArray) (base off : Nat) (st : SymSt) (back len : Nat) :
    Except String (Sym × Nat × Nat) :=
  let i := base + off
  if i + len > buf.size then .error s!"symbol at {off} len {len} runs past the end of the data" else
  let prev := if i == 0 then 0 else (buf.get! (i - 1)).toNat
  let mb := if st.rep0 < i then (buf.get! (i - st.rep0 - 1)).toNat else 0
  if back == UINT32_MAX then
    if len != 1 then .error s!"literal at {off} with len {len}" else .ok (.lit (buf.get! i), prev, mb)
  else
    let dist := if back < REPS then st.rep back else back - REPS
    let lenOk := if back == 0 then 1 ≤ len && len ≤ MATCH_LEN_MAX else 2 ≤ len && len ≤ MATCH_LEN_MAX
    if !lenOk then .error s!"length {len} out of range at {off} (back {back})"
    else if !(dist < i) then .error s!"distance {dist} exceeds the available history {i} at {off}"
    else if !(dist < dictSize) then .error s!"distance {dist} exceeds the dictionary size at {off}"
    else if !matchesAt buf i dist len then .error s!"match at {off} dist {dist} len {len} does not copy the true bytes"
    else .ok (Sym.ofBackLen back len 0, prev, mb)

/-- Result of running the encoder model over a trace. -/
structure EncResult where
  out : List UInt8
  /-- uncompressed bytes covered by the encoded symbols -/
  consumed : Nat
  /-- number of symbols encoded (incl. the `encode_init` literal) -/
  nsyms : Nat
  deriving Repr, Inhabited

/-- `lzma_lzma_encode` for a complete input with LZMA_FINISH (LZMA1: raw, .lzma payload, MicroLZMA payload):
    `encode_init`, then one `encode_symbol` + `rc_encode` per trace record — with `outLimit ≠ 0` preceded by the
    `rc_encode_dummy` test, which must agree with the trace's "dropped" record — then `encode_eopm` (if `useEopm`) and
    `rc_flush`. Fails if the trace is not a valid description of the data. -/
def lzma1Encode (p : Props) (dictSize : Nat) (useEopm : Bool) (outLimit : Nat) (buf : ByteArray) (base : Nat)
    (trace : Array TraceRec) : Except String EncResult := do
  let dataLen := buf.size - base
  let mut e := LzmaEnc.new p
  let mut off := 0
  let mut n := 0
  if base == 0 && dataLen > 0 then
    e := e.encode (initOps (buf.get! 0))
    e := { e with uncompSize := 1 }
    off := 1
    n := 1
  let mut stopped := false
  for i in [0:trace.size] do
    let r := trace[i]!
    if stopped then
      throw s!"trace record {i} after the output limit was hit"
    if r.kind == 1 then
      throw s!"trace record {i}: symbol dropped by the C encoder but the model's rc_encode_dummy said it fits"
    if r.kind != 0 then
      throw s!"trace record {i}: unexpected kind {r.kind}"
    if r.pos != e.uncompSize % 4294967296 then
      throw s!"trace record {i}: position {r.pos} but the model's uncomp_size is {e.uncompSize}"
    let (sym, prev, mb) ← checkSym dictSize buf base off e.st r.back r.len
    let (ops, st') := symOps p e.st e.uncompSize prev mb sym
    if outLimit != 0 && encodeDummy e.probs e.rc ops outLimit then
      -- rc_forget: the symbol is thrown away and the loop ends; the trace must say so
      if i + 1 < trace.size && trace[i + 1]!.kind == 1 && i + 2 == trace.size then
        stopped := true
        break
      else
        throw s!"trace record {i}: model's rc_encode_dummy says the symbol does not fit, the C encoder kept it"
    e := e.encode ops
    e := { e with st := st', uncompSize := e.uncompSize + r.len }
    off := off + r.len
    n := n + 1
  if outLimit == 0 && off != dataLen then
    throw s!"the symbols cover {off} bytes, the data has {dataLen}"
  if useEopm then
    e := e.encode (eopmOps p e.st e.uncompSize)
  let (out, _, _) := e.flush
  return { out := out, consumed := off, nsyms := n }

end XzVerif.LzmaEnc
