/-
  Model of the threaded .xz decoder protocol (src/liblzma/common/stream_decoder_mt.c + outqueue.c) as a labelled
  transition system at mutex-critical-section granularity. Core Lean only.

  One transition = one critical section (everything a thread does while it holds `coder->mutex` or a `thr->mutex`), or one
  unlocked action that touches shared memory (the main thread writing `thr->in`, a worker freeing `thr->in`, a worker running
  the Block decoder on its private buffers). Mutex ownership is therefore implicit. A `cond_wait` is a program counter
  (`MPc.rowWait`, `WPc.wait`) plus a `woken` flag set by the matching signal; spurious wake-ups and expiry of the timed
  wait are explicit causes of the wake-up transitions.

  Input abstraction: the file is a list of items (`Block`): Blocks decoded by worker threads (`Kind.thr`), Blocks decoded in
  direct mode (`Kind.direct`: no size fields, or larger than memlimit_threading), header-level errors found by the main thread
  (`Kind.badHeader`: Block Header CRC / unsupported filter / memlimit_stop / Stream Header of a later Stream / bad padding) and
  points that need an empty queue and produce no data (`Kind.sync`: Index + Stream Footer, possibly followed by the next
  Stream). Each Block carries what its (deterministic, slicing independent: C03/C06) Block decoder does: the bytes `data` it
  produces before it returns `ret` (LZMA_STREAM_END or an error) after `needIn` input bytes.
  How much input/output space the application supplies, and when, is environment nondeterminism carried by the labels.
  Not modelled: allocation failure (LZMA_MEM_ERROR paths), LZMA_*_CHECK informational returns, the wrapper's LZMA_BUF_ERROR,
  the output-buffer cache, mem_cached.
-/
namespace XzVerif.MtDec

abbrev Ret := Nat
def OK : Ret := 0
def END : Ret := 1
def DATA_ERROR : Ret := 9
def PROG_ERROR : Ret := 11
def TIMED_OUT : Ret := 101

/-- The factor of GET_BUFS_LIMIT (outqueue.c); tied to the source by Gen/C07.lean. (worker_decoder's `chunk_size`, which only
    bounds how much of the already published input one Block decoder call is offered, is not modelled: a call may consume
    anything up to the in_filled snapshot, a superset of what any chunk size allows.) -/
def bufsLimitFactor : Nat := 2

inductive Kind | thr | direct | badHeader | sync
  deriving DecidableEq, Repr, Inhabited

structure Block where
  kind : Kind := .sync
  inSize : Nat := 0          -- thr->in_size: Compressed Data + padding + Check
  needIn : Nat := 0          -- input position at which the Block decoder returns `ret`
  data : List UInt8 := []    -- output produced before `ret`
  ret : Ret := END
  memThr : Nat := 0          -- mem_next_in + mem_next_filters (added to coder->mem_in_use)
  memOut : Nat := 0          -- lzma_outq_outbuf_memusage(uncompressed_size)
  deriving Repr, Inhabited

inductive WSt | idle | run | exit
  deriving DecidableEq, Repr, Inhabited

inductive PU | disabled | start | enabled
  deriving DecidableEq, Repr, Inhabited

/-- Where a worker is in `worker_decoder`. -/
inductive WPc
  | top                          -- at `next_loop_lock`, holds nothing
  | wait                         -- inside mythread_cond_wait(&thr->cond, &thr->mutex)
  | decode (lim : Nat) (pu : PU) -- unlocked, about to call the Block decoder on in[in_pos, lim) with the snapshot `pu`
  | publish                      -- decoder returned LZMA_OK and pu != DISABLED: about to lock coder->mutex and publish progress
  | fin1 (r : Ret)               -- decoder returned r != LZMA_OK: about to lock thr->mutex and go idle
  | fin2 (r : Ret)               -- about to free thr->in iff r = LZMA_STREAM_END (no mutex)
  | fin3 (r : Ret)               -- about to lock coder->mutex and publish the finished outbuf
  | cleanup                      -- saw THR_EXIT: frees thr->in and the Block decoder, destroys its mutex/cond
  | exited
  deriving DecidableEq, Repr, Inhabited

structure Worker where
  st : WSt := .idle
  pc : WPc := .top
  woken : Bool := false        -- a signal on thr->cond arrived while pc = wait
  blk : Nat := 0               -- Block it was last given
  inAlloc : Bool := false      -- thr->in points to allocated memory
  inSize : Nat := 0
  inFilled : Nat := 0
  inPos : Nat := 0
  outPos : Nat := 0
  pu : PU := .disabled
  hasOut : Bool := false       -- thr->outbuf != NULL
  failed : Bool := false       -- ghost: finished a Block with an error (must never be reused)
  deriving Repr, Inhabited

structure Outbuf where
  blk : Nat
  pos : Nat := 0
  decInPos : Nat := 0
  finished : Bool := false
  finishRet : Ret := END
  worker : Option Nat := none  -- lzma_outbuf.worker (cleared once partial output was enabled)
  deriving Repr, Inhabited

inductive Seq | blockHeader | blockInit | thrInit | thrRun | directInit | directRun | indexWait | indexDecode | error
  deriving DecidableEq, Repr, Inhabited

/-- coder->pending_error: `flag` is the LZMA_PROG_ERROR placeholder written by read_output_and_wait. -/
inductive Pend | none | flag | code (r : Ret)
  deriving DecidableEq, Repr, Inhabited

/-- Who called read_output_and_wait. -/
inductive RowK | hdr | canStart | thrRun | drainDirect | drainIndex | drainErr
  deriving DecidableEq, Repr, Inhabited

inductive EndK | direct | final
  deriving DecidableEq, Repr, Inhabited

inductive MPc
  | idle                                   -- outside lzma_code
  | seq                                    -- at the top of the `switch (coder->sequence)`
  | row (k : RowK) (wait : Bool)           -- about to lock coder->mutex in read_output_and_wait
  | rowWait (k : RowK) (wait : Bool)       -- inside cond_wait / cond_timedwait on coder->cond
  | rowDone (k : RowK) (r : Ret) (canStart : Bool)   -- unlocked again, before `if (ret != OK && ret != TIMED_OUT) threads_stop`
  | stopping (i : Nat) (r : Ret)           -- threads_stop loop, then return r
  | rowOk (k : RowK) (canStart : Bool)     -- back in stream_decode_mt with LZMA_OK from read_output_and_wait
  | ret (r : Ret)                          -- about to return r from stream_decode_mt
  | init1 | init2 | init3 | init4 | init5  -- SEQ_BLOCK_THR_INIT: counters; get_thread; buffers; start; enable partial
  | tell (filled : Nat) (noInputLeft : Bool)
  | endSet (i : Nat) (k : EndK)            -- threads_end: set THR_EXIT + signal, per worker
  | endJoin (i : Nat) (k : EndK)           -- threads_end: join, per worker
  | ended                                  -- after lzma_end
  deriving DecidableEq, Repr, Inhabited

structure Cfg where
  threadsMax : Nat := 1
  failFast : Bool := false
  timed : Bool := false
  memLimit : Nat := 0
  deriving Repr, Inhabited

structure State where
  cfg : Cfg := {}
  blocks : List Block := []
  pc : MPc := .idle
  seq : Seq := .blockHeader
  cur : Nat := 0                 -- next item to parse; a thr Block is passed when its outbuf is queued
  pend : Pend := .none
  threadError : Ret := OK
  outWasFilled : Bool := false
  waitingAllowed : Bool := false
  fin : Bool := false            -- action == LZMA_FINISH in the current call
  outCap : Nat := 0              -- out_size - *out_pos
  outRev : List (List UInt8) := []   -- delivered output as chunks, newest first (see `State.delivered`)
  readPos : Nat := 0             -- outq.read_pos
  queue : List Outbuf := []
  workers : List Worker := []    -- coder->threads[0 .. threads_initialized)
  threadsFree : List Nat := []
  thr : Option Nat := none       -- coder->thr
  mwoken : Bool := false
  memInUse : Nat := 0
  directPos : Nat := 0
  returned : Option Ret := none  -- final return value (anything but LZMA_OK / LZMA_TIMED_OUT)
  deriving Repr, Inhabited

/-- The bytes delivered to the application so far. -/
def State.delivered (s : State) : List UInt8 := s.outRev.reverse.flatten

inductive Cause | enter | signalled | spurious
  deriving DecidableEq, Repr, Inhabited

inductive Label
  | call (fin noInput : Bool) (cap : Nat)
  | ret
  | endCall
  | hdrNeed
  | hdrGot
  | hdrFatal
  | needInput
  | ffStop
  | blockInit
  | thrInitEnter
  | directInit
  | rowIter (c : Cause)
  | rowTimeout
  | rowDone
  | stopOne
  | rowOk
  | memUpdate | getThread | assign | startThr | enablePartial
  | copyIn (k : Nat) (noInputLeft : Bool)
  | tell
  | directStep (n : Nat) (done : Bool)
  | indexStep (got : Bool)
  | seqError
  | endSet | endJoin
  | wLoop (i : Nat) (c : Cause)
  | wDecode (i : Nat) (inPos' outPos' : Nat) (verdict : Bool)
  | wPublish (i : Nat)
  | wFin1 (i : Nat)
  | wFin2 (i : Nat)
  | wFin3 (i : Nat)
  | wCleanup (i : Nat)
  deriving Repr, Inhabited

/-- The two wake-up causes that do not count as progress (they need no other thread to act). -/
def Label.isExpiry : Label → Bool
  | .rowIter .spurious => true
  | .rowTimeout => true
  | .wLoop _ .spurious => true
  | _ => false

-- ---------------------------------------------------------------------------------------------
-- helpers
-- ---------------------------------------------------------------------------------------------

def blk (s : State) (i : Nat) : Block := s.blocks.getD i default
def getW (s : State) (i : Nat) : Worker := s.workers.getD i default
def setW (s : State) (i : Nat) (w : Worker) : State := { s with workers := s.workers.set i w }

def dataLen (s : State) (i : Nat) : Nat := (blk s i).data.length

/-- Update the outbuf that belongs to Block `b`. -/
def updOut (q : List Outbuf) (b : Nat) (f : Outbuf → Outbuf) : List Outbuf :=
  q.map fun o => if o.blk = b then f o else o

def outqMem (s : State) : Nat := (s.queue.map fun o => (blk s o.blk).memOut).sum

/-- mythread_cond_signal(&coder->cond). -/
def signalMain (s : State) : State := { s with mwoken := true }

/-- mythread_cond_signal(&thr->cond). -/
def signalW (w : Worker) : Worker := { w with woken := true }

def fatal (r : Ret) : Bool := r != OK && r != TIMED_OUT

/-- lzma_outq_enable_partial_output with worker_enable_partial_update as the callback (runs under coder->mutex, takes the
    worker's mutex inside). -/
def enablePartialHead (s : State) : State :=
  match s.queue with
  | h :: t =>
    if !h.finished then
      match h.worker with
      | some w => { setW s w (signalW { getW s w with pu := .start }) with queue := { h with worker := none } :: t }
      | none => s
    else s
  | [] => s

/-- One lzma_outq_read call. Returns the new state and the return value. -/
def outqRead (s : State) : State × Ret :=
  match s.queue with
  | [] => (s, OK)
  | h :: t =>
    let n := min s.outCap (h.pos - s.readPos)
    let bytes := ((blk s h.blk).data.drop s.readPos).take n
    let s1 := { s with outRev := bytes :: s.outRev, readPos := s.readPos + n, outCap := s.outCap - n }
    if !h.finished || s1.readPos < h.pos then (s1, OK)
    else ({ s1 with queue := t, readPos := 0 }, h.finishRet)

/-- The inner `do … while (ret == LZMA_STREAM_END)` loop of read_output_and_wait. -/
def readLoop : Nat → State → State × Ret
  | 0, s => (s, OK)
  | fuel + 1, s =>
    let (s1, r) := outqRead s
    if r = END then readLoop fuel (enablePartialHead s1) else (s1, r)

def headReadable (s : State) : Bool :=
  match s.queue with
  | h :: _ => s.readPos < h.pos || h.finished
  | [] => false

def stalled (s : State) : Bool :=
  match s.thr, s.queue with
  | some t, h :: _ => (getW s t).pu != .disabled && h.decInPos == (getW s t).inFilled
  | _, _ => false

def canStartNow (s : State) : Bool :=
  let b := blk s s.cur
  decide (s.cfg.memLimit - s.memInUse - outqMem s ≥ b.memThr + b.memOut)
    && decide (s.queue.length < bufsLimitFactor * s.cfg.threadsMax)
    && (decide (s.workers.length < s.cfg.threadsMax) || !s.threadsFree.isEmpty)

def askCanStart : RowK → Bool
  | .canStart => true
  | _ => false

/-- `if (*out_pos == out_size && *out_pos != out_start) coder->out_was_filled = true;` -/
def markFilled (s1 : State) (cap0 : Nat) : State :=
  if s1.outCap = 0 && cap0 != 0 then { s1 with outWasFilled := true } else s1

/-- `coder->pending_error = LZMA_PROG_ERROR` when a worker has reported an error (not fail-fast). -/
def flagPend (s2 : State) : State :=
  if s2.threadError != OK then { s2 with pend := .flag } else s2

/-- The tail of the loop body: leave (can start / no waiting allowed / queue empty / output readable / stalled) or wait. -/
def rowLeaveOrWait (s3 : State) (k : RowK) (wait : Bool) : State :=
  if askCanStart k && canStartNow s3 then { s3 with pc := .rowDone k OK true }
  else if !wait then { s3 with pc := .rowDone k OK false }
  else if s3.queue.isEmpty then { s3 with pc := .rowDone k OK false }
  else if headReadable s3 then { s3 with pc := .rowDone k OK false }
  else if stalled s3 then { s3 with pc := .rowDone k OK false }
  else { s3 with pc := .rowWait k wait, mwoken := false }

/-- One iteration of the outer loop of read_output_and_wait, executed while holding coder->mutex; ends either by leaving the
    loop (`rowDone`) or by waiting on coder->cond. -/
def rowIterate (s0 : State) (k : RowK) (wait : Bool) : State :=
  let res := readLoop (s0.queue.length + 1) s0
  if res.2 != OK then { res.1 with pc := .rowDone k res.2 false }
  else
    let s2 := markFilled res.1 s0.outCap
    if s2.threadError != OK && s2.cfg.failFast then { s2 with pc := .rowDone k s2.threadError false }
    else rowLeaveOrWait (flagPend s2) k wait

/-- The decision a worker takes at `next_loop_unlocked` while holding thr->mutex. -/
def workerDecide (w : Worker) : Worker :=
  match w.st with
  | .idle => { w with pc := .wait, woken := false }
  | .exit => { w with pc := .cleanup }
  | .run =>
    if w.inFilled = w.inPos && w.pu != .start then { w with pc := .wait, woken := false }
    else { w with pc := .decode w.inFilled w.pu }

def popFree (s : State) : Option (Nat × List Nat) :=
  match s.threadsFree with
  | w :: rest => some (w, rest)
  | [] => none

-- ---------------------------------------------------------------------------------------------
-- the transition function: `step s l = some s'` iff label l is enabled in s and leads to s'
-- ---------------------------------------------------------------------------------------------

def step (s : State) : Label → Option State
  -- ---- application ----------------------------------------------------------------------------
  | .call fin noInput cap =>
    if s.pc = .idle && s.returned.isNone then
      some { s with pc := .seq, fin := fin, outCap := cap, outWasFilled := false,
                    waitingAllowed := fin || (noInput && !s.outWasFilled) }
    else none
  | .ret =>
    match s.pc with
    | .ret r => some { s with pc := .idle, returned := if fatal r then some r else s.returned }
    | _ => none
  | .endCall =>
    if s.pc = .idle then some { s with pc := .endSet 0 .final } else none
  -- ---- SEQ_BLOCK_HEADER -----------------------------------------------------------------------
  | .hdrNeed =>
    if s.pc = .seq && s.seq = .blockHeader then some { s with pc := .row .hdr s.waitingAllowed } else none
  | .ffStop =>
    if s.pc = .seq && (s.seq = .blockHeader || s.seq = .thrRun) && s.fin && s.cfg.failFast then
      some { s with pc := .stopping 0 DATA_ERROR }
    else none
  | .hdrGot =>
    if s.pc = .seq && s.seq = .blockHeader && s.cur < s.blocks.length then
      match (blk s s.cur).kind with
      | .sync => some { s with seq := .indexWait }
      | .badHeader => some { s with pend := .code (blk s s.cur).ret, seq := .error }
      | _ => some { s with seq := .blockInit }
    else none
  | .hdrFatal =>
    if s.pc = .seq && s.seq = .blockHeader && s.cur < s.blocks.length && s.queue.isEmpty
        && (blk s s.cur).kind = .badHeader then
      some { s with pc := .ret (blk s s.cur).ret }
    else none
  | .needInput =>
    -- Stream Header / Stream Padding of a later Stream is incomplete: plain `return LZMA_OK` (the queue is empty there)
    if s.pc = .seq && s.seq = .blockHeader && s.queue.isEmpty then some { s with pc := .ret OK } else none
  -- ---- SEQ_BLOCK_INIT -------------------------------------------------------------------------
  | .blockInit =>
    if s.pc = .seq && s.seq = .blockInit then
      match (blk s s.cur).kind with
      | .direct => some { s with seq := .directInit }
      | .thr => some { s with seq := .thrInit }
      | _ => none
    else none
  | .thrInitEnter =>
    if s.pc = .seq && s.seq = .thrInit then some { s with pc := .row .canStart true } else none
  | .directInit =>
    if s.pc = .seq && s.seq = .directInit then some { s with pc := .row .drainDirect true } else none
  -- ---- read_output_and_wait -------------------------------------------------------------------
  | .rowIter c =>
    match s.pc, c with
    | .row k w, .enter => some (rowIterate s k w)
    | .rowWait k w, .signalled => if s.mwoken then some (rowIterate s k w) else none
    | .rowWait k w, .spurious => some (rowIterate s k w)
    | _, _ => none
  | .rowTimeout =>
    match s.pc with
    | .rowWait k _ => if s.cfg.timed then some { s with pc := .rowDone k TIMED_OUT false } else none
    | _ => none
  | .rowDone =>
    match s.pc with
    | .rowDone k r cs =>
      if r = OK then some { s with pc := .rowOk k cs }
      else if r = TIMED_OUT then some { s with pc := .ret TIMED_OUT }
      else some { s with pc := .stopping 0 r }
    | _ => none
  | .stopOne =>
    match s.pc with
    | .stopping i r =>
      if i < s.workers.length then some { setW s i { getW s i with st := .idle } with pc := .stopping (i + 1) r }
      else some { s with pc := .ret r }
    | _ => none
  | .rowOk =>
    match s.pc with
    | .rowOk .hdr _ => if s.pend != .none then some { s with seq := .error, pc := .seq } else some { s with pc := .ret OK }
    | .rowOk .canStart cs =>
      if s.pend != .none then some { s with seq := .error, pc := .seq }
      else if !cs then some { s with pc := .ret OK }
      else some { s with pc := .init1 }
    | .rowOk .thrRun _ =>
      if s.pend != .none then some { s with seq := .error, pc := .seq }
      else match s.thr with
        | some t =>
          if (getW s t).inFilled < (getW s t).inSize then some { s with pc := .ret OK }
          else some { s with thr := none, seq := .blockHeader, pc := .seq }
        | none => none
    | .rowOk .drainDirect _ =>
      if !s.queue.isEmpty then some { s with pc := .ret OK } else some { s with pc := .endSet 0 .direct }
    | .rowOk .drainIndex _ =>
      if !s.queue.isEmpty then some { s with pc := .ret OK } else some { s with seq := .indexDecode, pc := .seq }
    | .rowOk .drainErr _ =>
      if !s.queue.isEmpty then some { s with pc := .ret OK }
      else match s.pend with
        | .code r => some { s with pc := .ret r }
        | _ => some { s with pc := .ret PROG_ERROR }
    | _ => none
  -- ---- SEQ_BLOCK_THR_INIT after read_output_and_wait said the Block can start -------------------
  | .memUpdate =>
    if s.pc = .init1 then some { s with memInUse := s.memInUse + (blk s s.cur).memThr, pc := .init2 } else none
  | .getThread =>
    if s.pc = .init2 then
      match popFree s with
      | some (w, rest) =>
        some { s with threadsFree := rest, thr := some w, pc := .init3 }
      | none =>
        if s.workers.length < s.cfg.threadsMax then
          some { s with workers := s.workers ++ [{}], thr := some s.workers.length, pc := .init3 }
        else none
    else none
  | .assign =>
    match s.pc, s.thr with
    | .init3, some t =>
      -- (get_thread's unlocked resets of in_filled/in_pos/out_pos/partial_update are folded into this step: the worker is
      --  idle and only the main thread looks at these fields until the thread is started)
      some { setW s t { getW s t with blk := s.cur, inAlloc := true, inSize := (blk s s.cur).inSize, hasOut := true,
                                       inFilled := 0, inPos := 0, outPos := 0, pu := .disabled } with
             queue := s.queue ++ [{ blk := s.cur, worker := some t }], cur := s.cur + 1, pc := .init4 }
    | _, _ => none
  | .startThr =>
    match s.pc, s.thr with
    | .init4, some t => some { setW s t (signalW { getW s t with st := .run }) with pc := .init5 }
    | _, _ => none
  | .enablePartial =>
    if s.pc = .init5 then some { enablePartialHead s with seq := .thrRun, pc := .seq } else none
  -- ---- SEQ_BLOCK_THR_RUN ------------------------------------------------------------------------
  | .copyIn k noInputLeft =>
    match s.pc, s.seq, s.thr with
    | .seq, .thrRun, some t =>
      let w := getW s t
      if w.inFilled + k ≤ w.inSize && (noInputLeft || w.inFilled + k = w.inSize) then
        some { s with pc := .tell (w.inFilled + k) noInputLeft }
      else none
    | _, _, _ => none
  | .tell =>
    match s.pc, s.thr with
    | .tell f nil, some t =>
      some { setW s t (signalW { getW s t with inFilled := f }) with pc := .row .thrRun (s.waitingAllowed && nil) }
    | _, _ => none
  -- ---- direct mode --------------------------------------------------------------------------------
  | .directStep n done =>
    if s.pc = .seq && s.seq = .directRun then
      let b := blk s s.cur
      if n ≤ s.outCap && s.directPos + n ≤ b.data.length then
        let s1 := { s with outRev := (b.data.drop s.directPos).take n :: s.outRev, directPos := s.directPos + n,
                           outCap := s.outCap - n }
        if done then
          if s1.directPos = b.data.length then
            if b.ret = END then some { s1 with cur := s.cur + 1, seq := .blockHeader, directPos := 0 }
            else some { s1 with pc := .ret b.ret }
          else none
        else some { s1 with pc := .ret OK }
      else none
    else none
  -- ---- Index / Footer ---------------------------------------------------------------------------
  | .indexStep got =>
    if s.pc = .seq && s.seq = .indexWait && !got then some { s with pc := .row .drainIndex true }
    else if s.pc = .seq && s.seq = .indexDecode then
      if !got then some { s with pc := .ret OK }
      else
        let b := blk s s.cur
        if b.ret = END then
          if s.cur + 1 = s.blocks.length then some { s with cur := s.cur + 1, seq := .blockHeader, pc := .ret END }
          else some { s with cur := s.cur + 1, seq := .blockHeader }
        else some { s with pc := .ret b.ret }
    else none
  -- ---- SEQ_ERROR --------------------------------------------------------------------------------
  | .seqError =>
    if s.pc = .seq && s.seq = .error then
      -- (code 6 = the memlimit_stop path of SEQ_BLOCK_INIT, which always flushes the queue first, also with fail-fast)
      if s.cfg.failFast && s.pend != .code 6 then
        match s.pend with
        | .code r => some { s with pc := .ret r }
        | _ => some { s with pc := .ret PROG_ERROR }
      else some { s with pc := .row .drainErr true }
    else none
  -- ---- threads_end ------------------------------------------------------------------------------
  | .endSet =>
    match s.pc with
    | .endSet i k =>
      if i < s.workers.length then some { setW s i (signalW { getW s i with st := .exit }) with pc := .endSet (i + 1) k }
      else some { s with pc := .endJoin 0 k }
    | _ => none
  | .endJoin =>
    match s.pc with
    | .endJoin i k =>
      if i < s.workers.length then
        if (getW s i).pc = .exited then some { s with pc := .endJoin (i + 1) k } else none
      else
        let s1 := { s with workers := [], threadsFree := [], memInUse := 0 }
        match k with
        | .direct => some { s1 with seq := .directRun, pc := .seq }
        | .final => some { s1 with pc := .ended }
    | _ => none
  -- ---- worker threads ---------------------------------------------------------------------------
  | .wLoop i c =>
    if i < s.workers.length then
      let w := getW s i
      match w.pc, c with
      | .top, .enter => some (setW s i (workerDecide w))
      | .wait, .signalled => if w.woken then some (setW s i (workerDecide w)) else none
      | .wait, .spurious => some (setW s i (workerDecide w))
      | _, _ => none
    else none
  | .wDecode i inPos' outPos' verdict =>
    if i < s.workers.length then
      let w := getW s i
      let b := blk s w.blk
      match w.pc with
      | .decode lim pu =>
        -- (last conjunct: with the whole Block consumed the Block decoder always delivers a verdict, see block_decode():
        --  comp_done && uncomp_done, comp_done && out not full => LZMA_DATA_ERROR, else LZMA_STREAM_END)
        if w.inPos ≤ inPos' && inPos' ≤ lim && inPos' ≤ b.needIn && w.outPos ≤ outPos' && outPos' ≤ b.data.length
            && (verdict || decide (inPos' < b.inSize)) then
          let w1 := { w with inPos := inPos', outPos := outPos' }
          if verdict then
            if inPos' = b.needIn && outPos' = b.data.length then some (setW s i { w1 with pc := .fin1 b.ret }) else none
          else if pu != .disabled then some (setW s i { w1 with pu := .enabled, pc := .publish })
          else some (setW s i { w1 with pc := .top })
        else none
      | _ => none
    else none
  | .wPublish i =>
    if i < s.workers.length && (getW s i).pc = .publish then
      let w := getW s i
      some (signalMain { setW s i { w with pc := .top } with
              queue := updOut s.queue w.blk fun o => { o with pos := w.outPos, decInPos := w.inPos } })
    else none
  | .wFin1 i =>
    if i < s.workers.length then
      let w := getW s i
      match w.pc with
      | .fin1 r =>
        let r' := if r = END && w.inFilled != w.inSize then PROG_ERROR else r
        some (setW s i { w with st := if w.st = .exit then .exit else .idle, pc := .fin2 r' })
      | _ => none
    else none
  | .wFin2 i =>
    if i < s.workers.length then
      let w := getW s i
      match w.pc with
      | .fin2 r => some (setW s i { w with inAlloc := if r = END then false else w.inAlloc, pc := .fin3 r })
      | _ => none
    else none
  | .wFin3 i =>
    if i < s.workers.length then
      let w := getW s i
      match w.pc with
      | .fin3 r =>
        let q := updOut s.queue w.blk fun o =>
          { o with pos := w.outPos, decInPos := w.inPos, finished := true, finishRet := r }
        let s1 := { setW s i { w with hasOut := false, failed := r != END, pc := .top } with queue := q }
        let s2 := if r != END && s1.threadError = OK then { s1 with threadError := r } else s1
        let s3 := if r = END then
            { s2 with memInUse := s2.memInUse - (blk s w.blk).memThr, threadsFree := i :: s2.threadsFree }
          else s2
        some (signalMain s3)
      | _ => none
    else none
  | .wCleanup i =>
    if i < s.workers.length && (getW s i).pc = .cleanup then
      some (setW s i { getW s i with inAlloc := false, pc := .exited })
    else none

def init (cfg : Cfg) (blocks : List Block) : State := { cfg := cfg, blocks := blocks }

/-- Replays a label sequence; `none` = some label was not enabled. -/
def run : State → List Label → Option State
  | s, [] => some s
  | s, l :: ls => match step s l with
    | some s' => run s' ls
    | none => none

def accepts (cfg : Cfg) (blocks : List Block) (ls : List Label) : Bool := (run (init cfg blocks) ls).isSome

inductive Reachable (cfg : Cfg) (blocks : List Block) : State → Prop
  | init : Reachable cfg blocks (init cfg blocks)
  | step {s s' : State} (l : Label) : Reachable cfg blocks s → step s l = some s' → Reachable cfg blocks s'

-- ---------------------------------------------------------------------------------------------
-- the single-threaded reference: what lzma_stream_decoder delivers and returns on the same items
-- ---------------------------------------------------------------------------------------------

/-- Items are processed in order; the first item whose verdict is not LZMA_STREAM_END ends the run with that verdict after
    its own output. -/
def stRun : List Block → List UInt8 × Ret
  | [] => ([], END)
  | b :: bs => if b.ret = END then ((b.data ++ (stRun bs).1), (stRun bs).2) else (b.data, b.ret)

def stOutput (blocks : List Block) : List UInt8 := (stRun blocks).1
def stStatus (blocks : List Block) : Ret := (stRun blocks).2

/-- Well-formed input: what the Block decoder contract (C03) guarantees about each item. -/
def Block.WF (b : Block) : Prop :=
  b.ret ≠ OK ∧ b.ret ≠ TIMED_OUT ∧ b.needIn ≤ b.inSize ∧ (b.ret = END → b.needIn = b.inSize) ∧
  (b.kind = .badHeader → b.ret ≠ END ∧ b.data = []) ∧ (b.kind = .sync → b.data = []) ∧ (b.kind = .thr → 0 < b.needIn)

end XzVerif.MtDec
