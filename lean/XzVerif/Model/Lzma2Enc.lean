/-
  LZMA2 chunking of liblzma's encoder (src/liblzma/lzma/lzma2_encoder.c `lzma2_encode`, with the chunk-size rule at the
  top of the loop in `lzma_lzma_encode`, lzma_encoder.c), as a function of the symbol sequence chosen by the parser.

    SEQ_INIT             nothing left to encode: on LZMA_FINISH write the end marker 0x00; otherwise
                         if (need_state_reset) lzma_lzma_encoder_reset(); uncompressed_size = compressed_size = 0
    SEQ_LZMA_ENCODE      symbols are encoded into buf[] until, AT THE TOP of the loop,
                           uncompressed bytes of the chunk ≥ target − MATCH_LEN_MAX                            (`limit`)
                           or *out_pos + rc_pending(rc) ≥ compLimit                                            (size)
                         (`ChunkLimits`: target = LZMA2_UNCOMPRESSED_MAX, compLimit = LZMA2_CHUNK_MAX − LOOP_INPUT_MAX in
                         xz 5.8.1; both are read from the source on every run, see `Gen/C01.lean`)
                         or the input (up to a flush point / the end) is used up; then rc_flush.
                         if (compressed_size >= uncompressed_size): uncompressed chunk of uncompressed_size + mf->read_ahead
                           bytes (read_ahead = 0 afterwards), need_state_reset = true
                         else lzma2_header_lzma
    lzma2_header_lzma    control = need_properties ? (need_dictionary_reset ? 0xE0 : 0xC0) : (need_state_reset ? 0xA0 : 0x80);
                         control += (usize−1) >> 16; (usize−1) >> 8 & 0xFF; (usize−1) & 0xFF; (csize−1) >> 8; (csize−1) & 0xFF;
                         [lclppb byte if need_properties]; all three flags cleared
    lzma2_header_uncompressed  need_dictionary_reset ? 1 : 2; (usize−1) >> 8; (usize−1) & 0xFF; need_dictionary_reset = false
    init                 need_properties = true; need_state_reset = false; need_dictionary_reset = (no preset dictionary)

  `mf->read_ahead` after each symbol (how far the match finder has run ahead of the encoder) is a parser-side quantity and
  comes with the symbol trace (`TraceRec.ra`); it only matters for the size of an uncompressed chunk. Note that
  `coder->uncomp_size` (the `position` used for pos_state / literal context) is NOT advanced by those extra bytes, so after
  such a chunk the encoder's position lags behind the true offset by `ra`; this is harmless (the lag is constant between
  two state resets, so it only renames the pos_state / literal-position contexts consistently on both sides) and the model
  reproduces it.
  Core Lean only.
-/
import XzVerif.Model.LzmaEnc

namespace XzVerif.Lzma2Enc
open XzVerif.RangeDec XzVerif.RangeEnc XzVerif.Lzma XzVerif.LzmaEnc

abbrev LZMA2_CHUNK_MAX : Nat := 65536
abbrev LZMA2_UNCOMPRESSED_MAX : Nat := 2097152
abbrev LZMA2_HEADER_MAX : Nat := 6
abbrev LZMA2_HEADER_UNCOMPRESSED : Nat := 3

/-- the chunk-size test at the top of the loop of `lzma_lzma_encode` (with `limit != UINT32_MAX`): stop the chunk? -/
def chunkFull (chunkUncomp : Nat) (rc : Enc) : Bool :=
  chunkUncomp ≥ LZMA2_UNCOMPRESSED_MAX - MATCH_LEN_MAX
    || rc.outTotal + rc.pending ≥ LZMA2_CHUNK_MAX - LOOP_INPUT_MAX

/-- The two encoder-side chunk-closing limits, as the source has them (regenerated into `Gen/C01.lean` on every run):
    `target`    the constant in `const uint32_t left = <target> - coder->uncompressed_size;` (lzma2_encoder.c) — the format
                maximum LZMA2_UNCOMPRESSED_MAX in xz 5.8.1, but any encoder-side value up to it is a valid choice;
    `compLimit` the value of the right-hand side of `*out_pos + rc_pending(&coder->rc) >= …` at the top of the loop of
                `lzma_lzma_encode` (lzma_encoder.c) — `LZMA2_CHUNK_MAX - LOOP_INPUT_MAX` in xz 5.8.1.
    Both are tuning knobs: every value with `ChunkLimits.Ok` gives valid LZMA2 (the theorems are for all of them). -/
structure ChunkLimits where
  target : Nat
  compLimit : Nat
  deriving Repr, DecidableEq, Inhabited

/-- the limits of xz 5.8.1 -/
def ChunkLimits.std : ChunkLimits := { target := LZMA2_UNCOMPRESSED_MAX, compLimit := LZMA2_CHUNK_MAX - LOOP_INPUT_MAX }

/-- limits for which the chunker always makes progress and stays inside the format's chunk sizes:
    more than a maximal match and at most LZMA2_UNCOMPRESSED_MAX uncompressed; room for one more symbol (≤ 60 bytes incl.
    the flush) below LZMA2_CHUNK_MAX compressed. -/
def ChunkLimits.Ok (lim : ChunkLimits) : Prop :=
  MATCH_LEN_MAX < lim.target ∧ lim.target ≤ LZMA2_UNCOMPRESSED_MAX ∧ 5 < lim.compLimit ∧ lim.compLimit + 60 ≤ LZMA2_CHUNK_MAX

instance (lim : ChunkLimits) : Decidable lim.Ok := by unfold ChunkLimits.Ok; infer_instance

/-- the chunk-size test at the top of the loop of `lzma_lzma_encode`, for given limits -/
def chunkFullL (lim : ChunkLimits) (chunkUncomp : Nat) (rc : Enc) : Bool :=
  chunkUncomp ≥ lim.target - MATCH_LEN_MAX
    || rc.outTotal + rc.pending ≥ lim.compLimit

/-- `lzma2_header_lzma` -/
def headerLzma (needProps needStateReset needDictReset : Bool) (usize csize : Nat) (p : Props) : List UInt8 :=
  let control :=
    if needProps then (if needDictReset then 0x80 + 3 * 32 else 0x80 + 2 * 32)
    else (if needStateReset then 0x80 + 32 else 0x80)
  let u := usize - 1
  let c := csize - 1
  [UInt8.ofNat (control + u / 65536), UInt8.ofNat ((u / 256) % 256), UInt8.ofNat (u % 256),
   UInt8.ofNat (c / 256), UInt8.ofNat (c % 256)] ++ (if needProps then [UInt8.ofNat p.encode] else [])

/-- `lzma2_header_uncompressed` -/
def headerUncompressed (needDictReset : Bool) (usize : Nat) : List UInt8 :=
  [if needDictReset then 1 else 2, UInt8.ofNat ((usize - 1) / 256), UInt8.ofNat ((usize - 1) % 256)]

/-- `lzma_lzma2_coder` + its LZMA encoder, between chunks -/
structure L2Enc where
  lz : LzmaEnc
  needProps : Bool
  needStateReset : Bool
  needDictReset : Bool
  /-- `is_initialized` of the LZMA encoder -/
  initialized : Bool
  deriving Inhabited

/-- `lzma2_encoder_init` -/
def L2Enc.new (p : Props) (hasPreset : Bool) : L2Enc :=
  { lz := LzmaEnc.new p, needProps := true, needStateReset := false, needDictReset := !hasPreset, initialized := hasPreset }

/-- bytes `[from, from+n)` of a ByteArray as a list -/
def sliceList (buf : ByteArray) (start n : Nat) : List UInt8 := (buf.extract start (start + n)).toList

/-- Encode ONE chunk (for given chunk-closing limits) starting at data offset `off` and trace index `ti`; `segEnd` = trace index where the current input
    segment ends (a flush marker or the end of the trace). Returns (bytes of the chunk incl. header, new offset, new trace
    index, new state, symbols encoded). Precondition: something is left to encode (`off < dataLen` up to the segment end). -/
def encodeChunkL (lim : ChunkLimits) (dictSize : Nat) (buf : ByteArray) (base : Nat) (trace : Array TraceRec) (segEnd : Nat)
    (c : L2Enc) (off ti : Nat) : Except String (List UInt8 × Nat × Nat × L2Enc × Nat) := do
  let p := c.lz.props
  -- SEQ_INIT
  let mut e := if c.needStateReset then c.lz.reset p else c.lz
  let mut o := off
  let mut i := ti
  let mut n := 0
  let mut ra := 0
  let mut initialized := c.initialized
  -- encode_init (first call of lzma_lzma_encode)
  if !initialized then
    e := e.encode (initOps (buf.get! (base + o)))
    e := { e with uncompSize := e.uncompSize + 1 }
    o := o + 1
    n := 1
    initialized := true
  -- the main loop
  let mut fuel := trace.size + 1
  while fuel > 0 do
    fuel := fuel - 1
    if chunkFullL lim (o - off) e.rc then break
    if i ≥ segEnd then break
    let r := trace[i]!
    if r.kind != 0 then
      throw s!"trace record {i}: unexpected kind {r.kind} inside a chunk"
    if r.pos != e.uncompSize % 4294967296 then
      throw s!"trace record {i}: position {r.pos} but the model's uncomp_size is {e.uncompSize}"
    let (sym, prev, mb) ← checkSym dictSize buf base o e.st r.back r.len
    let (ops, st') := symOps p e.st e.uncompSize prev mb sym
    e := e.encode ops
    e := { e with st := st', uncompSize := e.uncompSize + r.len }
    o := o + r.len
    ra := r.ra
    i := i + 1
    n := n + 1
  -- rc_flush
  let (payload, csize, e') := e.flush
  let usize := o - off
  if csize ≥ usize then
    -- uncompressed chunk; it also swallows the bytes the match finder had read ahead
    let usize := usize + ra
    if base + off + usize > buf.size then
      throw s!"uncompressed chunk at {off}: read_ahead {ra} runs past the end of the data"
    if usize > LZMA2_CHUNK_MAX || usize == 0 then
      throw s!"uncompressed chunk at {off} has size {usize}"
    let hdr := headerUncompressed c.needDictReset usize
    return (hdr ++ sliceList buf (base + off) usize, off + usize, i,
            { c with lz := e', needDictReset := false, needStateReset := true, initialized := initialized }, n)
  else
    if csize > LZMA2_CHUNK_MAX || usize > LZMA2_UNCOMPRESSED_MAX || usize == 0 then
      throw s!"LZMA chunk at {off}: sizes {usize}/{csize} out of range"
    let hdr := headerLzma c.needProps c.needStateReset c.needDictReset usize csize p
    return (hdr ++ payload, o, i,
            { c with lz := e', needProps := false, needStateReset := false, needDictReset := false, initialized := initialized }, n)

/-- `encodeChunkL ChunkLimits.std` written out (kept under its old name: the end-to-end proofs unfold it; equality:
    `LzmaExec.encodeChunk_std`). Encode ONE chunk starting at data offset `off` and trace index `ti`; `segEnd` = trace index where the current input
    segment ends (a flush marker or the end of the trace). Returns (bytes of the chunk incl. header, new offset, new trace
    index, new state, symbols encoded). Precondition: something is left to encode (`off < dataLen` up to the segment end). -/
def encodeChunk (dictSize : Nat) (buf : ByteArray) (base : Nat) (trace : Array TraceRec) (segEnd : Nat)
    (c : L2Enc) (off ti : Nat) : Except String (List UInt8 × Nat × Nat × L2Enc × Nat) := do
  let p := c.lz.props
  -- SEQ_INIT
  let mut e := if c.needStateReset then c.lz.reset p else c.lz
  let mut o := off
  let mut i := ti
  let mut n := 0
  let mut ra := 0
  let mut initialized := c.initialized
  -- encode_init (first call of lzma_lzma_encode)
  if !initialized then
    e := e.encode (initOps (buf.get! (base + o)))
    e := { e with uncompSize := e.uncompSize + 1 }
    o := o + 1
    n := 1
    initialized := true
  -- the main loop
  let mut fuel := trace.size + 1
  while fuel > 0 do
    fuel := fuel - 1
    if chunkFull (o - off) e.rc then break
    if i ≥ segEnd then break
    let r := trace[i]!
    if r.kind != 0 then
      throw s!"trace record {i}: unexpected kind {r.kind} inside a chunk"
    if r.pos != e.uncompSize % 4294967296 then
      throw s!"trace record {i}: position {r.pos} but the model's uncomp_size is {e.uncompSize}"
    let (sym, prev, mb) ← checkSym dictSize buf base o e.st r.back r.len
    let (ops, st') := symOps p e.st e.uncompSize prev mb sym
    e := e.encode ops
    e := { e with st := st', uncompSize := e.uncompSize + r.len }
    o := o + r.len
    ra := r.ra
    i := i + 1
    n := n + 1
  -- rc_flush
  let (payload, csize, e') := e.flush
  let usize := o - off
  if csize ≥ usize then
    -- uncompressed chunk; it also swallows the bytes the match finder had read ahead
    let usize := usize + ra
    if base + off + usize > buf.size then
      throw s!"uncompressed chunk at {off}: read_ahead {ra} runs past the end of the data"
    if usize > LZMA2_CHUNK_MAX || usize == 0 then
      throw s!"uncompressed chunk at {off} has size {usize}"
    let hdr := headerUncompressed c.needDictReset usize
    return (hdr ++ sliceList buf (base + off) usize, off + usize, i,
            { c with lz := e', needDictReset := false, needStateReset := true, initialized := initialized }, n)
  else
    if csize > LZMA2_CHUNK_MAX || usize > LZMA2_UNCOMPRESSED_MAX || usize == 0 then
      throw s!"LZMA chunk at {off}: sizes {usize}/{csize} out of range"
    let hdr := headerLzma c.needProps c.needStateReset c.needDictReset usize csize p
    return (hdr ++ payload, o, i,
            { c with lz := e', needProps := false, needStateReset := false, needDictReset := false, initialized := initialized }, n)

/-- index of the next flush marker (kind 2) at or after `i`, or `trace.size` -/
def nextMarker (trace : Array TraceRec) (i : Nat) : Nat := Id.run do
  let mut j := i
  while j < trace.size && trace[j]!.kind != 2 do
    j := j + 1
  return j

/-- `lzma2_encode` for a complete input: chunks until each flush point (a kind-2 record carries the input offset in `pos`)
    and until the end, then the end marker 0x00. Fails if the trace is not a valid description of the data. -/
def lzma2EncodeL (lim : ChunkLimits) (p : Props) (dictSize : Nat) (buf : ByteArray) (base : Nat) (trace : Array TraceRec) :
    Except String EncResult := do
  let dataLen := buf.size - base
  let mut c := L2Enc.new p (base > 0)
  let mut out : Array (List UInt8) := #[]
  let mut off := 0
  let mut ti := 0
  let mut n := 0
  let mut fuel := dataLen + trace.size + 2
  while fuel > 0 do
    fuel := fuel - 1
    let segEnd := nextMarker trace ti
    -- input available up to the flush point (or everything)
    let segLimit := if segEnd < trace.size then trace[segEnd]!.pos else dataLen
    if off > segLimit then
      throw s!"offset {off} beyond the flush point {segLimit}"
    if off == segLimit then
      -- SEQ_INIT with mf_unencoded == 0
      if ti != segEnd then
        throw s!"{segEnd - ti} trace records left at offset {off} where the input segment ends"
      if segEnd < trace.size then
        ti := segEnd + 1
        continue
      else break
    let (bytes, off', ti', c', k) ← encodeChunkL lim dictSize buf base trace segEnd c off ti
    if off' > segLimit then
      throw s!"chunk at {off} runs to {off'}, beyond the available input {segLimit}"
    out := out.push bytes
    off := off'
    ti := ti'
    c := c'
    n := n + k
  if off != dataLen then
    throw s!"the symbols cover {off} bytes, the data has {dataLen}"
  return { out := (out.toList.flatten) ++ [0], consumed := off, nsyms := n }

/-- `lzma2EncodeL ChunkLimits.std` written out (old name; equality: `LzmaExec.lzma2Encode_std`).
    `lzma2_encode` for a complete input: chunks until each flush point (a kind-2 record carries the input offset in `pos`)
    and until the end, then the end marker 0x00. Fails if the trace is not a valid description of the data. -/
def lzma2Encode (p : Props) (dictSize : Nat) (buf : ByteArray) (base : Nat) (trace : Array TraceRec) :
    Except String EncResult := do
  let dataLen := buf.size - base
  let mut c := L2Enc.new p (base > 0)
  let mut out : Array (List UInt8) := #[]
  let mut off := 0
  let mut ti := 0
  let mut n := 0
  let mut fuel := dataLen + trace.size + 2
  while fuel > 0 do
    fuel := fuel - 1
    let segEnd := nextMarker trace ti
    -- input available up to the flush point (or everything)
    let segLimit := if segEnd < trace.size then trace[segEnd]!.pos else dataLen
    if off > segLimit then
      throw s!"offset {off} beyond the flush point {segLimit}"
    if off == segLimit then
      -- SEQ_INIT with mf_unencoded == 0
      if ti != segEnd then
        throw s!"{segEnd - ti} trace records left at offset {off} where the input segment ends"
      if segEnd < trace.size then
        ti := segEnd + 1
        continue
      else break
    let (bytes, off', ti', c', k) ← encodeChunk dictSize buf base trace segEnd c off ti
    if off' > segLimit then
      throw s!"chunk at {off} runs to {off'}, beyond the available input {segLimit}"
    out := out.push bytes
    off := off'
    ti := ti'
    c := c'
    n := n + k
  if off != dataLen then
    throw s!"the symbols cover {off} bytes, the data has {dataLen}"
  return { out := (out.toList.flatten) ++ [0], consumed := off, nsyms := n }

end XzVerif.Lzma2Enc
