/-
  L7: the .lzma (LZMA_Alone) container decoder of liblzma, src/liblzma/common/alone_decoder.c, observed through
  `lzma_code` with the complete input present (any slicing of the input gives the same observation, property C06).

  WHAT IS MODELLED.  `aloneDecode P cfg input` = the final `lzma_ret`, the output bytes and `total_in` when the
  application keeps calling `lzma_code` (offering output space) until something other than `LZMA_OK` comes back;
  `Ret.ok` stands for "every input byte was consumed and the decoder wants more" (the API then says LZMA_BUF_ERROR).
  The order of checks is the order of `alone_decode`:
    SEQ_PROPERTIES        `lzma_lzma_lclppb_decode` fails        → LZMA_FORMAT_ERROR, byte not consumed
    SEQ_DICTIONARY_SIZE   4 bytes LE; picky test on the 4th byte → LZMA_FORMAT_ERROR, 4th byte not consumed (total_in = 4)
    SEQ_UNCOMPRESSED_SIZE 8 bytes LE; picky test after the 8th   → LZMA_FORMAT_ERROR, total_in = 13
    SEQ_CODER_INIT        memusage > memlimit                    → LZMA_MEMLIMIT_ERROR, total_in = 13
    SEQ_CODE              LZMA1EXT decoder with the header's size and LZMA_LZMA1EXT_ALLOW_EOPM.
  The LZMA1 payload decoder is a PARAMETER (`Payload`): the theorems about the container do not depend on its internals;
  the driver instantiates it with `Model/Lzma.lean` and, independently, with the verdicts of the real raw decoder.

  Core Lean only.
-/
import XzVerif.Model.Ret

namespace XzVerif.Alone

/-- little-endian value of a byte string (`read32le`, `read64le`, and the byte-at-a-time `|= b << (pos * 8)` loops) -/
def leNat : List UInt8 → Nat
  | [] => 0
  | b :: bs => b.toNat + 256 * leNat bs

abbrev UINT32_MAX : Nat := 4294967295
/-- `LZMA_VLI_UNKNOWN` = `UINT64_MAX` -/
abbrev UNKNOWN64 : Nat := 18446744073709551615

/-- What the LZMA1 decoder is initialised with (LZMA_FILTER_LZMA1EXT options as used by the containers). -/
structure LzmaOpts where
  lc : Nat
  lp : Nat
  pb : Nat
  dictSize : Nat
  /-- `none` = LZMA_VLI_UNKNOWN: the end marker is required -/
  uncomp : Option Nat
  /-- LZMA_LZMA1EXT_ALLOW_EOPM -/
  allowEopm : Bool
  deriving DecidableEq, Repr, Inhabited

/-- Verdict of a payload decoder given ALL remaining input: `.streamEnd` with the number of bytes it consumed,
    `.ok` = input exhausted in the middle of the stream, or an error code. -/
structure PRes where
  ret : Ret
  out : List UInt8
  consumed : Nat
  deriving DecidableEq, Repr, Inhabited

abbrev Payload := LzmaOpts → List UInt8 → PRes

/-- Observation of a container decoder (see the header comment). `events` are the informational returns
    (LZMA_NO_CHECK, LZMA_UNSUPPORTED_CHECK, LZMA_GET_CHECK) in the order `lzma_code` reported them; `mem` is
    `lzma_memusage()` when `ret = LZMA_MEMLIMIT_ERROR` (0 otherwise). -/
structure DRes where
  ret : Ret
  out : List UInt8
  consumed : Nat
  events : List Ret := []
  mem : Nat := 0
  deriving DecidableEq, Repr, Inhabited

/-- `lzma_lzma_lclppb_decode` (lzma_decoder.c): `none` = the function returns true. -/
def lclppbDecode (b : Nat) : Option (Nat × Nat × Nat) :=
  if b > (4 * 5 + 4) * 9 + 8 then none
  else
    let pb := b / (9 * 5)
    let r := b - pb * 9 * 5
    let lp := r / 9
    let lc := r - lp * 9
    if lc + lp > 4 then none else some (lc, lp, pb)

/-- The rounding of the picky test, in `uint32_t` arithmetic:
    `d = dict_size - 1; d |= d >> 2; d |= d >> 3; d |= d >> 4; d |= d >> 8; d |= d >> 16; ++d;` -/
def pickyRoundBV (ds : BitVec 32) : BitVec 32 :=
  let d := ds - 1
  let d := d ||| (d >>> 2)
  let d := d ||| (d >>> 3)
  let d := d ||| (d >>> 4)
  let d := d ||| (d >>> 8)
  let d := d ||| (d >>> 16)
  d + 1

/-- alone_decoder.c:76-93: `dict_size == UINT32_MAX || rounded(dict_size) == dict_size` -/
def pickyDictOk (ds : Nat) : Bool :=
  ds == UINT32_MAX || (pickyRoundBV (BitVec.ofNat 32 ds)).toNat == ds

/-- alone_decoder.c:116-120: known sizes of 256 GiB or more are implausible -/
def pickySizeOk (us : Nat) : Bool :=
  us == UNKNOWN64 || us < 2 ^ 38

structure Cfg where
  /-- true when created by the auto decoder -/
  picky : Bool
  memlimit : Nat
  /-- `lzma_lzma_decoder_memusage` of a zero-size dictionary + LZMA_MEMUSAGE_BASE (regenerated: Gen/C16 `memK`);
      the memory usage of dictionary size `d` is `memK + d` -/
  memK : Nat
  deriving Repr

/-- `coder->memlimit = my_max(1, memlimit)` -/
def effMemlimit (m : Nat) : Nat := max 1 m

def needMore (consumed : Nat) : DRes := { ret := .ok, out := [], consumed := consumed }
def fail (r : Ret) (consumed : Nat) : DRes := { ret := r, out := [], consumed := consumed }

def aloneOpts (lc lp pb ds us : Nat) : LzmaOpts :=
  { lc := lc, lp := lp, pb := pb, dictSize := ds,
    uncomp := if us = UNKNOWN64 then none else some us, allowEopm := true }

def aloneDecode (P : Payload) (cfg : Cfg) (inp : List UInt8) : DRes :=
  match inp with
  | [] => needMore 0
  | p :: r1 =>
    match lclppbDecode p.toNat with
    | none => fail .formatError 0
    | some (lc, lp, pb) =>
      if r1.length < 4 then needMore inp.length
      else
        let ds := leNat (r1.take 4)
        if cfg.picky && !pickyDictOk ds then fail .formatError 4
        else
          let r2 := r1.drop 4
          if r2.length < 8 then needMore inp.length
          else
            let us := leNat (r2.take 8)
            if cfg.picky && !pickySizeOk us then fail .formatError 13
            else if cfg.memK + ds > effMemlimit cfg.memlimit then
              { ret := .memlimitError, out := [], consumed := 13, mem := cfg.memK + ds }
            else
              let r := P (aloneOpts lc lp pb ds us) (r2.drop 8)
              { ret := r.ret, out := r.out, consumed := 13 + r.consumed }

end XzVerif.Alone
