/-
  Executable structural validator for complete .xz Streams, lone Blocks and .lzma headers, written from
  doc/xz-file-format.txt / doc/lzma-file-format.txt on top of the field codecs of Model/Container.lean.
  It is the "independent decoder and field checker" of property C02 for everything except the LZMA payload
  itself: it measures the real sizes by walking the bytes (Block Header size byte, LZMA2 chunk headers up to the
  end marker, Block Padding, Check, Index, Footer) and compares every stored field with what it measured.

  Works on `ByteArray` (the outputs are megabytes); small fields are handed to the `List UInt8` codecs.
  Core Lean only.
-/
import XzVerif.Model.Container

namespace XzVerif.XzStruct
open XzVerif XzVerif.Vli XzVerif.Container

/-! ### Fast table-driven CRC32/CRC64 over a slice (same polynomials as Model/Crc.lean; cross-checked against the
    reference definition at run time by `crcSelfTest`, which the driver runs before answering) -/

def crcTable32 : Array UInt32 := Array.ofFn (n := 256) fun i => (Crc.tab0 Crc.P32 i.val).toNat.toUInt32
def crcTable64 : Array UInt64 := Array.ofFn (n := 256) fun i => (Crc.tab0 Crc.P64 i.val).toNat.toUInt64

def crc32Go (a : ByteArray) (stop : Nat) : Nat → Nat → UInt32 → UInt32
  | 0, _, c => c
  | fuel + 1, i, c =>
    if i < stop then
      crc32Go a stop fuel (i + 1) (crcTable32[((c ^^^ (a.get! i).toUInt32) &&& 0xFF).toNat]! ^^^ (c >>> 8))
    else c

def crc32Slice (a : ByteArray) (start stop : Nat) : Nat :=
  ((crc32Go a stop (stop - start) start 0xFFFFFFFF) ^^^ 0xFFFFFFFF).toNat

def crc64Go (a : ByteArray) (stop : Nat) : Nat → Nat → UInt64 → UInt64
  | 0, _, c => c
  | fuel + 1, i, c =>
    if i < stop then
      crc64Go a stop fuel (i + 1) (crcTable64[((c ^^^ (a.get! i).toUInt64) &&& 0xFF).toNat]! ^^^ (c >>> 8))
    else c

def crc64Slice (a : ByteArray) (start stop : Nat) : Nat :=
  ((crc64Go a stop (stop - start) start 0xFFFFFFFFFFFFFFFF) ^^^ 0xFFFFFFFFFFFFFFFF).toNat

def slice (a : ByteArray) (start stop : Nat) : List UInt8 := (a.extract start stop).toList

/-- The fast CRCs agree with the reference definitions on a fixed set of buffers. -/
def crcSelfTest : Bool :=
  let bufs : List (List UInt8) := [[], [0], [0x31,0x32,0x33,0x34,0x35,0x36,0x37,0x38,0x39],
    (List.range 300).map (fun i => UInt8.ofNat (i * 7 + 3))]
  bufs.all fun b =>
    let ba := ByteArray.mk b.toArray
    crc32Slice ba 0 ba.size == Container.crc32 b && crc64Slice ba 0 ba.size == Container.crc64 b

def rdLE (a : ByteArray) (pos n : Nat) : Nat :=
  (List.range n).foldl (fun acc i => acc + (a.get! (pos + i)).toNat <<< (8 * i)) 0

def allZero (a : ByteArray) (start stop : Nat) : Bool :=
  (List.range (stop - start)).all fun i => a.get! (start + i) == 0

def eqSliceGo (a : ByteArray) (i : Nat) (b : ByteArray) (j : Nat) : Nat → Bool
  | 0 => true
  | n + 1 => if a.get! i == b.get! j then eqSliceGo a (i + 1) b (j + 1) n else false

/-- `a[i..i+len) = b[j..j+len)` (both ranges must be inside the arrays). -/
def eqSlice (a : ByteArray) (i : Nat) (b : ByteArray) (j len : Nat) : Bool :=
  i + len ≤ a.size && j + len ≤ b.size && eqSliceGo a i b j len

/-! ### LZMA2 chunk walk (xz-file-format.txt 5.3.1 refers to the LZMA2 layout implemented in lzma2_decoder.c) -/

structure Chunks where
  endPos : Nat          -- position after the 0x00 end marker
  uncompressed : Nat    -- sum of the chunks' uncompressed sizes
  count : Nat
  lzmaChunks : Nat      -- how many were LZMA (control ≥ 0x80)
  deriving Repr

/-- Walks chunk headers from `pos`. `plain = some (data, dpos)`: the chain is LZMA2 only, so uncompressed chunks
    must be literal copies of `data[dpos+…]`. The control-byte rules are those of `lzma2_decode` SEQ_CONTROL. -/
def walkChunks (a : ByteArray) (plain : Option (ByteArray × Nat)) :
    Nat → Nat → Bool → Bool → Nat → Nat → Nat → Except String Chunks
  | 0, _, _, _, _, _, _ => .error "chunks:no-end-marker"
  | fuel + 1, pos, needProps, needReset, usum, cnt, lz =>
    if pos ≥ a.size then .error "chunks:truncated-control"
    else
      let c := (a.get! pos).toNat
      if c = 0 then .ok { endPos := pos + 1, uncompressed := usum, count := cnt, lzmaChunks := lz }
      else
        let resets := c ≥ 0xE0 ∨ c = 1
        if !resets ∧ needReset then .error s!"chunks:first-chunk-without-dictionary-reset(control={c})"
        else
          let needProps := if resets then true else needProps
          if c ≥ 0x80 then
            if pos + 5 > a.size then .error "chunks:truncated-header"
            else
              let us := (c % 32) * 65536 + (a.get! (pos + 1)).toNat * 256 + (a.get! (pos + 2)).toNat + 1
              let cs := (a.get! (pos + 3)).toNat * 256 + (a.get! (pos + 4)).toNat + 1
              if c ≥ 0xC0 then
                if pos + 6 > a.size then .error "chunks:truncated-props"
                else if (lclppbDecode (a.get! (pos + 5)).toNat).isNone then .error "chunks:bad-lclppb"
                else if pos + 6 + cs > a.size then .error "chunks:compressed-size-overruns"
                else walkChunks a plain fuel (pos + 6 + cs) false false (usum + us) (cnt + 1) (lz + 1)
              else if needProps then .error s!"chunks:lzma-chunk-without-properties(control={c})"
              else if pos + 5 + cs > a.size then .error "chunks:compressed-size-overruns"
              else walkChunks a plain fuel (pos + 5 + cs) false false (usum + us) (cnt + 1) (lz + 1)
          else if c > 2 then .error s!"chunks:invalid-control({c})"
          else
            if pos + 3 > a.size then .error "chunks:truncated-header"
            else
              let cs := (a.get! (pos + 1)).toNat * 256 + (a.get! (pos + 2)).toNat + 1
              if pos + 3 + cs > a.size then .error "chunks:uncompressed-chunk-overruns"
              else
                let copyOk := match plain with
                  | none => true
                  | some (d, dpos) => eqSlice a (pos + 3) d (dpos + usum) cs
                if !copyOk then .error "chunks:uncompressed-chunk-differs-from-input"
                else walkChunks a plain fuel (pos + 3 + cs) needProps false (usum + cs) (cnt + 1) lz

/-! ### Blocks -/

structure BlockInfo where
  headerSize : Nat
  compressed : Nat
  uncompressed : Nat
  chunks : Nat
  filterIds : List Nat
  deriving Repr

def BlockInfo.show (b : BlockInfo) : String :=
  s!"{b.headerSize}/{b.compressed}/{b.uncompressed}/{b.chunks}/" ++ "+".intercalate (b.filterIds.map toString)

/-- The Check field at `pos` must be the check of `data[dpos..dpos+len)`. SHA-256 (ID 10) is only sized here. -/
def checkFieldOk (out : ByteArray) (pos check : Nat) (data : ByteArray) (dpos len : Nat) : Bool :=
  if check = 1 then rdLE out pos 4 == crc32Slice data dpos (dpos + len)
  else if check = 4 then rdLE out pos 8 == crc64Slice data dpos (dpos + len)
  else true

/-- Validates the Block starting at `pos` whose uncompressed data must be `data[dpos..]`.
    Returns what was measured and the position after the Check field. -/
def validateBlock (out : ByteArray) (pos check : Nat) (data : ByteArray) (dpos : Nat) : Except String (BlockInfo × Nat) :=
  if pos ≥ out.size then .error "block:truncated"
  else
    let hs := ((out.get! pos).toNat + 1) * 4
    if pos + hs > out.size then .error "block-header:truncated"
    else match blockHeaderDecode check (slice out pos (pos + hs)) with
      | .error e => .error s!"block-header:ret={e}"
      | .ok bh =>
        let ids := bh.filters.map (·.id)
        match validateChain ids with
        | .error e => .error s!"filter-chain:ret={e}"
        | .ok _ =>
          if !(bh.filters.all fun f => match propsDecode f.id f.props with
                | .ok o => filterInitOk o
                | .error _ => false) then .error "filter-options-invalid"
          else if ids.getLast? ≠ some FILTER_LZMA2 then .error "last-filter-not-lzma2"
          else
            let plain := if ids.length = 1 then some (data, dpos) else none
            match walkChunks out plain out.size (pos + hs) true true 0 0 0 with
            | .error e => .error e
            | .ok ch =>
              let clen := ch.endPos - (pos + hs)
              if bh.compressedSize.isSome ∧ bh.compressedSize ≠ some clen then
                .error s!"compressed-size-field:{bh.compressedSize.getD 0}≠{clen}"
              else if bh.uncompressedSize.isSome ∧ bh.uncompressedSize ≠ some ch.uncompressed then
                .error s!"uncompressed-size-field:{bh.uncompressedSize.getD 0}≠{ch.uncompressed}"
              else if dpos + ch.uncompressed > data.size then .error "block-longer-than-input"
              else
                let pad := (4 - clen % 4) % 4
                let cpos := ch.endPos + pad
                let csz := checkSize check
                if cpos + csz > out.size then .error "block-padding-or-check:truncated"
                else if !allZero out ch.endPos cpos then .error "block-padding:nonzero"
                else if !checkFieldOk out cpos check data dpos ch.uncompressed then .error "check-value"
                else if blockUnpaddedSize 1 hs check (some clen) ≠ hs + clen + csz then .error "unpadded-size-out-of-range"
                else .ok ({ headerSize := hs, compressed := clen, uncompressed := ch.uncompressed,
                            chunks := ch.count, filterIds := ids }, cpos + csz)

def validateBlocks (out : ByteArray) (check : Nat) (data : ByteArray) :
    Nat → Nat → Nat → List BlockInfo → Except String (List BlockInfo × Nat × Nat)
  | 0, _, _, _ => .error "blocks:no-index"
  | fuel + 1, pos, dpos, acc =>
    if pos ≥ out.size then .error "blocks:truncated-before-index"
    else if out.get! pos == 0 then .ok (acc.reverse, pos, dpos)
    else match validateBlock out pos check data dpos with
      | .error e => .error s!"block{acc.length}:{e}"
      | .ok (bi, npos) => validateBlocks out check data fuel npos (dpos + bi.uncompressed) (bi :: acc)

/-- Full structural validation of one .xz Stream `out` that must encode `data` with Check ID `check`.
    `.ok summary` lists what was measured. -/
def validateXz (out : ByteArray) (check : Nat) (data : ByteArray) : Except String String :=
  if out.size < 2 * STREAM_HEADER_SIZE then .error "stream:too-short"
  else match streamHeaderDecode (slice out 0 12) with
    | .error e => .error s!"stream-header:ret={e}"
    | .ok hf =>
      if hf.check ≠ check then .error s!"stream-header:check={hf.check}"
      else match validateBlocks out check data out.size 12 0 [] with
        | .error e => .error e
        | .ok (blocks, ipos, dend) =>
          if dend ≠ data.size then .error s!"uncompressed-total:{dend}≠{data.size}"
          else match indexDecode (slice out ipos out.size) with
            | .error e => .error s!"index:ret={e}"
            | .ok (recs, rest) =>
              let isz := (out.size - ipos) - rest.length
              let want := blocks.map fun b => IndexRecord.mk (b.headerSize + b.compressed + checkSize check) b.uncompressed
              if recs ≠ want then .error "index-records-differ-from-blocks"
              else if isz % 4 ≠ 0 then .error "index-size-not-multiple-of-4"
              else if rest.length ≠ STREAM_HEADER_SIZE then .error s!"footer:length={rest.length}"
              else match streamFooterDecode rest with
                | .error e => .error s!"stream-footer:ret={e}"
                | .ok (ff, bs) =>
                  if ff ≠ hf then .error "footer-flags-differ-from-header"
                  else if bs ≠ isz then .error s!"backward-size:{bs}≠{isz}"
                  else .ok (s!"ok check={check} blocks={blocks.length} index={isz} " ++ ";".intercalate (blocks.map (·.show)))

/-- A lone Block (output of `lzma_block_buffer_encode` / `lzma_block_uncomp_encode`). -/
def validateLoneBlock (out : ByteArray) (check : Nat) (data : ByteArray) : Except String String :=
  match validateBlock out 0 check data 0 with
  | .error e => .error e
  | .ok (bi, npos) =>
    if npos ≠ out.size then .error s!"block:trailing={out.size - npos}"
    else if bi.uncompressed ≠ data.size then .error s!"uncompressed-total:{bi.uncompressed}≠{data.size}"
    else .ok ("ok " ++ bi.show)

/-- The 13-byte .lzma header (lzma-file-format.txt 1.1): properties byte, dictionary size, uncompressed size. -/
def validateAlone (out : ByteArray) : Except String String :=
  if out.size < 13 + 5 then .error "alone:too-short"
  else match lclppbDecode (out.get! 0).toNat with
    | none => .error "alone:bad-properties-byte"
    | some (lc, lp, pb) =>
      if out.get! 13 ≠ 0 then .error "alone:first-range-coder-byte-not-zero"
      else .ok s!"ok {lc}/{lp}/{pb} dict={rdLE out 1 4} usize={rdLE out 5 8}"

/-! ### Per-chunk properties (for encoders whose lc/lp/pb change mid-stream through `lzma_filters_update`) -/

/-- Walks the chunks of one Block payload (already validated) from `pos`; `doff` = offset of the chunk's first byte in
    the Stream's uncompressed data. Collects `(doff, properties byte)` for every chunk that carries a properties byte
    (control ≥ 0xC0) and `(doff, 256)` for LZMA chunks that reuse the previous properties. Returns the list (newest
    first), the position after the end marker and the data offset after the Block. -/
def chunkPropsGo (a : ByteArray) : Nat → Nat → Nat → List (Nat × Nat) → List (Nat × Nat) × Nat × Nat
  | 0, pos, doff, acc => (acc, pos, doff)
  | fuel + 1, pos, doff, acc =>
    if pos ≥ a.size then (acc, pos, doff)
    else
      let c := (a.get! pos).toNat
      if c = 0 then (acc, pos + 1, doff)
      else if c ≥ 0x80 then
        let us := (c % 32) * 65536 + (a.get! (pos + 1)).toNat * 256 + (a.get! (pos + 2)).toNat + 1
        let cs := (a.get! (pos + 3)).toNat * 256 + (a.get! (pos + 4)).toNat + 1
        if c ≥ 0xC0 then chunkPropsGo a fuel (pos + 6 + cs) (doff + us) ((doff, (a.get! (pos + 5)).toNat) :: acc)
        else chunkPropsGo a fuel (pos + 5 + cs) (doff + us) ((doff, 256) :: acc)
      else
        let cs := (a.get! (pos + 1)).toNat * 256 + (a.get! (pos + 2)).toNat + 1
        chunkPropsGo a fuel (pos + 3 + cs) (doff + cs) acc

def streamChunkPropsGo (out : ByteArray) (check : Nat) : Nat → Nat → Nat → List (Nat × Nat) → List (Nat × Nat)
  | 0, _, _, acc => acc
  | fuel + 1, pos, doff, acc =>
    if pos ≥ out.size then acc
    else if out.get! pos == 0 then acc
    else
      let hs := ((out.get! pos).toNat + 1) * 4
      let (acc', endPos, doff') := chunkPropsGo out out.size (pos + hs) doff acc
      let clen := endPos - (pos + hs)
      streamChunkPropsGo out check fuel (endPos + (4 - clen % 4) % 4 + checkSize check) doff' acc'

/-- All LZMA chunks of a (validated) Stream: `offset:propsbyte` (`offset:-` when the chunk reuses the properties),
    comma separated, in stream order; "-" when there is none. -/
def streamChunkProps (out : ByteArray) (check : Nat) : String :=
  let l := (streamChunkPropsGo out check out.size 12 0 []).reverse
  if l.isEmpty then "-"
  else ",".intercalate (l.map fun p => s!"{p.1}:" ++ (if p.2 = 256 then "-" else toString p.2))

end XzVerif.XzStruct
