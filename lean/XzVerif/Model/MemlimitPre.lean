/-
  C09 (part 2b): call order  create → lzma_memlimit_set()* → first lzma_code().
  `lzma_memlimit_set` may be called on a decoder that has not seen any input yet. For the .xz/.lzma/.lz/Index decoders
  the usual memconfig callback runs with `memusage` = the value of a fresh decoder (LZMA_MEMUSAGE_BASE, or
  lzma_index_memusage(1, 0) for the Index decoder). `lzma_auto_decoder` has no sub-decoder yet: auto_decoder_memconfig
  takes its "No coder is configured yet" branch (usage LZMA_MEMUSAGE_BASE) and must store an accepted value in its OWN
  `coder->memlimit`, because that copy is what SEQ_INIT hands to the .xz/.lzma/.lz decoder it creates on the first byte.
  The threaded decoder changes `memlimit_stop` only; `memlimit_threading` keeps the value clamped at initialisation.
  A run with such calls is, by definition here, the run of a decoder created with the resulting limit (the decoders have
  no other state before the first byte); the correspondence with the real code checks exactly that claim.
  Core Lean only.
-/
import XzVerif.Model.Memlimit

namespace XzVerif.Memlimit
open XzVerif XzVerif.Memusage

/-- One `lzma_memlimit_set()` made before the first input byte: value passed, return code, `lzma_memlimit_get()` and
    `lzma_memusage()` afterwards. -/
structure PreEv where
  v : Nat
  ret : Nat
  limitAfter : Nat
  usage : Nat
  deriving Repr, DecidableEq

def PreEv.fmt (e : PreEv) : String := s!"P{e.v}={e.ret}/{e.limitAfter}/{e.usage}"

/-- Every token is executed in order (`usage` = `lzma_memusage()` of the fresh decoder, which `n` tokens refer to):
    (events, limit afterwards). -/
def applyPre (usage : Nat) : Nat → List SetTok → List PreEv × Nat
  | limit, [] => ([], limit)
  | limit, t :: rest =>
    let v := t.value usage
    let (r, l') := memlimitSet usage limit v
    let (evs, lf) := applyPre usage l' rest
    ({ v := v, ret := r, limitAfter := l', usage := usage } :: evs, lf)

/-- The limit a decoder created with `limit` has after the calls `pre`. -/
def preLimit (usage limit : Nat) (pre : List SetTok) : Nat := (applyPre usage (initLimit limit) pre).2

/-! ## lzma_auto_decoder before the format is known -/

/-- `lzma_auto_coder` while `coder->next` is still empty: only its own copy of the limit exists. -/
structure AutoPending where
  memlimit : Nat
  deriving Repr, DecidableEq

/-- `auto_decoder_memconfig` in its "No coder is configured yet" branch, called through `lzma_memlimit_set(strm, v)`:
    (return code, state). The accepted value is stored in `coder->memlimit`. -/
def AutoPending.set (a : AutoPending) (v : Nat) : Nat × AutoPending :=
  let v' := if v = 0 then 1 else v
  if v' < MEMUSAGE_BASE then (6, a) else (0, { memlimit := v' })

def AutoPending.setAll (a : AutoPending) : List SetTok → AutoPending
  | [] => a
  | t :: rest => ((a.set (t.value MEMUSAGE_BASE)).2).setAll rest

/-- SEQ_INIT: the limit passed to lzma_stream_decoder_init / lzma_lzip_decoder_init / lzma_alone_decoder_init. -/
def AutoPending.subLimit (a : AutoPending) : Nat := a.memlimit

/-! ## Runs with calls before the first input byte -/

def xzRunPre (b : Build) (flags limit : Nat) (pre sets : List SetTok) (inp : List UInt8) : Nat × Run :=
  xzRun b flags (preLimit MEMUSAGE_BASE limit pre) sets inp

def aloneRunPre (b : Build) (limit : Nat) (pre sets : List SetTok) (inp : List UInt8) : Nat × Run :=
  aloneRun b (preLimit MEMUSAGE_BASE limit pre) sets inp

def lzipRunPre (b : Build) (flags limit : Nat) (pre sets : List SetTok) (inp : List UInt8) : Nat × Run :=
  lzipRun b flags (preLimit MEMUSAGE_BASE limit pre) sets inp

/-- The auto decoder: its pending state takes the calls, the sub-decoder is created with what it stored. -/
def autoRunPre (b : Build) (flags limit : Nat) (pre sets : List SetTok) (inp : List UInt8) : Nat × Run :=
  autoRun b flags (({ memlimit := initLimit limit } : AutoPending).setAll pre).subLimit sets inp

def indexRunPre (b : Build) (limit : Nat) (pre sets : List SetTok) (inp : List UInt8) : Nat × Run :=
  indexRun b (preLimit ((indexMemusage b 1 0).getD UINT64_MAX) limit pre) sets inp

/-! ## Line protocol -/

/-- The harness line of a run with pre-input calls: the `I` event of the creation with the original limit, the `P`
    events, then everything the run from the resulting limit prints after its own `I` event. -/
def fmtFinalPre (code : Nat) (usage0 limit : Nat) (pe : List PreEv) (r : Run) : String :=
  let c := r.core
  let evs := Ev.fmt (.init 0 usage0 (initLimit limit)) :: pe.map PreEv.fmt ++ (r.out.reverse.drop 1).map Ev.fmt
  s!"{" ".intercalate evs} R{code} in={r.consumed} live={c.heap.live} peak={c.heap.peak} allocs={fmtList c.heap.reqs.reverse} end={c.memusage}/{c.memlimit} leak=0"

def preEvents (usage limit : Nat) (pre : List SetTok) : List PreEv := (applyPre usage (initLimit limit) pre).1

def runXzPre (b : Build) (flags limit : Nat) (pre sets : List SetTok) (inp : List UInt8) : String :=
  let (code, r) := xzRunPre b flags limit pre sets inp
  fmtFinalPre code MEMUSAGE_BASE limit (preEvents MEMUSAGE_BASE limit pre) r

def runAlonePre (b : Build) (limit : Nat) (pre sets : List SetTok) (inp : List UInt8) : String :=
  let (code, r) := aloneRunPre b limit pre sets inp
  fmtFinalPre code MEMUSAGE_BASE limit (preEvents MEMUSAGE_BASE limit pre) r

def runLzipPre (b : Build) (flags limit : Nat) (pre sets : List SetTok) (inp : List UInt8) : String :=
  let (code, r) := lzipRunPre b flags limit pre sets inp
  fmtFinalPre code MEMUSAGE_BASE limit (preEvents MEMUSAGE_BASE limit pre) r

def runAutoPre (b : Build) (flags limit : Nat) (pre sets : List SetTok) (inp : List UInt8) : String :=
  let (code, r) := autoRunPre b flags limit pre sets inp
  fmtFinalPre code MEMUSAGE_BASE limit (preEvents MEMUSAGE_BASE limit pre) r

def runIndexPre (b : Build) (limit : Nat) (pre sets : List SetTok) (inp : List UInt8) : String :=
  let u0 := (indexMemusage b 1 0).getD UINT64_MAX
  let (code, r) := indexRunPre b limit pre sets inp
  fmtFinalPre code u0 limit (preEvents u0 limit pre) r

/-- Threaded decoder: `stream_decoder_mt_memconfig` replaces `memlimit_stop`; `memlimit_threading` stays what
    `stream_decoder_mt_init` made of it. -/
def runXzMtPre (b : Build) (threads flags limThr limStop : Nat) (pre sets : List SetTok) (inp : List UInt8) : String :=
  let core0 := MtCore.init limThr limStop
  let (pe, stop') := applyPre core0.memusage core0.memlimitStop pre
  let core := { core0 with memlimitStop := stop' }
  let h := ({} : Heap).allocs [b.szInternal, b.szStreamDecoderMt, b.szIndexHash]
  let r : MtRun := { core := core, sets := sets, threads := threads, mem := { heap := h } }
  let (code, r') := mtStreams b (Flags.ofNat flags) (inp.length + 2) true r inp
  let evs := Ev.fmt (.init 0 core0.memusage core0.memlimitStop) :: pe.map PreEv.fmt ++ r'.out.reverse.map Ev.fmt
  s!"{" ".intercalate evs} R{code}"

/-! ## Single-call decoders with an in/out memory limit -/

/-- One `lzma_stream_buffer_decode(&memlimit, flags, allocator, in, &in_pos, in_size, out, …)` over a complete file with
    enough output space: (return code, `*memlimit` afterwards, peak bytes, `*in_pos` afterwards). It is one run of the
    Stream decoder (no lzma_internal: the coder is used directly) with LZMA_FINISH and nobody answering
    LZMA_MEMLIMIT_ERROR; on that error the amount needed is written back into `*memlimit`; on every other result
    `*memlimit` is untouched; positions are restored on any error. -/
def streamBufStep (b : Build) (flags limit : Nat) (inp : List UInt8) : Nat × Nat × Nat × Nat :=
  if flags / 4 % 2 = 1 then (11, limit, 0, 0)           -- LZMA_TELL_ANY_CHECK is not allowed here
  else
    let (code, r) := xzRun b flags limit [] inp
    let peak := r.core.heap.peak - b.szInternal
    if code = 1 then (0, limit, peak, r.consumed)
    else if code = 6 then (6, r.core.memusage, peak, 0)
    else if code = 10 then (9, limit, peak, 0)            -- truncated input: LZMA_DATA_ERROR
    else (code, limit, peak, 0)

/-- One `lzma_index_buffer_decode(&i, &memlimit, allocator, in, &in_pos, in_size)` over a valid Index field. -/
def indexBufStep (b : Build) (limit : Nat) (inp : List UInt8) : Nat × Nat × Nat × Nat :=
  let h := ({} : Heap).allocs [b.szIndex, b.szIndexStream]
  match inp with
  | [] => (9, limit, h.peak, 0)
  | _ :: r0 =>
    match Vli.vliDecode r0 with
    | none => (9, limit, h.peak, 0)
    | some (count, _) =>
      let mu := (indexMemusage b 1 count).getD UINT64_MAX
      if mu > initLimit limit then (6, mu, h.peak, 0)
      else match Container.indexDecode inp with
        | .error _ => (9, limit, h.peak, 0)
        | .ok (_, rest) =>
          let h2 := if count = 0 then h else h.alloc (b.szIndexGroup + count * b.szIndexRecord)
          (0, limit, h2.peak, inp.length - rest.length)

/-- The caller's loop: after LZMA_MEMLIMIT_ERROR call again with the value written back, at most `retries` times. -/
def bufRetry (step : Nat → Nat × Nat × Nat × Nat) : Nat → Nat → List String
  | retries, limit =>
    let (ret, ml, peak, pos) := step limit
    let ev := s!"B{ret}/{ml}/{peak}/{pos}"
    match retries with
    | 0 => [ev]
    | n + 1 => if ret = 6 then ev :: bufRetry step n ml else [ev]

def runStreamBuf (b : Build) (flags limit retries : Nat) (inp : List UInt8) : String :=
  " ".intercalate (bufRetry (fun l => streamBufStep b flags l inp) retries limit)

def runIndexBufRetry (b : Build) (limit retries : Nat) (inp : List UInt8) : String :=
  " ".intercalate (bufRetry (fun l => indexBufStep b l inp) retries limit)

/-- "<pre>;<reactions>" → (pre, reactions); without ';' there are no pre-input calls. -/
def parseSetsPre (s : String) : Option (Option (List SetTok) × List SetTok) :=
  match s.splitOn ";" with
  | [r] => (parseSets r).map fun x => (none, x)
  | [p, r] =>
    match parseSets p, parseSets r with
    | some p, some r => some (some p, r)
    | _, _ => none
  | _ => none

end XzVerif.Memlimit
