/-
  L7 (encoder side): the container-level ENCODERS of liblzma at whole-buffer level, on top of the field codecs of
  Model/Container.lean:
    src/liblzma/common/block_encoder.c          `blockEncodeST`      (streaming Block encoder: sizes absent from the header)
    src/liblzma/common/stream_encoder.c         `streamEncodeST`     (multi-call Stream encoder; one Block per flush-separated piece)
    src/liblzma/common/block_buffer_encoder.c   `blockBufferEncode`  (single-call Block encoder incl. the uncompressed fall-back)
    src/liblzma/common/stream_buffer_encoder.c  `streamBufferEncode` (single-call Stream encoder = lzma_easy_buffer_encode)
    src/liblzma/common/stream_encoder_mt.c      `blockEncodeMT`, `streamEncodeMT` (worker_encode: header written late into reserved space)
    src/liblzma/common/alone_encoder.c          `aloneEncode`        (.lzma header)

  WHAT IS MODELLED.  The complete byte string an encoder has produced when it is given its whole input (and, for the
  multi-call encoders, LZMA_FINISH at the end and LZMA_FULL_FLUSH/LZMA_FULL_BARRIER between the pieces), or the
  `lzma_ret` it fails with.  Output slicing is not modelled (it is property C06); the tie to the C code is the
  `encxz`/`encblock`/`encalone` correspondence of ./check C02: the model, fed with the C encoder's own per-Block payload
  bytes, must reproduce the C output byte for byte.

  PARAMETERS (`EncEnv`).  The raw filter-chain encoder (`lzma_raw_encoder_init` + `code(LZMA_FINISH)`) and the integrity
  check are parameters, so the container theorems hold for every payload encoder and every check function:
    `encPayload chain data` = the Compressed Data the raw encoder produces for `data` when it has unlimited output space.
  The single-call and threaded encoders run the raw encoder with LIMITED output space and fall back to uncompressed LZMA2
  chunks when it does not finish; the model decides this by `(encPayload chain data).length ≤ limit` (the raw encoder's
  output does not depend on how much space it is offered — C06 — so "did not finish within `limit` bytes" is exactly
  "its complete output is longer than `limit`").

  Core Lean only.
-/
import XzVerif.Model.Container
import XzVerif.Model.Check

namespace XzVerif.XzEncode
open XzVerif XzVerif.Vli XzVerif.Container

/-- What the container encoders call out to. -/
structure EncEnv where
  /-- `lzma_raw_encoder_init(filters)` + `code(in, LZMA_FINISH)` with unlimited output space: the Compressed Data -/
  encPayload : List FilterOpts → List UInt8 → List UInt8
  /-- the return value of `lzma_raw_encoder_init(filters)` (`.ok`, or LZMA_OPTIONS_ERROR / LZMA_MEM_ERROR / LZMA_PROG_ERROR:
      `lzma_validate_chain` and every filter's own option checks, which `FilterOpts` does not carry completely) -/
  rawInit : List FilterOpts → Ret
  /-- `lzma_check_init/update/finish`: the first `lzma_check_size(id)` bytes of `check.buffer` for the given data -/
  check : Nat → List UInt8 → List UInt8

/-! ## The integrity checks of this build (Model/Check.lean) -/

def stdCheckImpl : Check.Impl :=
  { crc32 := Crc.crc32Ref, crc64 := Crc.crc64Ref, shaK := Sha256.K, shaInit := Sha256.H0 }

def stdCheckState0 : Check.State :=
  { buf := List.replicate 64 0, crc32 := 0, crc64 := 0, shaState := List.replicate 8 0, shaSize := 0 }

/-- The Check field of a Block with uncompressed data `data`: `lzma_check_init`, `lzma_check_update` over all of it,
    `lzma_check_finish` (the same function as `XzEnv.check`, which the decoder model compares against). -/
def stdCheck (id : Nat) (data : List UInt8) : List UInt8 := Check.run stdCheckImpl id stdCheckState0 [data]

/-! ## Block encoder (block_encoder.c) -/

/-- Block Padding after `n` bytes of Compressed Data: `while (compressed_size & 3) out[pos++] = 0x00`. -/
def blockPadding (n : Nat) : List UInt8 := List.replicate ((4 - n % 4) % 4) 0

/-- What an encoder reports about a finished Block: its bytes and the two values it passes to `lzma_index_append`. -/
structure BlockOut where
  bytes : List UInt8
  /-- `lzma_block_unpadded_size(block)` after encoding -/
  unpadded : Nat
  /-- `block->uncompressed_size` after encoding -/
  uncompressed : Nat
  deriving DecidableEq, Repr, Inhabited

/-- `lzma_block_encoder_init(next, allocator, block)` with `block->version = 0`: the checks before the coder exists. -/
def blockEncoderInit (E : EncEnv) (check : Nat) (fs : List FilterOpts) : Ret :=
  if check > CHECK_ID_MAX then .progError
  else if !checkIsSupported check then .unsupportedCheck
  else E.rawInit fs

/-- `block_encode` from SEQ_CODE to the end, all input present and LZMA_FINISH: Compressed Data, Block Padding, Check;
    also the final `block->compressed_size`.  The two LZMA_DATA_ERROR exits are the size limits at the top of the function. -/
def blockBody (E : EncEnv) (check : Nat) (fs : List FilterOpts) (data : List UInt8) : Res (List UInt8 × Nat) :=
  if data.length > VLI_MAX then .error .dataError
  else
    let p := E.encPayload fs data
    if p.length > COMPRESSED_SIZE_MAX then .error .dataError
    else .ok (p ++ blockPadding p.length ++ E.check check data, p.length)

/-- One Block of the multi-call Stream encoder (stream_encoder.c `block_encoder_init`, SEQ_BLOCK_INIT … SEQ_BLOCK_ENCODE):
    the Block Header is written BEFORE the data, so Compressed Size and Uncompressed Size are absent from it. -/
def blockEncodeST (E : EncEnv) (check : Nat) (fs : List FilterOpts) (data : List UInt8) : Res BlockOut :=
  -- block_encoder_init(): compressed_size = uncompressed_size = LZMA_VLI_UNKNOWN; lzma_block_header_size
  match blockHeaderSize 0 none none fs with
  | .error e => .error e
  | .ok hs =>
    let r := blockEncoderInit E check fs
    if r ≠ .ok then .error r
    else
      -- SEQ_BLOCK_INIT: lzma_block_header_encode into coder->buffer
      match blockHeaderEncodeWith 0 hs check none none fs with
      | .error _ => .error .progError
      | .ok hdr =>
        match blockBody E check fs data with
        | .error e => .error e
        | .ok (body, cs) =>
          .ok { bytes := hdr ++ body, unpadded := blockUnpaddedSize 0 hs check (some cs), uncompressed := data.length }

/-! ## Stream encoder (stream_encoder.c) -/

structure Cfg where
  /-- `lzma_check` of the Stream -/
  check : Nat
  /-- the filter chain (`lzma_filter[]` up to the LZMA_VLI_UNKNOWN terminator) -/
  filters : List FilterOpts
  deriving DecidableEq, Repr, Inhabited

/-- The Blocks of a Stream and the Index built alongside (`lzma_index_append` after every Block).  `enc` encodes one
    Block; a piece without input creates no Block (SEQ_BLOCK_INIT with `*in_pos == in_size`).  `acc` = the totals of the
    `lzma_index` so far. -/
def blocksEncode (enc : List UInt8 → Res BlockOut) : List (List UInt8) → IndexAcc → Res (List UInt8 × List IndexRecord)
  | [], _ => .ok ([], [])
  | d :: rest, acc =>
    if d.isEmpty then blocksEncode enc rest acc
    else
      match enc d with
      | .error e => .error e
      | .ok b =>
        match indexAppend acc b.unpadded b.uncompressed with
        | .error e => .error e
        | .ok acc' =>
          match blocksEncode enc rest acc' with
          | .error e => .error e
          | .ok (bytes, recs) => .ok (b.bytes ++ bytes, ⟨b.unpadded, b.uncompressed⟩ :: recs)

/-- SEQ_INDEX_ENCODE + SEQ_STREAM_FOOTER: the Index field for the recorded sizes and the Stream Footer whose
    Backward Size is `lzma_index_size(index)`. -/
def streamTail (check : Nat) (recs : List IndexRecord) : Res (List UInt8) :=
  match streamFooterEncode { check := check } (indexSize recs.length (indexListSize recs)) with
  | .error _ => .error .progError
  | .ok ftr => .ok (indexEncode recs ++ ftr)

/-- `stream_encoder_init`: Stream Header, then `stream_encoder_update` → `block_encoder_init` (so an unusable chain or
    Check is reported before anything is written). -/
def streamInit (E : EncEnv) (cfg : Cfg) : Res (List UInt8) :=
  match streamHeaderEncode { check := cfg.check } with
  | .error e => .error e
  | .ok hdr =>
    match blockHeaderSize 0 none none cfg.filters with
    | .error e => .error e
    | .ok _ =>
      let r := blockEncoderInit E cfg.check cfg.filters
      if r ≠ .ok then .error r else .ok hdr

/-- `lzma_stream_encoder(strm, filters, check)` driven over `blocks`: every element is the input given before one
    LZMA_FULL_FLUSH / LZMA_FULL_BARRIER (the last one before LZMA_FINISH); the filter chain is not changed in between.
    Output: Stream Header ++ Blocks ++ Index ++ Stream Footer. -/
def streamEncodeST (E : EncEnv) (cfg : Cfg) (blocks : List (List UInt8)) : Res (List UInt8) :=
  match streamInit E cfg with
  | .error e => .error e
  | .ok hdr =>
    match blocksEncode (blockEncodeST E cfg.check cfg.filters) blocks {} with
    | .error e => .error e
    | .ok (bytes, recs) =>
      match streamTail cfg.check recs with
      | .error e => .error e
      | .ok tail => .ok (hdr ++ bytes ++ tail)

/-! ## Single-call Block encoder (block_buffer_encoder.c) -/

/-- `block_encode_normal`: `(header ++ Compressed Data, header_size, compressed_size)`; `avail = out_size - *out_pos`
    (already reduced by the Check size), `block->compressed_size = lzma2_bound(n)`, `block->uncompressed_size = n`. -/
def blockEncodeNormal (E : EncEnv) (check : Nat) (fs : List FilterOpts) (data : List UInt8) (avail : Nat) :
    Res (List UInt8 × Nat × Nat) :=
  let l2 := lzma2Bound data.length
  match blockHeaderSize 0 (some l2) (some data.length) fs with
  | .error e => .error e
  | .ok hs =>
    if avail ≤ hs then .error .bufError
    else
      -- the raw encoder may use at most min(space after the header, lzma2_bound(n)) bytes
      let limit := if avail - hs > l2 then l2 else avail - hs
      let r := E.rawInit fs
      if r ≠ .ok then .error r
      else
        let p := E.encPayload fs data
        if p.length > limit then .error .bufError        -- code() returned LZMA_OK: output buffer became full
        else
          -- LZMA_STREAM_END: the Block Header is written into the reserved space with the real Compressed Size
          match blockHeaderEncodeWith 0 hs check (some p.length) (some data.length) fs with
          | .error _ => .error .progError
          | .ok hdr => .ok (hdr ++ p, hs, p.length)

/-- `block_encode_uncompressed`: Block Header for LZMA2 with the minimum dictionary, then uncompressed chunks. -/
def blockEncodeUncompressed (check : Nat) (data : List UInt8) (avail : Nat) : Res (List UInt8 × Nat × Nat) :=
  let l2 := lzma2Bound data.length
  match blockHeaderSize 0 (some l2) (some data.length) [.lzma2 DICT_SIZE_MIN] with
  | .error _ => .error .progError
  | .ok hs =>
    if avail < hs + l2 then .error .bufError
    else match blockHeaderEncodeWith 0 hs check (some l2) (some data.length) [.lzma2 DICT_SIZE_MIN] with
      | .error _ => .error .progError
      | .ok hdr => .ok (hdr ++ lzma2UncompressedChunks data, hs, l2)

/-- `block_buffer_encode(block{version 0, check, filters}, in, in_size, out, &out_pos, out_size, try_to_compress)` with
    `avail = out_size - *out_pos`.  `tryToCompress = true` is `lzma_block_buffer_encode`, `false` is
    `lzma_block_uncomp_encode`. -/
def blockBufferEncode (E : EncEnv) (tryToCompress : Bool) (check : Nat) (fs : List FilterOpts) (data : List UInt8)
    (avail : Nat) : Res BlockOut :=
  if check > CHECK_ID_MAX then .error .progError
  else if !checkIsSupported check then .error .unsupportedCheck
  else
    let avail := avail - avail % 4
    if avail ≤ checkSize check then .error .bufError
    else
      let avail := avail - checkSize check
      if lzma2Bound data.length = 0 then .error .dataError
      else
        let first : Res (List UInt8 × Nat × Nat) :=
          if tryToCompress then blockEncodeNormal E check fs data avail else .error .bufError
        let res : Res (List UInt8 × Nat × Nat) :=
          match first with
          | .ok r => .ok r
          | .error e => if e ≠ .bufError then .error e else blockEncodeUncompressed check data avail
        match res with
        | .error e => .error e
        | .ok (bytes, hs, cs) =>
          .ok { bytes := bytes ++ blockPadding cs ++ E.check check data,
                unpadded := blockUnpaddedSize 0 hs check (some cs), uncompressed := data.length }

/-! ## Single-call Stream encoder (stream_buffer_encoder.c) -/

/-- The second half of `lzma_stream_buffer_encode`: `lzma_index_append` of the Block's sizes (if there is a Block),
    `lzma_index_buffer_encode` into the `avail` bytes that are left before the reserved footer space, Stream Footer. -/
def streamBufferFinish (check : Nat) (hdr bytes : List UInt8) (recs : List IndexRecord) (avail : Nat) : Res (List UInt8) :=
  match indexAppendAll recs {} with
  | .error e => .error e
  | .ok _ =>
    match indexBufferEncode recs avail with
    | .error e => .error e
    | .ok idx =>
      match streamFooterEncode { check := check } (indexSize recs.length (indexListSize recs)) with
      | .error _ => .error .progError
      | .ok ftr => .ok (hdr ++ bytes ++ idx ++ ftr)

/-- `lzma_stream_buffer_encode(filters, check, NULL, in, in_size, out, &out_pos, out_size)` with
    `avail = out_size - *out_pos` (also `lzma_easy_buffer_encode`, which only looks the chain up from a preset). -/
def streamBufferEncode (E : EncEnv) (cfg : Cfg) (data : List UInt8) (avail : Nat) : Res (List UInt8) :=
  if cfg.check > CHECK_ID_MAX then .error .progError
  else if !checkIsSupported cfg.check then .error .unsupportedCheck
  else if avail ≤ 2 * STREAM_HEADER_SIZE then .error .bufError
  else
    -- space for the Stream Footer is reserved, the Stream Header is written
    let avail := avail - STREAM_HEADER_SIZE
    match streamHeaderEncode { check := cfg.check } with
    | .error _ => .error .progError
    | .ok hdr =>
      let avail := avail - STREAM_HEADER_SIZE
      let blk : Res (List UInt8 × List IndexRecord) :=
        if data.isEmpty then .ok ([], [])
        else match blockBufferEncode E true cfg.check cfg.filters data avail with
          | .error e => .error e
          | .ok b => .ok (b.bytes, [⟨b.unpadded, b.uncompressed⟩])
      match blk with
      | .error e => .error e
      | .ok (bytes, recs) => streamBufferFinish cfg.check hdr bytes recs (avail - bytes.length)

/-! ## Threaded Stream encoder (stream_encoder_mt.c), the container part -/

/-- `worker_encode` for one Block of `data` (`data.length ≤ blockSize`): the header size is fixed first from the LARGEST
    values the size fields can take (`outbuf->allocated` and `block_size`), the streaming Block encoder writes behind the
    reserved space, and the header is encoded afterwards with the real sizes.  When the Block does not fit into the
    output buffer (`lzma_block_buffer_bound64(block_size)` bytes), `lzma_block_uncomp_encode` rewrites it from the start. -/
def blockEncodeMT (E : EncEnv) (check : Nat) (fs : List FilterOpts) (blockSize : Nat) (data : List UInt8) : Res BlockOut :=
  let outAlloc := blockBufferBound64 blockSize
  match blockHeaderSize 0 (some outAlloc) (some blockSize) fs with
  | .error e => .error e
  | .ok hs =>
    let r := blockEncoderInit E check fs
    if r ≠ .ok then .error r
    else
      match blockBody E check fs data with
      | .error e => .error e
      | .ok (body, cs) =>
        if hs + body.length ≤ outAlloc then
          match blockHeaderEncodeWith 0 hs check (some cs) (some data.length) fs with
          | .error e => .error e
          | .ok hdr =>
            .ok { bytes := hdr ++ body, unpadded := blockUnpaddedSize 0 hs check (some cs), uncompressed := data.length }
        else
          match blockBufferEncode E false check fs data outAlloc with
          | .error _ => .error .progError
          | .ok b => .ok b

/-- Cut `l` into consecutive pieces of `n` bytes (the last one may be shorter). -/
def chunksOf (n : Nat) : Nat → List UInt8 → List (List UInt8)
  | 0, _ => []
  | fuel + 1, l => if l.isEmpty then [] else l.take n :: chunksOf n fuel (l.drop n)

/-- `lzma_stream_encoder_mt` driven over `pieces` (input between LZMA_FULL_FLUSH / LZMA_FULL_BARRIER / LZMA_FINISH):
    a new Block starts every `blockSize` bytes and at every flush; the output queue keeps the Blocks in input order.
    Only the successful path is modelled in detail (initialisation errors: the Stream Header and Check tests). -/
def streamEncodeMT (E : EncEnv) (cfg : Cfg) (blockSize : Nat) (pieces : List (List UInt8)) : Res (List UInt8) :=
  if blockSize = 0 then .error .optionsError
  else if cfg.check > CHECK_ID_MAX then .error .progError
  else if !checkIsSupported cfg.check then .error .unsupportedCheck
  else
    match streamHeaderEncode { check := cfg.check } with
    | .error e => .error e
    | .ok hdr =>
      match blocksEncode (blockEncodeMT E cfg.check cfg.filters blockSize)
          (pieces.flatMap fun p => chunksOf blockSize p.length p) {} with
      | .error e => .error e
      | .ok (bytes, recs) =>
        match streamTail cfg.check recs with
        | .error e => .error e
        | .ok tail => .ok (hdr ++ bytes ++ tail)

/-! ## .lzma encoder (alone_encoder.c) -/

/-- The dictionary size stored in the .lzma header: `d = dict_size - 1`, smeared, `if (d != UINT32_MAX) ++d`. -/
def aloneDictField (dictSize : Nat) : Nat :=
  let d := dictSmear (dictSize - 1)
  if d ≠ UINT32_MAX then d + 1 else d

/-- `lzma_alone_encoder(strm, options)` + all input + LZMA_FINISH: properties byte, dictionary size, 8 × 0xFF
    (uncompressed size unknown: the end marker is always used), then the LZMA1 stream. -/
def aloneEncode (E : EncEnv) (lc lp pb dictSize : Nat) (data : List UInt8) : Res (List UInt8) :=
  match lclppbEncode lc lp pb with
  | none => .error .optionsError
  | some b =>
    if dictSize < DICT_SIZE_MIN then .error .optionsError
    else
      let fs := [FilterOpts.lzma1 FILTER_LZMA1 lc lp pb dictSize]
      let r := E.rawInit fs
      if r ≠ .ok then .error r
      else .ok (UInt8.ofNat b :: (le32 (aloneDictField dictSize) ++ List.replicate 8 0xFF ++ E.encPayload fs data))

end XzVerif.XzEncode
