/-
  The integrity-check dispatch of src/liblzma/check/check.c (lzma_check_size, lzma_check_is_supported,
  lzma_check_init/update/finish) over the parts of `lzma_check_state` that are observable: the 64-byte buffer and
  the running value of the check in use. Core Lean only.
-/
import XzVerif.Model.Crc
import XzVerif.Model.Sha256
namespace XzVerif.Check
open XzVerif

/-- `LZMA_CHECK_ID_MAX` -/
def idMax : Nat := 15

/-- file-format.txt section 2.1.1.2: size of the Check field per Check ID. -/
def sizeTable : List Nat := [0, 4, 4, 4, 8, 8, 8, 16, 16, 16, 32, 32, 32, 64, 64, 64]

/-- `lzma_check_size(type)`: `UINT32_MAX` for an ID above `LZMA_CHECK_ID_MAX`. -/
def checkSize (id : Nat) : Nat := if id > idMax then 4294967295 else sizeTable.getD id 0

/-- `lzma_check_is_supported(type)` in a build with all three checks enabled: None, CRC32, CRC64, SHA-256. -/
def isSupported (id : Nat) : Bool := id == 0 || id == 1 || id == 4 || id == 10

/-- The members of the `state` union are kept side by side: a caller uses one `type` from init to finish, so the
    aliasing of the union is not observable. -/
structure State where
  buf : List UInt8            -- check->buffer.u8[64]
  crc32 : BitVec 32           -- check->state.crc32
  crc64 : BitVec 64           -- check->state.crc64
  shaState : List Sha256.W32  -- check->state.sha256.state
  shaSize : Nat               -- check->state.sha256.size
deriving Repr, DecidableEq

/-- Parameters taken from the code at hand: the CRC functions the dispatch calls, SHA256_K and the initial SHA state. -/
structure Impl where
  crc32 : List UInt8 → BitVec 32 → BitVec 32
  crc64 : List UInt8 → BitVec 64 → BitVec 64
  shaK : List Sha256.W32
  shaInit : List Sha256.W32

def State.ck (s : State) : Sha256.Ck := { buf := s.buf, state := s.shaState, size := s.shaSize }
def State.withCk (s : State) (c : Sha256.Ck) : State := { s with buf := c.buf, shaState := c.state, shaSize := c.size }

def le32bytes (x : BitVec 32) : List UInt8 := (List.range 4).map fun i => UInt8.ofNat (x.toNat / 2 ^ (8 * i) % 256)
def le64bytes (x : BitVec 64) : List UInt8 := (List.range 8).map fun i => UInt8.ofNat (x.toNat / 2 ^ (8 * i) % 256)

/-- `lzma_check_init` -/
def init (I : Impl) (id : Nat) (s : State) : State :=
  if id = 1 then { s with crc32 := 0 }
  else if id = 4 then { s with crc64 := 0 }
  else if id = 10 then s.withCk (Sha256.initC I.shaInit s.buf)
  else s

/-- `lzma_check_update` -/
def update (I : Impl) (id : Nat) (s : State) (bs : List UInt8) : State :=
  if id = 1 then { s with crc32 := I.crc32 bs s.crc32 }
  else if id = 4 then { s with crc64 := I.crc64 bs s.crc64 }
  else if id = 10 then s.withCk (Sha256.updateC (Sha256.trC I.shaK) s.ck bs)
  else s

/-- `lzma_check_finish`: the result is stored at the start of the buffer (CRCs little endian). -/
def finish (I : Impl) (id : Nat) (s : State) : State :=
  if id = 1 then { s with buf := le32bytes s.crc32 ++ s.buf.drop 4 }
  else if id = 4 then { s with buf := le64bytes s.crc64 ++ s.buf.drop 8 }
  else if id = 10 then s.withCk (Sha256.finishC (Sha256.trC I.shaK) s.ck)
  else s

/-- init, update over consecutive pieces, finish; the Check field is the first `checkSize id` bytes of the buffer. -/
def run (I : Impl) (id : Nat) (s0 : State) (pieces : List (List UInt8)) : List UInt8 :=
  let s := finish I id (pieces.foldl (update I id) (init I id s0))
  s.buf.take (if checkSize id ≤ 64 then checkSize id else 0)

end XzVerif.Check
