/-
  The resumable raw LZMA1 / LZMA2 decoder (`Model/LzmaResume.lean`) as an instance of the generic coder framework of
  `Model/Coder.lean` (property C06): one `code` call is offered an input SLICE and an output capacity, as `lzma_code` offers
  `avail_in` / `avail_out`. The call-level model `callR` wants the input so far (consumed bytes followed by the offered ones — it never
  looks at a consumed byte again) and the total output allowance; `lzCoder` builds both from the coder state.
  The action is ignored: the raw decoders ignore LZMA_FINISH.
  Core Lean only. Correspondence with the exact-window runs `runSlicedX` and the slicing theorems: `Lemmas/LzmaResumeCoder.lean`.
-/
import XzVerif.Model.Coder
import XzVerif.Model.LzmaResumeRun

namespace XzVerif.LzmaR
open XzVerif.Lzma XzVerif.Lzma2

/-- the bytes a call wrote (`old` = decoder before the call, `new` = after): the history is append-only -/
def callOut (old new : RSt) : List UInt8 := histFrom new.s.hist old.s.hist.size

/-- One `code` call of the raw decoder on an input slice `inp` with `cap` bytes of output space. -/
def lzCoder (kind : Kind) : XzVerif.Coder.Coder RSt where
  code r inp cap _act :=
    -- the consumed bytes followed by the offered slice
    let buf := (r.s.inp.extract 0 r.s.inPos) ++ toBuf inp
    let x := callR kind buf (r.s.produced + cap) r
    (x.2, { consumed := x.2.s.inPos - r.s.inPos, out := callOut r x.2, ret := x.1 })

end XzVerif.LzmaR
