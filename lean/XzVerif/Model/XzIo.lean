/-
  C17 — the file-pair protocol of the `xz` tool (src/xz/coder.c `coder_run`, src/xz/file_io.c) as a deterministic
  state machine over an abstract operating system.  Core Lean only.

  One `step` = exactly one system call on the file pair (so "the k-th call" of the fault/signal/crash plans is the
  k-th step, and the state after `n` steps is what a process killed before its (n+1)-th call leaves behind).
  The coder (liblzma) is abstract: a schedule `List (Op α)` of the I/O requests the coding loop will make if nothing
  fails (`io_read(n)`, `io_write(buf)`, loop-head checks of `user_abort`, `io_fix_src_pos`), then `Fin`.
  Payloads are `List α`; the driver instantiates `α := Unit` (only lengths matter there).

  Signals: `signals_block()` is in force inside io_open_src/io_open_dest/io_close, and `user_abort` is read only outside
  those regions (coder_run after coder_init, the loop heads, EINTR handling, io_wait).  Setting `userAbort` at once
  is therefore observationally the same as deferring delivery to `signals_unblock()`, and that is what the model does.
-/
namespace XzVerif.XzIo

def EINTR : Nat := 4
def EAGAIN : Nat := 11
def ENOENT : Nat := 2
def EEXIST : Nat := 17
def EPIPE : Nat := 32

/-- inode ids of the abstract file system -/
def inoSrc : Nat := 1      -- the user's source file
def inoPre : Nat := 2      -- a target file that existed before xz started
def inoOwn : Nat := 3      -- the target created by this run
def inoForeign : Nat := 4  -- a file put under one of the names by another process during the run

inductive Mode | compress | decompress | test
deriving DecidableEq, Repr

structure Opts where
  mode : Mode := .compress
  keep : Bool := false      -- -k
  force : Bool := false     -- -f
  stdout : Bool := false    -- -c
  stdin : Bool := false     -- the source is standard input
  sync : Bool := true       -- false with --no-sync
  root : Bool := true       -- geteuid() == 0  (warn_fchown)
deriving Repr

namespace Opts
/-- args.c: `opt_stdout` after parsing (`--test` implies it) -/
def toStdout (o : Opts) : Bool := o.stdout || o.mode == .test
/-- args.c: `opt_keep_original` after parsing -/
def keepEff (o : Opts) : Bool := o.keep || o.toStdout
/-- args.c: `opt_synchronous` after parsing -/
def syncEff (o : Opts) : Bool := o.sync && !o.keepEff
/-- io_open_dest_real: `opt_stdout || pair->src_fd == STDIN_FILENO` -/
def destStdout (o : Opts) : Bool := o.toStdout || o.stdin
def followSymlinks (o : Opts) : Bool := o.toStdout || o.force || o.keepEff
end Opts

inductive Fault
  | err (e : Nat)      -- the call fails with this errno
  | short (c : Nat)    -- read/write: the count is cut to `max 1 c`
deriving DecidableEq, Repr

inductive InitRes | ok | error
deriving DecidableEq, Repr

inductive Fin | ok | error
deriving DecidableEq, Repr

/-- requests of the coding loop, in the order the loop would make them -/
inductive Op (α : Type) where
  | tick                                  -- loop head `while (!user_abort)`
  | read (n : Nat)                        -- io_read(pair, &in_buf, n)
  | write (d : List α) (sparse : Bool)    -- io_write(pair, buf, |d|); sparse = a full all-zero buffer
  | fixPos (n : Nat)                      -- io_fix_src_pos(pair, n)

inductive Target | src | dst | dir
deriving DecidableEq, Repr

inductive Call
  | openSrc (nofollow : Bool)
  | fstat (t : Target)
  | openDir
  | unlinkForce
  | openDest                              -- O_WRONLY|O_CREAT|O_EXCL|O_NOCTTY|O_NONBLOCK, 0600
  | read (n : Nat)
  | write (n : Nat)
  | lseek (t : Target) (off : Int)        -- SEEK_CUR
  | poll (t : Target)
  | fchownUid | fchownGid | fchmod | futimens
  | fsync (t : Target)
  | close (t : Target)
  | stat (t : Target) (follow : Bool)     -- io_unlink: lstat(), or stat() with --force
  | unlink (t : Target)
deriving DecidableEq, Repr

inductive Res | ok (v : Nat) | err (e : Nat)
deriving DecidableEq, Repr

structure Event where
  call : Call
  res : Res
deriving DecidableEq, Repr

structure FS (α : Type) where
  srcName : Option Nat := some inoSrc
  dstName : Option Nat := none
  srcLinked : Bool := true        -- the original source inode still exists (under some name)
  preLinked : Bool := true
  ownLinked : Bool := false
  foreignLinked : Bool := true
  own : List (List α) := []       -- pieces written into inode `inoOwn`, newest first
  ownSynced : Bool := false       -- fsync(file) succeeded after the last write
  dirSynced : Bool := false       -- fsync(directory) succeeded after the name was created
  out : List (List α) := []       -- pieces written to standard output, newest first

def content {α : Type} (pieces : List (List α)) : List α := pieces.reverse.flatten

namespace FS
variable {α : Type}
def unlinkIno (fs : FS α) (i : Nat) : FS α :=
  if i = inoSrc then { fs with srcLinked := false }
  else if i = inoPre then { fs with preLinked := false }
  else if i = inoOwn then { fs with ownLinked := false }
  else { fs with foreignLinked := false }

def unlinkSrcName (fs : FS α) : FS α :=
  match fs.srcName with
  | some i => { fs.unlinkIno i with srcName := none }
  | none => fs

def unlinkDstName (fs : FS α) : FS α :=
  match fs.dstName with
  | some i => { fs.unlinkIno i with dstName := none }
  | none => fs

/-- another process renames the file away and creates its own file under the name -/
def replace (fs : FS α) (isSrc : Bool) : FS α :=
  if isSrc then { fs with srcName := some inoForeign } else { fs with dstName := some inoForeign }

def durable (fs : FS α) : Bool := fs.ownSynced && fs.dirSynced
end FS

inductive Pc
  | openSrc | fstatSrc | closeSrcErr
  | openDir | unlinkForce | openDest | closeDirErr | fstatDest | lseekOut
  | read | readPoll | write | writePoll | seekHole | fixPos | tailSeek
  | fchownUid | fchownGid | fchmod | futimens | fsyncFile | fsyncDir
  | closeDir | closeDest | statDest | unlinkDest | closeSrc | statSrc | unlinkSrc
  | done
deriving DecidableEq, Repr

structure Cfg (α : Type) where
  o : Opts
  srcSize : Nat
  srcSkip : Bool := false      -- io_open_src_real rejects the file after fstat (directory, links, setuid, ...)
  gidDiffers : Bool := false   -- dest_st.st_gid != src_st.st_gid
  outRegular : Bool := false   -- stdout is a regular file positioned at its end
  pre : List (Op α) := []      -- requests before coder_init (decompression: the first io_read)
  init : InitRes := .ok        -- result of coder_init()
  ops : List (Op α)            -- requests of coder_normal / coder_passthru
  fin : Fin
  fault : Nat → Option Fault
  signalAt : Option Nat := none
  moveAt : Option (Nat × Bool) := none   -- (k, true = the source name / false = the target name)
  zero : α

structure St (α : Type) where
  pc : Pc
  k : Nat := 0
  trace : List Event := []     -- newest first
  fs : FS α := {}
  ops : List (Op α) := []
  main : Bool := false         -- coder_init has been called (s.ops are requests of the coding loop)
  userAbort : Bool := false
  exitSt : Nat := 0
  success : Bool := false
  rdRem : Nat := 0
  srcPos : Nat := 0
  wr : List α := []
  hole : Nat := 0
  pending : Nat := 0
  trySparse : Bool := false
  srcOpen : Bool := false
  destOpen : Bool := false     -- dest_fd is a file created by this run
  dirOpen : Bool := false
  destStIno : Nat := 0
  srcStIno : Nat := 0
  blk : Nat := 0               -- signals_block_count (signals.c): > 0 = the hooked signals are blocked

variable {α : Type}

def msgError (s : St α) : St α := { s with exitSt := 1 }
def msgWarn (s : St α) : St α := { s with exitSt := if s.exitSt = 1 then 1 else 2 }
def emit (s : St α) (c : Call) (r : Res) : St α := { s with trace := ⟨c, r⟩ :: s.trace }

def isRetry (e : Nat) : Bool := e = EINTR || e = EAGAIN

/-! ### message and progress paths (message.c): each one blocks the hooked signals while it prints and unblocks again.
    `msgError` / `msgWarn` above stand for vmessage() + set_exit_status(); message_progress_end() is called when the
    coding loop is left.  They are modelled here with their early returns; `Lemmas/XzIoBlk.lean` proves that every path
    through them gives back the state unchanged -- in particular the block count -- which is why `exec` can elide them. -/

def sigBlock (s : St α) : St α := { s with blk := s.blk + 1 }
def sigUnblock (s : St α) : St α := { s with blk := s.blk - 1 }

/-- vmessage(v, ...): `if (v <= verbosity) { signals_block(); fprintf...; signals_unblock(); }` -/
def vmessage (printed : Bool) (s : St α) : St α :=
  if printed then sigUnblock (sigBlock s) else s

/-- progress_flush(finished): two early returns, then signals_block(); fprintf...; signals_unblock() -/
def progressFlush (started verbose finished active posZero : Bool) (s : St α) : St α :=
  if !started || !verbose then s
  else if !finished && !active && posZero then s
  else sigUnblock (sigBlock s)

/-- message_progress_start(): `if (verbosity >= V_VERBOSE && progress_automatic) { signals_block(); ...; signals_unblock(); }` -/
def progressStart (verboseAuto : Bool) (s : St α) : St α :=
  if verboseAuto then sigUnblock (sigBlock s) else s

/-! ### io_close -/

def closeSrcPhase (c : Cfg α) (s : St α) : St α :=
  -- reaching the end of io_close(): signals_unblock()
  if c.o.stdin || !s.srcOpen then { s with pc := .done, blk := s.blk - 1 } else { s with pc := .closeSrc }

def closeDestPhase (c : Cfg α) (s : St α) : St α :=
  if !s.destOpen then closeSrcPhase c s
  else if s.dirOpen then { s with pc := .closeDir } else { s with pc := .closeDest }

def afterAttrs (c : Cfg α) (s : St α) : St α :=
  if c.o.syncEff then { s with pc := .fsyncFile } else closeDestPhase c s

def closeBlock (c : Cfg α) (s : St α) : St α :=
  -- io_close(): signals_block() (after the sparse tail)
  if s.success && s.destOpen then { s with pc := .fchownUid, blk := s.blk + 1 }
  else closeDestPhase c { s with blk := s.blk + 1 }

/-- io_close(pair, s.success) -/
def ioClose (c : Cfg α) (s : St α) : St α :=
  if s.success && s.trySparse && decide (s.pending > 0) then { s with pc := .tailSeek } else closeBlock c s

/-- an I/O request of the coding loop failed (or user_abort was seen): the loop is left with success = false -/
def ioFail (c : Cfg α) (s : St α) : St α := closeBlock c { s with success := false, ops := [] }

def finish (c : Cfg α) (s : St α) : St α :=
  match c.fin with
  | .ok => ioClose c { s with success := true }
  | .error => ioFail c (msgError s)

/-- error exit of io_open_dest_real(): the directory fd is closed there -/
def openDestErr (c : Cfg α) (s : St α) : St α :=
  if s.dirOpen then { s with pc := .closeDirErr } else ioFail c { s with blk := s.blk - 1 }

/-- run the coding loop (coder_normal / coder_passthru) up to its next system call -/
def nextMain (c : Cfg α) : List (Op α) → St α → St α
  | [], s => finish c { s with ops := [] }
  | .tick :: r, s => if s.userAbort then ioFail c s else nextMain c r s
  | .read n :: r, s => if n = 0 then nextMain c r s else { s with ops := r, rdRem := n, pc := .read }
  | .write d sp :: r, s =>
      if c.o.mode == .test then nextMain c r s
      else if s.trySparse && sp then nextMain c r { s with pending := s.pending + d.length }
      else if d.isEmpty then nextMain c r s
      else if s.trySparse && decide (s.pending > 0) then { s with ops := r, wr := d, pc := .seekHole }
      else { s with ops := r, wr := d, pc := .write }
  | .fixPos n :: r, s => if n = 0 then nextMain c r s else { s with ops := r, rdRem := n, pc := .fixPos }

/-- coder_run after the first read: coder_init(), `!user_abort`, io_open_dest() -/
def doInit (c : Cfg α) (s : St α) : St α :=
  let s := { s with main := true, ops := c.ops }
  if c.init == .error then ioFail c (msgError s)
  else if s.userAbort then ioFail c s
  else if c.o.mode == .test then nextMain c c.ops s
  -- io_open_dest(): signals_block()
  else if c.o.destStdout then { s with pc := .fstatDest, blk := s.blk + 1 }
  else if c.o.syncEff then { s with pc := .openDir, blk := s.blk + 1 }
  else if c.o.force then { s with pc := .unlinkForce, blk := s.blk + 1 }
  else { s with pc := .openDest, blk := s.blk + 1 }

/-- requests made before coder_init (no target exists yet; nothing is written) -/
def nextPre (c : Cfg α) : List (Op α) → St α → St α
  | [], s => doInit c s
  | .read n :: r, s => if n = 0 then nextPre c r s else { s with ops := r, rdRem := n, pc := .read }
  | _ :: r, s => nextPre c r s

def continueLoop (c : Cfg α) (s : St α) : St α :=
  if s.main then nextMain c s.ops s else nextPre c s.ops s

/-- the write currently in progress is the one-byte tail of io_close (ops are exhausted and success is set) -/
def afterWrite (c : Cfg α) (s : St α) : St α :=
  if s.success then closeBlock c s else continueLoop c s

/-- append to the target (own file, with the pending hole materialised as zeros) or to stdout -/
def appendData (c : Cfg α) (s : St α) (d : List α) : St α :=
  if s.destOpen then
    { s with fs := { s.fs with own := d :: List.replicate s.hole c.zero :: s.fs.own, ownSynced := false }, hole := 0 }
  else { s with fs := { s.fs with out := d :: List.replicate s.hole c.zero :: s.fs.out }, hole := 0 }

/-- pre-actions of the k-th call: another process replaces a name; a signal arrives -/
def preActions (c : Cfg α) (s : St α) : St α :=
  let s := { s with k := s.k + 1 }
  let s := match c.moveAt with
    | some (k', isSrc) => if k' = s.k then { s with fs := s.fs.replace isSrc } else s
    | none => s
  if c.signalAt = some s.k then { s with userAbort := true } else s

def count (f : Option Fault) (req : Nat) : Nat :=
  match f with
  | some (.short c) => min req (max 1 c)
  | _ => req

def errOf (f : Option Fault) : Option Nat :=
  match f with
  | some (.err e) => some e
  | _ => none

/-- perform the system call at `s.pc` (pre-actions already applied, `s.k` is the index of this call) -/
def exec (c : Cfg α) (s : St α) : St α :=
  let f := c.fault s.k
  match s.pc with
  | .done => s
  | .openSrc =>
    let call := Call.openSrc (!c.o.followSymlinks)
    match errOf f, s.fs.srcName with
    | some e, _ => { msgError (emit s call (.err e)) with pc := .done, blk := s.blk - 1 }
    | none, none => { msgError (emit s call (.err ENOENT)) with pc := .done, blk := s.blk - 1 }
    | none, some i => { emit s call (.ok 0) with srcOpen := true, srcStIno := i, pc := .fstatSrc }
  | .fstatSrc =>
    match errOf f with
    | some e => { msgError (emit s (.fstat .src) (.err e)) with pc := .closeSrcErr }
    | none =>
      let s := emit s (.fstat .src) (.ok s.srcStIno)
      if c.srcSkip then { msgWarn s with pc := .closeSrcErr } else continueLoop c { s with blk := s.blk - 1 }
  | .closeSrcErr =>
    { emit s (.close .src) (match errOf f with | some e => .err e | none => .ok 0) with srcOpen := false, pc := .done, blk := s.blk - 1 }
  | .openDir =>
    match errOf f with
    | some e => ioFail c { msgError (emit s .openDir (.err e)) with blk := s.blk - 1 }
    | none =>
      let s := { emit s .openDir (.ok 0) with dirOpen := true }
      if c.o.force then { s with pc := .unlinkForce } else { s with pc := .openDest }
  | .unlinkForce =>
    match errOf f, s.fs.dstName with
    | some e, _ =>
      let s := emit s .unlinkForce (.err e)
      if e = ENOENT then { s with pc := .openDest } else openDestErr c (msgError s)
    | none, none => { emit s .unlinkForce (.err ENOENT) with pc := .openDest }
    | none, some _ => { emit s .unlinkForce (.ok 0) with fs := s.fs.unlinkDstName, pc := .openDest }
  | .openDest =>
    match errOf f, s.fs.dstName with
    | some e, _ => openDestErr c (msgError (emit s .openDest (.err e)))
    | none, some _ => openDestErr c (msgError (emit s .openDest (.err EEXIST)))
    | none, none =>
      { emit s .openDest (.ok 0) with
        fs := { s.fs with dstName := some inoOwn, ownLinked := true, own := [], ownSynced := false, dirSynced := false },
        destOpen := true, pc := .fstatDest }
  | .closeDirErr =>
    ioFail c { emit s (.close .dir) (match errOf f with | some e => .err e | none => .ok 0) with dirOpen := false, blk := s.blk - 1 }
  | .fstatDest =>
    match errOf f with
    | some e => continueLoop c { emit s (.fstat .dst) (.err e) with destStIno := 0, blk := s.blk - 1 }
    | none =>
      let s := { emit s (.fstat .dst) (.ok (if s.destOpen then inoOwn else 0)) with destStIno := if s.destOpen then inoOwn else 0 }
      if c.o.mode == .decompress then
        if s.destOpen then continueLoop c { s with trySparse := true, blk := s.blk - 1 }
        else if c.outRegular then { s with pc := .lseekOut }
        else continueLoop c { s with blk := s.blk - 1 }
      else continueLoop c { s with blk := s.blk - 1 }
  | .lseekOut =>
    match errOf f with
    | some e => continueLoop c { emit s (.lseek .dst 0) (.err e) with blk := s.blk - 1 }
    | none => continueLoop c { emit s (.lseek .dst 0) (.ok 0) with trySparse := true, blk := s.blk - 1 }
  | .read =>
    match errOf f with
    | some e =>
      let s := emit s (.read s.rdRem) (.err e)
      if e = EINTR then (if s.userAbort then ioFail c s else s)
      else if e = EAGAIN then { s with pc := .readPoll }
      else ioFail c (msgError s)
    | none =>
      let amount := min (count f s.rdRem) (c.srcSize - s.srcPos)
      let s := emit s (.read s.rdRem) (.ok amount)
      if amount = 0 then continueLoop c s
      else
        let s := { s with srcPos := s.srcPos + amount, rdRem := s.rdRem - amount }
        if s.rdRem = 0 then continueLoop c s else s
  | .readPoll =>
    let s := emit s (.poll .src) (match errOf f with | some e => .err e | none => .ok 0)
    if s.userAbort then ioFail c s
    else match errOf f with
      | some e => if isRetry e then s else ioFail c (msgError s)
      | none => { s with pc := .read }
  | .write =>
    match errOf f with
    | some e =>
      let s := emit s (.write s.wr.length) (.err e)
      if e = EINTR then (if s.userAbort then ioFail c s else s)
      else if e = EAGAIN then { s with pc := .writePoll }
      -- EPIPE: no message (SIGPIPE normally comes with it), but `set_exit_status(E_ERROR)` (fix fad6dfb)
      else if e = EPIPE then ioFail c (msgError s)
      else ioFail c (msgError s)
    | none =>
      let n := count f s.wr.length
      let s := emit s (.write s.wr.length) (.ok n)
      let s := { appendData c s (s.wr.take n) with wr := s.wr.drop n }
      if s.wr.isEmpty then afterWrite c s else s
  | .writePoll =>
    let s := emit s (.poll .dst) (match errOf f with | some e => .err e | none => .ok 0)
    if s.userAbort then ioFail c s
    else match errOf f with
      | some e => if isRetry e then s else ioFail c (msgError s)
      | none => { s with pc := .write }
  | .seekHole =>
    match errOf f with
    | some e => ioFail c (msgError (emit s (.lseek .dst s.pending) (.err e)))
    | none => { emit s (.lseek .dst s.pending) (.ok 0) with hole := s.hole + s.pending, pending := 0, pc := .write }
  | .fixPos =>
    -- errors are ignored: `(void)lseek(...)`
    match errOf f with
    | some e => continueLoop c (emit s (.lseek .src (-(s.rdRem : Int))) (.err e))
    | none => continueLoop c { emit s (.lseek .src (-(s.rdRem : Int))) (.ok 0) with srcPos := s.srcPos - s.rdRem }
  | .tailSeek =>
    match errOf f with
    | some e => closeBlock c { msgError (emit s (.lseek .dst (s.pending - 1 : Nat)) (.err e)) with success := false }
    | none =>
      { emit s (.lseek .dst (s.pending - 1 : Nat)) (.ok 0) with
        hole := s.hole + (s.pending - 1), pending := 0, wr := [c.zero], pc := .write }
  | .fchownUid =>
    let s := match errOf f with
      | some e => let s := emit s .fchownUid (.err e); if c.o.root then msgWarn s else s
      | none => emit s .fchownUid (.ok 0)
    if c.gidDiffers then { s with pc := .fchownGid } else { s with pc := .fchmod }
  | .fchownGid =>
    match errOf f with
    | some e => { msgWarn (emit s .fchownGid (.err e)) with pc := .fchmod }
    | none => { emit s .fchownGid (.ok 0) with pc := .fchmod }
  | .fchmod =>
    match errOf f with
    | some e => { msgWarn (emit s .fchmod (.err e)) with pc := .futimens }
    | none => { emit s .fchmod (.ok 0) with pc := .futimens }
  | .futimens =>
    afterAttrs c (emit s .futimens (match errOf f with | some e => .err e | none => .ok 0))
  | .fsyncFile =>
    match errOf f with
    | some e => closeDestPhase c { msgError (emit s (.fsync .dst) (.err e)) with success := false }
    | none => { emit s (.fsync .dst) (.ok 0) with fs := { s.fs with ownSynced := true }, pc := .fsyncDir }
  | .fsyncDir =>
    match errOf f with
    | some e => closeDestPhase c { msgError (emit s (.fsync .dir) (.err e)) with success := false }
    | none => closeDestPhase c { emit s (.fsync .dir) (.ok 0) with fs := { s.fs with dirSynced := true } }
  | .closeDir =>
    { emit s (.close .dir) (match errOf f with | some e => .err e | none => .ok 0) with dirOpen := false, pc := .closeDest }
  | .closeDest =>
    match errOf f with
    | some e => { msgError (emit s (.close .dst) (.err e)) with destOpen := false, success := false, pc := .statDest }
    | none =>
      let s := { emit s (.close .dst) (.ok 0) with destOpen := false }
      if s.success then closeSrcPhase c s else { s with pc := .statDest }
  | .statDest =>
    let call := Call.stat .dst c.o.force
    match errOf f, s.fs.dstName with
    | some e, _ => closeSrcPhase c (msgWarn (emit s call (.err e)))
    | none, none => closeSrcPhase c (msgWarn (emit s call (.err ENOENT)))
    | none, some i =>
      let s := emit s call (.ok i)
      if i = s.destStIno then { s with pc := .unlinkDest } else closeSrcPhase c (msgWarn s)
  | .unlinkDest =>
    match errOf f, s.fs.dstName with
    | some e, _ => closeSrcPhase c (msgWarn (emit s (.unlink .dst) (.err e)))
    | none, none => closeSrcPhase c (msgWarn (emit s (.unlink .dst) (.err ENOENT)))
    | none, some _ => closeSrcPhase c { emit s (.unlink .dst) (.ok 0) with fs := s.fs.unlinkDstName }
  | .closeSrc =>
    let s := { emit s (.close .src) (match errOf f with | some e => .err e | none => .ok 0) with srcOpen := false }
    if s.success && !c.o.keepEff then { s with pc := .statSrc } else { s with pc := .done, blk := s.blk - 1 }
  | .statSrc =>
    let call := Call.stat .src c.o.force
    match errOf f, s.fs.srcName with
    | some e, _ => { msgWarn (emit s call (.err e)) with pc := .done, blk := s.blk - 1 }
    | none, none => { msgWarn (emit s call (.err ENOENT)) with pc := .done, blk := s.blk - 1 }
    | none, some i =>
      let s := emit s call (.ok i)
      if i = s.srcStIno then { s with pc := .unlinkSrc } else { msgWarn s with pc := .done, blk := s.blk - 1 }
  | .unlinkSrc =>
    match errOf f, s.fs.srcName with
    | some e, _ => { msgWarn (emit s (.unlink .src) (.err e)) with pc := .done, blk := s.blk - 1 }
    | none, none => { msgWarn (emit s (.unlink .src) (.err ENOENT)) with pc := .done, blk := s.blk - 1 }
    | none, some _ => { emit s (.unlink .src) (.ok 0) with fs := s.fs.unlinkSrcName, pc := .done, blk := s.blk - 1 }

def step (c : Cfg α) (s : St α) : St α :=
  if s.pc = .done then s else exec c (preActions c s)

def runN (c : Cfg α) : Nat → St α → St α
  | 0, s => s
  | n + 1, s => runN c n (step c s)

/-- coder_run(): state before the first system call of a file. `k0`, `abort0`, `exit0` are inherited from the files
    processed before (main.c loops while `!user_abort`). -/
def start (c : Cfg α) (dstExists : Bool) (k0 : Nat := 0) (exit0 : Nat := 0) : St α :=
  let s : St α := { pc := .openSrc, k := k0, exitSt := exit0, ops := c.pre,
                    fs := { dstName := if dstExists then some inoPre else none } }
  -- io_open_src(): signals_block() ... signals_unblock() (for stdin there is no system call in between)
  if c.o.stdin then continueLoop c { s with srcStIno := 0 } else { s with blk := s.blk + 1 }

/-- the state after at most `n` system calls of this file (= what a crash before call n+1 leaves) -/
def run (c : Cfg α) (dstExists : Bool) (n : Nat) : St α := runN c n (start c dstExists)

/-- tuklib_exit(status, E_ERROR, show_error), reached when no signal is to be re-raised: unless the status already is
    E_ERROR, standard output is closed with fclose() and a failure (of the close or an earlier stdio error) turns the
    status into E_ERROR (with a message unless -qq).  `closeOutFails` is the environment's answer to that close. -/
def tuklibExit (status : Nat) (closeOutFails : Bool) : Nat :=
  if status ≠ 1 ∧ closeOutFails then 1 else status

/-- the whole coder output in the order it must appear in the target -/
def payload : List (Op α) → List α
  | [] => []
  | .write d _ :: r => d ++ payload r
  | _ :: r => payload r

/-- sparse blocks really are all-zero buffers (is_sparse) -/
def SparseOk (z : α) : List (Op α) → Prop
  | [] => True
  | .write d sp :: r => (sp = true → d = List.replicate d.length z) ∧ SparseOk z r
  | _ :: r => SparseOk z r

end XzVerif.XzIo
