/-
  L2: the fixed-layout fields of the .xz container, written from doc/xz-file-format.txt and mirroring, check by
  check and return code by return code, the C functions in src/liblzma/common/:
    stream_flags_{encoder,decoder,common}.c   block_header_{encoder,decoder}.c   block_util.c
    filter_flags_{encoder,decoder}.c          filter_{common,encoder,decoder}.c (properties, chain rules)
    index_{encoder,decoder}.c + the size arithmetic of index.h / lzma_index_append
    block_buffer_encoder.c / stream_buffer_encoder.c (bound functions)
    lzma/lzma2_{encoder,decoder}.c (dictionary-size byte), lzma/lzma_{encoder,decoder}.c (lc/lp/pb byte),
    delta/*, simple/simple_{encoder,decoder}.c (properties).
  Core Lean only (the model drivers link this file).

  Conventions: a C `uint64_t`/`lzma_vli` that can be LZMA_VLI_UNKNOWN is an `Option Nat` (`none` = unknown).
  `Res α = Except Ret α`: `.ok v` = LZMA_OK with output `v`, `.error r` = that return code.
  Decoders take the bytes *starting at* the field; those that work inside a bounded buffer (`in, &in_pos, in_size`)
  take exactly `in[in_pos..in_size)` and return the unread rest.
-/
import XzVerif.Model.Ret
import XzVerif.Model.Vli
import XzVerif.Model.Crc

namespace XzVerif.Container
open XzVerif XzVerif.Vli

/-! ## Little-endian helpers, CRC32 -/

/-- `write32le`. -/
def le32 (n : Nat) : List UInt8 :=
  [UInt8.ofNat (n % 256), UInt8.ofNat (n / 256 % 256), UInt8.ofNat (n / 65536 % 256), UInt8.ofNat (n / 16777216 % 256)]

/-- `read32le` of the first four bytes (missing bytes read as 0; callers check lengths first). -/
def rd32 (b : List UInt8) : Nat :=
  (b.getD 0 0).toNat + 256 * (b.getD 1 0).toNat + 65536 * (b.getD 2 0).toNat + 16777216 * (b.getD 3 0).toNat

def le64 (n : Nat) : List UInt8 := le32 (n % 4294967296) ++ le32 (n / 4294967296 % 4294967296)

def rd64 (b : List UInt8) : Nat := rd32 b + 4294967296 * rd32 (b.drop 4)

/-- `lzma_crc32(buf, size, 0)` as a number (reference definition of Model/Crc.lean). -/
def crc32 (b : List UInt8) : Nat := (Crc.crc32Ref b 0).toNat

def crc64 (b : List UInt8) : Nat := (Crc.crc64Ref b 0).toNat

/-! ## Constants (each one is re-read from the headers into Gen/C02.lean and bridged in Props/C02.lean) -/

def UINT32_MAX : Nat := 4294967295
def UINT64_MAX : Nat := 18446744073709551615
def HEADER_MAGIC : List UInt8 := [0xFD, 0x37, 0x7A, 0x58, 0x5A, 0x00]
def FOOTER_MAGIC : List UInt8 := [0x59, 0x5A]
def STREAM_HEADER_SIZE : Nat := 12
def BACKWARD_SIZE_MIN : Nat := 4
def BACKWARD_SIZE_MAX : Nat := 17179869184            -- 1 << 34
def BLOCK_HEADER_SIZE_MIN : Nat := 8
def BLOCK_HEADER_SIZE_MAX : Nat := 1024
def CHECK_ID_MAX : Nat := 15
def CHECK_SIZE_MAX : Nat := 64
def UNPADDED_SIZE_MIN : Nat := 5
def UNPADDED_SIZE_MAX : Nat := 9223372036854775804    -- LZMA_VLI_MAX & ~3
def FILTERS_MAX : Nat := 4
def FILTER_RESERVED_START : Nat := 4611686018427387904 -- 1 << 62
def INDEX_INDICATOR : Nat := 0

def FILTER_LZMA1 : Nat := 0x4000000000000001
def FILTER_LZMA1EXT : Nat := 0x4000000000000002
def FILTER_LZMA2 : Nat := 0x21
def FILTER_DELTA : Nat := 0x03
def FILTER_X86 : Nat := 0x04
def FILTER_POWERPC : Nat := 0x05
def FILTER_IA64 : Nat := 0x06
def FILTER_ARM : Nat := 0x07
def FILTER_ARMTHUMB : Nat := 0x08
def FILTER_SPARC : Nat := 0x09
def FILTER_ARM64 : Nat := 0x0A
def FILTER_RISCV : Nat := 0x0B

/-- `check_sizes[]` of check.c (xz-file-format.txt 2.1.1.2). -/
def checkSizes : List Nat := [0, 4, 4, 4, 8, 8, 8, 16, 16, 16, 32, 32, 32, 64, 64, 64]

/-- `lzma_check_size`: `UINT32_MAX` for an invalid Check ID. -/
def checkSize (c : Nat) : Nat := if c > CHECK_ID_MAX then UINT32_MAX else checkSizes.getD c 0

/-- `vli_ceil4`. -/
def ceil4 (n : Nat) : Nat := (n + 3) / 4 * 4

/-! ## Stream Header / Stream Footer (stream_flags_*.c) -/

structure StreamFlags where
  version : Nat := 0
  check : Nat
  deriving DecidableEq, Repr, Inhabited

def isBackwardSizeValid (bs : Nat) : Bool :=
  bs ≥ BACKWARD_SIZE_MIN ∧ bs ≤ BACKWARD_SIZE_MAX ∧ bs % 4 = 0

/-- static `stream_flags_encode`: `none` = it returned true (error). -/
def streamFlagsBytes (f : StreamFlags) : Option (List UInt8) :=
  if f.check > CHECK_ID_MAX then none else some [0x00, UInt8.ofNat f.check]

/-- static `stream_flags_decode` on the two Stream Flags bytes. -/
def streamFlagsOfBytes (b0 b1 : UInt8) : Option StreamFlags :=
  if b0.toNat ≠ 0 ∨ b1.toNat / 16 ≠ 0 then none else some { version := 0, check := b1.toNat % 16 }

/-- `lzma_stream_header_encode`. -/
def streamHeaderEncode (f : StreamFlags) : Res (List UInt8) :=
  if f.version ≠ 0 then .error .optionsError
  else match streamFlagsBytes f with
    | none => .error .progError
    | some fl => .ok (HEADER_MAGIC ++ fl ++ le32 (crc32 fl))

/-- `lzma_stream_header_decode` on the first 12 bytes of `b` (`progError` if there are fewer: not a C behaviour,
    the C function takes a pointer to 12 bytes). The decoded `backward_size` is LZMA_VLI_UNKNOWN. -/
def streamHeaderDecode (b : List UInt8) : Res StreamFlags :=
  if b.length < STREAM_HEADER_SIZE then .error .progError
  else if b.take 6 ≠ HEADER_MAGIC then .error .formatError
  else if crc32 ((b.drop 6).take 2) ≠ rd32 (b.drop 8) then .error .dataError
  else match streamFlagsOfBytes (b.getD 6 0) (b.getD 7 0) with
    | none => .error .optionsError
    | some f => .ok f

/-- `lzma_stream_footer_encode` with `options->backward_size = backwardSize`. -/
def streamFooterEncode (f : StreamFlags) (backwardSize : Nat) : Res (List UInt8) :=
  if f.version ≠ 0 then .error .optionsError
  else if !isBackwardSizeValid backwardSize then .error .progError
  else match streamFlagsBytes f with
    | none => .error .progError
    | some fl =>
      let body := le32 (backwardSize / 4 - 1) ++ fl
      .ok (le32 (crc32 body) ++ body ++ FOOTER_MAGIC)

/-- `lzma_stream_footer_decode` on the first 12 bytes of `b`: the flags and the Backward Size (real size in bytes). -/
def streamFooterDecode (b : List UInt8) : Res (StreamFlags × Nat) :=
  if b.length < STREAM_HEADER_SIZE then .error .progError
  else if (b.drop 10).take 2 ≠ FOOTER_MAGIC then .error .formatError
  else if crc32 ((b.drop 4).take 6) ≠ rd32 b then .error .dataError
  else match streamFlagsOfBytes (b.getD 8 0) (b.getD 9 0) with
    | none => .error .optionsError
    | some f => .ok (f, (rd32 (b.drop 4) + 1) * 4)

/-- `lzma_stream_flags_compare` (backward sizes: `none` = LZMA_VLI_UNKNOWN). -/
def streamFlagsCompare (a : StreamFlags) (abs : Option Nat) (b : StreamFlags) (bbs : Option Nat) : Ret :=
  if a.version ≠ 0 ∨ b.version ≠ 0 then .optionsError
  else if a.check > CHECK_ID_MAX ∨ b.check > CHECK_ID_MAX then .progError
  else if a.check ≠ b.check then .dataError
  else match abs, bbs with
    | some x, some y =>
      if !isBackwardSizeValid x ∨ !isBackwardSizeValid y then .progError
      else if x ≠ y then .dataError else .ok
    | _, _ => .ok

/-! ## LZMA properties bytes -/

def LCLP_MAX : Nat := 4
def PB_MAX : Nat := 4

/-- `is_lclppb_valid`. -/
def lclppbValid (lc lp pb : Nat) : Bool := lc ≤ LCLP_MAX ∧ lp ≤ LCLP_MAX ∧ lc + lp ≤ LCLP_MAX ∧ pb ≤ PB_MAX

/-- `lzma_lzma_lclppb_encode`: `none` = returned true. -/
def lclppbEncode (lc lp pb : Nat) : Option Nat :=
  if lclppbValid lc lp pb then some ((pb * 5 + lp) * 9 + lc) else none

/-- `lzma_lzma_lclppb_decode`: `some (lc, lp, pb)`, `none` = returned true. -/
def lclppbDecode (byte : Nat) : Option (Nat × Nat × Nat) :=
  if byte > (4 * 5 + 4) * 9 + 8 then none
  else
    let pb := byte / (9 * 5)
    let r := byte - pb * 9 * 5
    let lp := r / 9
    let lc := r - lp * 9
    if lc + lp > LCLP_MAX then none else some (lc, lp, pb)

def DICT_SIZE_MIN : Nat := 4096

/-- `get_dist_slot(x)` for the arguments `lzma_lzma2_props_encode` passes (and in general:
    2·⌊log2 x⌋ + the bit below the top bit, `x` itself below 4). -/
def getDistSlot (x : Nat) : Nat :=
  if x < 4 then x else 2 * Nat.log2 x + (x >>> (Nat.log2 x - 1)) % 2

/-- The bit smearing of `lzma_lzma2_props_encode` on a `uint32_t`: rounds `d` up to 2^n − 1 or 2^n + 2^(n−1) − 1. -/
def dictSmear (d : Nat) : Nat :=
  let d := d ||| (d >>> 2)
  let d := d ||| (d >>> 3)
  let d := d ||| (d >>> 4)
  let d := d ||| (d >>> 8)
  d ||| (d >>> 16)

/-- `lzma_lzma2_props_encode`: the dictionary-size byte for `opt->dict_size = d` (`d < 2^32`). -/
def lzma2DictEncode (d : Nat) : Nat :=
  let d := (if d < DICT_SIZE_MIN then DICT_SIZE_MIN else d) - 1
  let d := dictSmear d
  if d = UINT32_MAX then 40 else getDistSlot (d + 1) - 24

/-- `lzma_lzma2_props_decode`: the dictionary size a byte declares; `none` = LZMA_OPTIONS_ERROR. -/
def lzma2DictDecode (byte : Nat) : Option Nat :=
  if byte / 64 % 4 ≠ 0 then none        -- props[0] & 0xC0
  else if byte > 40 then none
  else if byte = 40 then some UINT32_MAX
  else some ((2 + byte % 2) <<< (byte / 2 + 11))

/-! ## Filters: properties (filter_encoder.c / filter_decoder.c and the per-filter coders) -/

/-- One Filter Flags entry as stored: Filter ID and the raw Filter Properties bytes. -/
structure Filter where
  id : Nat
  props : List UInt8
  deriving DecidableEq, Repr, Inhabited

/-- Filter options as the liblzma API passes them (`lzma_filter.options`). -/
inductive FilterOpts where
  /-- `lzma_options_lzma` for LZMA_FILTER_LZMA1 / LZMA1EXT (`id` says which). -/
  | lzma1 (id lc lp pb dictSize : Nat)
  /-- `lzma_options_lzma` for LZMA2; only `dict_size` is stored. -/
  | lzma2 (dictSize : Nat)
  /-- `lzma_options_bcj` (or NULL = start offset 0) for the BCJ filter `id`. -/
  | bcj (id startOffset : Nat)
  /-- `lzma_options_delta` with `type = LZMA_DELTA_TYPE_BYTE`. -/
  | delta (dist : Nat)
  /-- An ID that is in neither coder table. -/
  | other (id : Nat)
  deriving DecidableEq, Repr, Inhabited

def FilterOpts.id : FilterOpts → Nat
  | .lzma1 id .. => id
  | .lzma2 _ => FILTER_LZMA2
  | .bcj id _ => id
  | .delta _ => FILTER_DELTA
  | .other id => id

def bcjIds : List Nat :=
  [FILTER_X86, FILTER_POWERPC, FILTER_IA64, FILTER_ARM, FILTER_ARMTHUMB, FILTER_ARM64, FILTER_SPARC, FILTER_RISCV]

/-- `lzma_properties_size`. -/
def propsSize : FilterOpts → Res Nat
  | .lzma1 .. => .ok 5
  | .lzma2 _ => .ok 1
  | .bcj _ off => .ok (if off = 0 then 0 else 4)
  | .delta _ => .ok 1
  | .other id => .error (if id ≤ VLI_MAX then .optionsError else .progError)

/-- `lzma_properties_encode` (the caller provides `propsSize` bytes). -/
def propsEncode : FilterOpts → Res (List UInt8)
  | .lzma1 _ lc lp pb dict =>
    match lclppbEncode lc lp pb with
    | none => .error .progError
    | some b => .ok (UInt8.ofNat b :: le32 dict)
  | .lzma2 dict => .ok [UInt8.ofNat (lzma2DictEncode dict)]
  | .bcj _ off => .ok (if off = 0 then [] else le32 off)
  | .delta dist => if dist < 1 ∨ dist > 256 then .error .progError else .ok [UInt8.ofNat (dist - 1)]
  | .other _ => .error .progError

/-- `lzma_properties_decode(filter{id}, NULL, props, props_size)`: the decoded options, or the error code. -/
def propsDecode (id : Nat) (props : List UInt8) : Res FilterOpts :=
  if id = FILTER_LZMA1 ∨ id = FILTER_LZMA1EXT then
    if props.length ≠ 5 then .error .optionsError
    else match lclppbDecode (props.getD 0 0).toNat with
      | none => .error .optionsError
      | some (lc, lp, pb) => .ok (.lzma1 id lc lp pb (rd32 (props.drop 1)))
  else if id = FILTER_LZMA2 then
    if props.length ≠ 1 then .error .optionsError
    else match lzma2DictDecode (props.getD 0 0).toNat with
      | none => .error .optionsError
      | some d => .ok (.lzma2 d)
  else if bcjIds.contains id then
    if props.length = 0 then .ok (.bcj id 0)
    else if props.length ≠ 4 then .error .optionsError
    else .ok (.bcj id (rd32 props))
  else if id = FILTER_DELTA then
    if props.length ≠ 1 then .error .optionsError
    else .ok (.delta ((props.getD 0 0).toNat + 1))
  else .error .optionsError

/-- Alignment each BCJ filter requires of its start offset (`lzma_simple_coder_init`'s `alignment` argument). -/
def bcjAlignment (id : Nat) : Nat :=
  if id = FILTER_X86 then 1 else if id = FILTER_POWERPC then 4 else if id = FILTER_IA64 then 16
  else if id = FILTER_ARM then 4 else if id = FILTER_ARMTHUMB then 2 else if id = FILTER_ARM64 then 4
  else if id = FILTER_SPARC then 4 else if id = FILTER_RISCV then 2 else 1

/-- What the *decoder* initialisers additionally require of decoded options (checked by `lzma_raw_decoder_init`,
    not by the header parser): BCJ start offset aligned; delta distance in 1..256 (always true after decoding). -/
def filterInitOk : FilterOpts → Bool
  | .bcj id off => off % bcjAlignment id = 0
  | .delta dist => 1 ≤ dist ∧ dist ≤ 256
  | .lzma1 _ lc lp pb _ => lclppbValid lc lp pb
  | .lzma2 _ => true
  | .other _ => false

/-! ## Filter chain rules (filter_common.c `features[]`, `lzma_validate_chain`) -/

structure Feature where
  id : Nat
  nonLastOk : Bool
  lastOk : Bool
  changesSize : Bool
  deriving DecidableEq, Repr

def features : List Feature := [
  ⟨FILTER_LZMA1, false, true, true⟩,
  ⟨FILTER_LZMA1EXT, false, true, true⟩,
  ⟨FILTER_LZMA2, false, true, true⟩,
  ⟨FILTER_X86, true, false, false⟩,
  ⟨FILTER_POWERPC, true, false, false⟩,
  ⟨FILTER_IA64, true, false, false⟩,
  ⟨FILTER_ARM, true, false, false⟩,
  ⟨FILTER_ARMTHUMB, true, false, false⟩,
  ⟨FILTER_ARM64, true, false, false⟩,
  ⟨FILTER_SPARC, true, false, false⟩,
  ⟨FILTER_RISCV, true, false, false⟩,
  ⟨FILTER_DELTA, true, false, false⟩]

def findFeature (id : Nat) : Option Feature := features.find? (·.id = id)

/-- The `do … while` loop of `lzma_validate_chain`: (non_last_ok, last_ok, changes_size_count, i). -/
def validateChainLoop : List Nat → Bool → Bool → Nat → Nat → Res (Bool × Nat × Nat)
  | [], _, lastOk, chg, i => .ok (lastOk, chg, i)
  | id :: rest, nonLastOk, _, chg, i =>
    match findFeature id with
    | none => .error .optionsError
    | some f =>
      if !nonLastOk then .error .optionsError
      else validateChainLoop rest f.nonLastOk f.lastOk (chg + (if f.changesSize then 1 else 0)) (i + 1)

/-- `lzma_validate_chain` on the list of Filter IDs: the filter count on LZMA_OK. -/
def validateChain (ids : List Nat) : Res Nat :=
  if ids.isEmpty then .error .progError
  else match validateChainLoop ids true false 0 0 with
    | .error e => .error e
    | .ok (lastOk, chg, i) =>
      if i > FILTERS_MAX ∨ !lastOk ∨ chg > 3 then .error .optionsError else .ok i

/-! ## Filter Flags (filter_flags_encoder.c / filter_flags_decoder.c) -/

/-- The stored form: ID, Size of Properties, Properties. -/
def filterFlagsEncode (f : Filter) : List UInt8 :=
  vliEncode f.id ++ vliEncode f.props.length ++ f.props

/-- `lzma_filter_flags_size`. -/
def filterFlagsSize (o : FilterOpts) : Res Nat :=
  if o.id ≥ FILTER_RESERVED_START then .error .progError
  else match propsSize o with
    | .error e => .error e
    | .ok s => .ok (s + vliSize o.id + vliSize s)

/-- `lzma_filter_flags_encode(filter, out, &out_pos, out_size)` with `avail = out_size - out_pos`. -/
def filterFlagsEncodeOpts (o : FilterOpts) (avail : Nat) : Res (List UInt8) :=
  if o.id ≥ FILTER_RESERVED_START then .error .progError
  else match vliEncodeSingle o.id avail with
    | .error e => .error e
    | .ok idb =>
      match propsSize o with
      | .error e => .error e
      | .ok ps =>
        match vliEncodeSingle ps (avail - idb.length) with
        | .error e => .error e
        | .ok szb =>
          if avail - idb.length - szb.length < ps then .error .progError
          else match propsEncode o with
            | .error e => .error e
            | .ok pr => .ok (idb ++ szb ++ pr)

/-- `lzma_filter_flags_decode(&filter, NULL, in, &in_pos, in_size)` on `b = in[in_pos..in_size)`:
    the raw filter (its properties have been accepted by `propsDecode`) and the unread rest. -/
def filterFlagsDecode (b : List UInt8) : Res (Filter × List UInt8) :=
  match vliDecode b with
  | none => .error .dataError
  | some (id, r1) =>
    if id ≥ FILTER_RESERVED_START then .error .dataError
    else match vliDecode r1 with
      | none => .error .dataError
      | some (ps, r2) =>
        if r2.length < ps then .error .dataError
        else match propsDecode id (r2.take ps) with
          | .error e => .error e
          | .ok _ => .ok (⟨id, r2.take ps⟩, r2.drop ps)

/-! ## Block sizes (block_util.c) -/

/-- `lzma_block_unpadded_size`: 0 = invalid, `VLI_UNKNOWN` if the compressed size is unknown. -/
def blockUnpaddedSize (version headerSize check : Nat) (compressedSize : Option Nat) : Nat :=
  if version > 1 ∨ headerSize < BLOCK_HEADER_SIZE_MIN ∨ headerSize > BLOCK_HEADER_SIZE_MAX ∨ headerSize % 4 ≠ 0
      ∨ !vliIsValid compressedSize ∨ compressedSize = some 0 ∨ check > CHECK_ID_MAX then 0
  else match compressedSize with
    | none => VLI_UNKNOWN
    | some cs =>
      let u := cs + headerSize + checkSize check
      if u > UNPADDED_SIZE_MAX then 0 else u

/-- `lzma_block_total_size`. -/
def blockTotalSize (version headerSize check : Nat) (compressedSize : Option Nat) : Nat :=
  let u := blockUnpaddedSize version headerSize check compressedSize
  if u ≠ VLI_UNKNOWN then ceil4 u else u

/-- `lzma_block_compressed_size(block, unpadded_size)`: the new `block->compressed_size` on LZMA_OK. -/
def blockCompressedSize (version headerSize check : Nat) (compressedSize : Option Nat) (unpaddedSize : Nat) : Res Nat :=
  if blockUnpaddedSize version headerSize check compressedSize = 0 then .error .progError
  else
    let container := headerSize + checkSize check
    if unpaddedSize ≤ container then .error .dataError
    else
      let cs := unpaddedSize - container
      match compressedSize with
      | some c => if c ≠ cs then .error .dataError else .ok cs
      | none => .ok cs

/-! ## Block Header (block_header_encoder.c / block_header_decoder.c) -/

structure BlockHeader where
  compressedSize : Option Nat
  uncompressedSize : Option Nat
  filters : List Filter
  deriving DecidableEq, Repr, Inhabited

/-- The filter loop of `lzma_block_header_size`. `i` = index of the first filter of `fs`. -/
def headerSizeFilters : List FilterOpts → Nat → Nat → Res Nat
  | [], _, size => .ok size
  | o :: rest, i, size =>
    if i = FILTERS_MAX then .error .progError
    else match filterFlagsSize o with
      | .error e => .error e
      | .ok add => headerSizeFilters rest (i + 1) (size + add)

/-- Size contribution of an optional VLI field in `lzma_block_header_size` (`zeroBad`: a known value 0 is an error,
    as for Compressed Size). -/
def sizeOptVli (zeroBad : Bool) : Option Nat → Res Nat
  | none => .ok 0
  | some v => if vliSize v = 0 ∨ (zeroBad ∧ v = 0) then .error .progError else .ok (vliSize v)

/-- `lzma_block_header_size`: the value stored to `block->header_size`. -/
def blockHeaderSize (version : Nat) (compressedSize uncompressedSize : Option Nat) (fs : List FilterOpts) : Res Nat :=
  if version > 1 then .error .optionsError
  else match sizeOptVli true compressedSize with
    | .error e => .error e
    | .ok a =>
      match sizeOptVli false uncompressedSize with
      | .error e => .error e
      | .ok b =>
        if fs.isEmpty then .error .progError
        else match headerSizeFilters fs 0 (1 + 1 + 4 + a + b) with
          | .error e => .error e
          | .ok size => .ok ((size + 3) / 4 * 4)

/-- The filter loop of `lzma_block_header_encode`; `avail` = `out_size - out_pos`. -/
def headerEncodeFilters : List FilterOpts → Nat → Nat → Res (List UInt8)
  | [], _, _ => .ok []
  | o :: rest, count, avail =>
    if count = FILTERS_MAX then .error .progError
    else match filterFlagsEncodeOpts o avail with
      | .error e => .error e
      | .ok bs =>
        match headerEncodeFilters rest (count + 1) (avail - bs.length) with
        | .error e => .error e
        | .ok more => .ok (bs ++ more)

/-- An optional VLI field written by `lzma_block_header_encode` into `avail` remaining bytes. -/
def encOptVli : Option Nat → Nat → Res (List UInt8)
  | none, _ => .ok []
  | some v, avail => vliEncodeSingle v avail

/-- The Block Flags byte: number of filters − 1, bit 6 = Compressed Size present, bit 7 = Uncompressed Size present. -/
def blockFlagsByte (nfilters : Nat) (hasCs hasUs : Bool) : Nat :=
  (nfilters - 1) + (if hasCs then 0x40 else 0) + (if hasUs then 0x80 else 0)

/-- `lzma_block_header_encode(block, out)` with the given `block->version/header_size/check/sizes/filters`:
    the `header_size` bytes written. -/
def blockHeaderEncodeWith (version headerSize check : Nat) (compressedSize uncompressedSize : Option Nat)
    (fs : List FilterOpts) : Res (List UInt8) :=
  if blockUnpaddedSize version headerSize check compressedSize = 0 ∨ !vliIsValid uncompressedSize then .error .progError
  else
    let outSize := headerSize - 4
    match encOptVli compressedSize (outSize - 2) with
    | .error e => .error e
    | .ok csb =>
      match encOptVli uncompressedSize (outSize - 2 - csb.length) with
      | .error e => .error e
      | .ok usb =>
        if fs.isEmpty then .error .progError
        else match headerEncodeFilters fs 0 (outSize - 2 - csb.length - usb.length) with
          | .error e => .error e
          | .ok ffb =>
            let body := [UInt8.ofNat (outSize / 4), UInt8.ofNat (blockFlagsByte fs.length compressedSize.isSome uncompressedSize.isSome)]
                          ++ csb ++ usb ++ ffb
            let body := body ++ List.replicate (outSize - body.length) (0 : UInt8)
            .ok (body ++ le32 (crc32 body))

/-- `lzma_block_header_size` followed by `lzma_block_header_encode` (what every encoder in liblzma does). -/
def blockHeaderEncode (check : Nat) (compressedSize uncompressedSize : Option Nat) (fs : List FilterOpts) : Res (List UInt8) :=
  match blockHeaderSize 0 compressedSize uncompressedSize fs with
  | .error e => .error e
  | .ok hs => blockHeaderEncodeWith 0 hs check compressedSize uncompressedSize fs

/-- The `for (i < filter_count)` loop of `lzma_block_header_decode`. -/
def headerDecodeFilters : Nat → List UInt8 → Res (List Filter × List UInt8)
  | 0, b => .ok ([], b)
  | n + 1, b =>
    match filterFlagsDecode b with
    | .error e => .error e
    | .ok (f, r) =>
      match headerDecodeFilters n r with
      | .error e => .error e
      | .ok (fs, r') => .ok (f :: fs, r')

/-- An optional VLI field read by `lzma_block_header_decode` when its flag bit is set. -/
def decOptVli (present : Bool) (b : List UInt8) : Res (Option Nat × List UInt8) :=
  if present then
    match vliDecode b with
    | none => .error .dataError
    | some (v, r) => .ok (some v, r)
  else .ok (none, b)

/-- `lzma_block_header_decode(block, NULL, in)` with `block->header_size = headerSize`, `block->check = check`
    (`block->version` ≤ 1 after the function's own clamping). `b` holds at least `headerSize` bytes. -/
def blockHeaderDecodeWith (headerSize check : Nat) (b : List UInt8) : Res BlockHeader :=
  if ((b.getD 0 0).toNat + 1) * 4 ≠ headerSize ∨ check > CHECK_ID_MAX then .error .progError
  else if b.length < headerSize then .error .progError   -- not a C behaviour (the C caller guarantees it)
  else
    let inSize := headerSize - 4
    let hdr := b.take inSize
    if crc32 hdr ≠ rd32 (b.drop inSize) then .error .dataError
    else
      let fl := (b.getD 1 0).toNat
      if fl / 4 % 16 ≠ 0 then .error .optionsError      -- in[1] & 0x3C
      else
        match decOptVli (fl / 64 % 2 = 1) (hdr.drop 2) with
        | .error e => .error e
        | .ok (cs, r1) =>
          -- `lzma_block_unpadded_size(block) == 0` right after a Compressed Size has been decoded
          if cs.isSome ∧ blockUnpaddedSize 1 headerSize check cs = 0 then .error .dataError
          else match decOptVli (fl / 128 % 2 = 1) r1 with
            | .error e => .error e
            | .ok (us, r2) =>
              match headerDecodeFilters (fl % 4 + 1) r2 with
              | .error e => .error e
              | .ok (fs, r3) =>
                if r3.any (· ≠ 0) then .error .optionsError
                else .ok { compressedSize := cs, uncompressedSize := us, filters := fs }

/-- Block Header decoding as every caller does it: `header_size` comes from the first byte. -/
def blockHeaderDecode (check : Nat) (b : List UInt8) : Res BlockHeader :=
  blockHeaderDecodeWith (((b.getD 0 0).toNat + 1) * 4) check b

/-! ## Index field (index.h arithmetic, lzma_index_append's limits, index_encoder.c / index_decoder.c) -/

structure IndexRecord where
  unpadded : Nat
  uncompressed : Nat
  deriving DecidableEq, Repr, Inhabited

/-- `index_size_unpadded`. -/
def indexSizeUnpadded (count listSize : Nat) : Nat := 1 + vliSize count + listSize + 4
/-- `index_size`. -/
def indexSize (count listSize : Nat) : Nat := ceil4 (indexSizeUnpadded count listSize)
/-- `lzma_index_padding_size`: `(4 - index_size_unpadded) & 3`. -/
def indexPaddingSize (count listSize : Nat) : Nat := (4 - indexSizeUnpadded count listSize % 4) % 4
/-- `index_stream_size`. -/
def indexStreamSize (blocksSize count listSize : Nat) : Nat :=
  STREAM_HEADER_SIZE + blocksSize + indexSize count listSize + STREAM_HEADER_SIZE

/-- `index_file_size`: `none` = LZMA_VLI_UNKNOWN. -/
def indexFileSize (compressedBase unpaddedSum count listSize streamPadding : Nat) : Option Nat :=
  let fs := compressedBase + 2 * STREAM_HEADER_SIZE + streamPadding + ceil4 unpaddedSum
  if fs > VLI_MAX then none
  else
    let fs := fs + indexSize count listSize
    if fs > VLI_MAX then none else some fs

/-- The totals a single-Stream `lzma_index` keeps while Records are appended. -/
structure IndexAcc where
  count : Nat := 0
  listSize : Nat := 0          -- index_list_size
  unpaddedSum : Nat := 0       -- records[last].unpadded_sum (0 when empty)
  uncompressedSum : Nat := 0
  totalSize : Nat := 0         -- sum of vli_ceil4(unpadded_size)
  deriving DecidableEq, Repr, Inhabited

/-- `lzma_index_append` on an Index with a single Stream (no allocation failure). -/
def indexAppend (a : IndexAcc) (unpadded uncompressed : Nat) : Res IndexAcc :=
  if unpadded < UNPADDED_SIZE_MIN ∨ unpadded > UNPADDED_SIZE_MAX ∨ uncompressed > VLI_MAX then .error .progError
  else
    let compressedBase := ceil4 a.unpaddedSum
    let add := vliSize unpadded + vliSize uncompressed
    if a.uncompressedSum + uncompressed > VLI_MAX then .error .dataError
    else if compressedBase + unpadded > UNPADDED_SIZE_MAX then .error .dataError
    else if indexFileSize 0 (compressedBase + unpadded) (a.count + 1) (a.listSize + add) 0 = none then .error .dataError
    else if indexSize (a.count + 1) (a.listSize + add) > BACKWARD_SIZE_MAX then .error .dataError
    else .ok { count := a.count + 1, listSize := a.listSize + add, unpaddedSum := compressedBase + unpadded,
               uncompressedSum := a.uncompressedSum + uncompressed, totalSize := a.totalSize + ceil4 unpadded }

def indexAppendAll : List IndexRecord → IndexAcc → Res IndexAcc
  | [], a => .ok a
  | r :: rs, a =>
    match indexAppend a r.unpadded r.uncompressed with
    | .error e => .error e
    | .ok a' => indexAppendAll rs a'

def indexListSize (rs : List IndexRecord) : Nat :=
  (rs.map fun r => vliSize r.unpadded + vliSize r.uncompressed).sum

def indexRecordsBytes (rs : List IndexRecord) : List UInt8 :=
  rs.flatMap fun r => vliEncode r.unpadded ++ vliEncode r.uncompressed

/-- The Index field for a list of Records (xz-file-format.txt section 4), as `index_encode` writes it. -/
def indexEncode (rs : List IndexRecord) : List UInt8 :=
  let body := UInt8.ofNat INDEX_INDICATOR :: (vliEncode rs.length ++ indexRecordsBytes rs)
  let body := body ++ List.replicate (indexPaddingSize rs.length (indexListSize rs)) (0 : UInt8)
  body ++ le32 (crc32 body)

/-- `lzma_index_buffer_encode(i, out, &out_pos, out_size)` for an Index built by appending `rs` to a fresh
    `lzma_index`, `avail = out_size - out_pos`. -/
def indexBufferEncode (rs : List IndexRecord) (avail : Nat) : Res (List UInt8) :=
  if avail < indexSize rs.length (indexListSize rs) then .error .bufError else .ok (indexEncode rs)

/-- The Record loop of `index_decode` (SEQ_UNPADDED / SEQ_UNCOMPRESSED). Every Record takes at least two
    bytes, so the input length bounds the recursion. -/
def indexDecodeRecords : Nat → Nat → IndexAcc → List UInt8 → Res (List IndexRecord × IndexAcc × List UInt8)
  | _, 0, a, b => .ok ([], a, b)
  | 0, _ + 1, _, _ => .error .dataError
  | fuel + 1, count + 1, a, b =>
    match vliDecode b with
    | none => .error .dataError
    | some (u, r1) =>
      if u < UNPADDED_SIZE_MIN ∨ u > UNPADDED_SIZE_MAX then .error .dataError
      else match vliDecode r1 with
        | none => .error .dataError
        | some (c, r2) =>
          match indexAppend a u c with
          | .error e => .error e
          | .ok a' =>
            match indexDecodeRecords fuel count a' r2 with
            | .error e => .error e
            | .ok (rs, a'', r3) => .ok (⟨u, c⟩ :: rs, a'', r3)

/-- `lzma_index_buffer_decode(&i, &memlimit = UINT64_MAX, NULL, in, &in_pos, in_size)` on `b = in[in_pos..in_size)`:
    the Records and the unread rest. Every failure of this function on a single buffer is LZMA_DATA_ERROR
    (truncated input included). -/
def indexDecode (b : List UInt8) : Res (List IndexRecord × List UInt8) :=
  match b with
  | [] => .error .dataError
  | ind :: r0 =>
    if ind.toNat ≠ INDEX_INDICATOR then .error .dataError
    else match vliDecode r0 with
      | none => .error .dataError
      | some (count, r1) =>
        match indexDecodeRecords r1.length count {} r1 with
        | .error e => .error e
        | .ok (rs, a, r2) =>
          let pad := indexPaddingSize a.count a.listSize
          if r2.length < pad + 4 then .error .dataError
          else if (r2.take pad).any (· ≠ 0) then .error .dataError
          else
            let consumed := b.length - r2.length + pad
            if crc32 (b.take consumed) ≠ rd32 (r2.drop pad) then .error .dataError
            else .ok (rs, r2.drop (pad + 4))

/-! ## Bound functions (block_buffer_encoder.c, stream_buffer_encoder.c); arguments are `uint64_t`/`size_t` values -/

/-- `COMPRESSED_SIZE_MAX` of block_encoder.h. -/
def COMPRESSED_SIZE_MAX : Nat := (VLI_MAX - BLOCK_HEADER_SIZE_MAX - CHECK_SIZE_MAX) / 4 * 4
def LZMA2_CHUNK_MAX : Nat := 65536
def LZMA2_UNCOMPRESSED_MAX : Nat := 2097152
def LZMA2_HEADER_MAX : Nat := 6
def LZMA2_HEADER_UNCOMPRESSED : Nat := 3
/-- `HEADERS_BOUND` of block_buffer_encoder.c. -/
def BLOCK_HEADERS_BOUND : Nat := (1 + 1 + 2 * VLI_BYTES_MAX + 3 + 4 + CHECK_SIZE_MAX + 3) / 4 * 4
/-- `INDEX_BOUND` of stream_buffer_encoder.c. -/
def INDEX_BOUND : Nat := (1 + 1 + 2 * VLI_BYTES_MAX + 4 + 3) / 4 * 4
/-- `HEADERS_BOUND` of stream_buffer_encoder.c. -/
def STREAM_HEADERS_BOUND : Nat := 2 * STREAM_HEADER_SIZE + INDEX_BOUND

/-- static `lzma2_bound`. -/
def lzma2Bound (n : Nat) : Nat :=
  if n > COMPRESSED_SIZE_MAX then 0
  else
    let overhead := (n + LZMA2_CHUNK_MAX - 1) / LZMA2_CHUNK_MAX * LZMA2_HEADER_UNCOMPRESSED + 1
    if COMPRESSED_SIZE_MAX - overhead < n then 0 else n + overhead

/-- `lzma_block_buffer_bound64`. -/
def blockBufferBound64 (n : Nat) : Nat :=
  let l := lzma2Bound n
  if l = 0 then 0 else BLOCK_HEADERS_BOUND + (l + 3) / 4 * 4

/-- `lzma_block_buffer_bound` (`size_t` is 64 bits on the verified build; Gen/C02.lean records `SIZE_MAX`). -/
def blockBufferBound (n : Nat) : Nat := blockBufferBound64 n

/-- `lzma_stream_buffer_bound`. -/
def streamBufferBound (n : Nat) : Nat :=
  let b := blockBufferBound n
  if b = 0 then 0
  else if (if UINT64_MAX < VLI_MAX then UINT64_MAX else VLI_MAX) - b < STREAM_HEADERS_BOUND then 0
  else b + STREAM_HEADERS_BOUND

/-- Size of the LZMA2 stream `block_encode_uncompressed` writes for `n` input bytes: the data, a 3-byte header per
    chunk of at most LZMA2_CHUNK_MAX bytes, and the end marker. -/
def uncompressedChunksSize (n : Nat) : Nat :=
  n + (n + LZMA2_CHUNK_MAX - 1) / LZMA2_CHUNK_MAX * LZMA2_HEADER_UNCOMPRESSED + 1

/-- The `while (in_pos < in_size)` loop of `block_encode_uncompressed` followed by the end marker:
    control 0x01 (dictionary reset) for the first chunk, 0x02 afterwards, big-endian `size − 1`, the bytes. -/
def lzma2UncompressedChunksAux : Nat → Bool → List UInt8 → List UInt8
  | 0, _, _ => [0x00]
  | fuel + 1, first, data =>
    if data.isEmpty then [0x00]
    else
      let n := if data.length < LZMA2_CHUNK_MAX then data.length else LZMA2_CHUNK_MAX
      (if first then 0x01 else 0x02) :: UInt8.ofNat ((n - 1) / 256) :: UInt8.ofNat ((n - 1) % 256)
        :: (data.take n ++ lzma2UncompressedChunksAux fuel false (data.drop n))

def lzma2UncompressedChunks (data : List UInt8) : List UInt8 := lzma2UncompressedChunksAux data.length true data

/-- `lzma_check_is_supported` in the verified build (all four implemented checks). -/
def checkIsSupported (c : Nat) : Bool := c = 0 ∨ c = 1 ∨ c = 4 ∨ c = 10

/-- The Check field for CRC32 / CRC64 / None (`none` for SHA-256, which this file does not model, and for unsupported IDs). -/
def checkValue (check : Nat) (data : List UInt8) : Option (List UInt8) :=
  if check = 0 then some []
  else if check = 1 then some (le32 (crc32 data))
  else if check = 4 then some (le64 (crc64 data))
  else none

/-- `lzma_block_uncomp_encode(block{version 0, check}, in, in_size, out, &out_pos, out_size)` with
    `avail = out_size - out_pos`: the complete Block (header, uncompressed LZMA2 chunks, Block Padding, Check).
    This is also what `lzma_block_buffer_encode` produces when the data does not compress.
    Not modelled: Check ID 10 (SHA-256) — the model answers `unsupportedCheck` there, callers must not ask. -/
def blockUncompEncode (check : Nat) (data : List UInt8) (avail : Nat) : Res (List UInt8) :=
  if check > CHECK_ID_MAX then .error .progError
  else match checkValue check data with
    | none => .error .unsupportedCheck
    | some cv =>
      let avail := avail - avail % 4
      if avail ≤ checkSize check then .error .bufError
      else
        let avail := avail - checkSize check
        let l2 := lzma2Bound data.length
        if l2 = 0 then .error .dataError
        else match blockHeaderEncode check (some l2) (some data.length) [.lzma2 DICT_SIZE_MIN] with
          | .error _ => .error .progError
          | .ok hdr =>
            if avail < hdr.length + l2 then .error .bufError
            else .ok (hdr ++ lzma2UncompressedChunks data ++ List.replicate ((4 - l2 % 4) % 4) (0 : UInt8) ++ cv)

end XzVerif.Container
