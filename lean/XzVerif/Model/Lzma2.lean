/-
  LZMA2 decoder of liblzma (src/liblzma/lzma/lzma2_decoder.c) on top of `Model/Lzma.lean`, the common coder interface
  for "LZMA1 / LZMA1EXT / LZMA2 as the last filter of a raw chain", and the raw-chain level
  (`lzma_raw_decoder` / `lzma_raw_buffer_decode`, src/liblzma/common/filter_decoder.c, filter_common.c,
  filter_buffer_decoder.c).

  Whole-input protocol as in `Model/Lzma.lean`: the first call of `Coder.code` sees the complete input; later calls
  only add output space.
  Core Lean only.
-/
import XzVerif.Model.Lzma

namespace XzVerif.Lzma2
open XzVerif.RangeDec XzVerif.LzDict XzVerif.Lzma

/-! ### the control byte (SEQ_CONTROL of `lzma2_decode`) as a pure function -/

/-- What SEQ_CONTROL does with a control byte in state (`need_properties`, `need_dictionary_reset`). -/
structure ControlAction where
  /-- `LZMA_STREAM_END` (control 0x00) -/
  isEnd : Bool := false
  /-- `LZMA_DATA_ERROR` -/
  isError : Bool := false
  /-- LZMA chunk (else: uncompressed chunk) -/
  isLzma : Bool := false
  /-- `dict_reset(dict)` is requested (and the function returns LZMA_OK to let the LZ layer do it) -/
  dictReset : Bool := false
  /-- the chunk header carries a properties byte (`next_sequence = SEQ_PROPERTIES`; the state reset happens there) -/
  newProps : Bool := false
  /-- state reset with the old properties, done right here (`control >= 0xA0` without new properties) -/
  stateResetNow : Bool := false
  /-- bits 16..20 of (uncompressed size − 1) -/
  uncompHigh : Nat := 0
  /-- `need_properties` / `need_dictionary_reset` afterwards -/
  needProps' : Bool := false
  needDictReset' : Bool := false
  deriving Repr, DecidableEq, Inhabited

/-- SEQ_CONTROL, statement by statement. -/
def controlStep (control : Nat) (needProps needDictReset : Bool) : ControlAction :=
  if control == 0x00 then { isEnd := true, needProps' := needProps, needDictReset' := needDictReset }
  else
    -- if (control >= 0xE0 || control == 1) { need_properties = true; need_dictionary_reset = true; }
    -- else if (need_dictionary_reset) return LZMA_DATA_ERROR;
    let resetting := control ≥ 0xE0 || control == 1
    if !resetting && needDictReset then { isError := true, needProps' := needProps, needDictReset' := needDictReset }
    else
      let needProps := if resetting then true else needProps
      let needDictReset := if resetting then true else needDictReset
      if control ≥ 0x80 then
        let high := control &&& 0x1F
        if control ≥ 0xC0 then
          -- new properties: need_properties = false; next_sequence = SEQ_PROPERTIES
          { isLzma := true, newProps := true, uncompHigh := high, dictReset := needDictReset,
            needProps' := false, needDictReset' := false }
        else if needProps then
          { isError := true, isLzma := true, uncompHigh := high, needProps' := needProps, needDictReset' := needDictReset }
        else
          { isLzma := true, stateResetNow := control ≥ 0xA0, uncompHigh := high, dictReset := needDictReset,
            needProps' := false, needDictReset' := false }
      else if control > 2 then
        { isError := true, needProps' := needProps, needDictReset' := needDictReset }
      else
        { dictReset := needDictReset, needProps' := needProps, needDictReset' := false }

/-! ### `lzma2_decode` -/

@[inline] def setL2 (s : St) (f : L2 → L2) : St := { s with l2 := f s.l2 }

/-- `dict_write(dict, in, in_pos, in_size, &left)` on the abstract history: copies
    `min(in_size - in_pos, left, limit - pos)` bytes. Returns the number copied. -/
def appendSlice (src : ByteArray) : Nat → Nat → ByteArray → ByteArray
  | 0, _, h => h
  | n + 1, off, h => appendSlice src n (off + 1) (h.push (if hlt : off < src.size then src[off] else 0))

def dictWrite (s : St) (left : Nat) : Nat × St :=
  let n := min (min (s.inp.size - s.inPos) left) s.dp.avail
  let h := s.hist
  let s := { s with hist := ByteArray.empty }
  (n, { s with hist := appendSlice s.inp n s.inPos h, inPos := s.inPos + n, dp := s.dp.advance n })

/-- The bookkeeping of SEQ_CONTROL for an accepted chunk header byte: new `need_properties`/`need_dictionary_reset`,
    high bits of the uncompressed size, `sequence`/`next_sequence`, and the state reset with the old properties. -/
def controlApply (s : St) (a : ControlAction) : St :=
  let s := setL2 s fun l => { l with needProperties := a.needProps', needDictionaryReset := a.needDictReset' }
  if a.isLzma then
    let s := setL2 s fun l => { l with uncompressedSize := a.uncompHigh <<< 16, seq := .uncompressed1,
                                       nextSeq := if a.newProps then .properties else .lzma }
    if a.stateResetNow then s.resetLzma s.l2.props else s
  else
    setL2 s fun l => { l with seq := .compressed0, nextSeq := .copy }

/-- `while (*in_pos < in_size || coder->sequence == SEQ_LZMA) switch (coder->sequence) …` -/
def lzma2Loop : Nat → St → Ret × St
  | 0, s => (.progError, s)
  | fuel + 1, s =>
    if !(s.inPos < s.inp.size || s.l2.seq == .lzma) then (.ok, s) else
    let byte : Nat := (if hlt : s.inPos < s.inp.size then s.inp[s.inPos] else 0).toNat   -- in[*in_pos] (only used in the states that need input)
    match s.l2.seq with
    | .control =>
      let s := { s with inPos := s.inPos + 1 }
      let a := controlStep byte s.l2.needProperties s.l2.needDictionaryReset
      if a.isEnd then (.streamEnd, s)
      else if a.isError then (.dataError, s)
      else
        let s := controlApply s a
        if a.dictReset then
          -- dict_reset(dict); return LZMA_OK;
          (.ok, { s with dp := { s.dp with needReset := true } })
        else lzma2Loop fuel s
    | .uncompressed1 =>
      lzma2Loop fuel (setL2 { s with inPos := s.inPos + 1 } fun l =>
        { l with uncompressedSize := l.uncompressedSize + (byte <<< 8), seq := .uncompressed2 })
    | .uncompressed2 =>
      let s := setL2 { s with inPos := s.inPos + 1 } fun l =>
        { l with uncompressedSize := l.uncompressedSize + byte + 1, seq := .compressed0 }
      -- coder->lzma.set_uncompressed(coder->lzma.coder, coder->uncompressed_size, false)
      lzma2Loop fuel { s with uncomp := some s.l2.uncompressedSize, allowEopm := false, eopmValid := false }
    | .compressed0 =>
      lzma2Loop fuel (setL2 { s with inPos := s.inPos + 1 } fun l => { l with compressedSize := byte <<< 8, seq := .compressed1 })
    | .compressed1 =>
      lzma2Loop fuel (setL2 { s with inPos := s.inPos + 1 } fun l =>
        { l with compressedSize := l.compressedSize + byte + 1, seq := l.nextSeq })
    | .properties =>
      let s := { s with inPos := s.inPos + 1 }
      match propsDecode byte with
      | none => (.dataError, s)
      | some p =>
        let s := (setL2 s fun l => { l with props := p, seq := .lzma }).resetLzma p
        lzma2Loop fuel s
    | .lzma =>
      let inStart := s.inPos
      let (ret, s) := lzmaCall s
      let inUsed := s.inPos - inStart
      if inUsed > s.l2.compressedSize then (.dataError, s)
      else
        let s := setL2 s fun l => { l with compressedSize := l.compressedSize - inUsed }
        if ret != .streamEnd then (ret, s)
        else if s.l2.compressedSize != 0 then (.dataError, s)
        else lzma2Loop fuel (setL2 s fun l => { l with seq := .control })
    | .copy =>
      let (n, s) := dictWrite s s.l2.compressedSize
      let s := setL2 s fun l => { l with compressedSize := l.compressedSize - n }
      if s.l2.compressedSize != 0 then (.ok, s)
      else lzma2Loop fuel (setL2 s fun l => { l with seq := .control })

/-- One call of `lzma2_decode`. Every iteration that does not return consumes a byte, except the step from SEQ_LZMA
    back to SEQ_CONTROL, which is followed by one that does. -/
def lzma2Call (s : St) : Ret × St := lzma2Loop (2 * (s.inp.size - s.inPos) + 4) s

/-- State after `lzma_lz_decoder_init` with `lzma2_decoder_init`:
    sequence = SEQ_CONTROL, need_properties = true, need_dictionary_reset = (no preset dictionary). -/
def initLzma2 (dictSize : Nat) (preset : List UInt8) (input : ByteArray) : St :=
  let tail := presetTail dictSize preset
  { inp := input, inPos := 0, range := UINT32_MAX, code := 0, initLeft := 5, probs := #[],
    state := 0, rep0 := 0, rep1 := 0, rep2 := 0, rep3 := 0, lc := 0, lp := 0, pb := 0,
    uncomp := none, allowEopm := false, eopmValid := false, pending := .none,
    dp := DictPos.init dictSize preset.length, hist := ByteArray.mk tail.toArray, outBase := tail.length,
    l2 := { needProperties := true, needDictionaryReset := preset.isEmpty } }

/-! ### coder interface (what `next.code` of the last filter does) -/

inductive Kind where
  | lzma1 | lzma2
  deriving Repr, DecidableEq, Inhabited

structure Coder where
  kind : Kind
  s : St
  deriving Inhabited

namespace Coder

def initLzma1 (props : Props) (dictSize : Nat) (uncompSize : Option Nat) (allowEopm : Bool)
    (preset : List UInt8) (input : ByteArray) : Coder :=
  { kind := .lzma1, s := St.initLzma1 props dictSize uncompSize (allowEopm || uncompSize.isNone) preset input }

def initLzma2 (dictSize : Nat) (preset : List UInt8) (input : ByteArray) : Coder :=
  { kind := .lzma2, s := Lzma2.initLzma2 dictSize preset input }

@[inline] def produced (c : Coder) : Nat := c.s.produced
@[inline] def consumed (c : Coder) : Nat := c.s.inPos

/-- One call of `lz_decode` (= `decode_buffer`, the coder being the last in the chain) offering `outCap` more bytes
    of output space. Returns the return code and the new coder; output and input positions are read off the coder. -/
def code (c : Coder) (outCap : Nat) : Ret × Coder :=
  let outSize := c.s.produced + outCap
  let fuel := decodeBufferFuel c.s outSize
  let kind := c.kind
  let s := c.s
  match kind with
  | .lzma1 => let (r, s) := decodeBuffer lzmaCall fuel outSize s; (r, { kind := .lzma1, s := s })
  | .lzma2 => let (r, s) := decodeBuffer lzma2Call fuel outSize s; (r, { kind := .lzma2, s := s })

/-- all output bytes produced so far -/
def output (c : Coder) : List UInt8 := histFrom c.s.hist c.s.outBase
def outputBytes (c : Coder) : ByteArray := c.s.hist.extract c.s.outBase c.s.hist.size

end Coder

/-- LZMA2 as the (only) filter of a raw chain: the result of ONE call of its `code` function with the complete
    `input` and `outCap` bytes of output space: `.streamEnd` (end marker 0x00 reached), `.ok` (input truncated or
    output space exhausted), `.dataError`. `consumed` counts the bytes up to and including the end marker. -/
def lzma2Decode (dictSize : Nat) (input : List UInt8) (presetDict : List UInt8 := []) (outCap : Nat := UNLIMITED) : DecResult :=
  let c := Coder.initLzma2 dictSize presetDict (ByteArray.mk input.toArray)
  let (ret, c) := c.code outCap
  { ret := ret, out := c.output, consumed := c.consumed }

/-- `lzma_lzma2_props_decode`: dictionary size from the one-byte Filter Properties (`none` = LZMA_OPTIONS_ERROR). -/
def lzma2DictSize (b : Nat) : Option Nat :=
  if b &&& 0xC0 != 0 then none
  else if b > 40 then none
  else if b == 40 then some UINT32_MAX
  else some ((2 ||| (b &&& 1)) <<< (b / 2 + 11))

/-! ### raw chains -/

abbrev LZMA_LZMA1EXT_ALLOW_EOPM : Nat := 1
abbrev UINT64_MAX : Nat := 18446744073709551615

/-- The last filter of a raw decoder chain with its `lzma_options_lzma` members that the decoder reads. -/
inductive LastFilter where
  /-- LZMA_FILTER_LZMA1: end marker required -/
  | lzma1 (props : Props) (dictSize : Nat) (preset : List UInt8)
  /-- LZMA_FILTER_LZMA1EXT: `ext_flags`, `ext_size = ext_size_low + (ext_size_high << 32)` (UINT64_MAX = unknown) -/
  | lzma1ext (props : Props) (dictSize : Nat) (preset : List UInt8) (extFlags : Nat) (extSize : Nat)
  /-- LZMA_FILTER_LZMA2 -/
  | lzma2 (dictSize : Nat) (preset : List UInt8)
  deriving Inhabited

/-- A raw decoder chain: the non-last filters are given by their decoding functions on complete byte strings
    (delta, BCJ: `Model/Delta.lean`, `Model/Bcj.lean`), in chain order (`pre[0]` is `filters[0]`, whose output is the
    final output). They are size-preserving, so the return code and the consumed count are those of the last filter;
    the output bytes are exact whenever the whole stream was decoded (`streamEnd`) and for prefix-stable filters (delta)
    always; for BCJ filters the bytes of an unfinished stream are only an approximation (bytes held back by
    `simple_coder` are not modelled here). -/
structure Chain where
  pre : List (List UInt8 → List UInt8) := []
  last : LastFilter
  deriving Inhabited

/-- `lzma_raw_decoder_init` for the last filter (`lzma_decoder_init` / `lzma2_decoder_init` through
    `lzma_lz_decoder_init`): PROG_ERROR for invalid lc/lp/pb, OPTIONS_ERROR for unknown `ext_flags`. -/
def LastFilter.init (f : LastFilter) (input : ByteArray) : Except Ret Coder :=
  match f with
  | .lzma1 props dictSize preset =>
    if !props.valid then .error .progError else .ok (Coder.initLzma1 props dictSize none true preset input)
  | .lzma1ext props dictSize preset extFlags extSize =>
    if !props.valid then .error .progError
    else if extFlags &&& (0xFFFFFFFF - LZMA_LZMA1EXT_ALLOW_EOPM) != 0 then .error .optionsError
    else
      let uncomp := if extSize == UINT64_MAX then none else some extSize
      .ok (Coder.initLzma1 props dictSize uncomp (extFlags &&& LZMA_LZMA1EXT_ALLOW_EOPM != 0) preset input)
  | .lzma2 dictSize preset => .ok (Coder.initLzma2 dictSize preset input)

def Chain.post (ch : Chain) (out : List UInt8) : List UInt8 := ch.pre.foldr (fun f acc => f acc) out

/-- `lzma_raw_decoder` + ONE `lzma_code(strm, LZMA_FINISH)` with the complete input and `outCap` bytes of output:
    return code of `lzma_code`, bytes written to `next_out`, `total_in`.
    (A first `LZMA_OK` without progress stays `LZMA_OK`; initialisation errors consume and produce nothing.) -/
def rawDecode (ch : Chain) (input : List UInt8) (outCap : Nat := UNLIMITED) : DecResult :=
  match ch.last.init (ByteArray.mk input.toArray) with
  | .error r => { ret := r, out := [], consumed := 0 }
  | .ok c =>
    let (ret, c) := c.code outCap
    { ret := ret, out := ch.post c.output, consumed := c.consumed }

/-- `lzma_raw_buffer_decode(filters, allocator, in, &in_pos, in_size, out, &out_pos, out_size)` with `in_pos = out_pos = 0`:
    LZMA_STREAM_END becomes LZMA_OK; LZMA_OK becomes LZMA_BUF_ERROR (output too small) or LZMA_DATA_ERROR (input truncated),
    decided by trying to get one more output byte when both buffers are used up; on every failure the positions are
    restored (`consumed = 0`, no output reported). -/
def rawBufferDecode (ch : Chain) (input : List UInt8) (outCap : Nat) : DecResult :=
  match ch.last.init (ByteArray.mk input.toArray) with
  | .error r => { ret := r, out := [], consumed := 0 }
  | .ok c =>
    let (ret, c) := c.code outCap
    if ret == .streamEnd then { ret := .ok, out := ch.post c.output, consumed := c.consumed }
    else if ret == .ok then
      if c.consumed != input.length then { ret := .bufError, out := [], consumed := 0 }
      else if c.produced != outCap then { ret := .dataError, out := [], consumed := 0 }
      else
        let (_, c') := c.code 1
        if c'.produced == c.produced + 1 then { ret := .bufError, out := [], consumed := 0 }
        else { ret := .dataError, out := [], consumed := 0 }
    else { ret := ret, out := [], consumed := 0 }

end XzVerif.Lzma2
