/-
  Executable SEQUENCE model of the write phase and of `io_close()` of src/xz/file_io.c (property C19, metadata).
  Core Lean only (the driver `xzm_c19` links this).

  Mirrors (xz 5.8.1, POSIX branch, HAVE_FUTIMENS):
    io_write()        sparse-file logic: an all-zero buffer of exactly IO_BUFFER_SIZE bytes is not written but added to
                      `dest_pending_sparse`; the next non-sparse buffer first does lseek(pending, SEEK_CUR)
    io_write_buf()    write(2) (no system call for size 0)
    io_close()        (a) the "last write" of a pending hole: lseek(pending - 1, SEEK_CUR) + write of one zero byte
                      (b) io_copy_attrs(): fchown(uid, -1); fchown(-1, gid) only if the gid differs; fchmod; futimens
                      (c) io_sync_dest(): fsync(dest), fsync(dir)            [only with opt_synchronous]
                      (d) io_close_dest(): close(dir), close(dest), unlink(dest) on failure
                      (e) io_close_src(): close(src), io_unlink(src) iff success && !opt_keep_original
    io_unlink()       lstat/stat + dev/ino comparison, then unlink(2); both failures are warnings

  What is a parameter (decided by the environment, `Env`): the result of every system call of io_close(). The write phase
  is the sequence of `io_write()` calls that all returned false (no error). A `write(2)` is modelled as one complete
  write (the retry loop of io_write_buf over partial writes / EINTR / EAGAIN is not modelled).

  Time: every system call advances the clock by one tick (`now` strictly increases); `write(2)` sets `mtime := now`.
  So "mtime of the target = mtime of the source" holds at the end only if no write happens after futimens.
  Not modelled: ctime; the atime of the destination is only changed by futimens (nothing reads the destination);
  restoring the O_APPEND/O_NONBLOCK flags of stdout/stdin (fcntl), signals_block/unblock.

  The mode handed to fchmod is `Suffix.destMode` (the group-fallback rule, tied to the code by `gen_mode_*`).
-/
import XzVerif.Model.Suffix

namespace XzVerif.Attrs
open XzVerif.Suffix (destMode Status)

/-- `IO_BUFFER_SIZE` (file_io.h); checked against Gen. -/
def ioBufferSize : Nat := 8192

/-- `pending_max = (off_t)1 << (sizeof(off_t) * CHAR_BIT - 2)` with a 64-bit `off_t`. -/
def pendingMax : Nat := 2 ^ 62

/-- What `lstat` shows of a regular file (times in nanoseconds since the epoch). -/
structure File where
  content : List UInt8
  mode : Nat
  uid : Nat
  gid : Nat
  atime : Nat
  mtime : Nat
  deriving DecidableEq, Repr, Inhabited

/-- The system calls of the write phase and of io_close() that concern the file pair, as CALLS (whatever they return). -/
inductive Ev where
  | write (n : Nat)                     -- write(dest_fd, buf, n)
  | seek (n : Nat)                      -- lseek(dest_fd, n, SEEK_CUR)
  | chownOwner (uid : Nat)              -- fchown(dest_fd, uid, -1)
  | chownGroup (gid : Nat)              -- fchown(dest_fd, -1, gid)
  | chmod (mode : Nat)                  -- fchmod(dest_fd, mode)
  | utimens (atime mtime : Nat)         -- futimens(dest_fd, {atime, mtime})
  | fsync                               -- fsync(dest_fd)
  | fsyncDir                            -- fsync(dir_fd)
  | closeDir                            -- close(dir_fd)
  | closeDest                           -- close(dest_fd)
  | unlinkDest                          -- unlink(dest_name)
  | closeSrc                            -- close(src_fd)
  | unlinkSrc                           -- unlink(src_name)
  deriving DecidableEq, Repr, Inhabited

/-- the event writes data into the destination -/
def Ev.isWrite : Ev → Bool
  | .write _ => true
  | _ => false

/-- the event belongs to the write phase alphabet (write / lseek) -/
def Ev.isData : Ev → Bool
  | .write _ => true
  | .seek _ => true
  | _ => false

/-- numeric form used by the Gen rows (what the LD_PRELOAD shim observed on the real `xz`) -/
def Ev.code : Ev → List Nat
  | .write n => [1, n]
  | .seek n => [2, n]
  | .chownOwner u => [3, u]
  | .chownGroup g => [4, g]
  | .chmod m => [5, m]
  | .utimens a m => [6, a, m]
  | .fsync => [7]
  | .fsyncDir => [8]
  | .closeDir => [9]
  | .closeDest => [10]
  | .unlinkDest => [11]
  | .closeSrc => [12]
  | .unlinkSrc => [13]

/-- `pair->dest_fd`: -1 (io_open_dest failed), STDOUT_FILENO, or a regular file created with O_CREAT|O_EXCL. -/
inductive DestKind where
  | none | stdout | file
  deriving DecidableEq, Repr, Inhabited

structure Cfg where
  /-- `opt_keep_original` as file_io.c sees it (args.c: implied by --stdout / --test) -/
  keep : Bool
  /-- `opt_synchronous` (default true; args.c clears it when keep_original is set; `--no-sync`) -/
  sync : Bool
  /-- `pair->dest_try_sparse` (decompressing, no `--no-sparse`, destination a regular file) -/
  trySparse : Bool
  destKind : DestKind
  /-- `pair->src_fd == STDIN_FILENO` -/
  srcIsStdin : Bool
  deriving DecidableEq, Repr, Inhabited

/-- Results of the system calls of io_close(), chosen by the environment. -/
structure Env where
  /-- `warn_fchown = geteuid() == 0` -/
  isRoot : Bool
  ownerOk : Bool        -- fchown(fd, uid, -1) == 0
  groupOk : Bool        -- fchown(fd, -1, gid) == 0
  chmodOk : Bool
  utimensOk : Bool
  seekOk : Bool         -- the lseek of the last write
  writeOk : Bool        -- the one-byte write of the last write
  fsyncOk : Bool
  fsyncDirOk : Bool
  closeOk : Bool        -- close(dest_fd) == 0
  srcSame : Bool        -- io_unlink(src): lstat succeeds and dev/ino are those of the opened file
  srcUnlinkOk : Bool
  destSame : Bool       -- io_unlink(dest), same test
  destUnlinkOk : Bool
  deriving DecidableEq, Repr, Inhabited

structure St where
  dest : File
  /-- file offset of dest_fd -/
  pos : Nat
  /-- `pair->dest_pending_sparse` -/
  pending : Nat
  /-- the clock; strictly increasing -/
  now : Nat
  /-- system calls so far, oldest first -/
  trace : List Ev
  /-- message_warning / message_error calls so far -/
  msgs : List Status
  deriving DecidableEq, Repr, Inhabited

/-- a system call happens: it is recorded and time passes -/
def St.ev (s : St) (e : Ev) : St := { s with trace := s.trace ++ [e], now := s.now + 1 }

def St.msg (s : St) (m : Status) : St := { s with msgs := s.msgs ++ [m] }

/-- pwrite semantics on a byte list: a gap between the end of the file and `pos` reads as zeros (a hole). -/
def writeAt (content : List UInt8) (pos : Nat) (bs : List UInt8) : List UInt8 :=
  (content ++ List.replicate (pos - content.length) 0).take pos ++ bs ++ content.drop (pos + bs.length)

/-- a successful `write(dest_fd, bs, bs.length)`: data lands at the file offset, **mtime := now** -/
def St.sysWrite (s : St) (bs : List UInt8) : St :=
  { s with dest := { s.dest with content := writeAt s.dest.content s.pos bs, mtime := s.now },
           pos := s.pos + bs.length,
           trace := s.trace ++ [.write bs.length], now := s.now + 1 }

/-- a successful `lseek(dest_fd, n, SEEK_CUR)`: no effect on the file -/
def St.sysSeek (s : St) (n : Nat) : St :=
  { s with pos := s.pos + n, trace := s.trace ++ [.seek n], now := s.now + 1 }

/-- `io_write_buf()` without errors: `while (size > 0) write(...)` -/
def ioWriteBuf (s : St) (bs : List UInt8) : St :=
  if bs.isEmpty then s else s.sysWrite bs

/-- `is_sparse(buf)`: the whole buffer is zero -/
def isSparse (bs : List UInt8) : Bool := bs.all (· == 0)

/-- `io_write(pair, buf, size)` returning false. -/
def ioWrite (trySparse : Bool) (s : St) (bs : List UInt8) : St :=
  if trySparse then
    if bs.length == ioBufferSize && isSparse bs && decide (s.pending < pendingMax) then
      { s with pending := s.pending + bs.length }
    else if bs.length == 0 then s
    else
      let s := if s.pending > 0 then { s.sysSeek s.pending with pending := 0 } else s
      ioWriteBuf s bs
  else ioWriteBuf s bs

def runWrites (trySparse : Bool) (s : St) (chunks : List (List UInt8)) : St :=
  chunks.foldl (ioWrite trySparse) s

/-! ## io_close() -/

/-- (a) the sparse tail. Returns the new `success`. -/
def lastWrite (cfg : Cfg) (env : Env) (success : Bool) (s : St) : St × Bool :=
  if (success || cfg.destKind == .stdout) && cfg.trySparse && decide (s.pending > 0) then
    if !env.seekOk then ((s.ev (.seek (s.pending - 1))).msg .error, false)
    else
      let s := s.sysSeek (s.pending - 1)
      if env.writeOk then (s.sysWrite [0], success)
      else ((s.ev (.write 1)).msg .error, false)
  else (s, success)

/-- (b) `io_copy_attrs()`; `src` = `pair->src_st`, `s.dest.gid` = `pair->dest_st.st_gid` (fstat right after open). -/
def ioCopyAttrs (env : Env) (src : File) (s : St) : St :=
  -- fchown(dest_fd, src uid, -1): a failure is a warning only for root
  let s := s.ev (.chownOwner src.uid)
  let s := if env.ownerOk then { s with dest := { s.dest with uid := src.uid } }
           else if env.isRoot then s.msg .warning else s
  -- the group: no system call if it is already right
  let callGroup := decide (s.dest.gid ≠ src.gid)
  let s := if callGroup then s.ev (.chownGroup src.gid) else s
  let groupFail := callGroup && !env.groupOk
  let s := if callGroup then
             (if env.groupOk then { s with dest := { s.dest with gid := src.gid } } else s.msg .warning)
           else s
  let mode := destMode src.mode groupFail
  let s := s.ev (.chmod mode)
  let s := if env.chmodOk then { s with dest := { s.dest with mode := mode } } else s.msg .warning
  -- (void)futimens(dest_fd, {src atime, src mtime}) in nanoseconds
  let s := s.ev (.utimens src.atime src.mtime)
  if env.utimensOk then { s with dest := { s.dest with atime := src.atime, mtime := src.mtime } } else s

/-- (c) `io_sync_dest()`; returns true on error -/
def ioSyncDest (env : Env) (s : St) : St × Bool :=
  let s := s.ev .fsync
  if !env.fsyncOk then (s.msg .error, true)
  else
    let s := s.ev .fsyncDir
    if !env.fsyncDirOk then (s.msg .error, true) else (s, false)

/-- `io_unlink()`: returns whether the name was removed -/
def ioUnlink (same ok : Bool) (e : Ev) (s : St) : St × Bool :=
  if !same then (s.msg .warning, false)                -- "File seems to have been moved, not removing"
  else
    let s := s.ev e
    if ok then (s, true) else (s.msg .warning, false)  -- "Cannot remove"

/-- (d) `io_close_dest()`; returns (state, error, destination removed) -/
def ioCloseDest (cfg : Cfg) (env : Env) (success : Bool) (s : St) : St × Bool × Bool :=
  if cfg.destKind != .file then (s, false, false)
  else
    let s := if cfg.sync then s.ev .closeDir else s      -- dir_fd != -1 iff opt_synchronous (io_open_dest_real)
    let s := s.ev .closeDest
    if !env.closeOk then
      let (s, r) := ioUnlink env.destSame env.destUnlinkOk .unlinkDest (s.msg .error)
      (s, true, r)
    else if !success then
      let (s, r) := ioUnlink env.destSame env.destUnlinkOk .unlinkDest s
      (s, false, r)
    else (s, false, false)

/-- (e) `io_close_src()`; returns (state, source removed) -/
def ioCloseSrc (cfg : Cfg) (env : Env) (success : Bool) (s : St) : St × Bool :=
  if cfg.srcIsStdin then (s, false)
  else
    let s := s.ev .closeSrc
    if success && !cfg.keep then ioUnlink env.srcSame env.srcUnlinkOk .unlinkSrc s else (s, false)

structure Result where
  st : St
  /-- the local `success` at the end of io_close() -/
  success : Bool
  srcRemoved : Bool
  destRemoved : Bool
  deriving DecidableEq, Repr, Inhabited

/-- `io_close(pair, success)` -/
def ioClose (cfg : Cfg) (env : Env) (src : File) (success : Bool) (s : St) : Result :=
  let (s, success) := lastWrite cfg env success s
  let (s, success) :=
    if success && cfg.destKind == .file then
      let s := ioCopyAttrs env src s
      if cfg.sync then
        let (s, err) := ioSyncDest env s
        (s, !err)
      else (s, success)
    else (s, success)
  let (s, err, destRemoved) := ioCloseDest cfg env success s
  let success := if err then false else success
  let (s, srcRemoved) := ioCloseSrc cfg env success s
  ⟨s, success, srcRemoved, destRemoved⟩

/-! ## one file: open(O_CREAT|O_EXCL, 0600), the writes, io_close -/

structure Run where
  cfg : Cfg
  env : Env
  /-- `pair->src_st` -/
  src : File
  /-- the `success` argument of io_close(): coding succeeded -/
  success : Bool
  /-- the io_write() calls, in order (each `buf[0..size)`) -/
  chunks : List (List UInt8)
  /-- euid of the process = owner of the new file -/
  procUid : Nat
  /-- group of the new file (egid, or the directory's group with BSD semantics / a setgid directory) -/
  destGid : Nat
  /-- the clock when the destination is created -/
  now0 : Nat
  deriving Repr, Inhabited

/-- right after `open(dest_name, O_WRONLY|O_CREAT|O_EXCL|…, S_IRUSR|S_IWUSR)` -/
def initSt (procUid destGid now0 : Nat) : St :=
  { dest := ⟨[], 0o600, procUid, destGid, now0, now0⟩, pos := 0, pending := 0, now := now0 + 1, trace := [], msgs := [] }

def run (r : Run) : Result :=
  ioClose r.cfg r.env r.src r.success (runWrites r.cfg.trySparse (initSt r.procUid r.destGid r.now0) r.chunks)

/-- every system call succeeds -/
def Env.allOk (isRoot : Bool) : Env :=
  ⟨isRoot, true, true, true, true, true, true, true, true, true, true, true, true, true⟩

/-- One file given on the command line of `xz`, written to a new regular file, coding succeeds and every system call
    succeeds except the fchown calls that are forced to fail. The configuration is derived from the options as the code
    does: args.c clears `opt_synchronous` when `opt_keep_original` is set; io_open_dest_real() sets `dest_try_sparse`
    iff `try_sparse && opt_mode == MODE_DECOMPRESS` (`--no-sparse` clears `try_sparse`). -/
def cliRun (decompress keep noSparse noSync : Bool) (srcMode srcUid srcGid srcAtime srcMtime procUid destGid : Nat)
    (ownerFail groupFail : Bool) (chunks : List (List UInt8)) : Run :=
  { cfg := { keep := keep, sync := !noSync && !keep, trySparse := decompress && !noSparse, destKind := .file,
             srcIsStdin := false },
    env := { Env.allOk (procUid == 0) with ownerOk := !ownerFail, groupOk := !groupFail },
    src := ⟨[], srcMode, srcUid, srcGid, srcAtime, srcMtime⟩,
    success := true, chunks := chunks, procUid := procUid, destGid := destGid, now0 := 0 }

/-! ## privilege situations ("owner and group are copied where permitted") -/

/-- Who runs xz. `capChown` = a NON-root effective uid holding CAP_CHOWN (+ CAP_FOWNER), e.g. through ambient or file
    capabilities; `groupMember` = an ordinary user who is a member of the source file's group. -/
inductive Priv where
  | root | capChown | plain | groupMember
  deriving DecidableEq, Repr, Inhabited

def Priv.ofCode : Nat → Priv
  | 0 => .root | 1 => .capChown | 2 => .plain | _ => .groupMember

/-- chown(2): giving a file to another uid needs uid 0 or CAP_CHOWN; "changing" it to its present owner is allowed. -/
def ownerPermitted (p : Priv) (procUid srcUid : Nat) : Bool :=
  p == .root || p == .capChown || procUid == srcUid

/-- chown(2): the owner of a file may change its group to a group he is a member of; otherwise uid 0 / CAP_CHOWN. -/
def groupPermitted (p : Priv) (procGid srcGid : Nat) : Bool :=
  p == .root || p == .capChown || p == .groupMember || procGid == srcGid

/-- `cliRun` with the results of the two fchown calls decided by the privilege situation. `warn_fchown` is euid == 0,
    which is `procUid == 0` (in `cliRun`): under `capChown`/`plain`/`groupMember` the euid is not 0. -/
def privRun (p : Priv) (decompress keep noSparse noSync : Bool)
    (srcMode srcUid srcGid srcAtime srcMtime procUid procGid : Nat) (chunks : List (List UInt8)) : Run :=
  cliRun decompress keep noSparse noSync srcMode srcUid srcGid srcAtime srcMtime procUid procGid
    (!ownerPermitted p procUid srcUid) (!groupPermitted p procGid srcGid) chunks

end XzVerif.Attrs
