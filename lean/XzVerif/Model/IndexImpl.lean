/-
  C13 — concrete model of src/liblzma/common/index.c: Streams and Record groups kept in sequentially filled
  trees (`index_tree_append` with its count-driven left rotation), Records as cumulative sums, number bases,
  `prealloc`, the Check mask of all Streams but the last, cat (shrinks the last group, rebases and renumbers the
  moved Streams), dup (one group per Stream), the iterator with its ITER_METHOD_* indirection, locate by
  cumulative sums (tree descent + binary search).  Pointers of the C code become in-order positions.
  Core Lean only.
-/
import XzVerif.Model.IndexSpec

namespace XzVerif.Index

abbrev SpecIndex := Index

/-! ### The sequentially filled tree -/

inductive Tree (α : Type) where
  | nil : Tree α
  | node (l : Tree α) (v : α) (r : Tree α) : Tree α
  deriving Repr, Inhabited

namespace Tree
variable {α : Type}

def toList : Tree α → List α
  | nil => []
  | node l v r => l.toList ++ v :: r.toList

def size : Tree α → Nat
  | nil => 0
  | node l _ r => l.size + 1 + r.size

def height : Tree α → Nat
  | nil => 0
  | node l _ r => max l.height r.height + 1

def isNil : Tree α → Bool
  | nil => true
  | node _ _ _ => false

/-- `tree->rightmost->right = node` -/
def insertRight (x : α) : Tree α → Tree α
  | nil => node nil x nil
  | node l v r => node l v (insertRight x r)

/-- number of `right` links from the root to the rightmost node -/
def rightDepth : Tree α → Nat
  | nil => 0
  | node _ _ nil => 0
  | node _ _ r => rightDepth r + 1

/-- left rotation with this node as the rotation root (`pivot = node->right`) -/
def rotLeft : Tree α → Tree α
  | node a x (node b y c) => node (node a x b) y c
  | t => t

/-- rotate left at the node reached from the root by `k` `right` links -/
def rotLeftAt : Nat → Tree α → Tree α
  | 0, t => rotLeft t
  | _ + 1, nil => nil
  | k + 1, node l v r => node l v (rotLeftAt k r)

def rightmost? : Tree α → Option α
  | nil => none
  | node _ v nil => some v
  | node _ _ r => rightmost? r

def leftmost? : Tree α → Option α
  | nil => none
  | node nil v _ => some v
  | node l _ _ => leftmost? l

def modifyRightmost (f : α → α) : Tree α → Tree α
  | nil => nil
  | node l v nil => node l (f v) nil
  | node l v r => node l v (modifyRightmost f r)

/-- the node at in-order position `k` -/
def get? : Tree α → Nat → Option α
  | nil, _ => none
  | node l v r, k =>
    if k < l.size then l.get? k else if k = l.size then some v else r.get? (k - l.size - 1)

/-- `index_tree_locate`: the rightmost node (in-order) whose key is `≤ target`, found by descending from the root;
    returns its in-order position too. `off` = number of nodes before this subtree. -/
def locateIdx (key : α → Nat) (target : Nat) : Tree α → Nat → Option (Nat × α) → Option (Nat × α)
  | nil, _, res => res
  | node l v r, off, res =>
    if key v > target then locateIdx key target l off res
    else locateIdx key target r (off + l.size + 1) (some (off + l.size, v))

end Tree

/-- `ctz32` -/
def ctzGo : Nat → Nat → Nat
  | 0, _ => 0
  | f + 1, n => if n % 2 = 1 then 0 else ctzGo f (n / 2) + 1
def ctz32 (n : Nat) : Nat := ctzGo 32 n
/-- `bsr32`: index of the highest set bit -/
def bsr32 (n : Nat) : Nat := Nat.log2 n

/-- `index_tree` : root + node count (leftmost/rightmost are derived) -/
structure CTree (α : Type) where
  root : Tree α
  count : Nat
  deriving Repr, Inhabited

namespace CTree
variable {α : Type}

def empty : CTree α := ⟨.nil, 0⟩

/-- `index_tree_append` -/
def append (t : CTree α) (x : α) : CTree α :=
  let count := t.count + 1
  match t.root with
  | .nil => ⟨.node .nil x .nil, count⟩
  | root =>
    let t1 := root.insertRight x
    -- up = count ^ (1 << bsr32(count)): non-zero unless count is a power of two
    let up := count ^^^ (1 <<< bsr32 count)
    if up ≠ 0 then
      -- go `ctz32(count) + 2` parents up from the new node and rotate left there
      let up := ctz32 count + 2
      ⟨t1.rotLeftAt (t1.rightDepth - up), count⟩
    else ⟨t1, count⟩

def toList (t : CTree α) : List α := t.root.toList

end CTree

/-! ### Streams, groups, Records -/

namespace Impl

structure Rec where
  uncompressedSum : Nat
  unpaddedSum : Nat
  deriving Repr, Inhabited, DecidableEq

structure Group where
  /-- node.uncompressed_base / node.compressed_base: start of this group relative to the Stream -/
  uncompressedBase : Nat
  compressedBase : Nat
  numberBase : Nat
  allocated : Nat
  /-- `records[0 .. last]` -/
  records : Array Rec
  deriving Repr, Inhabited

def Group.last (g : Group) : Nat := g.records.size - 1
def Group.recAt (g : Group) (k : Nat) : Rec := g.records.getD k default
def Group.lastRec (g : Group) : Rec := g.recAt g.last

structure Stream where
  uncompressedBase : Nat
  compressedBase : Nat
  number : Nat
  blockNumberBase : Nat
  groups : CTree Group
  recordCount : Nat
  indexListSize : Nat
  /-- `stream_flags.version == UINT32_MAX` ↔ `none` -/
  flags : Option StreamFlags
  padding : Nat
  deriving Repr, Inhabited

structure Index where
  streams : CTree Stream
  uncompressedSize : Nat
  totalSize : Nat
  recordCount : Nat
  indexListSize : Nat
  prealloc : Nat
  checks : Nat
  deriving Repr, Inhabited

/-- `g->records[g->last]` of the last group of the Stream; (0, 0) when the Stream has no group (`g == NULL`) -/
def Stream.lastSums (s : Stream) : Rec :=
  match s.groups.root.rightmost? with
  | none => ⟨0, 0⟩
  | some g => g.lastRec

/-- `g != NULL && g->last + 1 < g->allocated` -/
def Stream.hasRoom (s : Stream) : Bool :=
  match s.groups.root.rightmost? with
  | none => false
  | some g => g.records.size < g.allocated

/-- `index_stream_init` -/
def streamInit (compressedBase uncompressedBase number blockNumberBase : Nat) : Stream :=
  { uncompressedBase, compressedBase, number, blockNumberBase, groups := .empty, recordCount := 0,
    indexListSize := 0, flags := none, padding := 0 }

/-- `index_init_plain` -/
def initPlain : Index :=
  { streams := .empty, uncompressedSize := 0, totalSize := 0, recordCount := 0, indexListSize := 0,
    prealloc := INDEX_GROUP_SIZE, checks := 0 }

/-- `lzma_index_init` -/
def init : Index := { initPlain with streams := CTree.empty.append (streamInit 0 0 1 0) }

/-- `lzma_index_prealloc` (with the clamp to one Record added by the fix for the empty-Index decode) -/
def prealloc (i : Index) (records : Nat) : Index :=
  let r := if records > PREALLOC_MAX then PREALLOC_MAX else records
  { i with prealloc := if r = 0 then 1 else r }

def lastStream? (i : Index) : Option Stream := i.streams.root.rightmost?

def blockCount (i : Index) : Nat := i.recordCount
def streamCount (i : Index) : Nat := i.streams.count
def indexSizeAll (i : Index) : Nat := indexSize i.recordCount i.indexListSize
def totalSize' (i : Index) : Nat := i.totalSize
def streamSize (i : Index) : Nat := indexStreamSize i.totalSize i.recordCount i.indexListSize
def memused (i : Index) : Nat := memusage i.streams.count i.recordCount
def paddingSize (i : Index) : Nat := indexPadding i.recordCount i.indexListSize

/-- `lzma_index_file_size` -/
def fileSize (i : Index) : Nat :=
  match i.streams.root.rightmost? with
  | none => VLI_UNKNOWN
  | some s => indexFileSize s.compressedBase s.lastSums.unpaddedSum s.recordCount s.indexListSize s.padding

/-- `lzma_index_checks`: the stored mask plus the bit of the last Stream -/
def checks (i : Index) : Nat :=
  match i.streams.root.rightmost? with
  | none => i.checks
  | some s => match s.flags with | none => i.checks | some f => i.checks ||| 2 ^ f.check

def setLastStream (i : Index) (f : Stream → Stream) : Index :=
  { i with streams := ⟨i.streams.root.modifyRightmost f, i.streams.count⟩ }

/-- `lzma_index_stream_flags` -/
def streamFlags (i : Index) (f : StreamFlags) : Ret × Index :=
  match Spec.flagsCheck f with
  | some r => (r, i)
  | none => (.ok, setLastStream i fun s => { s with flags := some f })

/-- `lzma_index_stream_padding`: sets the padding to 0, measures the file, then restores or sets the new value -/
def streamPadding (i : Index) (p : Nat) : Ret × Index :=
  if p > VLI_MAX ∨ p % 4 ≠ 0 then (.progError, i)
  else
    match i.streams.root.rightmost? with
    | none => (.progError, i)
    | some s =>
      let old := s.padding
      let i0 := setLastStream i fun s => { s with padding := 0 }
      if fileSize i0 + p > VLI_MAX then (.dataError, setLastStream i0 fun s => { s with padding := old })
      else (.ok, setLastStream i0 fun s => { s with padding := p })

/-- the allocator oracle of the harness: requests above `ALLOC_MAX` bytes fail -/
def allocOk (size : Nat) : Bool := size ≤ ALLOC_MAX

/-- `lzma_index_append` -/
def append (i : Index) (unpadded uncompressed : Nat) : Ret × Index :=
  if unpadded < UNPADDED_SIZE_MIN ∨ unpadded > UNPADDED_SIZE_MAX ∨ uncompressed > VLI_MAX then (.progError, i)
  else
    match i.streams.root.rightmost? with
    | none => (.progError, i)
    | some s =>
      -- g == NULL ? 0 : vli_ceil4(g->records[g->last].unpadded_sum)   (vli_ceil4(0) = 0)
      let compressedBase := vliCeil4 s.lastSums.unpaddedSum
      let uncompressedBase := s.lastSums.uncompressedSum
      let add := vliSize unpadded + vliSize uncompressed
      if uncompressedBase + uncompressed > VLI_MAX ∨ i.uncompressedSize + uncompressed > VLI_MAX then (.dataError, i)
      else if compressedBase + unpadded > UNPADDED_SIZE_MAX then (.dataError, i)
      else if indexFileSize s.compressedBase (compressedBase + unpadded) (s.recordCount + 1) (s.indexListSize + add) s.padding
                = VLI_UNKNOWN then (.dataError, i)
      else if indexSize (i.recordCount + 1) (i.indexListSize + add) > BACKWARD_SIZE_MAX then (.dataError, i)
      else
        let r : Rec := ⟨uncompressedBase + uncompressed, compressedBase + unpadded⟩
        let totals (i : Index) : Index :=
          { i with totalSize := i.totalSize + vliCeil4 unpadded, uncompressedSize := i.uncompressedSize + uncompressed,
                   recordCount := i.recordCount + 1, indexListSize := i.indexListSize + add }
        if s.hasRoom then
          (.ok, totals (setLastStream i fun s =>
            { s with groups := ⟨s.groups.root.modifyRightmost fun g => { g with records := g.records.push r }, s.groups.count⟩,
                     recordCount := s.recordCount + 1, indexListSize := s.indexListSize + add }))
        else if ¬ allocOk (SIZEOF_INDEX_GROUP + i.prealloc * SIZEOF_INDEX_RECORD) then (.memError, i)
        else
          let g : Group := { uncompressedBase, compressedBase, numberBase := s.recordCount + 1, allocated := i.prealloc,
                             records := #[r] }
          let i1 := setLastStream i fun s =>
            { s with groups := s.groups.append g, recordCount := s.recordCount + 1, indexListSize := s.indexListSize + add }
          (.ok, totals { i1 with prealloc := INDEX_GROUP_SIZE })

/-- `index_cat_info` -/
structure CatInfo where
  uncompressedSize : Nat
  fileSize : Nat
  blockNumberAdd : Nat
  streamNumberAdd : Nat

/-- `index_cat_helper`: in-order recursion over the source tree, each Stream rebased and appended to `dest`'s tree -/
def catHelper (info : CatInfo) : Tree Stream → CTree Stream → CTree Stream
  | .nil, acc => acc
  | .node l s r, acc =>
    let acc := catHelper info l acc
    let s' : Stream := { s with uncompressedBase := s.uncompressedBase + info.uncompressedSize,
                                compressedBase := s.compressedBase + info.fileSize,
                                number := s.number + info.streamNumberAdd,
                                blockNumberBase := s.blockNumberBase + info.blockNumberAdd }
    catHelper info r (acc.append s')

/-- `lzma_index_cat` (on success the source is consumed) -/
def cat (dest src : Index) : Ret × Index :=
  let destFileSize := fileSize dest
  if destFileSize + fileSize src > VLI_MAX ∨ dest.uncompressedSize + src.uncompressedSize > VLI_MAX then (.dataError, dest)
  else if vliCeil4 (indexSizeUnpadded dest.recordCount dest.indexListSize
                    + indexSizeUnpadded src.recordCount src.indexListSize) > BACKWARD_SIZE_MAX then (.dataError, dest)
  else
    -- "Optimize the last group to minimize memory usage": allocated := last + 1
    let dest1 := setLastStream dest fun s =>
      { s with groups := ⟨s.groups.root.modifyRightmost fun g =>
                 if g.records.size < g.allocated then { g with allocated := g.records.size } else g, s.groups.count⟩ }
    let dest2 := { dest1 with checks := checks dest1 }
    let info : CatInfo := { uncompressedSize := dest2.uncompressedSize, fileSize := destFileSize,
                            streamNumberAdd := dest2.streams.count, blockNumberAdd := dest2.recordCount }
    let streams := catHelper info src.streams.root dest2.streams
    (.ok, { dest2 with streams := streams,
                       uncompressedSize := dest2.uncompressedSize + src.uncompressedSize,
                       totalSize := dest2.totalSize + src.totalSize,
                       recordCount := dest2.recordCount + src.recordCount,
                       indexListSize := dest2.indexListSize + src.indexListSize,
                       checks := dest2.checks ||| src.checks })

/-- `index_dup_stream`: all Records of the Stream in one group -/
def dupStream (s : Stream) : Stream :=
  let base : Stream := { s with groups := .empty }
  if s.groups.root.isNil then base
  else
    let recs : Array Rec := s.groups.root.toList.foldl (fun acc g => acc ++ g.records) #[]
    let g : Group := { uncompressedBase := 0, compressedBase := 0, numberBase := 1, allocated := s.recordCount, records := recs }
    { base with groups := CTree.empty.append g }

/-- `lzma_index_dup` (copies `checks`: fix 63fc6e7) -/
def dup (src : Index) : Index :=
  { initPlain with
    uncompressedSize := src.uncompressedSize, totalSize := src.totalSize, recordCount := src.recordCount,
    indexListSize := src.indexListSize, checks := src.checks,
    streams := src.streams.root.toList.foldl (fun t s => t.append (dupStream s)) .empty }

/-! ### Iterator -/

inductive Method where
  | normal | next | leftmost
  deriving Repr, DecidableEq, Inhabited

/-- `lzma_index_iter.internal[]`: Stream and group "pointers" are in-order positions in their trees. -/
structure Iter where
  stream : Option Nat
  group : Option Nat
  record : Nat
  method : Method
  deriving Repr, Inhabited

/-- `lzma_index_iter_rewind` -/
def Iter.rewind : Iter := ⟨none, none, 0, .normal⟩

def streamAt (i : Index) (si : Nat) : Option Stream := i.streams.root.get? si
def groupAt (s : Stream) (gi : Nat) : Option Group := s.groups.root.get? gi

/-- `iter_set_info` -/
def iterSetInfo (i : Index) (si : Nat) (s : Stream) (gi? : Option Nat) (record : Nat) : Iter × Spec.IterInfo :=
  let it : Iter :=
    match gi? with
    | none => ⟨some si, none, record, .leftmost⟩
    | some gi =>
      if si + 1 ≠ i.streams.count ∨ gi + 1 ≠ s.groups.count then ⟨some si, some gi, record, .normal⟩
      else if gi ≠ 0 then ⟨some si, some (gi - 1), record, .next⟩
      else ⟨some si, none, record, .leftmost⟩
  let (csize, usize) :=
    match s.groups.root.rightmost? with
    | none => (indexSize 0 0 + 2 * STREAM_HEADER_SIZE, 0)
    | some g => (2 * STREAM_HEADER_SIZE + indexSize s.recordCount s.indexListSize + vliCeil4 g.lastRec.unpaddedSum,
                 g.lastRec.uncompressedSum)
  let sinfo : Spec.StreamInfo :=
    { number := s.number, blockCount := s.recordCount, compressedOffset := s.compressedBase,
      uncompressedOffset := s.uncompressedBase, compressedSize := csize, uncompressedSize := usize,
      padding := s.padding, flags := s.flags }
  let binfo : Option Spec.BlockInfo :=
    match gi?.bind (groupAt s) with
    | none => none
    | some g =>
      let nis := g.numberBase + record
      let cso0 := if record = 0 then g.compressedBase else vliCeil4 (g.recAt (record - 1)).unpaddedSum
      let uso := if record = 0 then g.uncompressedBase else (g.recAt (record - 1)).uncompressedSum
      let unpadded := (g.recAt record).unpaddedSum - cso0
      let cso := cso0 + STREAM_HEADER_SIZE
      some { numberInFile := nis + s.blockNumberBase, compressedFileOffset := cso + s.compressedBase,
             uncompressedFileOffset := uso + s.uncompressedBase, numberInStream := nis,
             compressedStreamOffset := cso, uncompressedStreamOffset := uso,
             uncompressedSize := (g.recAt record).uncompressedSum - uso, unpaddedSize := unpadded,
             totalSize := vliCeil4 unpadded }
  (it, { stream := sinfo, block := binfo })

def hasGroups (s : Stream) : Bool := !s.groups.root.isNil

/-- first Stream at position ≥ `si` that may be returned in `mode` (modes ≥ BLOCK skip Streams without groups) -/
def nextStreamFrom (i : Index) (mode : Nat) : Nat → Nat → Option Nat
  | 0, _ => none
  | fuel + 1, si =>
    match streamAt i si with
    | none => none
    | some s => if mode ≥ 2 ∧ !hasGroups s then nextStreamFrom i mode fuel (si + 1) else some si

def leftmostGroup (i : Index) (si : Nat) : Option Nat :=
  match streamAt i si with
  | none => none
  | some s => if hasGroups s then some 0 else none

/-- the "is this Block empty" test of LZMA_INDEX_ITER_NONEMPTY_BLOCK -/
def emptyBlockAt (i : Index) (si : Nat) (gi? : Option Nat) (record : Nat) : Bool :=
  match (streamAt i si).bind fun s => gi?.bind (groupAt s) with
  | none => false
  | some g =>
    if record = 0 then g.uncompressedBase = (g.recAt 0).uncompressedSum
    else (g.recAt (record - 1)).uncompressedSum = (g.recAt record).uncompressedSum

/-- the body of `lzma_index_iter_next` from the label `again:` on, `goto again` as fuel recursion -/
def nextLoop (i : Index) (mode : Nat) : Nat → Option Nat → Option Nat → Nat → Option (Nat × Option Nat × Nat)
  | 0, _, _, _ => none
  | fuel + 1, stream?, group?, record =>
    let toStream (from_ : Nat) : Option (Nat × Option Nat × Nat) :=
      (nextStreamFrom i mode (i.streams.count + 1) from_).map fun sj => (sj, leftmostGroup i sj, 0)
    let step : Option (Nat × Option Nat × Nat) :=
      match stream? with
      | none => toStream 0
      | some si =>
        match group? with
        | none => toStream (si + 1)
        | some gi =>
          match (streamAt i si).bind fun s => (groupAt s gi).map fun g => (s, g) with
          | none => none
          | some (s, g) =>
            if record < g.last then some (si, some gi, record + 1)
            else if gi + 1 < s.groups.count then some (si, some (gi + 1), 0)
            else toStream (si + 1)
    match step with
    | none => none
    | some (si, g?, rec) =>
      if mode = 3 ∧ emptyBlockAt i si g? rec then nextLoop i mode fuel (some si) g? rec else some (si, g?, rec)

def iterFuel (i : Index) : Nat := i.recordCount + i.streams.count + 2

/-- `lzma_index_iter_next`: `none` = returns true (iterator unchanged) -/
def iterNext (i : Index) (it : Iter) (mode : Nat) : Option (Iter × Spec.IterInfo) :=
  if mode > 3 then none
  else
    -- the current group, through the ITER_METHOD_* indirection; NULL when the next Stream is asked for
    let group? : Option Nat :=
      if mode = 1 then none
      else match it.method with
        | .normal => it.group
        | .next => it.group.map (· + 1)
        | .leftmost => it.stream.bind (leftmostGroup i)
    match nextLoop i mode (iterFuel i) it.stream group? it.record with
    | none => none
    | some (si, g?, rec) =>
      match streamAt i si with
      | none => none
      | some s => some (iterSetInfo i si s g? rec)

/-- binary search of `lzma_index_iter_locate`: first Record whose `uncompressed_sum` is greater than `target` -/
def bsearch (g : Group) (target : Nat) : Nat → Nat → Nat → Nat
  | 0, left, _ => left
  | fuel + 1, left, right =>
    if left < right then
      let pos := left + (right - left) / 2
      if (g.recAt pos).uncompressedSum ≤ target then bsearch g target fuel (pos + 1) right
      else bsearch g target fuel left pos
    else left

/-- `lzma_index_iter_locate`: `none` = returns true (iterator unchanged) -/
def iterLocate (i : Index) (target : Nat) : Option (Iter × Spec.IterInfo) :=
  if i.uncompressedSize ≤ target then none
  else
    match i.streams.root.locateIdx (·.uncompressedBase) target 0 none with
    | none => none
    | some (si, s) =>
      let target := target - s.uncompressedBase
      match s.groups.root.locateIdx (·.uncompressedBase) target 0 none with
      | none => none
      | some (gi, g) =>
        let left := bsearch g target (g.records.size + 1) 0 g.last
        some (iterSetInfo i si s (some gi) left)

/-- a full iteration with a fresh iterator -/
def iterAllGo (i : Index) (mode : Nat) : Nat → Iter → List Spec.IterInfo
  | 0, _ => []
  | fuel + 1, it =>
    match iterNext i it mode with
    | none => []
    | some (it', info) => info :: iterAllGo i mode fuel it'

def iterAll (i : Index) (mode : Nat) : List Spec.IterInfo := iterAllGo i mode (iterFuel i) Iter.rewind

/-! ### Codec -/

def blocksOfInfos (l : List Spec.IterInfo) : List Block :=
  l.filterMap fun x => x.block.map fun b => ⟨b.unpaddedSize, b.uncompressedSize⟩

/-- `index_encode`: what the encoder reads through `lzma_index_iter_next(LZMA_INDEX_ITER_BLOCK)` -/
def encode (i : Index) : List UInt8 := encodeBlocks (blocksOfInfos (iterAll i 2))

def decOps : DecOps Index :=
  { init := init, prealloc := prealloc, append := append, recordCount := fun i => i.recordCount,
    listSize := fun i => i.indexListSize }

def decode (memlimit : Nat) (bs : List UInt8) : DecResult Index := decodeG decOps memlimit bs

/-! ### Abstraction to the list-of-records specification -/

/-- Blocks from cumulative Records: each Unpadded Size is the difference to the previous sum rounded up to 4. -/
def blocksOfRecs : List Rec → Nat → Nat → List Block
  | [], _, _ => []
  | r :: rest, prevUnpadded, prevUncompressed =>
    ⟨r.unpaddedSum - vliCeil4 prevUnpadded, r.uncompressedSum - prevUncompressed⟩
      :: blocksOfRecs rest r.unpaddedSum r.uncompressedSum

def Stream.allRecs (s : Stream) : List Rec := s.groups.root.toList.flatMap fun g => g.records.toList

def absStream (s : Stream) : StreamRec :=
  { flags := s.flags, padding := s.padding, blocks := blocksOfRecs s.allRecs 0 0 }

def abs (i : Index) : SpecIndex := i.streams.root.toList.map absStream

end Impl

end XzVerif.Index
