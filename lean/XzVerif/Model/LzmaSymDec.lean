/-
  Specification decoder for LZMA symbols, written against an abstract bit source.

  `Prog α` is a decision tree: it asks for probability bits in stated contexts and for direct bits and finally returns a
  value. It can be run
    * against an operation list (`runOps`): succeeds iff the tree asks for exactly the contexts the list contains, in
      order — this is how "the decoder requests exactly the contexts the encoder used" is stated;
    * against the range decoder cores of `Model/RangeDec.lean` with adaptive probabilities (`runRc`).
  `decodeSym` is the symbol grammar of lzma_decoder.c (literal / matched literal / match with length + distance slot +
  reverse bittree / direct bits + align / rep0 short / rep0 long / rep1-3) on the flat probability layout of
  `Model/Lzma.lean`; the executable decoder `Model/Lzma.lean` implements the same grammar with buffering and limits.
  Core Lean only.
-/
import XzVerif.Model.LzmaEnc

namespace XzVerif.LzmaSymDec
open XzVerif.RangeDec XzVerif.RangeEnc XzVerif.Lzma XzVerif.LzmaEnc

inductive Prog (α : Type) where
  | ret (a : α)
  | bit (ctx : Nat) (k : Bool → Prog α)
  | direct (k : Bool → Prog α)
  | fail

namespace Prog

def bind {α β : Type} : Prog α → (α → Prog β) → Prog β
  | .ret a, f => f a
  | .bit ctx k, f => .bit ctx fun b => (k b).bind f
  | .direct k, f => .direct fun b => (k b).bind f
  | .fail, _ => .fail

instance : Monad Prog where
  pure := .ret
  bind := Prog.bind

/-- run against an operation list: every request must match the next operation -/
def runOps {α : Type} : Prog α → List Op → Option (α × List Op)
  | .ret a, ops => some (a, ops)
  | .bit ctx k, .bit ctx' b :: ops => if ctx = ctx' then (k b).runOps ops else none
  | .direct k, .direct b :: ops => (k b).runOps ops
  | _, _ => none

/-- run against the range decoder with adaptive probabilities -/
def runRc {α : Type} : Prog α → Probs → Rc → List UInt8 → Option (α × Probs × Rc × List UInt8)
  | .ret a, ps, rc, rest => some (a, ps, rc, rest)
  | .bit ctx k, ps, rc, rest =>
    match decodeBitL rc (ps.getD ctx 0) rest with
    | none => none
    | some (b, rc', p', rest') => (k (b == 1)).runRc (ps.setIfInBounds ctx p') rc' rest'
  | .direct k, ps, rc, rest =>
    match normalizeL rc rest with
    | none => none
    | some (rc1, rest1) =>
      let r := directCore rc1
      (k (r.1 == 1)).runRc ps r.2 rest1
  | .fail, _, _, _ => none

end Prog

@[inline] def b2n (b : Bool) : Nat := if b then 1 else 0

/-- normal bittree (`rc_bittree` of the decoder): `n` bits starting from model index `m`; returns the final index
    (`2^n · m + value` when started from `m`) -/
def pBittree (base : Nat) : Nat → Nat → Prog Nat
  | 0, m => .ret m
  | n + 1, m => .bit (base + m) fun b => pBittree base n (2 * m + b2n b)

/-- reverse bittree: `n` bits, least significant first; `sh` = weight exponent of the next bit; returns `acc + value·2^sh` -/
def pBittreeRev (base : Nat) : Nat → Nat → Nat → Nat → Prog Nat
  | 0, _, _, acc => .ret acc
  | n + 1, m, sh, acc => .bit (base + m) fun b => pBittreeRev base n (2 * m + b2n b) (sh + 1) (acc + b2n b * 2 ^ sh)

/-- `n` direct bits, most significant first, appended to `acc` -/
def pDirectBits : Nat → Nat → Prog Nat
  | 0, acc => .ret acc
  | n + 1, acc => .direct fun b => pDirectBits n (2 * acc + b2n b)

/-- matched literal: `sym` starts at 1, `offset` at 0x100, `mb` is the match byte (shifted left once per step) -/
def pLitMatched (base : Nat) : Nat → Nat → Nat → Nat → Prog Nat
  | 0, sym, _, _ => .ret sym
  | n + 1, sym, offset, mb =>
    let mb := mb * 2
    let matchBit := mb &&& offset
    .bit (base + offset + matchBit + sym) fun b =>
      pLitMatched base n (2 * sym + b2n b) (if b then matchBit else offset ^^^ matchBit) mb

/-- `len_decode` -/
def pLen (lenBase posState : Nat) : Prog Nat :=
  .bit (lenBase + LEN_CHOICE) fun c =>
    if !c then
      (pBittree (lenBase + LEN_LOW + posState * LEN_LOW_SYMBOLS) 3 1).bind fun m => .ret (MATCH_LEN_MIN + (m - 8))
    else
      .bit (lenBase + LEN_CHOICE2) fun c2 =>
        if !c2 then
          (pBittree (lenBase + LEN_MID + posState * LEN_MID_SYMBOLS) 3 1).bind fun m =>
            .ret (MATCH_LEN_MIN + LEN_LOW_SYMBOLS + (m - 8))
        else
          (pBittree (lenBase + LEN_HIGH) 8 1).bind fun m =>
            .ret (MATCH_LEN_MIN + LEN_LOW_SYMBOLS + LEN_MID_SYMBOLS + (m - 256))

/-- distance of a simple match (SEQ_DIST_SLOT … SEQ_ALIGN) -/
def pDist (len : Nat) : Prog Nat :=
  (pBittree (P_DIST_SLOT + getDistState len * DIST_SLOTS) 6 1).bind fun m =>
    let slot := m - 64
    if slot < DIST_MODEL_START then .ret slot
    else
      let footerBits := slot / 2 - 1
      let base := (2 + slot % 2) * 2 ^ footerBits
      if slot < DIST_MODEL_END then
        pBittreeRev (P_POS_SPECIAL + base - slot - 1) footerBits 1 0 base
      else
        (pDirectBits (footerBits - ALIGN_BITS) 0).bind fun d =>
          pBittreeRev P_POS_ALIGN ALIGN_BITS 1 0 (base + d * 16)

/-- One symbol; returns the symbol and the new state/reps. -/
def decodeSym (p : Props) (s : SymSt) (pos prev mb : Nat) : Prog (Sym × SymSt) :=
  let posState := pos &&& ((1 <<< p.pb) - 1)
  .bit (P_IS_MATCH + s.state * POS_STATES_MAX + posState) fun isMatch =>
    if !isMatch then
      let base := P_LITERAL + literalSubcoder p.lc p.lp pos prev
      if isLiteralState s.state then
        (pBittree base 8 1).bind fun m =>
          .ret (.lit (UInt8.ofNat (m - 256)), { s with state := updateLiteralNormal s.state })
      else
        (pLitMatched base 8 1 0x100 mb).bind fun m =>
          .ret (.lit (UInt8.ofNat (m - 256)), { s with state := updateLiteralMatched s.state })
    else
      .bit (P_IS_REP + s.state) fun isRep =>
        if !isRep then
          (pLen P_MATCH_LEN posState).bind fun len =>
            (pDist len).bind fun d =>
              .ret (.mtch d len, { state := updateMatch s.state, rep0 := d, rep1 := s.rep0, rep2 := s.rep1, rep3 := s.rep2 })
        else
          .bit (P_IS_REP0 + s.state) fun isRep0 =>
            if !isRep0 then
              .bit (P_IS_REP0_LONG + s.state * POS_STATES_MAX + posState) fun isLong =>
                if !isLong then .ret (.shortrep, { s with state := updateShortRep s.state })
                else
                  (pLen P_REP_LEN posState).bind fun len =>
                    .ret (.rep 0 len, { s with state := updateLongRep s.state })
            else
              .bit (P_IS_REP1 + s.state) fun isRep1 =>
                if !isRep1 then
                  (pLen P_REP_LEN posState).bind fun len =>
                    .ret (.rep 1 len, { s with state := updateLongRep s.state, rep0 := s.rep1, rep1 := s.rep0 })
                else
                  .bit (P_IS_REP2 + s.state) fun isRep2 =>
                    if !isRep2 then
                      (pLen P_REP_LEN posState).bind fun len =>
                        .ret (.rep 2 len, { s with state := updateLongRep s.state, rep0 := s.rep2, rep1 := s.rep0, rep2 := s.rep1 })
                    else
                      (pLen P_REP_LEN posState).bind fun len =>
                        .ret (.rep 3 len, { state := updateLongRep s.state, rep0 := s.rep3, rep1 := s.rep0, rep2 := s.rep1, rep3 := s.rep2 })

end XzVerif.LzmaSymDec
