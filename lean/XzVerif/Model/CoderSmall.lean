/-
  Chunk-faithful models of the small resumable coders of liblzma (property C06).  Core Lean only.
  Each mirrors the C buffering state so that it can be compared with the real function call by call (driver `xzm_c06`,
  harness/c06_small.c), and each is proved slicing independent in `Props/C06.lean`.

  * `lzma_vli_decode` / `lzma_vli_encode` with `vli_pos`: the models are `Vli.vliDecodeMulti` / `Vli.vliEncodeMulti`
    (Model/Vli.lean); here: the piece drivers.
  * the `lzma_bufcpy`-into-a-fixed-size-buffer field reader (Stream Header/Footer, Block Header, `rc_read_init`, …)
  * delta coder as a `Coder`
  * `simple_code()`: `buffer/pos/filtered/size/end_was_reached`, abstract filter, abstract next coder
  * the LZMA2 chunk-header sequence machine (8 sequences) with an abstract LZMA payload
  * the Index decoder sequence machine (`index_decode`)

  NOT reproduced here: the LZMA symbol decoder's ~25 `SEQ_*` resume points with their saved locals, the LZ window,
  the encoders. For those the property is checked by the C-vs-C slicing oracle only.
-/
import XzVerif.Model.Coder
import XzVerif.Model.Vli
import XzVerif.Model.Delta
import XzVerif.Model.Crc

namespace XzVerif.Coder
open XzVerif.Vli

/-! ## VLI: piece drivers (what harness ops `vlid` / `vlie` do) -/

/-- Feed `lzma_vli_decode` the input in pieces. State: `(vli, vli_pos)`. Stops at the first return value other than
    `LZMA_OK` / `LZMA_BUF_ERROR`. Returns the per-call `(ret, consumed)` list and the final `(vli, vli_pos)`.
    A piece length larger than what is left means "all the rest". -/
def vliDecodePieces : List Nat → Nat → Nat → List UInt8 → List (Ret × Nat) × Nat × Nat
  | [], vli, pos, inp =>
    let (r, v, p, c) := vliDecodeMulti vli pos inp
    ([(r, c)], v, p)
  | n :: ns, vli, pos, inp =>
    let (r, v, p, c) := vliDecodeMulti vli pos (inp.take n)
    if r == .ok || r == .bufError then
      let (l, v', p') := vliDecodePieces ns v p (inp.drop c)
      ((r, c) :: l, v', p')
    else ([(r, c)], v, p)

/-- Feed `lzma_vli_encode` output windows of the given capacities (then one of 16). -/
def vliEncodePieces : List Nat → Nat → Nat → List (Ret × List UInt8) × Nat
  | [], v, pos =>
    let (r, p, bs) := vliEncodeMulti v pos 16
    ([(r, bs)], p)
  | cap :: caps, v, pos =>
    let (r, p, bs) := vliEncodeMulti v pos cap
    if r == .ok || r == .bufError then
      let (l, p') := vliEncodePieces caps v p
      ((r, bs) :: l, p')
    else ([(r, bs)], p)

/-! ## Fixed-size field reader: `lzma_bufcpy(in, in_pos, in_size, coder->buffer, &coder->pos, SIZE)` -/

/-- State = the bytes copied so far (`coder->pos` = its length). One call copies `min(avail_in, size - pos)` bytes; the field is
    complete (`LZMA_STREAM_END` here; the real callers go on to decode the buffer) when `pos == size`. -/
def fieldCoder (size : Nat) : Coder (List UInt8) where
  code buf inp _cap _a :=
    let n := min inp.length (size - buf.length)
    let buf' := buf ++ inp.take n
    (buf', ⟨n, [], if buf'.length ≥ size then .streamEnd else .ok⟩)

/-! ## Delta -/

/-- `delta_encode()` with `next.code == NULL` (the configuration in which the delta *encoder* reads the application's input):
    processes `min(avail_in, avail_out)` bytes, `LZMA_STREAM_END` iff `action != LZMA_RUN` and all input was taken. -/
def deltaEncCoder : Coder Delta.State where
  code s inp cap a :=
    let n := min inp.length cap
    let r := Delta.encode s (inp.take n)
    (r.1, ⟨n, r.2, if a ≠ .run ∧ n = inp.length then .streamEnd else .ok⟩)

/-! ## The next coder of a filter, as seen by `copy_or_code()` / `delta_decode()` -/

/-- A source of bytes: `pull state offered cap finish = (state', bytes written (≤ cap), input consumed, LZMA_STREAM_END?)`. -/
structure Src (ν : Type) where
  pull : ν → List UInt8 → Nat → Bool → ν × List UInt8 × Nat × Bool

/-- `next.code == NULL` in `copy_or_code()`: `lzma_bufcpy`, end iff encoder ∧ `LZMA_FINISH` ∧ all input taken. -/
def Src.null (isEncoder : Bool) : Src Unit where
  pull _ inp cap finish :=
    let n := min inp.length cap
    ((), inp.take n, n, isEncoder && finish && decide (n = inp.length))

/-- Test stub used by harness/c06_small.c (`next` modes 1 and 2): copies until `left` bytes have passed; mode 1 reports
    `LZMA_STREAM_END` together with the last byte, mode 2 only after consuming one more input byte (an "end marker"),
    possibly in a later call that produces nothing — the way the LZMA2 decoder ends. State = (left, mode2). -/
def Src.stub : Src (Nat × Bool) where
  pull st inp cap _finish :=
    let n := min (min inp.length cap) st.1
    let left := st.1 - n
    if left = 0 then
      if !st.2 then ((left, st.2), inp.take n, n, true)
      else if n < inp.length then ((left, st.2), inp.take n, n + 1, true)
      else ((left, st.2), inp.take n, n, false)
    else ((left, st.2), inp.take n, n, false)

/-- `delta_encode()`/`delta_decode()` with a next coder: run it, then transform what it wrote; return its return code. -/
def deltaNextCoder {ν : Type} (src : Src ν) (enc : Bool) : Coder (Delta.State × ν) where
  code s inp cap a :=
    let (nx, bytes, used, ended) := src.pull s.2 inp cap (a == .finish)
    let r := if enc then Delta.encode s.1 bytes else Delta.decode s.1 bytes
    ((r.1, nx), ⟨used, r.2, if ended then .streamEnd else .ok⟩)

/-! ## `simple_code()` (src/liblzma/simple/simple_coder.c) -/

/-- `lzma_simple_coder` without the fields that never change (`allocated`, `is_encoder`, the filter function). `size` is
    `buffer.length`; `filt` is the filter's own state together with `now_pos`. -/
structure Simple (φ ν : Type) where
  filt : φ
  next : ν
  endReached : Bool
  pos : Nat
  filtered : Nat
  buffer : List UInt8

def Simple.init {φ ν : Type} (f : φ) (n : ν) : Simple φ ν :=
  { filt := f, next := n, endReached := false, pos := 0, filtered := 0, buffer := [] }

/-- A filter: `F state buffer = (buffer after filtering, number of bytes filtered, state')`; `call_filter()` including the
    `now_pos += filtered` bookkeeping. -/
abbrev Filter (φ : Type) := φ → List UInt8 → List UInt8 × Nat × φ

/-- The body of `if (out_avail > buf_avail || buf_avail == 0)` once `copy_or_code()` has answered `p` = (next state, bytes it wrote,
    input it consumed, `LZMA_STREAM_END`?): `unf` (the unfiltered bytes of `coder->buffer[]`) and the new bytes are in `out[]`;
    filter them in place; keep the unfiltered tail unless the end was reached. -/
def simpleStageACore {φ ν : Type} (F : Filter φ) (s : Simple φ ν) (unf : List UInt8) (p : ν × List UInt8 × Nat × Bool)
    (out0 : List UInt8) : Simple φ ν × List UInt8 × Nat :=
  let region := unf ++ p.2.1
  -- const size_t filtered = size == 0 ? 0 : call_filter(coder, out + out_start, size);
  let f := if region = [] then ([], 0, s.filt) else F s.filt region
  if s.endReached || p.2.2.2 then
    -- "The last byte has been copied to out[] already. They are left as is."  coder->size = 0
    ({ filt := f.2.2, next := p.1, endReached := true, pos := 0, filtered := 0, buffer := [] }, out0 ++ f.1, p.2.2.1)
  else
    -- the unfiltered tail goes back to coder->buffer[] and *out_pos is rewound
    ({ filt := f.2.2, next := p.1, endReached := false, pos := 0, filtered := 0, buffer := f.1.drop f.2.1 },
      out0 ++ f.1.take f.2.1, p.2.2.1)

/-- First part of `simple_code()` after "Flush already filtered data …" (`s.pos = s.filtered` here; `out0` is what this call has
    written so far): `if (out_avail > buf_avail || buf_avail == 0)` flush `coder->buffer[]` to `out[]`, copy/code more data to
    `out[]`, filter it in place, keep the unfiltered tail; `else` move the unfiltered bytes to the start of `coder->buffer[]`.
    Returns the new state, all output of the call so far, the input consumed. -/
def simpleStageA {φ ν : Type} (F : Filter φ) (src : Src ν) (s : Simple φ ν) (inp : List UInt8) (cap : Nat)
    (finish : Bool) (out0 : List UInt8) : Simple φ ν × List UInt8 × Nat :=
  -- coder->filtered = 0;  out_avail = out_size - *out_pos;  buf_avail = coder->size - coder->pos
  let outAvail := cap - out0.length
  let unf := s.buffer.drop s.pos
  let bufAvail := unf.length
  if outAvail > bufAvail ∨ bufAvail = 0 then
    simpleStageACore F s unf (src.pull s.next inp (outAvail - bufAvail) finish) out0
  else
    -- else if (coder->pos > 0) memmove(...)
    ({ s with pos := 0, filtered := 0, buffer := unf }, out0, 0)

/-- The body of `if (coder->size > 0)` once `copy_or_code()` has answered `p`: the new bytes are appended to `coder->buffer[]`,
    the buffer is filtered, as much of the filtered part as fits is flushed. -/
def simpleStageBCore {φ ν : Type} (F : Filter φ) (a : Simple φ ν × List UInt8 × Nat) (p : ν × List UInt8 × Nat × Bool)
    (cap : Nat) : Simple φ ν × List UInt8 × Nat :=
  let f := F a.1.filt (a.1.buffer ++ p.2.1)
  let endR := a.1.endReached || p.2.2.2
  -- "Everything is considered to be filtered if coder->buffer[] contains the last bytes of the data."
  let filtered := if endR then f.1.length else f.2.1
  let k := min filtered (cap - a.2.1.length)
  ({ filt := f.2.2, next := p.1, endReached := endR, pos := k, filtered := filtered, buffer := f.1 },
    a.2.1 ++ f.1.take k, a.2.2 + p.2.2.1)

/-- Second part: `if (coder->size > 0)` fill `coder->buffer[]`, filter it there, flush as much of the filtered part as fits. -/
def simpleStageB {φ ν : Type} (F : Filter φ) (src : Src ν) (allocated : Nat) (a : Simple φ ν × List UInt8 × Nat)
    (inp : List UInt8) (cap : Nat) (finish : Bool) : Simple φ ν × List UInt8 × Nat :=
  if a.1.buffer ≠ [] then
    simpleStageBCore F a (src.pull a.1.next (inp.drop a.2.2) (allocated - a.1.buffer.length) finish) cap
  else a

def simpleMain {φ ν : Type} (F : Filter φ) (src : Src ν) (allocated : Nat) (s : Simple φ ν) (inp : List UInt8) (cap : Nat)
    (finish : Bool) (out0 : List UInt8) : Simple φ ν × List UInt8 × Nat :=
  simpleStageB F src allocated (simpleStageA F src s inp cap finish out0) inp cap finish

def simpleRet {φ ν : Type} (s : Simple φ ν) : Ret :=
  if s.endReached && decide (s.pos = s.buffer.length) then .streamEnd else .ok

/-- `simple_code()`. -/
def simpleCode {φ ν : Type} (F : Filter φ) (src : Src ν) (allocated : Nat) (s : Simple φ ν) (inp : List UInt8) (cap : Nat)
    (a : Action) : Simple φ ν × Resp :=
  if a = .syncFlush then (s, ⟨0, [], .optionsError⟩)
  else if s.pos < s.filtered then
    -- Flush already filtered data from coder->buffer[] to out[].
    let n := min (s.filtered - s.pos) cap
    let out := (s.buffer.drop s.pos).take n
    let s := { s with pos := s.pos + n }
    if s.pos < s.filtered then (s, ⟨0, out, .ok⟩)
    else if s.endReached then (s, ⟨0, out, .streamEnd⟩)
    else
      let r := simpleMain F src allocated s inp cap (a == .finish) out
      (r.1, ⟨r.2.2, r.2.1, simpleRet r.1⟩)
  else
    let r := simpleMain F src allocated s inp cap (a == .finish) []
    (r.1, ⟨r.2.2, r.2.1, simpleRet r.1⟩)

def simpleCoder {φ ν : Type} (F : Filter φ) (src : Src ν) (allocated : Nat) : Coder (Simple φ ν) where
  code := simpleCode F src allocated

/-- The test filter of harness/c06_small.c: whole units of `unit` bytes; the byte at absolute position `p` becomes
    `b + (p % 251) + 1` (encoder) or `b - (p % 251) - 1` (decoder). State = `now_pos` (32-bit). -/
def testFilter (unit : Nat) (enc : Bool) : Filter Nat := fun nowPos buf =>
  let n := buf.length - buf.length % unit
  let go := fun (i : Nat) (b : UInt8) =>
    let k := UInt8.ofNat (((nowPos + i) % 4294967296) % 251 + 1)
    if enc then b + k else b - k
  (((buf.take n).zipIdx.map fun (b, i) => go i b) ++ buf.drop n, n, (nowPos + n) % 4294967296)

/-! ## LZMA2 chunk-header machine (`lzma2_decode()`), LZMA payload abstract -/

inductive L2Seq where
  | control | uncompressed1 | uncompressed2 | compressed0 | compressed1 | properties | lzma | copy
  deriving DecidableEq, Repr, Inhabited

structure L2State where
  seq : L2Seq := .control
  nextSeq : L2Seq := .control
  uncompressedSize : Nat := 0
  compressedSize : Nat := 0
  needProperties : Bool := true
  needDictReset : Bool := true
  deriving DecidableEq, Repr, Inhabited

/-- What the machine tells its surroundings while eating bytes (flattened to one event per input byte at most). -/
inductive L2Event where
  | dictReset
  | stateReset                 -- `lzma.reset` with the old properties (control ≥ 0xA0 without new properties)
  | props (b : UInt8)          -- properties byte (SEQ_PROPERTIES), implies a state reset
  | chunkSizes (lzma : Bool) (uncomp comp : Nat)
  | copyByte (b : UInt8)       -- one byte of an uncompressed chunk (goes to the dictionary)
  | lzmaByte (b : UInt8)       -- one byte of LZMA payload (goes to the abstract LZMA decoder)
  | finished (r : Ret)         -- end marker (LZMA_STREAM_END) or LZMA_DATA_ERROR
  deriving DecidableEq, Repr

/-- One input byte. Mirrors the `switch (coder->sequence)` of `lzma2_decode()`; `lclppbOk` is `lzma_lzma_lclppb_decode`'s verdict.
    In `SEQ_LZMA` the payload bytes are handed over one at a time until `compressed_size` is used up (the abstract payload decoder is
    assumed to finish exactly then — the real one may also overrun, see findings/C06-lzma2-chunk-overrun.md). -/
def l2Step (s : L2State) (b : UInt8) : L2State × List L2Event :=
  match s.seq with
  | .control =>
    let c := b.toNat
    if c = 0 then (s, [.finished .streamEnd])
    else
      let resetting := c ≥ 0xE0 ∨ c = 1
      if ¬resetting ∧ s.needDictReset then (s, [.finished .dataError])
      else
        let s := if resetting then { s with needProperties := true, needDictReset := true } else s
        if c ≥ 0x80 then
          let s := { s with uncompressedSize := (c % 32) * 65536, seq := .uncompressed1 }
          if c ≥ 0xC0 then
            let s := { s with needProperties := false, nextSeq := .properties }
            if s.needDictReset then ({ s with needDictReset := false }, [.dictReset]) else (s, [])
          else if s.needProperties then (s, [.finished .dataError])
          else
            let s := { s with nextSeq := .lzma }
            let ev := if c ≥ 0xA0 then [L2Event.stateReset] else []
            if s.needDictReset then ({ s with needDictReset := false }, ev ++ [.dictReset]) else (s, ev)
        else if c > 2 then (s, [.finished .dataError])
        else
          let s := { s with seq := .compressed0, nextSeq := .copy }
          if s.needDictReset then ({ s with needDictReset := false }, [.dictReset]) else (s, [])
  | .uncompressed1 => ({ s with uncompressedSize := s.uncompressedSize + b.toNat * 256, seq := .uncompressed2 }, [])
  | .uncompressed2 => ({ s with uncompressedSize := s.uncompressedSize + b.toNat + 1, seq := .compressed0 }, [])
  | .compressed0 => ({ s with compressedSize := b.toNat * 256, seq := .compressed1 }, [])
  | .compressed1 =>
    let s := { s with compressedSize := s.compressedSize + b.toNat + 1, seq := s.nextSeq }
    (s, [.chunkSizes (s.nextSeq != .copy) (if s.nextSeq == .copy then s.compressedSize else s.uncompressedSize) s.compressedSize])
  | .properties =>
    -- lzma_lzma_lclppb_decode: byte > (4 * 5 + 4) * 9 + 8, or lc + lp > LZMA_LCLP_MAX
    let d := b.toNat % 45
    if b.toNat > (4 * 5 + 4) * 9 + 8 ∨ d % 9 + d / 9 > 4 then (s, [.finished .dataError])
    else ({ s with seq := .lzma }, [.props b])
  | .lzma =>
    let s := { s with compressedSize := s.compressedSize - 1 }
    (if s.compressedSize = 0 then { s with seq := .control } else s, [.lzmaByte b])
  | .copy =>
    let s := { s with compressedSize := s.compressedSize - 1 }
    (if s.compressedSize = 0 then { s with seq := .control } else s, [.copyByte b])

def L2Event.isFinished : L2Event → Bool
  | .finished _ => true
  | _ => false

/-- Feed a piece of input; stops after a `finished` event. Returns state, events, bytes consumed. -/
def l2Feed : L2State → List UInt8 → L2State × List L2Event × Nat
  | s, [] => (s, [], 0)
  | s, b :: rest =>
    let r := l2Step s b
    if r.2.any L2Event.isFinished then (r.1, r.2, 1)
    else
      let t := l2Feed r.1 rest
      (t.1, r.2 ++ t.2.1, t.2.2 + 1)

/-! ## Index decoder sequence machine (`index_decode()`) -/

inductive IxSeq where
  | indicator | count | memusage | unpadded | uncompressed | paddingInit | padding | crc32
  deriving DecidableEq, Repr, Inhabited

/-- The parts of `lzma_index_coder` that drive the parse. The Records are collected in a list instead of an `lzma_index`; the
    memory-limit check and `lzma_index_append`'s size limits are not modelled (they do not depend on slicing; C09/C13).
    `crc` is the CRC32 shift register over every byte consumed before the CRC32 field (the C code updates it once per call over
    the chunk it consumed in that call — never twice, never skipping one: that bookkeeping is exactly what slicing could break). -/
structure IxState where
  seq : IxSeq := .indicator
  count : Nat := 0
  unpadded : Nat := 0
  vli : Nat := 0
  vliPos : Nat := 0          -- `coder->pos` while a VLI is being read
  records : List (Nat × Nat) := []     -- reversed
  total : Nat := 0           -- bytes of Index Indicator + Number of Records + List of Records consumed so far
  padLeft : Nat := 0         -- `coder->pos` in SEQ_PADDING
  crcPos : Nat := 0          -- `coder->pos` in SEQ_CRC32
  crc : BitVec 32 := 0xFFFFFFFF#32
  deriving DecidableEq, Repr, Inhabited

/-- One byte of `lzma_vli_decode(&v, &coder->pos, …)`: `some (some v)` finished, `some none` LZMA_DATA_ERROR, `none` needs more. -/
def ixVliByte (s : IxState) (b : UInt8) : IxState × Option (Option Nat) :=
  let v := s.vli + (b.toNat % 128) * 2 ^ (s.vliPos * 7)
  let p := s.vliPos + 1
  if b.toNat < 128 then
    if b.toNat = 0 ∧ p > 1 then (s, some none) else ({ s with vli := 0, vliPos := 0 }, some (some v))
  else if p = 9 then (s, some none)
  else ({ s with vli := v, vliPos := p }, none)

/-- One byte of the Index field. `none` = still going; `some r` = finished with `r`. -/
def ixStep (s : IxState) (b : UInt8) : IxState × Option Ret :=
  let crc' := Crc.byteStep Crc.P32 s.crc b
  match s.seq with
  | .indicator => if b = 0 then ({ s with seq := .count, total := 1, crc := crc' }, none) else (s, some .dataError)
  | .count =>
    let s := { s with total := s.total + 1, crc := crc' }
    match ixVliByte s b with
    | (_, some none) => (s, some .dataError)
    | (s, some (some v)) => ({ s with count := v, seq := if v = 0 then .paddingInit else .unpadded }, none)
    | (s, none) => (s, none)
  | .memusage => (s, some .progError)     -- never a resting state
  | .unpadded =>
    let s := { s with total := s.total + 1, crc := crc' }
    match ixVliByte s b with
    | (_, some none) => (s, some .dataError)
    | (s, some (some v)) =>
      if v < 5 ∨ v > 9223372036854775804 then (s, some .dataError) else ({ s with unpadded := v, seq := .uncompressed }, none)
    | (s, none) => (s, none)
  | .uncompressed =>
    let s := { s with total := s.total + 1, crc := crc' }
    match ixVliByte s b with
    | (_, some none) => (s, some .dataError)
    | (s, some (some v)) =>
      let s := { s with records := (s.unpadded, v) :: s.records, count := s.count - 1 }
      ({ s with seq := if s.count = 0 then .paddingInit else .unpadded }, none)
    | (s, none) => (s, none)
  | .paddingInit | .padding | .crc32 =>
    -- SEQ_PADDING_INIT computes the padding and falls through; SEQ_PADDING with nothing left falls through to SEQ_CRC32:
    -- the byte seen here is a padding byte or a CRC32 byte.
    let pad := if s.seq = .paddingInit then (4 - s.total % 4) % 4 else if s.seq = .padding then s.padLeft else 0
    if pad > 0 then
      if b ≠ 0 then (s, some .dataError) else ({ s with seq := .padding, padLeft := pad - 1, crc := crc' }, none)
    else
      let want := ((~~~ s.crc).toNat / 2 ^ (s.crcPos * 8)) % 256
      if want ≠ b.toNat then (s, some .dataError)
      else
        let s := { s with seq := .crc32, crcPos := s.crcPos + 1 }
        if s.crcPos = 4 then (s, some .streamEnd) else (s, none)

/-- Feed a piece (what one `index_decode()` call does with `avail_in` bytes); stops at the first verdict.
    Returns state, verdict, bytes consumed. -/
def ixFeed : IxState → List UInt8 → IxState × Option Ret × Nat
  | s, [] => (s, none, 0)
  | s, b :: rest =>
    match ixStep s b with
    | (s', some r) => (s', some r, 1)
    | (s', none) => let t := ixFeed s' rest; (t.1, t.2.1, t.2.2 + 1)

end XzVerif.Coder
