-- Root of the `XzVerif` library: imports every property module.
import XzVerif.Props.C14
