/-
  Model driver for C12 (line protocol, see tools/props/c12.py `model_line`). Imports Model only.

    case <kind> <chain> <check> <script> <op> <op> ...
      kind    stream | mt:<block_size> | raw | block
      chain   filters joined by '+':  L2.<lc>.<lp>.<pb>.<dict> | L1.<lc>.<lp>.<pb>.<dict> | D.<dist> | B.<id>.<start>
      script  what the real compressor decided, read back from the real output: Blocks separated by '/', each
              "<mt header size>.<stored 0|1>:<n>.<csize>,<n>.<csize>,..."  ("-" = no Blocks)
      ops     r:<len> | s:<len> | f:<len> | b:<len> | F:<len> | u:<chain>

  Output:  rc=<ret per op> in=<total_in per op> out=<predicted total_out per op> st=<structure of all output>
  in the format of harness/c12_main.c. The compressor of `Flush.Env` is instantiated by the script: under LZMA_RUN it
  never closes a chunk (a chunk that the real encoder closed earlier is closed at the next flush instead, which
  gives the same bytes), when flushing it closes the chunk that the script lists at the current offset.
-/
import XzVerif.Model.Proto
import XzVerif.Model.Flush
open XzVerif XzVerif.Proto XzVerif.Flush

structure BlockScript where
  hsize : Nat
  stored : Bool
  chunks : Array (Nat × Nat × Nat)     -- (start offset, n, csize)

def parseNat? (s : String) : Option Nat := s.toNat?

def parseFilter (s : String) : Option Filter :=
  match s.splitOn "." with
  | ["L2", lc, lp, pb, d] => do
      pure { id := ID_LZMA2, props := ⟨← lc.toNat?, ← lp.toNat?, ← pb.toNat?⟩, dict := ← d.toNat? }
  | ["L1", lc, lp, pb, d] => do
      pure { id := ID_LZMA1, props := ⟨← lc.toNat?, ← lp.toNat?, ← pb.toNat?⟩, dict := ← d.toNat? }
  | ["D", dist] => do pure { id := ID_DELTA, dist := ← dist.toNat? }
  | ["B", id, start] => do pure { id := ← id.toNat?, start := ← start.toNat? }
  | _ => none

def parseChain (s : String) : Option Chain := (s.splitOn "+").mapM parseFilter

def parseBlockScript (s : String) : Option BlockScript :=
  match s.splitOn ":" with
  | [hd, ch] =>
    match hd.splitOn "." with
    | [h, st] => do
      let h ← h.toNat?
      let st ← st.toNat?
      let items := if ch == "" then [] else ch.splitOn ","
      let mut off := 0
      let mut arr : Array (Nat × Nat × Nat) := #[]
      for it in items do
        match it.splitOn "." with
        | [n, c] =>
          let n ← n.toNat?
          let c ← c.toNat?
          arr := arr.push (off, n, c)
          off := off + n
        | _ => none
      pure { hsize := h, stored := st != 0, chunks := arr }
    | _ => none
  | _ => none

def parseScript (s : String) : Option (Array BlockScript) :=
  if s == "-" then some #[] else ((s.splitOn "/").mapM parseBlockScript).map List.toArray

def zeros (n : Nat) : Bytes := List.replicate n 0

/-- The compressor replayed from the script (state type Unit). -/
def scriptCodec (scr : Array BlockScript) (ord : Nat) : Codec Unit :=
  { reset := fun _ => ()
    choose := fun fl _ _ d _ =>
      if !fl then none
      else match scr[ord]? with
        | none => none
        | some b => match b.chunks.find? (fun c => c.1 == d.length) with
          | none => none
          | some (_, n, c) => some (⟨n, zeros c⟩, ())
    dec := fun _ _ _ _ _ => none }

/-- bytes a BCJ encoder must have before it filters (and passes on) anything: x86 `size <= 4 -> 0`,
    ARM/ARM64/PowerPC/SPARC 4-byte units, ARM-Thumb `size < 4 -> 0`, IA-64 16-byte bundles, RISC-V `size < 8 -> 0` -/
def bcjNeed (id : Nat) : Nat :=
  if id = ID_X86 then 5 else if id = ID_IA64 then 16 else if id = ID_RISCV then 8 else 4

def scriptEnv (scr : Array BlockScript) : Env Unit :=
  { codec := scriptCodec scr
    hold := fun fs avail =>
      -- simple_coder.c + the filter functions: nothing is handed on before the filter has seen this many bytes
      -- (afterwards the exact amount held back is not observable at the level compared here)
      let need := fs.foldl (fun m f => if f.kind == .bcj then max m (bcjNeed f.id) else m) 0
      if avail.length < need then avail.length else 0
    checkBytes := fun id _ => zeros (checkSize id)
    mtStored := fun ord _ => (scr[ord]?.map (·.stored)).getD false
    mtHeaderSize := fun ord _ => (scr[ord]?.map (·.hsize)).getD 0 }

/-! ### structure string -/

def hex2 (n : Nat) : String := String.ofList [hexDigit (n / 16 % 16), hexDigit (n % 16)]

def getDistSlot (x : Nat) : Nat :=
  if x < 4 then x else let n := Nat.log2 x; 2 * n + (x / 2 ^ (n - 1)) % 2

/-- `lzma_lzma2_props_encode` -/
def lzma2DictByte (dict : Nat) : Nat :=
  let d := (max dict 4096) - 1
  let d := d ||| (d >>> 2)
  let d := d ||| (d >>> 3)
  let d := d ||| (d >>> 4)
  let d := d ||| (d >>> 8)
  let d := d ||| (d >>> 16)
  let d := d % 4294967296
  if d == 4294967295 then 40 else getDistSlot (d + 1) - 24

def filterStr (f : Filter) : String :=
  let props := match f.kind with
    | .lzma2 => hex2 (lzma2DictByte f.dict)
    | .delta => hex2 (f.dist - 1)
    | .bcj => if f.start = 0 then "-" else hex2 (f.start % 256) ++ hex2 (f.start / 256 % 256) ++ hex2 (f.start / 65536 % 256) ++ hex2 (f.start / 16777216 % 256)
    | .lzma1 => "?"
  s!"{f.id}:{props}"

/-- Walks LZMA2 chunk framing of model output. Returns (items, end marker seen, usize sum, bytes consumed). -/
def walkChunks : Nat → Bytes → List String → Nat → Nat → List String × Bool × Nat × Nat
  | 0, _, acc, us, pos => (acc.reverse, false, us, pos)
  | fuel + 1, b, acc, us, pos =>
    match b with
    | [] => (acc.reverse, false, us, pos)
    | c :: rest =>
      let c := c.toNat
      if c == 0 then (acc.reverse, true, us, pos + 1)
      else if c ≥ 0x80 then
        match rest with
        | b1 :: b2 :: b3 :: b4 :: r1 =>
          let n := (c % 32) * 65536 + b1.toNat * 256 + b2.toNat + 1
          let cs := b3.toNat * 256 + b4.toNat + 1
          if c ≥ 0xC0 then
            match r1 with
            | p :: r2 => walkChunks fuel (r2.drop cs) (s!"c{c}.{n}.{cs}.{p.toNat}" :: acc) (us + n) (pos + 6 + cs)
            | [] => (acc.reverse, false, us, pos)
          else walkChunks fuel (r1.drop cs) (s!"c{c}.{n}.{cs}.-" :: acc) (us + n) (pos + 5 + cs)
        | _ => (acc.reverse, false, us, pos)
      else
        match rest with
        | b1 :: b2 :: r1 =>
          let n := b1.toNat * 256 + b2.toNat + 1
          walkChunks fuel (r1.drop n) (s!"c{c}.{n}.{n}.-" :: acc) (us + n) (pos + 3 + n)
        | _ => (acc.reverse, false, us, pos)

def optStr : Option Nat → String
  | none => "-"
  | some v => toString v

def indexSize (recs : List (Nat × Nat)) : Nat :=
  let body := 1 + Vli.vliSize recs.length + recs.foldl (fun a r => a + Vli.vliSize r.1 + Vli.vliSize r.2) 0
  (body + 3) / 4 * 4 + 4

structure Rend where
  str : String := ""
  len : Nat := 0                 -- bytes rendered so far
  curBody : Bytes := []          -- body of the Block (or raw stream) being collected
  inBlock : Bool := false
  ord : Nat := 0                 -- Blocks started so far

def Rend.flushBlock (r : Rend) : Rend :=
  if !r.inBlock then r
  else
    let (items, ended, us, pos) := walkChunks (r.curBody.length + 1) r.curBody [] 0 0
    let k := ";k=" ++ ",".intercalate items
    let tail := if ended then s!";e=1;u={us};c={pos}" else ";T"
    { r with str := r.str ++ k ++ tail, curBody := [], inBlock := false }

def Rend.seg (isMt : Bool) (scr : Array BlockScript) (r : Rend) : Seg → Rend
  | .streamHeader c => { r with str := r.str ++ s!"H{c}", len := r.len + 12 }
  | .blockHeader fs cs us =>
    let r := r.flushBlock
    let h := if isMt then (scr[r.ord]?.map (·.hsize)).getD 0 else (match blockHeaderSize fs none none with | .ok h => h | .error _ => 0)
    let f := "/".intercalate (fs.map filterStr)
    { r with str := r.str ++ s!"|B;h={h};cs={optStr cs};us={optStr us};f={f}", len := r.len + h, inBlock := true, ord := r.ord + 1 }
  | .body b => { r with curBody := r.curBody ++ b, len := r.len + b.length }
  | .index recs =>
    let r := r.flushBlock
    let items := recs.map fun (u, s) => s!"{u}.{s}"
    { r with str := r.str ++ s!"|I;n={recs.length};r=" ++ ",".intercalate items, len := r.len + indexSize recs }
  | .streamFooter _ _ => { r with str := r.str ++ "|F", len := r.len + 12 }

def rawStructure (body : Bytes) : String :=
  let (items, ended, us, pos) := walkChunks (body.length + 1) body [] 0 0
  "R;k=" ++ ",".intercalate items ++ s!";e={if ended then 1 else 0};u={us};c={pos}" ++ (if ended then s!";tail={body.length - pos}" else ";T")

/-- driver-level operation: a history `Op`, or `h:<len>` = one lzma_code(LZMA_RUN) call with <len> bytes of input whose
    output space ends inside the Block Header it starts -/
inductive DOp where
  | op (o : Op)
  | hdr (n : Nat)

def parseOp (s : String) : Option Op :=
  match s.splitOn ":" with
  | [k, arg] =>
    if k == "u" then (parseChain arg).map Op.update
    else do
      let n ← arg.toNat?
      let a ← (match k with | "r" => some Action.run | "s" => some .syncFlush | "f" => some .fullFlush
                            | "b" => some .fullBarrier | "F" => some .finish | _ => none)
      pure (Op.code a (zeros n))
  | _ => none

def runCase (ws : List String) : Option String := do
  match ws with
  | _ :: kind :: chain :: check :: script :: ops =>
    let fs ← parseChain chain
    let check ← check.toNat?
    let scr ← parseScript script
    let ops ← ops.mapM fun (t : String) =>
      if t.startsWith "h:" then (t.drop 2).toNat?.map DOp.hdr else (parseOp t).map DOp.op
    let E := scriptEnv scr
    let kparts := kind.splitOn ":"
    let isMt := kparts.head? == some "mt"
    let enc : Enc Unit ←
      match kparts with
      | ["stream"] =>
        let (s, r) := StreamEnc.init (E.codec 0) fs check
        if r != .ok then none else some { core := .stream s, supported := supportedStream, dead := false, finished := false }
      | ["mt", bs] => do
        let bs ← bs.toNat?
        some { core := .mt (MtEnc.init fs check bs), supported := supportedMt, dead := false, finished := false }
      | ["raw"] =>
        if rawInitRet fs != .ok then none
        else some { core := .raw (RawEnc.init (E.codec 0) fs), supported := supportedRaw, dead := false, finished := false }
      | ["block"] =>
        match BlockEnc.init (E.codec 0) fs check with
        | .ok b => some { core := .block b, supported := supportedBlock, dead := false, finished := false }
        | .error _ => none
      | _ => none
    let isStreamKind := kparts.head? == some "stream" || isMt
    -- run the history op by op (the harness stops after a fatal error or after FINISH completed)
    let mut e := enc
    let mut rcs : List String := []
    let mut ins : List String := []
    let mut outs : List String := []
    let mut rend : Rend := {}
    let mut rawBody : Bytes := []
    let mut totalIn := 0
    for op in ops do
      if e.dead || e.finished then
        rcs := "-" :: rcs
      else
        let (e1, res) := match op with
          | .op o => e.step E o
          | .hdr n => e.startHeaderOp E (zeros n)
        e := e1
        totalIn := totalIn + res.used
        rcs := toString res.ret.toNat :: rcs
        if isStreamKind then
          rend := res.segs.foldl (Rend.seg isMt scr) rend
        else
          for sg in res.segs do
            match sg with
            | .body b => rawBody := rawBody ++ b
            | _ => pure ()
      ins := toString totalIn :: ins
      outs := toString (if isStreamKind then rend.len else rawBody.length) :: outs
    let st := if isStreamKind then (rend.flushBlock).str else rawStructure rawBody
    let j := fun (l : List String) => if l.isEmpty then "-" else ",".intercalate l.reverse
    pure s!"rc={j rcs} in={j ins} out={j outs} st={if st == "" then "-" else st} dead={if e.dead then 1 else 0}"
  | _ => none

def step (_ : Unit) (ws : List String) : Unit × String :=
  match ws with
  | "case" :: _ => ((), (runCase ws).getD "bad-op")
  | _ => ((), "bad-op")

def main : IO Unit := runLoop step ()
