/-
  Model driver for C19 (line protocol, see harness/c19_main.c and tools/props/c19.py). Imports Model + Gen only.
  The name mapping is run over the tables of Gen/C19.lean (what the running code tests today); Props/C19.lean proves
  them equal to the model tables the theorems are about.

    name <c|d> <fmt> <sfx|none> <name>      -> "ok <hex>" | "skip already" | "skip unknown" | "fatal"
    rt <fmt> <dfmt> <sfx|none> <name>       -> "<compress result> | <decompress result of that name>"
    sfx <suffix>                            -> "ok" | "fatal"
    ts <suffix> <name>                      -> decimal
    mode <m> <0|1|2>                        -> decimal
    exit <w|e>...                           -> decimal
    opensrc <kind> <sym> <suid> <sgid> <sticky> <nlink> <c> <f> <k>     -> "<code> <exit status>"
    runfile <c|d> <fmt> <sfx|none> <c> <f> <k> <name> <kind> <sym> <srcmode> <nlink> <destkind> <gfail> <ofail> <nowarn>
                                            -> "A=<action> D=<dest hex|-> M=<mode|-> R=<0|1> X=<exit status>"
    plan <listmode> <list bytes> <operand>...   -> what main() hands to coder_run(): names in hex, 0153 = stdin, 0152 = refused, 0145 = list error
    args <prog> <env> <o1> <o2>             -> decimal (Settings.code of parseArgs; indices as in Gen argsRows)
    status <nowarn> <w|e>...                -> decimal exit status of a run reporting these events
    attrs <d|c> <keep> <nosparse> <nosync> <srcmode> <srcuid> <srcgid> <srcatime ns> <srcmtime ns> <procuid> <destgid>
          <ownerfail> <groupfail> <chunk>...     (chunk = d<n>: an io_write() of n non-zero bytes, z<n>: of n zero bytes)
                                            -> "M=<mode> U=<uid> G=<gid> A=<atime ns> T=<mtime ns> S=<size> R=<src removed>
                                                W=<warnings> OK=<0|1> E=<codes of the system calls, see Attrs.Ev.code>"
       Model/Attrs.lean: open(O_CREAT|O_EXCL) + the io_write() calls + io_close(success), every system call succeeding
       except the forced fchown failures; cfg as args.c / io_open_dest_real derive it from the options.
-/
import XzVerif.Model.Proto
import XzVerif.Model.Suffix
import XzVerif.Model.Attrs
import XzVerif.Gen.C19
open XzVerif XzVerif.Proto XzVerif.Suffix

def fmtOf (s : String) : Option Format :=
  match s with
  | "auto" => some .auto | "xz" => some .xz | "lzma" => some .lzma | "lzip" => some .lzip | "raw" => some .raw
  | _ => none

/-- per-format compression tables as measured on the code -/
def genComp (f : Format) : List Name × Option Name :=
  match f with
  | .xz => (Gen.C19.compSuffixesXz, Gen.C19.compDefaultXz)
  | .lzma => (Gen.C19.compSuffixesLzma, Gen.C19.compDefaultLzma)
  | .raw => (Gen.C19.compSuffixesRaw, Gen.C19.compDefaultRaw)
  | _ => ([], none)

def gCompressed (f : Format) (custom : Option Name) (name : Name) : Option Name :=
  compressedNameT (genComp f).1 (genComp f).2 custom name

def gUncompressed (f : Format) (custom : Option Name) (name : Name) : Option Name :=
  uncompressedNameT Gen.C19.uncompTable f custom name

/-- "none" = no custom suffix; otherwise the bytes go through `suffix_set`. Outer none = fatal. -/
def sfxOf (s : String) : Option (Option (Option Name)) :=
  if s == "none" then some (some none)
  else match bytesOfHex s with
    | none => none
    | some bs => match suffixSet bs with
      | none => some none          -- fatal
      | some c => some (some (some c))

def showName (r : Option Name) (skip : String) : String :=
  match r with
  | some n => "ok " ++ hexOfBytes n
  | none => "skip " ++ skip

def b01 (s : String) : Bool := s == "1"

def statusCode (evs : List Status) : Nat := (evs.foldl setExitStatus .success).toNat

def srcOf (kind sym su sg st nl : String) : Option Src := do
  let k ← kind.toNat?
  let n ← nl.toNat?
  pure ⟨Kind.ofCode k, b01 sym, b01 su, b01 sg, b01 st, n⟩

def actionStr (a : Action) : String :=
  match a with
  | .emptyName => "empty"
  | .srcRefused d => s!"src:{d.toNat}"
  | .nameSkipped => "nameskip"
  | .destRefused .errExists => "dest:exists"
  | .destRefused .errCannotRemove => "dest:cannotremove"
  | .destRefused _ => "dest:?"
  | .toStdout => "stdout"
  | .done _ _ => "done"

/-- "d123" / "z8192" -> the bytes of one io_write() call -/
def chunkOf (t : String) : Option (List UInt8) :=
  match t.toList with
  | 'd' :: rest => (String.ofList rest).toNat?.map fun n => List.replicate n 1
  | 'z' :: rest => (String.ofList rest).toNat?.map fun n => List.replicate n 0
  | _ => none

def attrsOp (md keep nosparse nosync : String) (nums : List Nat) (ofail gfail : String) (chunks : List (List UInt8)) : String :=
  match nums with
  | [smode, suid, sgid, sat, smt, puid, dgid] =>
    let r : Attrs.Run := Attrs.cliRun (md == "d") (b01 keep) (b01 nosparse) (b01 nosync) smode suid sgid sat smt puid dgid
                           (b01 ofail) (b01 gfail) chunks
    let o := Attrs.run r
    let d := o.st.dest
    let codes := ",".intercalate (o.st.trace.map fun e => toString (e.code.headD 0))
    let nw := (o.st.msgs.filter (· == Status.warning)).length
    s!"M={d.mode} U={d.uid} G={d.gid} A={d.atime} T={d.mtime} S={d.content.length} R={if o.srcRemoved then 1 else 0} " ++
    s!"W={nw} OK={if o.success then 1 else 0} E={codes}"
  | _ => "bad-op"

def step (_ : Unit) (ws : List String) : Unit × String :=
  match ws with
  | "attrs" :: md :: keep :: nosparse :: nosync :: smode :: suid :: sgid :: sat :: smt :: puid :: dgid :: ofl :: gfl :: cks =>
    match [smode, suid, sgid, sat, smt, puid, dgid].mapM String.toNat?, cks.mapM chunkOf with
    | some nums, some chunks => ((), attrsOp md keep nosparse nosync nums ofl gfl chunks)
    | _, _ => ((), "bad-op")
  | ["name", md, f, sx, nm] =>
    match fmtOf f, sfxOf sx, bytesOfHex nm with
    | some fmt, some (some custom), some name =>
      if md == "c" then ((), showName (gCompressed fmt custom name) "already")
      else ((), showName (gUncompressed fmt custom name) "unknown")
    | some _, some none, some _ => ((), "fatal")
    | _, _, _ => ((), "bad-op")
  | ["rt", f, df, sx, nm] =>
    match fmtOf f, fmtOf df, sfxOf sx, bytesOfHex nm with
    | some fmt, some dfmt, some (some custom), some name =>
      match gCompressed fmt custom name with
      | some t => ((), showName (some t) "already" ++ " | " ++ showName (gUncompressed dfmt custom t) "unknown")
      | none => ((), "skip already | -")
    | some _, some _, some none, some _ => ((), "fatal")
    | _, _, _, _ => ((), "bad-op")
  | ["sfx", sx] =>
    match bytesOfHex sx with
    | some bs => ((), if suffixIsSet bs then "ok" else "fatal")
    | none => ((), "bad-op")
  | ["ts", sx, nm] =>
    match bytesOfHex sx, bytesOfHex nm with
    | some s, some n => ((), toString (testSuffix s n))
    | _, _ => ((), "bad-op")
  | ["mode", m, sc] =>
    match m.toNat?, sc.toNat? with
    | some m, some sc => ((), toString (destMode m (sc == 2)))
    | _, _ => ((), "bad-op")
  | "exit" :: evs =>
    ((), toString (statusCode (evs.map fun e => if e == "w" then Status.warning else Status.error)))
  | "status" :: nw :: evs =>
    ((), toString (runStatus (evs.map fun e => if e == "w" then Status.warning else Status.error) (b01 nw)).toNat)
  | ["opensrc", kind, sym, su, sg, st, nl, c, f, k] =>
    match srcOf kind sym su sg st nl with
    | some src =>
      let d := srcDecision src ⟨b01 c, b01 f, b01 k⟩
      let ev : List Status := match d with
        | .ok => [] | .errNoEnt => [.error] | .errNxio => [.error] | _ => [.warning]
      ((), s!"{d.toNat} {statusCode ev}")
    | none => ((), "bad-op")
  | ["runfile", md, f, sx, c, fo, k, nm, kind, sym, smode, nl, dk, gf, ofl, nw] =>
    match fmtOf f, sfxOf sx, bytesOfHex nm, smode.toNat?, dk.toNat? with
    | some fmt, some (some custom), some name, some sm, some dkn =>
      match srcOf kind sym (if sm / 2048 % 2 == 1 then "1" else "0") (if sm / 1024 % 2 == 1 then "1" else "0")
              (if sm / 512 % 2 == 1 then "1" else "0") nl with
      | some src =>
        let fc : FileCase := { mode := if md == "c" then .compress else .decompress, fmt := fmt, custom := custom,
                               flags := ⟨b01 c, b01 fo, b01 k⟩, name := name, src := src, srcMode := sm,
                               dest := DestKind.ofCode dkn, groupFail := b01 gf, ownerFail := b01 ofl }
        -- the name mapping inside runFile uses the model tables; re-run it over the Gen tables and insist on agreement
        let o := runFile fc
        let gname := if md == "c" then gCompressed fmt custom name else gUncompressed fmt custom name
        let agree := destName fc.mode fmt custom name == gname
        let (d, m) := match o.action with
          | .done t m => (hexOfBytes t, toString m)
          | _ => ("-", "-")
        let x := (runStatus o.events (b01 nw)).toNat
        ((), (if agree then "" else "GEN-MODEL-TABLE-MISMATCH ") ++
          s!"A={actionStr o.action} D={d} M={m} R={if o.srcRemoved then 1 else 0} X={x}")
      | none => ((), "bad-op")
    | some _, some none, some _, some _, some _ => ((), "fatal")
    | _, _, _, _, _ => ((), "bad-op")
  | "plan" :: lm :: lb :: ops =>
    match lm.toNat?, bytesOfHex lb, ops.mapM bytesOfHex with
    | some lm, some lb, some ops => ((), " ".intercalate ((mainPlanCode ops lm lb).map hexOfBytes))
    | _, _, _ => ((), "bad-op")
  | ["args", p, e, o1, o2] =>
    match p.toNat?, e.toNat?, o1.toNat?, o2.toNat? with
    | some p, some e, some o1, some o2 =>
      ((), toString (parseArgs (Prog.ofCode p) (envVariant e).1 (envVariant e).2 (Opt.ofCode o1 ++ Opt.ofCode o2)).code)
    | _, _, _, _ => ((), "bad-op")
  | _ => ((), "bad-op")

def main : IO Unit := runLoop step ()
