/-
  Model driver for C01 (line protocol, see harness/c01_main.c and tools/props/c01.py). Imports Model only.

    lzma1 <lc> <lp> <pb> <dict> <eopm 0|1> <limit (0 = none)> <micro 0|1> <prefix>
    lzma2 <lc> <lp> <pb> <dict> <prefix>
        reads <prefix>.in (data), <prefix>.trace (H2 records, 5 × uint32 LE each), <prefix>.pd (preset dictionary, optional)
        and <prefix>.out (bytes produced by the C encoder); runs the encoder MODEL over the trace (which also checks that the
        trace describes the data) and compares its bytes with the C bytes:
          "ok bytes=<n> nsyms=<k> consumed=<c>"  |  "MISMATCH at=<i> model_len=<a> c_len=<b>"  |  "DESCRIBES-FAIL <text>"
    spec1 <lc> <lp> <pb> <dict> <prefix>
        the SPECIFICATION encoder/decoder on which the theorems are stated (lists; small cases only): symbols of the trace ->
        `lzma1EncodeSpec` must equal the C bytes, `lzma1DecodeSpec` of the C bytes must give the data: "ok bytes=<n> nsyms=<k>"
    dec1 <lc> <lp> <pb> <dict> <prefix>   /  dec2 <dict> <prefix>
        decodes <prefix>.out with the decoder MODEL of b-c03 (raw LZMA1 with end marker / raw LZMA2) and compares with <prefix>.in:
          "ok n=<len>"  |  "DECODE-FAIL ret=<r> n=<len> first_diff=<i>"
    rcdummy <ops> <pending ops> <limit>   rc_encode_dummy after <ops> with <pending ops> queued: "<0|1> <out_total>"
    rc <hexops>   range coder only: ops as characters 0/1 = direct bit, a..p = bit 0 in context (c - 'a'), A..P = bit 1 in
        context; 16 contexts starting at 1024; prints the bytes as hex.
-/
import XzVerif.Model.Proto
import XzVerif.Model.Lzma2Enc
import XzVerif.Gen.C01
import XzVerif.Model.Lzma2
import XzVerif.Model.LzmaSpec
open XzVerif XzVerif.Proto XzVerif.RangeEnc XzVerif.LzmaEnc XzVerif.Lzma2Enc XzVerif.LzmaSpec

/-- the symbol list of an LZMA1 trace (first literal of `encode_init` included), checked against the data -/
def traceSyms (dictSize : Nat) (buf : ByteArray) (base : Nat) (trace : Array TraceRec) : Except String (List Sym) := do
  let mut st : SymSt := {}
  let mut off := 0
  let mut syms : Array Sym := #[]
  if base == 0 && buf.size > 0 then
    let sym := Sym.lit (buf.get! 0)
    syms := syms.push sym
    st := st.next sym
    off := 1
  for r in trace do
    if r.kind != 0 then throw "unexpected trace record kind"
    let (sym, _, _) ← checkSym dictSize buf base off st r.back r.len
    syms := syms.push sym
    st := st.next sym
    off := off + r.len
  return syms.toList

def rd32 (b : ByteArray) (i : Nat) : Nat :=
  (b.get! i).toNat + 256 * (b.get! (i + 1)).toNat + 65536 * (b.get! (i + 2)).toNat + 16777216 * (b.get! (i + 3)).toNat

def parseTrace (b : ByteArray) : Array TraceRec := Id.run do
  let n := b.size / 20
  let mut a : Array TraceRec := Array.mkEmpty n
  for i in [0:n] do
    let o := 20 * i
    a := a.push { kind := rd32 b o, back := rd32 b (o + 4), len := rd32 b (o + 8), pos := rd32 b (o + 12), ra := rd32 b (o + 16) }
  return a

def readOpt (path : String) : IO ByteArray := do
  if ← System.FilePath.pathExists path then IO.FS.readBinFile path else pure ByteArray.empty

def firstDiff (a : List UInt8) (b : ByteArray) : Nat := Id.run do
  let mut i := 0
  for x in a do
    if i ≥ b.size || b.get! i != x then return i
    i := i + 1
  return i

def compareOut (r : Except String EncResult) (cOut : ByteArray) (fixFirst : Option UInt8) : String :=
  match r with
  | .error msg => s!"DESCRIBES-FAIL {msg}"
  | .ok res =>
    let out := match fixFirst, res.out with
      | some b, _ :: t => b :: t
      | _, o => o
    if out.length == cOut.size && firstDiff out cOut == cOut.size then
      s!"ok bytes={out.length} nsyms={res.nsyms} consumed={res.consumed}"
    else s!"MISMATCH at={firstDiff out cOut} model_len={out.length} c_len={cOut.size}"

def rcOps (s : String) : Option (List Op) :=
  s.toList.mapM fun c =>
    if c == '0' then some (.direct false) else if c == '1' then some (.direct true)
    else if 'a' ≤ c ∧ c ≤ 'p' then some (.bit (c.toNat - 97) false)
    else if 'A' ≤ c ∧ c ≤ 'P' then some (.bit (c.toNat - 65) true)
    else none

def step (ws : List String) : IO String := do
  match ws with
  | ["rc", ops] =>
    match rcOps (if ops == "-" then "" else ops) with
    | some l => pure (hexOfBytes (rcEncode (Array.replicate 16 1024) l).1)
    | none => pure "bad-op"
  | ["rcdummy", pre, pend, limit] =>
    match rcOps (if pre == "-" then "" else pre), rcOps (if pend == "-" then "" else pend), limit.toNat? with
    | some a, some b, some lim =>
      let r := encOps (Array.replicate 16 1024) Enc.init a
      pure s!"{if encodeDummy r.1 r.2 b lim then 1 else 0} {r.2.outTotal}"
    | _, _, _ => pure "bad-op"
  | ["lzma1", lc, lp, pb, dict, eopm, limit, micro, prefix_] =>
    match lc.toNat?, lp.toNat?, pb.toNat?, dict.toNat?, eopm.toNat?, limit.toNat?, micro.toNat? with
    | some lc, some lp, some pb, some dict, some eopm, some limit, some micro =>
      let data ← IO.FS.readBinFile (prefix_ ++ ".in")
      let tr ← IO.FS.readBinFile (prefix_ ++ ".trace")
      let pd ← readOpt (prefix_ ++ ".pd")
      let cOut ← IO.FS.readBinFile (prefix_ ++ ".out")
      let p : Lzma.Props := { lc := lc, lp := lp, pb := pb }
      let r := lzma1Encode p dict (eopm == 1) limit (pd ++ data) pd.size (parseTrace tr)
      pure (compareOut r cOut (if micro == 1 then some (UInt8.ofNat (255 - p.encode)) else none))
    | _, _, _, _, _, _, _ => pure "bad-op"
  | ["lzma2", lc, lp, pb, dict, prefix_] =>
    match lc.toNat?, lp.toNat?, pb.toNat?, dict.toNat? with
    | some lc, some lp, some pb, some dict =>
      let data ← IO.FS.readBinFile (prefix_ ++ ".in")
      let tr ← IO.FS.readBinFile (prefix_ ++ ".trace")
      let pd ← readOpt (prefix_ ++ ".pd")
      let cOut ← IO.FS.readBinFile (prefix_ ++ ".out")
      -- chunk-closing limits as the source has them today (regenerated on every run)
      let lim : ChunkLimits := { target := Gen.C01.chunkTarget, compLimit := Gen.C01.chunkCompLimit }
      let r := lzma2EncodeL lim { lc := lc, lp := lp, pb := pb } dict (pd ++ data) pd.size (parseTrace tr)
      pure (compareOut r cOut none)
    | _, _, _, _ => pure "bad-op"
  | ["spec1", lc, lp, pb, dict, prefix_] =>
    match lc.toNat?, lp.toNat?, pb.toNat?, dict.toNat? with
    | some lc, some lp, some pb, some dict =>
      let data ← IO.FS.readBinFile (prefix_ ++ ".in")
      let tr ← IO.FS.readBinFile (prefix_ ++ ".trace")
      let pd ← readOpt (prefix_ ++ ".pd")
      let cOut ← IO.FS.readBinFile (prefix_ ++ ".out")
      let p : Lzma.Props := { lc := lc, lp := lp, pb := pb }
      match traceSyms dict (pd ++ data) pd.size (parseTrace tr) with
      | .error msg => pure s!"DESCRIBES-FAIL {msg}"
      | .ok syms =>
        match lzma1EncodeSpec p dict pd.toList syms with
        | none => pure "SPEC-FAIL the specification encoder rejects the traced symbols"
        | some bytes =>
          if !(bytes.length == cOut.size && firstDiff bytes cOut == cOut.size) then
            pure s!"MISMATCH at={firstDiff bytes cOut} model_len={bytes.length} c_len={cOut.size}"
          else
            match lzma1DecodeSpec p dict pd.toList (syms.length + 1) cOut.toList with
            | some (out, []) =>
              if out.length == data.size && firstDiff out data == data.size then pure s!"ok bytes={bytes.length} nsyms={syms.length}"
              else pure s!"SPEC-DECODE-FAIL first_diff={firstDiff out data}"
            | _ => pure "SPEC-DECODE-FAIL no result"
    | _, _, _, _ => pure "bad-op"
  | ["dec1", lc, lp, pb, dict, prefix_] =>
    match lc.toNat?, lp.toNat?, pb.toNat?, dict.toNat? with
    | some lc, some lp, some pb, some dict =>
      let data ← IO.FS.readBinFile (prefix_ ++ ".in")
      let pd ← readOpt (prefix_ ++ ".pd")
      let cOut ← IO.FS.readBinFile (prefix_ ++ ".out")
      let r := Lzma.lzmaDecode { lc := lc, lp := lp, pb := pb } dict none true cOut.toList pd.toList
      if r.ret == .streamEnd && r.out.length == data.size && firstDiff r.out data == data.size && r.consumed == cOut.size then
        pure s!"ok n={data.size}"
      else pure s!"DECODE-FAIL ret={r.ret.toNat} n={r.out.length} consumed={r.consumed} first_diff={firstDiff r.out data}"
    | _, _, _, _ => pure "bad-op"
  | ["dec2", dict, prefix_] =>
    match dict.toNat? with
    | some dict =>
      let data ← IO.FS.readBinFile (prefix_ ++ ".in")
      let pd ← readOpt (prefix_ ++ ".pd")
      let cOut ← IO.FS.readBinFile (prefix_ ++ ".out")
      let r := Lzma2.lzma2Decode dict cOut.toList pd.toList
      if r.ret == .streamEnd && r.out.length == data.size && firstDiff r.out data == data.size && r.consumed == cOut.size then
        pure s!"ok n={data.size}"
      else pure s!"DECODE-FAIL ret={r.ret.toNat} n={r.out.length} consumed={r.consumed} first_diff={firstDiff r.out data}"
    | none => pure "bad-op"
  | _ => pure "bad-op"

partial def loop (i o : IO.FS.Stream) : IO Unit := do
  let line ← i.getLine
  if line.isEmpty then
    o.flush
    return ()
  let ws := words line
  if !ws.isEmpty then
    let r ← (try step ws catch e => pure s!"io-error {e}")
    o.putStrLn r
    o.flush
  loop i o

def main : IO Unit := do
  loop (← IO.getStdin) (← IO.getStdout)
