/-
  Model driver for C13 (line protocol of harness/c13_main.c; extra op `blockat` = `RandomAccess.blockAt` with the model of
  the real decoder, `XzEnv.fastEnv`, used on real files). Imports Model + Gen only.
  Every answer is computed from the CONCRETE model (Model/IndexImpl.lean). For indexes of moderate size the driver
  also runs the abstract specification (Model/IndexSpec.lean) in lock step and appends " SPECDIFF ..." to the answer
  when the two disagree — a run-time refinement check that backs the theorems of Props/C13.lean on exactly the
  histories the correspondence explores.
-/
import XzVerif.Model.Proto
import XzVerif.Model.IndexSpec
import XzVerif.Model.IndexImpl
import XzVerif.Model.FileInfo
import XzVerif.Model.XzEnv
import XzVerif.Model.RandomAccess
open XzVerif XzVerif.Proto XzVerif.Index

structure Slot where
  impl : Impl.Index
  /-- the specification shadow; dropped once the index gets large (the list model is quadratic) -/
  spec : Option SpecIndex

structure ItSlot where
  slot : Nat
  gen : Nat
  it : Impl.Iter
  pos : Option (Nat × Option Nat)

structure St where
  slots : Array (Option Slot)
  gens : Array Nat
  iters : Array (Option ItSlot)
  hash : Option HashSt

def St.init : St := ⟨Array.replicate 8 none, Array.replicate 8 0, Array.replicate 4 none, none⟩

def shadowLimitBlocks : Nat := 1500
def shadowLimitStreams : Nat := 200

def keepShadow (i : Impl.Index) (sp : Option SpecIndex) : Option SpecIndex :=
  if i.recordCount > shadowLimitBlocks ∨ i.streams.count > shadowLimitStreams then none else sp

def sumImpl (i : Impl.Index) : String :=
  s!"S {Impl.streamCount i} {Impl.blockCount i} {Impl.indexSizeAll i} {Impl.streamSize i} {i.totalSize} {Impl.fileSize i} {i.uncompressedSize} {Impl.checks i} {Impl.memused i} {Impl.paddingSize i}"

def sumSpec (i : SpecIndex) : String :=
  s!"S {Spec.streamCount i} {Spec.blockCount i} {Spec.indexSizeAll i} {Spec.streamSize i} {Spec.totalSize i} {Spec.fileSize i} {Spec.uncompressedSize i} {Spec.checks i} {Spec.memused i} {Spec.paddingSize i}"

def withDiff (a : String) (b : Option String) : String :=
  match b with
  | none => a
  | some b => if a == b then a else a ++ " SPECDIFF " ++ b

def sumSlot (s : Option Slot) : String :=
  match s with
  | none => "null"
  | some s => withDiff (sumImpl s.impl) (s.spec.map sumSpec)

def fmtFlags (f : Option StreamFlags) : String :=
  match f with
  | none => "-"
  | some f => s!"{f.version}/{f.backwardSize}/{f.check}"

def fmtInfo (x : Spec.IterInfo) : String :=
  let s := x.stream
  let a := s!"s:{s.number},{s.blockCount},{s.compressedOffset},{s.uncompressedOffset},{s.compressedSize},{s.uncompressedSize},{s.padding},{fmtFlags s.flags}"
  match x.block with
  | some b =>
    if s.blockCount > 0 then
      a ++ s!";b:{b.numberInFile},{b.compressedFileOffset},{b.uncompressedFileOffset},{b.numberInStream},{b.compressedStreamOffset},{b.uncompressedStreamOffset},{b.uncompressedSize},{b.unpaddedSize},{b.totalSize}"
    else a
  | none => a

def fmtInfos (l : List Spec.IterInfo) : String :=
  if l.isEmpty then "empty" else " | ".intercalate (l.map fmtInfo)

def slotIdx (s : String) : Option Nat := match s.toNat? with | some k => if k < 8 then some k else none | none => none
def iterIdx (s : String) : Option Nat := match s.toNat? with | some k => if k < 4 then some k else none | none => none

def intArg (s : String) : Option Int :=
  if s.startsWith "-" then (s.drop 1).toNat?.map fun n => - (Int.ofNat n) else s.toNat?.map Int.ofNat

def St.drop (st : St) (k : Nat) : St :=
  { st with slots := st.slots.setIfInBounds k none, gens := st.gens.modify k (· + 1) }

def St.put (st : St) (k : Nat) (s : Option Slot) : St := { st with slots := st.slots.setIfInBounds k s }

def St.get (st : St) (k : Nat) : Option Slot := (st.slots[k]?).join

def retS (r : Index.Ret) : String := toString r.toNat

/-- Apply an operation that exists in both models; the shadow follows only on agreement of the return code. -/
def both (s : Slot) (fi : Impl.Index → Index.Ret × Impl.Index) (fs : SpecIndex → Index.Ret × SpecIndex) : Index.Ret × Slot × Option String :=
  let (r, i') := fi s.impl
  match s.spec with
  | none => (r, ⟨i', none⟩, none)
  | some sp =>
    let (r2, sp') := fs sp
    let diff := if r2 == r then none else some s!"ret {r2.toNat}"
    (r, ⟨i', keepShadow i' (some sp')⟩, diff)

def answer (r : String) (s : Slot) (diff : Option String) : String :=
  let base := r ++ " " ++ sumSlot (some s)
  match diff with
  | none => base
  | some d => base ++ " SPECDIFF " ++ d

def appendN (s : Slot) : Nat → Nat → Nat → Nat → Index.Ret × Nat × Slot × Option String
  | 0, done, _, _ => (.ok, done, s, none)
  | n + 1, done, u, c =>
    let (r, s', d) := both s (fun i => Impl.append i u c) (fun i => Spec.append i u c)
    if r != .ok ∨ d.isSome then (r, done, s', d) else appendN s' n (done + 1) u c

def validIter (st : St) (t : Nat) : Option (ItSlot × Slot) :=
  match (st.iters[t]?).join with
  | none => none
  | some its =>
    match st.get its.slot with
    | none => none
    | some s => if st.gens[its.slot]? == some its.gen then some (its, s) else none

def step (st : St) (ws : List String) : St × String :=
  match ws with
  | ["reset"] => (St.init, "ok")
  -- handle reuse in the harness must not change any answer
  | ["reuse", _] => (st, "ok")
  | ["init", k] =>
    match slotIdx k with
    | none => (st, "bad-op")
    | some k =>
      let s : Slot := ⟨Impl.init, some Spec.init⟩
      ((st.drop k).put k (some s), "ok " ++ sumSlot (some s))
  | ["end", k] =>
    match slotIdx k with
    | none => (st, "bad-op")
    | some k => (st.drop k, "ok")
  | ["sum", k] =>
    match slotIdx k with
    | none => (st, "bad-op")
    | some k => (st, sumSlot (st.get k))
  | ["append", k, u, c] =>
    match slotIdx k, u.toNat?, c.toNat? with
    | some k, some u, some c =>
      match st.get k with
      | none => (st, "null")
      | some s =>
        let (r, s', d) := both s (fun i => Impl.append i u c) (fun i => Spec.append i u c)
        (st.put k (some s'), answer (retS r) s' d)
    | _, _, _ => (st, "bad-op")
  | ["appendn", k, n, u, c] =>
    match slotIdx k, n.toNat?, u.toNat?, c.toNat? with
    | some k, some n, some u, some c =>
      match st.get k with
      | none => (st, "null")
      | some s =>
        let (r, done, s', d) := appendN s n 0 u c
        (st.put k (some s'), answer s!"{r.toNat} {done}" s' d)
    | _, _, _, _ => (st, "bad-op")
  | ["flags", k, v, b, c] =>
    match slotIdx k, v.toNat?, b.toNat?, c.toNat? with
    | some k, some v, some b, some c =>
      match st.get k with
      | none => (st, "null")
      | some s =>
        -- the harness stores the version in a uint32_t and the check in an enum (int)
        let f : StreamFlags := ⟨v % 4294967296, b, c⟩
        let (r, s', d) := both s (fun i => Impl.streamFlags i f) (fun i => Spec.streamFlags i f)
        (st.put k (some s'), answer (retS r) s' d)
    | _, _, _, _ => (st, "bad-op")
  | ["padding", k, p] =>
    match slotIdx k, p.toNat? with
    | some k, some p =>
      match st.get k with
      | none => (st, "null")
      | some s =>
        let (r, s', d) := both s (fun i => Impl.streamPadding i p) (fun i => Spec.streamPadding i p)
        (st.put k (some s'), answer (retS r) s' d)
    | _, _ => (st, "bad-op")
  | ["cat", d, s] =>
    match slotIdx d, slotIdx s with
    | some d, some s =>
      match st.get d, st.get s with
      | some sd, some ss =>
        if d = s then (st, "null")
        else
          let (r, i') := Impl.cat sd.impl ss.impl
          let (sp', diff) :=
            match sd.spec, ss.spec with
            | some a, some b =>
              let (r2, c) := Spec.cat a b
              (some c, if r2 == r then none else some s!"ret {r2.toNat}")
            | _, _ => (none, none)
          let nd : Slot := ⟨i', keepShadow i' sp'⟩
          let st := st.put d (some nd)
          let st := if r == .ok then st.drop s else st
          (st, answer (retS r) nd diff)
      | _, _ => (st, "null")
    | _, _ => (st, "bad-op")
  | ["dup", d, s] =>
    match slotIdx d, slotIdx s with
    | some d, some s =>
      match st.get s with
      | none => (st, "null")
      | some ss =>
        let nd : Slot := ⟨Impl.dup ss.impl, ss.spec.map Spec.dup⟩
        ((st.drop d).put d (some nd), "ok " ++ sumSlot (some nd))
    | _, _ => (st, "bad-op")
  | ["encode", k, delta] =>
    match slotIdx k, intArg delta with
    | some k, some delta =>
      match st.get k with
      | none => (st, "null")
      | some s =>
        if delta < 0 then (st, "10 0 -")
        else
          let e := Impl.encode s.impl
          let a := s!"0 {e.length} {hexOfBytes e}"
          (st, withDiff a (s.spec.map fun sp => let e2 := Spec.encode sp; s!"0 {e2.length} {hexOfBytes e2}"))
    | _, _ => (st, "bad-op")
  | ["encodes", k, _] =>
    match slotIdx k with
    | some k =>
      match st.get k with
      | none => (st, "null")
      | some s =>
        let e := Impl.encode s.impl
        (st, s!"1 {e.length} {hexOfBytes e}")
    | _ => (st, "bad-op")
  | ["decode", k, ml, hx] =>
    match slotIdx k, ml.toNat?, bytesOfHex hx with
    | some k, some ml, some bs =>
      let r := Impl.decode ml bs
      let r2 := Spec.decode ml bs
      let st := st.drop k
      match r.ret, r.index with
      | .streamEnd, some i =>
        let sp := match r2.ret, r2.index with | .streamEnd, some x => some x | _, _ => none
        let diff := if r2.ret == .streamEnd ∧ r2.used = r.used then none else some s!"ret {r2.ret.toNat} {r2.used}"
        let s : Slot := ⟨i, keepShadow i sp⟩
        (st.put k (some s), answer s!"0 {r.used} {ml}" s diff)
      | ret, _ =>
        let ret' := if ret == .ok then Index.Ret.dataError else ret
        let a := s!"{ret'.toNat} 0 {if ret == .memlimitError then r.memNeeded else ml} null"
        -- the specification has no allocator: LZMA_MEM_ERROR is outside its vocabulary
        let diff := if r.ret == .memError ∨ (r2.ret == r.ret ∧ r2.used = r.used) then "" else s!" SPECDIFF ret {r2.ret.toNat} {r2.used}"
        (st, a ++ diff)
    | _, _, _ => (st, "bad-op")
  | ["decodes", k, ml, _, hx] =>
    match slotIdx k, ml.toNat?, bytesOfHex hx with
    | some k, some ml, some bs =>
      let r := Impl.decode ml bs
      let r2 := Spec.decode ml bs
      let st := st.drop k
      let diff := if r.ret == .memError ∨ (r2.ret == r.ret ∧ r2.used = r.used) then "" else s!" SPECDIFF ret {r2.ret.toNat} {r2.used}"
      let mu := if r.ret == .memlimitError then toString r.memNeeded else "-"
      match r.ret, r.index with
      | .streamEnd, some i =>
        let sp := match r2.ret, r2.index with | .streamEnd, some x => some x | _, _ => none
        let s : Slot := ⟨i, keepShadow i sp⟩
        (st.put k (some s), s!"1 {r.used} {mu} {sumSlot (some s)}" ++ diff)
      | ret, _ => (st, s!"{ret.toNat} {r.used} {mu} null" ++ diff)
    | _, _, _ => (st, "bad-op")
  | ["memusage", a, b] =>
    match a.toNat?, b.toNat? with
    | some a, some b => (st, toString (memusage a b))
    | _, _ => (st, "bad-op")
  | ["iter", k, m] =>
    match slotIdx k, m.toNat? with
    | some k, some m =>
      match st.get k with
      | none => (st, "null")
      | some s =>
        -- the harness casts the mode to an enum (32 bits)
        let m := m % 4294967296
        (st, withDiff (fmtInfos (Impl.iterAll s.impl m)) (s.spec.map fun sp => fmtInfos (Spec.iterAll sp m)))
    | _, _ => (st, "bad-op")
  | ["locate", k, t] =>
    match slotIdx k, t.toNat? with
    | some k, some t =>
      match st.get k with
      | none => (st, "null")
      | some s =>
        let a := match Impl.iterLocate s.impl t with | none => "miss" | some (_, x) => fmtInfo x
        (st, withDiff a (s.spec.map fun sp => match Spec.locate sp t with | none => "miss" | some x => fmtInfo x))
    | _, _ => (st, "bad-op")
  | ["iinit", t, k] =>
    match iterIdx t, slotIdx k with
    | some t, some k =>
      match st.get k with
      | none => ({ st with iters := st.iters.setIfInBounds t none }, "null")
      | some _ =>
        ({ st with iters := st.iters.setIfInBounds t (some ⟨k, st.gens[k]?.getD 0, Impl.Iter.rewind, none⟩) }, "ok")
    | _, _ => (st, "bad-op")
  | ["irewind", t] =>
    match iterIdx t with
    | some t =>
      match validIter st t with
      | none => ({ st with iters := st.iters.setIfInBounds t none }, "stale")
      | some (its, _) =>
        ({ st with iters := st.iters.setIfInBounds t (some { its with it := Impl.Iter.rewind, pos := none }) }, "ok")
    | none => (st, "bad-op")
  | ["inext", t, m] =>
    match iterIdx t, m.toNat? with
    | some t, some m =>
      match validIter st t with
      | none => ({ st with iters := st.iters.setIfInBounds t none }, "stale")
      | some (its, s) =>
        let m := m % 4294967296
        let ri := Impl.iterNext s.impl its.it m
        let a := match ri with | none => "end" | some (_, x) => fmtInfo x
        let it' := match ri with | none => its.it | some (x, _) => x
        -- specification iterator (only meaningful while the shadow exists)
        let (pos', b) :=
          match s.spec with
          | none => (its.pos, none)
          | some sp =>
            match Spec.iterNextPos sp m (Spec.iterFuel sp) its.pos with
            | none => (its.pos, some "end")
            | some p => (some p, some (match Spec.infoAt sp p.1 p.2 with | none => "?" | some x => fmtInfo x))
        ({ st with iters := st.iters.setIfInBounds t (some { its with it := it', pos := pos' }) }, withDiff a b)
    | _, _ => (st, "bad-op")
  | ["ilocate", t, tg] =>
    match iterIdx t, tg.toNat? with
    | some t, some tg =>
      match validIter st t with
      | none => ({ st with iters := st.iters.setIfInBounds t none }, "stale")
      | some (its, s) =>
        let ri := Impl.iterLocate s.impl tg
        let a := match ri with | none => "miss" | some (_, x) => fmtInfo x
        let it' := match ri with | none => its.it | some (x, _) => x
        let (pos', b) :=
          match s.spec with
          | none => (its.pos, none)
          | some sp =>
            match Spec.locatePos sp tg with
            | none => (its.pos, some "miss")
            | some p => (some (p.1, some p.2), some (match Spec.infoAt sp p.1 (some p.2) with | none => "?" | some x => fmtInfo x))
        ({ st with iters := st.iters.setIfInBounds t (some { its with it := it', pos := pos' }) }, withDiff a b)
    | _, _ => (st, "bad-op")
  -- abandoned file-info decoding: only the state of the harness' handle changes
  | ["finfoa", k, _, _, _, _] =>
    match slotIdx k with
    | some k => (st.drop k, "ok")
    | none => (st, "bad-op")
  | [op, k, ml, _, _, hx] =>
    -- finfo / finfof / finfog: the answer does not depend on the action protocol or the read sizes
    if op != "finfo" && op != "finfof" && op != "finfog" then (st, "bad-op") else
    match slotIdx k, ml.toNat?, bytesOfHex hx with
    | some k, some ml, some bs =>
      let (r, idx) := fileInfo ml bs.toArray
      let st := st.drop k
      match r, idx with
      | .streamEnd, some i =>
        let s : Slot := ⟨i, keepShadow i (some (Impl.abs i))⟩
        (st.put k (some s), s!"1 0 {sumSlot (some s)}")
      | r, _ => (st, s!"{r.toNat} 0 null")
    | _, _, _ => (st, "bad-op")
  | ["hinit"] =>
    let h := HashSt.init
    ({ st with hash := some h }, s!"ok {h.size}")
  | ["happend", u, c] =>
    match u.toNat?, c.toNat? with
    | some u, some c =>
      match st.hash with
      | none => (st, "null")
      | some h =>
        let (r, h') := h.append u c
        ({ st with hash := some h' }, s!"{r.toNat} {h'.size}")
    | _, _ => (st, "bad-op")
  | ["hsize"] =>
    match st.hash with
    | none => (st, "null")
    | some h => (st, toString h.size)
  | ["hdecode", _, hx] =>
    match bytesOfHex hx with
    | some bs =>
      match st.hash with
      | none => (st, "null")
      | some h =>
        let (r, used, h') := h.decode bs
        ({ st with hash := some h' }, s!"{r.toNat} {used}")
    | none => (st, "bad-op")
  | ["blockat", spec, hx] =>
    -- random access on a real file: `spec` = `check,offset,cap,len;…` (one entry per Block, offsets and total sizes from the
    -- index); the model sees the file from `offset` on, cut `len + 64` bytes later (a Block and some of what follows; the
    -- cut only bounds the cost per Block). Answer per Block: `ret consumed compressed hex(out)` of `RandomAccess.blockAt`
    -- with the model of the real decoder.
    match bytesOfHex hx with
    | some bs =>
      let arr := bs.toArray
      let one (e : String) : String :=
        match (e.splitOn ",").map String.toNat? with
        | [some check, some off, some cap, some len] =>
          let r := RandomAccess.blockAt XzEnv.fastEnv check false (arr.extract off (off + len + 64)).toList cap
          s!"{r.ret.toNat} {r.consumed} {r.compressed} {hexOfBytes r.out}"
        | _ => "bad-entry"
      (st, " | ".intercalate ((spec.splitOn ";").map one))
    | none => (st, "bad-op")
  | _ => (st, "bad-op")

def main : IO UInt32 := do
  if !XzEnv.fastSelfTest then
    IO.eprintln "xzm_c13: fastEnv differs from the Check/Sha256 models (self test)"
    return 3
  runLoop step St.init
  return 0
