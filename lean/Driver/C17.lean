/-
  Model driver for C17 (line protocol, see tools/props/c17.py).  Imports Model only.

  run mode=<c|d|t> k=<0|1> f=<0|1> c=<0|1> i=<0|1> sync=<0|1> root=<0|1> plan=<k:E<errno>,k:S<count>,...|-> sig=<k|->
      move=<k>s|<k>d|-  crash=<k|->  [closeout=1: the final close of standard output fails]  files=<file>|<file>...
  file = size:skip:gid:outreg:dstexists:fin:ops     ops = dot separated  R<n> W<n> Z<n> (sparse write) F<n> T I0 (init ok) I1 (init error)

  Every event carries " B1" / " B0": were the hooked signals blocked (signals_block_count > 0) at that call.
  Output: for every file  "<event>;<event>;...#<final fs>"  joined by " | ", then " | exit=<status|sig|crash>".
-/
import XzVerif.Model.Proto
import XzVerif.Model.XzIo
open XzVerif XzVerif.Proto XzVerif.XzIo

def tgt : Target → String
  | .src => "SRC" | .dst => "DST" | .dir => "DIR"

def renderRes (isStat : Bool) : Res → String
  | .ok v => if isStat then s!"ok{v}" else "ok"
  | .err e => s!"E{e}"

def renderCount : Res → String
  | .ok v => s!"{v}"
  | .err e => s!"E{e}"

def renderEvent (e : Event) : String :=
  match e.call with
  | .openSrc nf => s!"open SRC rd{if nf then "+nofollow" else ""} -> {renderRes false e.res}"
  | .fstat t => s!"fstat {tgt t} -> {renderRes false e.res}"
  | .openDir => s!"open DIR rd+dir -> {renderRes false e.res}"
  | .unlinkForce => s!"unlink DST -> {renderRes false e.res}"
  | .openDest => s!"open DST wr+creat+excl+0600 -> {renderRes false e.res}"
  | .read n => s!"read SRC {n} -> {renderCount e.res}"
  | .write n => s!"write DST {n} -> {renderCount e.res}"
  | .lseek t off => s!"lseek {tgt t} {off} -> {renderRes false e.res}"
  | .poll t => s!"poll {tgt t} -> {renderRes false e.res}"
  | .fchownUid => s!"fchown DST uid -> {renderRes false e.res}"
  | .fchownGid => s!"fchown DST gid -> {renderRes false e.res}"
  | .fchmod => s!"fchmod DST -> {renderRes false e.res}"
  | .futimens => s!"futimens DST -> {renderRes false e.res}"
  | .fsync t => s!"fsync {tgt t} -> {renderRes false e.res}"
  | .close t => s!"close {tgt t} -> {renderRes false e.res}"
  | .stat t fo => s!"{if fo then "stat" else "lstat"} {tgt t} -> {renderRes true e.res}"
  | .unlink t => s!"unlink {tgt t} -> {renderRes false e.res}"

def optIno : Option Nat → String
  | none => "-" | some i => toString i

def b01 (b : Bool) : String := if b then "1" else "0"

def sumLen (ps : List (List Unit)) : Nat := ps.foldl (fun a p => a + p.length) 0

def renderFs (s : St Unit) : String :=
  s!"src={optIno s.fs.srcName},dst={optIno s.fs.dstName},srcL={b01 s.fs.srcLinked},preL={b01 s.fs.preLinked}," ++
  s!"ownL={b01 s.fs.ownLinked},forL={b01 s.fs.foreignLinked},ownsz={sumLen s.fs.own},outsz={sumLen s.fs.out}," ++
  s!"durable={b01 s.fs.durable},success={b01 s.success}"

def kv (ws : List String) (key : String) : Option String :=
  ws.findSome? fun w => if w.startsWith (key ++ "=") then some ((w.drop (key.length + 1)).toString) else none

def parsePlan (s : String) : Option (List (Nat × Fault)) :=
  if s == "-" then some [] else
  (s.splitOn ",").mapM fun ent =>
    match ent.splitOn ":" with
    | [ks, act] =>
      match ks.toNat?, (act.drop 1).toString.toNat? with
      | some k, some a =>
        if act.startsWith "E" then some (k, Fault.err a)
        else if act.startsWith "S" then some (k, Fault.short a)
        else none
      | _, _ => none
    | _ => none

def parseOp (w : String) : Option (Op Unit) :=
  if w == "T" then some .tick
  else match (w.drop 1).toString.toNat? with
    | none => none
    | some n =>
      if w.startsWith "R" then some (.read n)
      else if w.startsWith "W" then some (.write (List.replicate n ()) false)
      else if w.startsWith "Z" then some (.write (List.replicate n ()) true)
      else if w.startsWith "F" then some (.fixPos n)
      else none

structure FileSpec where
  size : Nat
  skip : Bool
  gid : Bool
  outreg : Bool
  dstExists : Bool
  fin : Fin
  pre : List (Op Unit)
  init : InitRes
  ops : List (Op Unit)

/-- split "R8192.I0.T.W100" at the coder_init marker -/
def splitInit (ws : List String) : List String × InitRes × List String :=
  let pre := ws.takeWhile (fun w => w != "I0" && w != "I1")
  let rest := ws.drop pre.length
  match rest with
  | m :: post => (pre, if m == "I1" then .error else .ok, post)
  | [] => (pre, .ok, [])

def parseFile (s : String) : Option FileSpec :=
  match s.splitOn ":" with
  | [sz, sk, g, orr, de, fin, ops] => do
    let size ← sz.toNat?
    let (preW, ini, postW) := splitInit (if ops == "-" then [] else ops.splitOn ".")
    let pre ← preW.mapM parseOp
    let ops ← postW.mapM parseOp
    some { size, skip := sk == "1", gid := g == "1", outreg := orr == "1", dstExists := de == "1",
           fin := if fin == "ok" then .ok else .error, pre, init := ini, ops }
  | _ => none

/-- run until the file is done or the call limit is reached; also collects, per system call, whether the hooked
    signals were blocked when it was made (signals_block_count > 0), newest first -/
def runTo (c : Cfg Unit) (limit : Nat) : Nat → St Unit → List Bool → St Unit × List Bool
  | 0, s, fl => (s, fl)
  | n + 1, s, fl => if s.pc = .done ∨ s.k ≥ limit then (s, fl) else runTo c limit n (step c s) ((s.blk > 0) :: fl)

def parseMove (s : String) : Option (Option (Nat × Bool)) :=
  if s == "-" then some none
  else match (s.dropEnd 1).toString.toNat? with
    | some k => if s.endsWith "s" then some (some (k, true)) else if s.endsWith "d" then some (some (k, false)) else none
    | none => none

def optNat (s : String) : Option (Option Nat) :=
  if s == "-" then some none else s.toNat?.map some

def doRun (ws : List String) : Option String := do
  let mode ← kv ws "mode"
  let flag := fun key => (kv ws key) == some "1"
  let o : Opts := { mode := if mode == "c" then .compress else if mode == "d" then .decompress else .test,
                    keep := flag "k", force := flag "f", stdout := flag "c", stdin := flag "i",
                    sync := flag "sync", root := flag "root" }
  let plan ← parsePlan (← kv ws "plan")
  let sig ← optNat (← kv ws "sig")
  let move ← parseMove (← kv ws "move")
  let crash ← optNat (← kv ws "crash")
  let files ← ((← kv ws "files").splitOn "|").mapM parseFile
  let limit := match crash with | some k => k - 1 | none => 100000000
  let fault : Nat → Option Fault := fun k => (plan.find? (·.1 == k)).map (·.2)
  let rec go (fs : List FileSpec) (k exitSt : Nat) (abort crashed : Bool) (acc : List String) : List String × Nat × Bool × Bool :=
    match fs with
    | [] => (acc.reverse, exitSt, abort, crashed)
    | f :: rest =>
      if abort || crashed then
        -- main.c stops at `user_abort`; a dead process starts nothing: the pair is untouched
        let s0 : St Unit := { pc := .done, fs := { dstName := if f.dstExists then some inoPre else none } }
        go rest k exitSt abort crashed (("#" ++ renderFs s0) :: acc)
      else
        let c : Cfg Unit := { o, srcSize := f.size, srcSkip := f.skip, gidDiffers := f.gid, outRegular := f.outreg,
                              pre := f.pre, init := f.init, ops := f.ops, fin := f.fin, fault, signalAt := sig, moveAt := move, zero := () }
        let s0 := start c f.dstExists k exitSt
        -- a process that is to die before its (k+1)-th call makes no call at all when the limit is already reached
        let (s, fl) := runTo c limit 1000000 s0 []
        let tr := ";".intercalate ((s.trace.reverse.zip fl.reverse).map fun (e, b) => renderEvent e ++ (if b then " B1" else " B0"))
        go rest s.k s.exitSt s.userAbort (s.pc != .done) ((tr ++ "#" ++ renderFs s) :: acc)
  let (outs, exitSt, abort, crashed) := go files 0 0 false false []
  -- main(): signals_exit() re-raises a caught signal; otherwise tuklib_exit() closes standard output
  let closeFails := (kv ws "closeout") == some "1"
  let ex := if crashed then "crash" else if abort then "sig" else toString (tuklibExit exitSt closeFails)
  some (" | ".intercalate outs ++ " | exit=" ++ ex)

def stepLine (_ : Unit) (ws : List String) : Unit × String :=
  match ws with
  | "run" :: rest => ((), (doRun rest).getD "bad-op")
  | _ => ((), "bad-op")

def main : IO Unit := runLoop stepLine ()
