/-
  Model driver for C03 (line protocol, see harness/c03_main.c). Imports Model only.

    raw      <kind> <lc> <lp> <pb> <dict> <extflags> <extsize> <preset> <outcap> <input>
    rawbuf   <same fields>
    rawmulti <kind> <lc> <lp> <pb> <dict> <extflags> <extsize> <preset> <outcap> <inslices> <outslices> <input>
        kind: 1 = LZMA_FILTER_LZMA1, 2 = LZMA_FILTER_LZMA1EXT, 3 = LZMA_FILTER_LZMA2
        answer: "<lzma_ret> <in_pos> <out_pos> <out hex>"; rawmulti answers "9" alone for LZMA_DATA_ERROR
        (positions at a data error depend on the slicing) and maps the final LZMA_BUF_ERROR to 0.
    rawr / rawmultir: same answers (the harness runs them on a reused lzma_stream; the model has no handle state).
    dict <dictsize> <presethex> <ops…>   index-level dictionary model (LzDict.Dict), see `dictOps`
    xz <api> <flags> <reuse> <inslices> <outslices> <orighex> <filehex>      container level (harness/c03_xz.c)
        api sd = XzDecode.xzDecode, sbd = XzDecode.xzBufferDecode, alone = Alone.aloneDecode (no memory limit), blk = Container.blockHeaderDecode + XzDecode.blockDecode
        (flags = Check ID), all with XzEnv.fastEnv (Model/Lzma2.lean rawDecode behind the delta/BCJ models, every Block
        starting at position 0). reuse and the slicings do not exist for the model.
        answer "<ret> <consumed> <notices> <outlen> <lcp> <crc64>"
-/
import XzVerif.Model.Proto
import XzVerif.Model.Lzma2
import XzVerif.Model.XzDecode
import XzVerif.Model.XzEnv
import XzVerif.Model.XzStruct
open XzVerif XzVerif.Proto XzVerif.Lzma XzVerif.Lzma2 XzVerif.LzDict

def hexNib (c : UInt8) : Option UInt8 :=
  if 48 ≤ c ∧ c ≤ 57 then some (c - 48)
  else if 97 ≤ c ∧ c ≤ 102 then some (c - 87)
  else if 65 ≤ c ∧ c ≤ 70 then some (c - 55)
  else none

/-- fast hex parser into a ByteArray ("-" = empty) -/
def hexBytes (s : String) : Option ByteArray :=
  if s == "-" then some ByteArray.empty else
  let u := s.toUTF8
  if u.size % 2 != 0 then none else
  let rec go (fuel i : Nat) (acc : ByteArray) : Option ByteArray :=
    match fuel with
    | 0 => some acc
    | fuel + 1 =>
      if i + 1 < u.size then
        match hexNib (u.get! i), hexNib (u.get! (i + 1)) with
        | some a, some b => go fuel (i + 2) (acc.push (a * 16 + b))
        | _, _ => none
      else some acc
  go (u.size / 2 + 1) 0 (ByteArray.emptyWithCapacity (u.size / 2))

def hexChar (n : UInt8) : Char := if n < 10 then Char.ofNat (48 + n.toNat) else Char.ofNat (87 + n.toNat)

def bytesHex (b : ByteArray) : String :=
  if b.size == 0 then "-" else
  b.foldl (fun (s : String) (x : UInt8) => (s.push (hexChar (x / 16))).push (hexChar (x % 16))) ""

def mkLast (kind lc lp pb dict extflags extsize : Nat) (preset : List UInt8) : Option LastFilter :=
  let p : Props := { lc := lc, lp := lp, pb := pb }
  match kind with
  | 1 => some (.lzma1 p dict preset)
  | 2 => some (.lzma1ext p dict preset extflags extsize)
  | 3 => some (.lzma2 dict preset)
  | _ => none

def parseCommon (ws : List String) : Option (LastFilter × Nat) :=
  match ws with
  | [kind, lc, lp, pb, dict, extflags, extsize, preset, outcap] =>
    match kind.toNat?, lc.toNat?, lp.toNat?, pb.toNat?, dict.toNat?, extflags.toNat?, extsize.toNat?, hexBytes preset, outcap.toNat? with
    | some kind, some lc, some lp, some pb, some dict, some ef, some es, some pre, some oc =>
      (mkLast kind lc lp pb dict ef es pre.toList).map fun l => (l, oc)
    | _, _, _, _, _, _, _, _, _ => none
  | _ => none

/-- `rawDecode` without the detour through `List UInt8` for the bulk data -/
def rawRun (last : LastFilter) (input : ByteArray) (outCap : Nat) : Ret × Nat × ByteArray :=
  match last.init input with
  | .error r => (r, 0, ByteArray.empty)
  | .ok c =>
    let (ret, c) := c.code outCap
    (ret, c.consumed, c.outputBytes)

def rawBufRun (last : LastFilter) (input : ByteArray) (outCap : Nat) : Ret × Nat × ByteArray :=
  match last.init input with
  | .error r => (r, 0, ByteArray.empty)
  | .ok c =>
    let (ret, c) := c.code outCap
    if ret == .streamEnd then (.ok, c.consumed, c.outputBytes)
    else if ret == .ok then
      if c.consumed != input.size then (.bufError, 0, ByteArray.empty)
      else if c.produced != outCap then (.dataError, 0, ByteArray.empty)
      else
        let before := c.produced
        let (_, c') := c.code 1
        if c'.produced == before + 1 then (.bufError, 0, ByteArray.empty) else (.dataError, 0, ByteArray.empty)
    else (ret, 0, ByteArray.empty)

/-- multi-call reading of the model: after the first call, keep calling with no additional output space until nothing
    moves any more (what a sliced `lzma_code` loop reaches before it gets LZMA_BUF_ERROR). -/
def rawMultiRun (last : LastFilter) (input : ByteArray) (outCap : Nat) : Ret × Nat × ByteArray :=
  match last.init input with
  | .error r => (r, 0, ByteArray.empty)
  | .ok c =>
    let (ret, c) := c.code outCap
    let rec go (fuel : Nat) (ret : Ret) (c : Coder) : Ret × Coder :=
      match fuel with
      | 0 => (ret, c)
      | fuel + 1 =>
        if ret != .ok then (ret, c) else
        let before := c.consumed
        let (r, c') := c.code 0
        if r == .ok && c'.consumed == before then (r, c') else go fuel r c'
    let (ret, c) := go (input.size + 8) ret c
    (ret, c.consumed, c.outputBytes)

def fmt (r : Ret × Nat × ByteArray) : String :=
  s!"{r.1.toNat} {r.2.1} {r.2.2.size} {bytesHex r.2.2}"

/-! index-level dictionary ops:  p<hex byte>  r<distance>,<len>  g<distance>  l<outavail> (decode_buffer: wrap if needed, set limit)
    x (dictionary reset through decode_buffer)  W<hex> (dict_write, left = len)   → results of p / g / r / W, then pos,full,hasWrapped -/
def dictOps (d : Dict) (ops : List String) (acc : String) : String :=
  match ops with
  | [] => acc ++ s!" {d.p.pos},{d.p.full},{if d.p.hasWrapped then 1 else 0}"
  | op :: rest =>
    let arg := (op.drop 1).toString
    match op.front with
    | 'p' =>
      match hexBytes arg with
      | some b => let (full, d') := d.putSafe (b.data.getD 0 0); dictOps d' rest (acc ++ (if full then " F" else " ."))
      | none => "bad-op"
    | 'g' =>
      match arg.toNat? with
      | some dist => dictOps d rest (acc ++ s!" {(d.get dist).toNat}")
      | none => "bad-op"
    | 'r' =>
      match arg.splitOn "," with
      | [a, b] =>
        match a.toNat?, b.toNat? with
        | some dist, some len => let (more, left, d') := d.repeat dist len; dictOps d' rest (acc ++ s!" {if more then 1 else 0}:{left}")
        | _, _ => "bad-op"
      | _ => "bad-op"
    | 'l' =>
      match arg.toNat? with
      | some n => let d := d.wrap; dictOps { d with p := d.p.setLimit (min n 65536) } rest acc
      | none => "bad-op"
    | 'x' => let d := d.wrap; dictOps ({ d with p := d.p.setLimit 0 }).reset rest acc
    | 'W' =>
      match hexBytes arg with
      | some b => let (n, d') := d.write b.toList b.size; dictOps d' rest (acc ++ s!" {n}")
      | none => "bad-op"
    | _ => "bad-op"

/-! container level -/
def XZ_OUTCAP : Nat := 8 * 1048576

def lcpGo (a : Array UInt8) : List UInt8 → Nat → Nat
  | [], n => n
  | b :: t, n => if h : n < a.size then (if a[n] = b then lcpGo a t (n + 1) else n) else n

def hex16 (n : Nat) : String :=
  String.ofList ((List.range 16).map fun i => hexDigit (n / 16 ^ (15 - i) % 16))

def showEvents (ev : List Ret) : String :=
  if ev.isEmpty then "-" else ",".intercalate (ev.map fun r => toString r.toNat)

def xzAnswer (orig : Array UInt8) (ret : Ret) (consumed : Nat) (events : List Ret) (out : List UInt8) : String :=
  let outb := ByteArray.mk out.toArray
  s!"{ret.toNat} {consumed} {showEvents events} {out.length} {lcpGo orig out 0} {hex16 (XzStruct.crc64Slice outb 0 outb.size)}"

def xzRun (api : String) (flags : Nat) (orig : Array UInt8) (inp : List UInt8) : String :=
  if api == "sd" then
    if flags ≥ XzDecode.SUPPORTED_FLAGS_MASK then xzAnswer orig .optionsError 0 [] []
    else
      let r := XzDecode.xzDecode XzEnv.fastEnv (XzDecode.Flags.ofNat flags) inp XZ_OUTCAP
      xzAnswer orig r.ret r.consumed r.events r.out
  else if api == "alone" then
    -- lzma_alone_decoder without a memory limit (Model/Alone.lean by b-c16, LZMA1 model as payload)
    let pay : Alone.Payload := fun o rest =>
      let r := Lzma.lzmaDecode { lc := o.lc, lp := o.lp, pb := o.pb } o.dictSize o.uncomp o.allowEopm rest [] XZ_OUTCAP
      { ret := r.ret, out := r.out, consumed := r.consumed }
    let r := Alone.aloneDecode pay { picky := false, memlimit := 18446744073709551615, memK := 0 } inp
    xzAnswer orig (if r.ret == .ok then .bufError else r.ret) r.consumed r.events r.out
  else if api == "sbd" then
    let r := XzDecode.xzBufferDecode XzEnv.fastEnv flags inp XZ_OUTCAP
    xzAnswer orig r.ret r.consumed r.events r.out
  else if api == "blk" then
    let hs := ((inp.getD 0 0).toNat + 1) * 4
    match Container.blockHeaderDecode flags inp with
    | .error e => xzAnswer orig e 0 [] []
    | .ok h =>
      let r := XzDecode.blockDecode XzEnv.fastEnv flags false hs h (inp.drop hs) XZ_OUTCAP
      xzAnswer orig (if r.ret == .ok then .bufError else r.ret) (hs + r.consumed) [] r.out
  else "bad-op"

def step (_ : Unit) (ws0 : List String) : Unit × String :=
  let ws := match ws0 with
    | "rawr" :: rest => "raw" :: rest
    | "rawmultir" :: rest => "rawmulti" :: rest
    | other => other
  match ws with
  | "raw" :: rest =>
    match parseCommon (rest.take 9), rest.drop 9 with
    | some (l, oc), [inp] =>
      match hexBytes inp with
      | some i => ((), fmt (rawRun l i oc))
      | none => ((), "bad-op")
    | _, _ => ((), "bad-op")
  | "rawbuf" :: rest =>
    match parseCommon (rest.take 9), rest.drop 9 with
    | some (l, oc), [inp] =>
      match hexBytes inp with
      | some i => ((), fmt (rawBufRun l i oc))
      | none => ((), "bad-op")
    | _, _ => ((), "bad-op")
  | "rawmulti" :: rest =>
    match parseCommon (rest.take 9), rest.drop 9 with
    | some (l, oc), [_, _, inp] =>
      match hexBytes inp with
      | some i =>
        let r := rawMultiRun l i oc
        ((), if r.1 == .dataError then "9" else fmt r)
      | none => ((), "bad-op")
    | _, _ => ((), "bad-op")
  | ["xz", api, flags, _, _, _, orig, file] =>
    match flags.toNat?, hexBytes orig, hexBytes file with
    | some fl, some o, some f => ((), xzRun api fl o.data f.toList)
    | _, _, _ => ((), "bad-op")
  | "dict" :: ds :: preset :: ops =>
    match ds.toNat?, hexBytes preset with
    | some ds, some pre => ((), (dictOps (Dict.init ds pre.toList) ops "ok").trimAscii.toString)
    | _, _ => ((), "bad-op")
  | _ => ((), "bad-op")

def main : IO UInt32 := do
  if !XzEnv.fastSelfTest then
    IO.eprintln "xzm_c03: fastCheck/deltaFast differ from the Check/Delta models (self test)"
    return 3
  runLoop step ()
  return 0
