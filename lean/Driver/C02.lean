/-
  Model driver for C02 (line protocol). Imports Model + Gen only.
  Functional ops: same lines as harness/c02_func.c, the answer must be identical to the harness's.
  Validation ops (relational part): `valxz <check> <data> <xz>`, `valblock <check> <data> <block>`, `valalone <lzma>`:
  the structural validator of Model/XzStruct.lean judges bytes produced by the real encoders.
  Container-encoder tie (`encxz`, `encblock`, `encalone`): the encoder models of Model/XzEncode.lean are run with a payload
  encoder that answers with the C encoder's own Compressed Data (cut out of the C output per Block by the structural
  parser) and must reproduce the C output byte for byte: Stream Header, every Block Header (late-written or not),
  Block Padding, Check, Index, Stream Footer, the fall-back decision.
    encxz st <check> <cout> <F> f1..fF <B> d1 p1 .. dB pB              streamEncodeST      (lzma_stream_encoder)
    encxz sc <avail> <check> <cout> <F> f1..fF <B> d1 p1 (B ≤ 1)       streamBufferEncode  (lzma_stream_buffer_encode, easy)
    encxz mt <blocksize> <check> <cout> <F> f1..fF <B> d1 p1 .. dB pB  streamEncodeMT      (lzma_stream_encoder_mt)
    encblock <tc> <avail> <check> <cout> <F> f1..fF d p               blockBufferEncode   (lzma_block_buffer_encode / _uncomp_)
    encalone <cout> <lc> <lp> <pb> <dict> p                            aloneEncode         (lzma_alone_encoder)
  `p` = "!" stands for "the raw encoder's output did not fit" (the C encoder fell back to uncompressed chunks).
  Answer: `ok <len> …` when the model's bytes equal <cout>, `diff <offset> <model-len> <c-len>`, or `ret <lzma_ret>`.
-/
import XzVerif.Model.Proto
import XzVerif.Model.Container
import XzVerif.Model.XzStruct
import XzVerif.Model.XzEncode
import XzVerif.Model.XzEnv
open XzVerif XzVerif.Proto XzVerif.Vli XzVerif.Container XzVerif.XzStruct

/-- Fast hex → ByteArray ("-" = empty). -/
def hexNib (c : UInt8) : Option UInt8 :=
  if 48 ≤ c ∧ c ≤ 57 then some (c - 48) else if 97 ≤ c ∧ c ≤ 102 then some (c - 87)
  else if 65 ≤ c ∧ c ≤ 70 then some (c - 55) else none

def hexToBA (s : String) : Option ByteArray :=
  if s == "-" then some ByteArray.empty
  else
    let u := s.toUTF8
    if u.size % 2 ≠ 0 then none
    else
      let rec go (fuel i : Nat) (acc : ByteArray) : Option ByteArray :=
        match fuel with
        | 0 => some acc
        | f + 1 =>
          match hexNib (u.get! i), hexNib (u.get! (i + 1)) with
          | some h, some l => go f (i + 2) (acc.push (h * 16 + l))
          | _, _ => none
      go (u.size / 2) 0 (ByteArray.emptyWithCapacity (u.size / 2))

def hx (s : String) : Option (List UInt8) := (hexToBA s).map (·.toList)

/-- A `uint64_t` argument that may be LZMA_VLI_UNKNOWN: "u" or the number 2^64−1 itself. -/
def vliArg (s : String) : Option (Option Nat) :=
  if s == "u" then some none else s.toNat?.map fun n => if n = VLI_UNKNOWN then none else some n

def showVli : Option Nat → String
  | none => "u"
  | some v => toString v

def retHex : Res (List UInt8) → String
  | .ok b => s!"0 {hexOfBytes b}"
  | .error e => s!"{e} -"

def parseFilter (tok : String) : Option FilterOpts :=
  match tok.splitOn ":" with
  | ["lzma1", id, lc, lp, pb, d] => do
      pure (.lzma1 (← id.toNat?) (← lc.toNat?) (← lp.toNat?) (← pb.toNat?) (← d.toNat?))
  | ["lzma2", d] => do pure (.lzma2 (← d.toNat?))
  | ["bcj", id, off] => do pure (.bcj (← id.toNat?) (← off.toNat?))
  | ["bcjn", id] => do pure (.bcj (← id.toNat?) 0)
  | ["delta", d] => do pure (.delta (← d.toNat?))
  | ["other", id] => do pure (.other (← id.toNat?))
  | _ => none

def showOpts : FilterOpts → String
  | .lzma1 id lc lp pb d => s!"lzma1:{id}:{lc}:{lp}:{pb}:{d}"
  | .lzma2 d => s!"lzma2:{d}"
  | .bcj id off => s!"bcj:{id}:{off}"
  | .delta d => s!"delta:{d}"
  | .other id => s!"other:{id}"

def showFilter (f : Filter) : String :=
  match propsDecode f.id f.props with
  | .ok o => showOpts o
  | .error _ => s!"other:{f.id}"

def parseRecord (tok : String) : Option IndexRecord :=
  match tok.splitOn ":" with
  | [u, c] => do pure ⟨← u.toNat?, ← c.toNat?⟩
  | _ => none

def showVal : Except String String → String
  | .ok s => s
  | .error e => "bad " ++ e

/-! ### container-encoder tie -/

/-- first position where the two byte strings differ (`none` = equal) -/
def firstDiff (a b : ByteArray) : Option Nat := Id.run do
  let n := min a.size b.size
  for i in [0:n] do
    if a.get! i != b.get! i then return some i
  if a.size = b.size then return none else return some n

def cmpOut (model : List UInt8) (cout : ByteArray) (extra : String := "") : String :=
  let m := ByteArray.mk model.toArray
  match firstDiff m cout with
  | none => s!"ok {m.size}{extra}"
  | some i => s!"diff {i} {m.size} {cout.size}"

/-- (data, payload) pairs: "!" as payload = longer than any limit the encoders use (so they fall back). -/
def parsePairs : List String → Option (List (List UInt8 × Option (List UInt8)))
  | [] => some []
  | d :: p :: rest => do
    let d ← hx d
    let p ← if p == "!" then pure none else (hx p).map some
    let r ← parsePairs rest
    pure ((d, p) :: r)
  | _ => none

/-- The encoder environment of the tie: the payload encoder answers with the C encoder's bytes for that Block's data. -/
def tieEnv (pairs : List (List UInt8 × Option (List UInt8))) (tooLong : Nat) : XzEncode.EncEnv :=
  { encPayload := fun _ x =>
      match pairs.find? (fun q => q.1 == x) with
      | some (_, some p) => p
      | some (_, none) => List.replicate tooLong 0
      | none => []
    rawInit := fun _ => .ok
    check := XzEnv.fastCheck }

def splitFilters (ws : List String) : Option (List FilterOpts × List String) :=
  match ws with
  | nf :: rest => do
    let n ← nf.toNat?
    if rest.length < n then none
    else
      let fs ← (rest.take n).mapM parseFilter
      pure (fs, rest.drop n)
  | [] => none

def encXz (mode : String) (arg : Nat) (check : Nat) (cout : ByteArray) (ws : List String) : String :=
  match splitFilters ws with
  | none => "bad-op"
  | some (fs, rest) =>
    match rest with
    | nb :: prs =>
      match nb.toNat?, parsePairs prs with
      | some nb, some pairs =>
        if pairs.length ≠ nb then "bad-op"
        else
          let blocks := pairs.map (·.1)
          let big := (blocks.map (·.length)).foldl max arg
          let E := tieEnv pairs (blockBufferBound64 big + 1)
          let cfg : XzEncode.Cfg := { check := check, filters := fs }
          let r : Res (List UInt8) :=
            if mode == "st" then XzEncode.streamEncodeST E cfg blocks
            else if mode == "mt" then XzEncode.streamEncodeMT E cfg arg blocks
            else XzEncode.streamBufferEncode E cfg blocks.flatten arg
          match r with
          | .ok out => cmpOut out cout
          | .error e => s!"ret {e}"
      | _, _ => "bad-op"
    | [] => "bad-op"

def encBlock (tc : Bool) (avail check : Nat) (cout : ByteArray) (ws : List String) : String :=
  match splitFilters ws with
  | some (fs, [d, p]) =>
    match parsePairs [d, p] with
    | some [(data, pay)] =>
      let E := tieEnv [(data, pay)] (blockBufferBound64 data.length + 1)
      match XzEncode.blockBufferEncode E tc check fs data avail with
      | .ok b => cmpOut b.bytes cout s!" {b.unpadded} {b.uncompressed}"
      | .error e => s!"ret {e}"
    | _ => "bad-op"
  | _ => "bad-op"

def step (_ : Unit) (ws : List String) : Unit × String :=
  let bad := ((), "bad-op")
  match ws with
  | ["vlisize", v] => match v.toNat? with
    | some v => ((), toString (vliSize v))
    | none => bad
  | ["vlienc", v, avail] => match v.toNat?, avail.toNat? with
    | some v, some a => ((), retHex (vliEncodeSingle v a))
    | _, _ => bad
  | ["vliencm", v, pos, avail] => match v.toNat?, pos.toNat?, avail.toNat? with
    | some v, some p, some a =>
      let (r, p', bs) := vliEncodeMulti v p a
      ((), s!"{r} {p'} {hexOfBytes bs}")
    | _, _, _ => bad
  | ["vlidec", h] => match hx h with
    | some b => match vliDecode b with
      | some (v, rest) => ((), s!"0 {v} {b.length - rest.length}")
      | none => ((), "9")
    | none => bad
  | ["vlidecm", vli, pos, h] => match vli.toNat?, pos.toNat?, hx h with
    | some v, some p, some b =>
      let (r, v', p', used) := vliDecodeMulti v p b
      ((), s!"{r} {v'} {p'} {used}")
    | _, _, _ => bad
  | ["chksize", c] => match c.toNat? with
    | some c => ((), toString (checkSize c))
    | none => bad
  | ["shenc", ver, chk] => match ver.toNat?, chk.toNat? with
    | some v, some c => ((), retHex (streamHeaderEncode { version := v, check := c }))
    | _, _ => bad
  | ["sfenc", ver, chk, bs] => match ver.toNat?, chk.toNat?, vliArg bs with
    | some v, some c, some bs => ((), retHex (streamFooterEncode { version := v, check := c } (bs.getD VLI_UNKNOWN)))
    | _, _, _ => bad
  | ["shdec", h] => match hx h with
    | some b => match streamHeaderDecode b with
      | .ok f => ((), s!"0 {f.check} {if f.version = 0 then 1 else 0}")
      | .error e => ((), toString e)
    | none => bad
  | ["sfdec", h] => match hx h with
    | some b => match streamFooterDecode b with
      | .ok (f, bs) => ((), s!"0 {f.check} {bs}")
      | .error e => ((), toString e)
    | none => bad
  | ["sfcmp", av, ac, abs, bv, bc, bbs] =>
    match av.toNat?, ac.toNat?, vliArg abs, bv.toNat?, bc.toNat?, vliArg bbs with
    | some av, some ac, some abs, some bv, some bc, some bbs =>
      ((), toString (streamFlagsCompare { version := av, check := ac } abs { version := bv, check := bc } bbs))
    | _, _, _, _, _, _ => bad
  | ["propsize", f] => match parseFilter f with
    | some o => match propsSize o with
      | .ok s => ((), s!"0 {s}")
      | .error e => ((), toString e)
    | none => bad
  | ["propenc", f] => match parseFilter f with
    | some o => ((), retHex (propsEncode o))
    | none => bad
  | ["propdec", id, h] => match id.toNat?, hx h with
    | some id, some b => match propsDecode id b with
      | .ok o => ((), s!"0 {showOpts o}")
      | .error e => ((), toString e)
    | _, _ => bad
  | ["ffsize", f] => match parseFilter f with
    | some o => match filterFlagsSize o with
      | .ok s => ((), s!"0 {s}")
      | .error e => ((), toString e)
    | none => bad
  | ["ffenc", f, avail] => match parseFilter f, avail.toNat? with
    | some o, some a => ((), retHex (filterFlagsEncodeOpts o a))
    | _, _ => bad
  | ["ffdec", h] => match hx h with
    | some b => match filterFlagsDecode b with
      | .ok (f, rest) => ((), s!"0 {showFilter f} {b.length - rest.length}")
      | .error e => ((), toString e)
    | none => bad
  | "chain" :: ids => match ids.mapM (·.toNat?) with
    | some ids => match validateChain ids with
      | .ok n => ((), s!"0 {n}")
      | .error e => ((), toString e)
    | none => bad
  | "bhsize" :: ver :: cs :: us :: fs => match ver.toNat?, vliArg cs, vliArg us, fs.mapM parseFilter with
    | some v, some cs, some us, some fs => match blockHeaderSize v cs us fs with
      | .ok s => ((), s!"0 {s}")
      | .error e => ((), toString e)
    | _, _, _, _ => bad
  | "bhenc" :: ver :: hs :: chk :: cs :: us :: fs =>
    match ver.toNat?, hs.toNat?, chk.toNat?, vliArg cs, vliArg us, fs.mapM parseFilter with
    | some v, some hs, some c, some cs, some us, some fs => ((), retHex (blockHeaderEncodeWith v hs c cs us fs))
    | _, _, _, _, _, _ => bad
  | "bhenc2" :: chk :: cs :: us :: fs => match chk.toNat?, vliArg cs, vliArg us, fs.mapM parseFilter with
    | some c, some cs, some us, some fs => ((), retHex (blockHeaderEncode c cs us fs))
    | _, _, _, _ => bad
  | ["bhdec", hs, chk, h] => match hs.toNat?, chk.toNat?, hx h with
    | some hs, some c, some b => match blockHeaderDecodeWith hs c b with
      | .ok bh => ((), s!"0 {showVli bh.compressedSize} {showVli bh.uncompressedSize} " ++ " ".intercalate (bh.filters.map showFilter))
      | .error e => ((), toString e)
    | _, _, _ => bad
  | ["unpadded", ver, hs, chk, cs] => match ver.toNat?, hs.toNat?, chk.toNat?, vliArg cs with
    | some v, some hs, some c, some cs => ((), s!"{blockUnpaddedSize v hs c cs} {blockTotalSize v hs c cs}")
    | _, _, _, _ => bad
  | ["compsize", ver, hs, chk, cs, up] => match ver.toNat?, hs.toNat?, chk.toNat?, vliArg cs, up.toNat? with
    | some v, some hs, some c, some cs, some up => match blockCompressedSize v hs c cs up with
      | .ok n => ((), s!"0 {n}")
      | .error e => ((), toString e)
    | _, _, _, _, _ => bad
  | "idxenc" :: avail :: recs => match avail.toNat?, recs.mapM parseRecord with
    | some a, some rs =>
      -- first failing lzma_index_append, if any
      let rec app (rs : List IndexRecord) (i : Nat) (acc : IndexAcc) : Option (Nat × Ret) :=
        match rs with
        | [] => none
        | r :: rest => match indexAppend acc r.unpadded r.uncompressed with
          | .error e => some (i, e)
          | .ok acc' => app rest (i + 1) acc'
      match app rs 0 {} with
      | some (i, e) => ((), s!"append {i} {e}")
      | none =>
        let isz := indexSize rs.length (indexListSize rs)
        match indexBufferEncode rs a with
        | .ok b => ((), s!"0 {isz} {hexOfBytes b}")
        | .error e => ((), s!"{e} {isz} -")
    | _, _ => bad
  | ["idxgen", n, seed, avail] => match n.toNat?, seed.toNat?, avail.toNat? with
    | some n, some seed, some a =>
      let rec gen (k : Nat) (x : Nat) (acc : List IndexRecord) : List IndexRecord :=
        match k with
        | 0 => acc.reverse
        | k + 1 =>
          let x := (x * 6364136223846793005 + 1442695040888963407) % 18446744073709551616
          gen k x (⟨5 + (x >>> 33) % 100000, (x >>> 11) % 1073741824⟩ :: acc)
      let rs := gen n seed []
      match indexAppendAll rs {} with
      | .error e => ((), s!"append ? {e}")
      | .ok _ =>
        let isz := indexSize rs.length (indexListSize rs)
        match indexBufferEncode rs a with
        | .ok b => ((), s!"0 {isz} {hexOfBytes b}")
        | .error e => ((), s!"{e} {isz} -")
    | _, _, _ => bad
  | ["idxdec", h] => match hx h with
    | some b => match indexDecode b with
      | .ok (rs, rest) =>
        ((), s!"0 {b.length - rest.length}" ++ String.join (rs.map fun r => s!" {r.unpadded}:{r.uncompressed}"))
      | .error e => ((), toString e)
    | none => bad
  | ["idxarith", cnt, ls, bs] => match cnt.toNat?, ls.toNat?, bs.toNat? with
    | some c, some l, some b => ((), s!"{indexSizeUnpadded c l} {indexSize c l} {indexStreamSize b c l}")
    | _, _, _ => bad
  | ["buenc", chk, avail, h] => match chk.toNat?, avail.toNat?, hx h with
    | some c, some a, some d => ((), retHex (blockUncompEncode c d a))
    | _, _, _ => bad
  | ["bound", n] => match n.toNat? with
    | some n => ((), s!"{lzma2Bound n} {blockBufferBound64 n} {blockBufferBound n} {streamBufferBound n}")
    | none => bad
  | ["valxz", chk, d, o] => match chk.toNat?, hexToBA d, hexToBA o with
    | some c, some d, some o => ((), showVal (validateXz o c d))
    | _, _, _ => bad
  | ["valxzp", chk, d, o] => match chk.toNat?, hexToBA d, hexToBA o with
    | some c, some d, some o => match validateXz o c d with
      | .ok s => ((), s ++ " props=" ++ streamChunkProps o c)
      | .error e => ((), "bad " ++ e)
    | _, _, _ => bad
  | ["valblock", chk, d, o] => match chk.toNat?, hexToBA d, hexToBA o with
    | some c, some d, some o => ((), showVal (validateLoneBlock o c d))
    | _, _, _ => bad
  | ["valalone", o] => match hexToBA o with
    | some o => ((), showVal (validateAlone o))
    | none => bad
  | "encxz" :: mode :: rest =>
    if mode == "st" then
      match rest with
      | chk :: co :: more => match chk.toNat?, hexToBA co with
        | some c, some co => ((), encXz "st" 0 c co more)
        | _, _ => bad
      | _ => bad
    else
      match rest with
      | a :: chk :: co :: more => match a.toNat?, chk.toNat?, hexToBA co with
        | some a, some c, some co => ((), if mode == "sc" ∨ mode == "mt" then encXz mode a c co more else "bad-op")
        | _, _, _ => bad
      | _ => bad
  | "encblock" :: tc :: a :: chk :: co :: more => match tc.toNat?, a.toNat?, chk.toNat?, hexToBA co with
    | some tc, some a, some c, some co => ((), encBlock (tc != 0) a c co more)
    | _, _, _, _ => bad
  | ["encalone", co, lc, lp, pb, d, p] => match hexToBA co, lc.toNat?, lp.toNat?, pb.toNat?, d.toNat?, hx p with
    | some co, some lc, some lp, some pb, some d, some p =>
      let E : XzEncode.EncEnv := { encPayload := fun _ _ => p, rawInit := fun _ => .ok, check := XzEnv.fastCheck }
      match XzEncode.aloneEncode E lc lp pb d [] with
      | .ok out => ((), cmpOut out co)
      | .error e => ((), s!"ret {e}")
    | _, _, _, _, _, _ => bad
  | ["selftest"] => ((), if crcSelfTest && XzEnv.fastSelfTest then "ok" else "bad crc-self-test")
  | _ => bad

def main : IO Unit := runLoop step ()
