/-
  Model driver for C16 (line protocol, see harness/c16_main.c and tools/props/c16.py). Imports Model + Gen only.

    dec <kind> <flags> <memlimit> <fin> <hex> <mode> <table entries…>
        kind  alone | lzip | auto | xz
        mode  T = the LZMA1 payload decoder is the table of verdicts of the REAL raw decoder given on the line
                  (P:<offset>:<lc>:<lp>:<pb>:<dict>:<usize|u>:<allow_eopm>:<ret>:<consumed>:<outhex>)
              M = the LZMA1 payload decoder is Model/Lzma.lean (`lzmaDecode`)
        one .xz Stream from the front of the input at <offset> is always a table entry
                  (X:<offset>:<ret>:<consumed>:<events|->:<outhex>), verdicts of lzma_stream_decoder without CONCATENATED
    -> "<ret> <total_in> <events> <memusage if MEMLIMIT_ERROR else 0> <outhex>", `Ret.ok` printed as 10 (LZMA_BUF_ERROR:
       what lzma_code reports when the decoder wants more input). A table miss prints ret 12.
-/
import XzVerif.Model.Proto
import XzVerif.Model.Alone
import XzVerif.Model.Lzip
import XzVerif.Model.XzConcat
import XzVerif.Model.Auto
import XzVerif.Model.Lzma
import XzVerif.Gen.C16
open XzVerif XzVerif.Proto XzVerif.Alone

structure PEntry where
  off : Nat
  opts : LzmaOpts
  res : PRes

structure XEntry where
  off : Nat
  res : DRes

def parseRet (s : String) : Option Ret := do
  let n ← s.toNat?
  -- the harness reports "wants more input" as LZMA_BUF_ERROR (10); the models call it `ok`
  if n = 10 then some .ok else Ret.ofNat? n

def parseEvents (s : String) : Option (List Ret) :=
  if s == "-" then some [] else (s.splitOn ",").mapM fun t => t.toNat? >>= Ret.ofNat?

def parseEntry (tok : String) : Option (PEntry ⊕ XEntry) :=
  match tok.splitOn ":" with
  | ["P", off, lc, lp, pb, dict, us, eopm, ret, cons, hx] => do
    let off ← off.toNat?
    let lc ← lc.toNat?
    let lp ← lp.toNat?
    let pb ← pb.toNat?
    let dict ← dict.toNat?
    let us ← (if us == "u" then some none else us.toNat?.map some)
    let eopm ← eopm.toNat?
    let ret ← parseRet ret
    let cons ← cons.toNat?
    let out ← bytesOfHex hx
    pure (.inl { off := off, opts := { lc := lc, lp := lp, pb := pb, dictSize := dict, uncomp := us, allowEopm := eopm != 0 },
                 res := { ret := ret, out := out, consumed := cons } })
  | ["X", off, ret, cons, ev, hx] => do
    let off ← off.toNat?
    let ret ← parseRet ret
    let cons ← cons.toNat?
    let ev ← parseEvents ev
    let out ← bytesOfHex hx
    pure (.inr { off := off, res := { ret := ret, out := out, consumed := cons, events := ev } })
  | _ => none

def missP : PRes := { ret := .seekNeeded, out := [], consumed := 0 }
def missX : DRes := { ret := .seekNeeded, out := [], consumed := 0 }

def tablePayload (total : Nat) (tab : List PEntry) : Payload := fun o rest =>
  match tab.find? (fun e => e.off == total - rest.length && e.opts == o) with
  | some e => e.res
  | none => missP

def modelPayload : Payload := fun o rest =>
  let r := Lzma.lzmaDecode { lc := o.lc, lp := o.lp, pb := o.pb } o.dictSize o.uncomp o.allowEopm rest
  { ret := r.ret, out := r.out, consumed := r.consumed }

def tableOne (total : Nat) (tab : List XEntry) : XzConcat.One := fun rest =>
  match tab.find? (fun e => e.off == total - rest.length) with
  | some e => e.res
  | none => missX

def showEvents (ev : List Ret) : String :=
  if ev.isEmpty then "-" else ",".intercalate (ev.map fun r => toString r.toNat)

def showRes (r : DRes) : String :=
  let ret := if r.ret == .ok then 10 else r.ret.toNat
  s!"{ret} {r.consumed} {showEvents r.events} {r.mem} {hexOfBytes r.out}"

def step (_ : Unit) (ws : List String) : Unit × String :=
  match ws with
  | "dec" :: kind :: flags :: memlimit :: fin :: hx :: mode :: tabs =>
    match flags.toNat?, memlimit.toNat?, fin.toNat?, bytesOfHex hx, tabs.mapM parseEntry with
    | some fl, some ml, some fin, some inp, some entries =>
      let ptab := entries.filterMap fun e => match e with | .inl p => some p | .inr _ => none
      let xtab := entries.filterMap fun e => match e with | .inr x => some x | .inl _ => none
      let total := inp.length
      let P : Payload := if mode == "M" then modelPayload else tablePayload total ptab
      let X1 := tableOne total xtab
      let f := Auto.Flags.ofNat fl
      let memK := Gen.C16.memK
      let fin := fin != 0
      let xz : Auto.Xz := XzConcat.xzDecode X1 { concatenated := f.concatenated, finish := fin }
      let acfg : Auto.Cfg := { flags := f, finish := fin, memlimit := ml, memK := memK }
      if kind == "alone" then ((), showRes (aloneDecode P { picky := false, memlimit := ml, memK := memK } inp))
      else if kind == "lzip" then ((), showRes (Lzip.lzipDecode P (Auto.lzipCfg acfg) inp))
      else if kind == "auto" then ((), showRes (Auto.autoDecode P xz acfg inp))
      else if kind == "xz" then ((), showRes (xz inp))
      else ((), "bad-op")
    | _, _, _, _, _ => ((), "bad-op")
  | _ => ((), "bad-op")

def main : IO Unit := runLoop step ()
