/-
  Model driver for C20 (line protocol; bytes as hex, "-" = empty). Imports Model + Gen only.
    words T                -> "ok W1 W2 …" (word = segments joined by '+': L:<hex> literal, V:<hex> variable, A = ${1+"$@"}) | "err <kind>"
    sed PROG INPUT         -> "ok <hex>" | "none"                      (mini-sed on arbitrary program text)
    esc S                  -> "ok <hex>"                               ($(printf '%sX\n' "$S" | sed "$escape") with the Gen literals)
    site K S               -> "ok <hex>"                               (new value of the K-th xzgrep quoting site's variable; 4 = xzdiff)
    split REST             -> "ok <hex>"                               (arg2 of the option-splitting site for the remainder REST)
    label NAME INPUT       -> "ok <script hex> <output hex>" | "none"  (sed_script for NAME, and sed "$sed_script" on INPUT)
    glob PATS S            -> "ok 0|1" | "none"
    dispatch grep|diff1|diff2|one NAME -> "ok <hex of command word>" | "ok -" (no arm) | "none"
    gstatus R XZ|E RES     -> "exit N" | "cont RES"
    sstatus R P            -> "exit N"
    dstatus CMP N,N,…|-    -> "exit N"
-/
import XzVerif.Model.Proto
import XzVerif.Model.Shell
import XzVerif.Gen.C20
open XzVerif XzVerif.Proto XzVerif.Shell XzVerif.Gen.C20

def segStr : Seg → String
  | .lit b => "L:" ++ hexOfBytes b
  | .var n => "V:" ++ hexOfBytes n
  | .args => "A"

def wordStr (w : Word) : String := "+".intercalate (w.map segStr)

def errStr : RErr → String
  | .nul => "nul"
  | .operator c => s!"operator:{c}"
  | .expansion c => s!"expansion:{c}"
  | .badDollar => "baddollar"
  | .unterminated => "unterminated"

def okHex (o : Option Bytes) : String :=
  match o with
  | some b => "ok " ++ hexOfBytes b
  | none => "none"

def envOf (pairs : List (Bytes × Bytes)) : VarEnv := fun n =>
  match pairs.find? (·.1 == n) with
  | some p => p.2
  | none => []

def labelSrc : LabelSrc := ⟨labelSuffixSrc, labelGuardPats, labelPrintfFmt, labelSedSrc, labelScriptSrc⟩

def flowStr : Flow → String
  | .exit n => s!"exit {n}"
  | .go e => s!"cont {e.res}"
  | .next e => s!"cont {e.res}"

def step (_ : Unit) (ws : List String) : Unit × String :=
  match ws with
  | ["words", t] =>
    match bytesOfHex t with
    | some bs =>
      match shWords bs with
      | .ok wl => ((), "ok" ++ String.join (wl.map fun w => " " ++ wordStr w))
      | .error e => ((), "err " ++ errStr e)
    | none => ((), "bad-op")
  | ["sed", p, i] =>
    match bytesOfHex p, bytesOfHex i with
    | some pb, some ib => ((), okHex (sedRun pb ib))
    | _, _ => ((), "bad-op")
  | ["esc", s] =>
    match bytesOfHex s with
    | some sb => ((), okHex (printfSedSubst grepEscapeSrc siteOperands.fmt sb))
    | none => ((), "bad-op")
  | ["site", k, s] =>
    match k.toNat?, bytesOfHex s with
    | some kk, some sb =>
      let site := (grepSites ++ [diffSite]).getD kk siteOperands
      let esc := if kk = 4 then diffEscapeSrc else grepEscapeSrc
      ((), okHex (site.value esc (envOf [(site.var, sb)])))
    | _, _ => ((), "bad-op")
  | ["split", s] =>
    match bytesOfHex s with
    | some sb =>
      let r := do
        let pre ← litWord splitPrefixSrc
        let prog ← litWord grepEscapeSrc
        let out ← sedRun prog (sb ++ splitGuardSuffix ++ [NL])
        pure (pre ++ cmdSubst out)
      ((), okHex r)
    | none => ((), "bad-op")
  | ["label", n, i] =>
    match bytesOfHex n, bytesOfHex i with
    | some nb, some ib =>
      match labelSrc.sedScript nb with
      | some sc =>
        match sedRun sc ib with
        | some out => ((), "ok " ++ hexOfBytes sc ++ " " ++ hexOfBytes out)
        | none => ((), "none")
      | none => ((), "none")
    | _, _ => ((), "bad-op")
  | ["glob", p, s] =>
    match bytesOfHex p, bytesOfHex s with
    | some pb, some sb =>
      match caseMatch pb sb with
      | some b => ((), if b then "ok 1" else "ok 0")
      | none => ((), "none")
    | _, _ => ((), "bad-op")
  | ["dispatch", which, n] =>
    match bytesOfHex n with
    | some nb =>
      let r : Option (Option Bytes) :=
        if which == "grep" then dispatch grepDispatch nb
        else if which == "diff1" then dispatch diffDispatch1 nb
        else if which == "diff2" then dispatch diffDispatch2 nb
        else (dispatch diffDispatchOne nb).map fun o => o.map fun c => c.getD [120, 122]   -- "xz" stands for "keep $xz"
      match r with
      | some (some c) => ((), "ok " ++ hexOfBytes c)
      | some none => ((), "ok -")
      | none => ((), "none")
    | none => ((), "bad-op")
  | ["gstatus", r, xz, res] =>
    match r.toNat?, res.toNat? with
    | some rr, some rs =>
      let e : Env := if xz == "E" then { r := rr, res := rs, xzEmpty := true } else { r := rr, xz := xz.toNat?.getD 0, res := rs }
      ((), flowStr (runStmts grepFileStatus e))
    | _, _ => ((), "bad-op")
  | ["sstatus", r, p] =>
    match r.toNat?, p.toNat? with
    | some rr, some pp => ((), flowStr (runStmts grepSedStatusStmts { r := rr, pipe := pp }))
    | _, _ => ((), "bad-op")
  | ["dstatus", c, ns] =>
    match c.toNat? with
    | some cc =>
      let nums := if ns == "-" then [] else (ns.splitOn ",").filterMap String.toNat?
      let f := match diffLoop diffStatusBody { cmp := cc } nums with
        | .exit k => Flow.exit k
        | .go e => runStmts diffStatusFinal e
        | .next e => runStmts diffStatusFinal e
      ((), flowStr f)
    | none => ((), "bad-op")
  | _ => ((), "bad-op")

def main : IO Unit := runLoop step ()
