/-
  Model driver for C08 (line protocol). Imports Model only.
    trace <ev.t.a.b.c,ev.t.a.b.c,...>   ->  "accept <events> <model steps>"  |  "reject at <index> ev=<code> : <reason>"
  The trace is the list of protocol events recorded by harness/c08_main.c (harness-level events 100..107) and by hook H3 in
  stream_encoder_mt.c (110..160) while the threads were serialised by the controlled scheduler. The driver replays it through
  `MtEnc.step`: every event must correspond to an enabled transition of the model, and every observable carried by the events
  (return codes, consumed/produced counts of each lzma_code call, lzma_filters_update results, lzma_get_progress values,
  worker positions, published sizes) must equal what the model computes. Bytes are replayed by length only (all zeros);
  the encoded size of each Block is taken from the worker's own publish event.
-/
import XzVerif.Model.Proto
import XzVerif.Model.MtEnc
import XzVerif.Gen.C08
open XzVerif XzVerif.Proto XzVerif.MtEnc

structure Rec where
  ev : Nat
  t : Nat
  a : Nat
  b : Nat
  c : Nat
  deriving Inhabited

def parseRec (w : String) : Option Rec :=
  match (w.splitOn ".").map String.toNat? with
  | [some e, some t, some a, some b, some c] => some ⟨e, t, a, b, c⟩
  | _ => none

def zeros (n : Nat) : Bytes := List.replicate n 0

def vliSize (n : Nat) : Nat := if n < 128 then 1 else 1 + vliSize (n / 128)
decreasing_by omega

def indexSize (recs : List (Nat × Nat)) : Nat :=
  let u := 1 + vliSize recs.length + (recs.map fun r => vliSize r.1 + vliSize r.2).sum
  (u + 3) / 4 * 4 + 4

/-- Per-stream tables collected by a first pass over the trace. -/
structure Tab where
  size : Array Nat := #[]       -- encoded size of Block `ord` (0 if never published)
  unp : Array Nat := #[]        -- Unpadded Size of Block `ord`
  alloc : Nat := 0
  deriving Inhabited

def mkParams (t : Tab) : Params where
  hdr := zeros 12
  enc := fun o _ _ => zeros (t.size.getD o 0)
  unpadded := fun o _ _ => t.unp.getD o 0
  tailBytes := fun idx => zeros (indexSize idx + 12)
  alloc := t.alloc
  chunk := XzVerif.Gen.C08.inChunkMax

/-- First pass: split the trace into streams and collect, per stream, the published size of every Block. -/
def prescan (evs : Array Rec) : Array Tab := Id.run do
  let mut tabs : Array Tab := #[]
  let mut cur : Tab := {}
  let mut started := false
  let mut nblk := 0
  let mut tidOrd : List (Nat × Nat) := []
  for r in evs do
    if r.ev == 102 then
      -- the workers of the previous Stream may still publish until threads_end() has joined them (event 104)
      pure ()
    else if r.ev == 104 then
      if started then tabs := tabs.push cur
      cur := { alloc := r.b }; started := true; nblk := 0; tidOrd := []
    else if r.ev == 112 then
      -- a Block is started iff a thread was popped or a new one can be created
      if r.a == 1 || r.b < r.c then
        let tid := if r.a == 1 then r.t else r.b
        tidOrd := (tid, nblk) :: tidOrd.filter (·.1 != tid)
        cur := { cur with size := cur.size.push 0, unp := cur.unp.push 0 }
        nblk := nblk + 1
    else if r.ev == 160 then
      match tidOrd.find? (·.1 == r.t) with
      | some (_, o) =>
        if r.c == 2 then cur := { cur with size := cur.size.set! o r.a, unp := cur.unp.set! o r.b }
        tidOrd := tidOrd.filter (·.1 != r.t)
      | none => pure ()
  if started then tabs := tabs.push cur
  return tabs

structure DS where
  s : St := {}
  P : Params := mkParams {}
  started : Bool := false
  stream : Nat := 0
  tidOrd : List (Nat × Nat) := []      -- busy workers: thread index -> ordinal of their Block
  pendingAssign : Option Nat := none
  callIn : Nat := 0
  callOut : Nat := 0
  steps : Nat := 0

def actOf : Nat → Option Action
  | 0 => some .run | 2 => some .fullFlush | 3 => some .finish | 4 => some .fullBarrier | _ => none

def stateOf : Nat → Option WState
  | 0 => some .idle | 1 => some .run | 2 => some .finish | 3 => some .stop | 4 => some .exit | _ => none

abbrev M := Except String

def app (d : DS) (e : Ev) (what : String) : M DS :=
  match step d.P d.s e with
  | some s' => pure { d with s := s', steps := d.steps + 1 }
  | none => throw s!"model transition not enabled: {what} (main pc {repr d.s.mpc}, queue {d.s.outq.length}, idle {d.s.idle}, ninit {d.s.ninit})"

def idxOf (d : DS) (tid : Nat) : Option Nat :=
  match d.tidOrd.find? (·.1 == tid) with
  | some (_, o) => d.s.outq.findIdx? (·.ord == o)
  | none => none

def workerAt (d : DS) (i : Nat) : Option (Entry × WCtx) :=
  match d.s.outq[i]? with
  | some e => e.wk.map fun w => (e, w)
  | none => none

/-- If the model's worker is still asleep without a signal, the real wake-up was spurious. -/
def ensureAwake (d : DS) (i : Nat) : M DS :=
  match workerAt d i with
  | some (_, w) => if w.asleep && !w.woken then app d (.wSpurious i) "spurious wake-up of a worker" else pure d
  | none => throw "no worker attached to this queue entry in the model"

def ensureMainAwake (d : DS) : M DS :=
  if d.s.mpc == .waiting && !d.s.mWoken then app d .mSpurious "spurious wake-up of the main thread" else pure d

def expect (c : Bool) (msg : String) : M Unit := if c then pure () else throw msg

/-- Next event with code `code` for thread `tid`, searching from `from`, stopping at `stop` codes of the same thread. -/
def lookahead (evs : Array Rec) (start : Nat) (tid : Nat) (code : Nat) (stops : List Nat) : Option Rec := Id.run do
  let mut i := start
  while i < evs.size do
    let r := evs[i]!
    if r.t == tid then
      if r.ev == code then return some r
      if stops.contains r.ev then return none
    i := i + 1
  return none

def healthy (s : St) : Bool := s.err.isNone && s.mpc != .failed && s.mpc != .ending && s.mpc != .dead

def feed (tabs : Array Tab) (evs : Array Rec) (k : Nat) (d : DS) (r : Rec) : M DS := do
  match r.ev with
  | 102 =>
    let cfg : Cfg := { bs := r.b, tmax := r.a, timeout := r.c, chain := r.t }
    if !d.started then
      let P := mkParams (tabs.getD 0 {})
      pure { d with s := initSt cfg P, P := P, started := true, stream := 0 }
    else
      app d (.reinit cfg) "lzma_stream_encoder_mt on the used handle"
  | 104 =>
    expect (r.a == 0) s!"init returned {r.a}"
    if d.stream == 0 && d.s.mpc != .ending then pure d
    else
      -- the new Stream uses the tables of the next stream
      let P := mkParams (tabs.getD (d.stream + 1) {})
      let d1 := { d with P := P }
      let d2 ← app d1 .mJoin "threads_end: all joined (re-init)"
      pure { d2 with stream := d.stream + 1, tidOrd := [], pendingAssign := none }
  | 103 => app d .lzmaEnd "lzma_end"
  | 105 => app d .mJoin "threads_end: all joined (lzma_end)"
  | 100 =>
    match actOf r.c with
    | none => throw "bad action"
    | some act =>
      let d1 ← app d (.call (zeros r.a) r.b act) "lzma_code"
      let d2 := { d1 with callIn := r.a, callOut := r.b }
      if d2.s.mpc == .hdrOut then app d2 .mHdr "stream header" else pure d2
  | 101 =>
    let d1 ← if d.s.mpc == .tailOut then app d .mTail "index/footer" else pure d
    expect (d1.s.mpc == .out || d1.s.mpc == .failed) s!"lzma_code returned but the model is at {repr d1.s.mpc}"
    let mret := match d1.s.lastRet with | some (_, x) => (if x == TIMED_OUT then OK else x) | none => 999
    let consumed := d1.callIn - d1.s.inp.length
    let produced := d1.callOut - d1.s.cap
    -- LZMA_BUF_ERROR (10) is the wrapper's rendering of a second LZMA_OK without progress
    let rret := if r.a == 10 && consumed == 0 && produced == 0 then 0 else r.a
    expect (mret == rret) s!"return code {r.a}, model {mret}"
    expect (consumed == r.b) s!"consumed {r.b}, model {consumed}"
    expect (produced == r.c) s!"produced {r.c}, model {produced}"
    pure d1
  | 107 => pure d
  | 119 =>
    if healthy d.s then
      expect (d.s.progIn == r.a && d.s.progOut == r.b) s!"coder->progress = ({r.a},{r.b}), model ({d.s.progIn},{d.s.progOut})"
    pure d
  | 120 =>
    if healthy d.s then
      match idxOf d r.t with
      | some i =>
        match workerAt d i with
        | some (_, w) => expect (w.progIn == r.a && w.progOut == r.b) s!"thread {r.t} progress = ({r.a},{r.b}), model ({w.progIn},{w.progOut})"
        | none => throw "no worker"
      | none => expect (r.a == 0 && r.b == 0) s!"idle thread {r.t} reports progress ({r.a},{r.b})"
    pure d
  | 106 =>
    let d1 ← app d (.update r.a) "lzma_filters_update"
    expect (d1.s.lastUpd == some r.b) s!"lzma_filters_update returned {r.b}, model {repr d1.s.lastUpd}"
    pure d1
  | 110 =>
    let before := d.s.done.length
    let d1 ← app d .mRead "read the queue"
    expect ((r.a == 1) == (d1.s.done.length == before + 1)) s!"lzma_outq_read returned {r.a} but the model delivered {d1.s.done.length - before} Block(s)"
    pure d1
  | 112 =>
    expect (d.s.mpc == .encIn && !d.s.thr) "get_thread while the model is not looking for a thread"
    expect ((r.a == 1) == (d.s.idle > 0)) s!"threads_free {if r.a == 1 then "non-empty" else "empty"} but the model has {d.s.idle} idle workers"
    let ord := d.s.nblk
    let d1 ← app d .mEncIn "get_thread"
    if d1.s.thr then
      let tid := if r.a == 1 then r.t else r.b
      pure { d1 with tidOrd := (tid, ord) :: d1.tidOrd.filter (·.1 != tid), pendingAssign := some tid }
    else
      expect (r.a == 0 && r.b == r.c) "the model found no thread but the implementation did"
      pure d1
  | 113 =>
    let d1 ← app d .mEncIn "get_thread: no free output buffer"
    expect (d1.s.mpc == .afterIn) "model expected a free output buffer"
    pure d1
  | 111 => pure { d with pendingAssign := none }
  | 114 =>
    expect (d.s.thr) "input copied but the model has no open Block"
    let d1 ← app d .mEncIn "copy input to the worker"
    if r.c == 0 then
      if r.b == 1 then
        expect (!d1.s.thr) "finish flag differs"
      else
        expect (d1.s.thr) "finish flag differs"
      match d1.s.outq.getLast? with
      | some e => expect (e.data.length == r.a) s!"thr->in_size {r.a}, model {e.data.length}"
      | none => throw "queue empty"
    pure d1
  | 115 =>
    let d1 ← app d .mEncIn "stream_encode_in done"
    expect (d1.s.mpc == .afterIn) "model: stream_encode_in is not done"
    pure d1
  | 116 =>
    expect (d.s.mpc == .afterIn) s!"after stream_encode_in, model at {repr d.s.mpc}"
    app d .mAfterIn "wait-or-return decision"
  | 117 =>
    let d0 ← ensureMainAwake d
    let d1 ← app d0 .mWake "wait_for_work: condition false, wait"
    expect (d1.s.mpc == .waiting) "the implementation waits but the model's wait condition holds"
    pure d1
  | 118 =>
    if r.a == 1 then app d .mTimeout "wait_for_work: timed out"
    else
      let d0 ← ensureMainAwake d
      let d1 ← app d0 .mWake "wait_for_work: condition true"
      expect (d1.s.mpc == .loopTop) "the implementation stopped waiting but the model's wait condition is false"
      pure d1
  | 122 =>
    match idxOf d r.t with
    | some i => app d (.mExitOne i) "threads_end: THR_EXIT to a busy worker"
    | none => app d .mExitIdle "threads_end: THR_EXIT to an idle worker"
  | 150 =>
    if d.pendingAssign == some r.t then pure d else
    match idxOf d r.t with
    | some i =>
      let d0 ← ensureAwake d i
      app d0 (.wTop i 0) "worker_start: wait"
    | none => pure d
  | 151 =>
    match idxOf d r.t with
    | some i =>
      let d0 ← ensureAwake d i
      match workerAt d0 i, stateOf r.a with
      | some (_, w), some st =>
        expect (w.state == st) s!"worker {r.t} sees state {r.a}, model {repr w.state}"
        let o0 := match lookahead evs (k + 1) r.t 159 [150, 151, 155] with | some x => x.a | none => 0
        let d1 ← app d0 (.wTop i o0) "worker_start: got work / exit"
        if st == .exit then pure { d1 with tidOrd := d1.tidOrd.filter (·.1 != r.t) } else pure d1
      | _, _ => throw "no such worker in the model"
    | none =>
      if r.a == 4 then app d .wExitIdle "an idle worker exits" else throw s!"worker {r.t} starts a Block the model did not hand out"
  | 159 => pure d
  | 152 =>
    match idxOf d r.t with
    | some i =>
      let d0 ← ensureAwake d i
      match workerAt d0 i with
      | some (_, w) => expect (w.inPos == r.a && w.outPos == r.b) s!"worker {r.t} at in_pos {r.a} out_pos {r.b}, model {w.inPos} {w.outPos}"
      | none => throw "no worker"
      let d1 ← app d0 (.wEnc i false 0) "worker_encode: wait for input"
      match workerAt d1 i with
      | some (_, w) => expect w.asleep "the implementation waits for input but the model would continue"
      | none => throw "worker vanished"
      pure d1
    | none => throw s!"event of worker {r.t} which is not busy in the model"
  | 153 =>
    match idxOf d r.t with
    | some i =>
      let d0 ← ensureAwake d i
      match workerAt d0 i, stateOf r.a with
      | some (e, w), some st =>
        expect (w.state == st) s!"worker {r.t} sees state {r.a}, model {repr w.state}"
        expect (e.data.length == r.b) s!"worker {r.t} sees in_size {r.b}, model {e.data.length}"
        expect (w.outPos == r.c) s!"worker {r.t} out_pos {r.c}, model {w.outPos}"
        if st == .stop || st == .exit then
          let d1 ← app d0 (.wEnc i false 0) "worker_encode: stop/exit"
          if st == .exit then pure { d1 with tidOrd := d1.tidOrd.filter (·.1 != r.t) } else pure d1
        else
          match lookahead evs (k + 1) r.t 154 [152, 153, 155] with
          | none => throw "no result of the Block encoder call in the trace"
          | some x =>
            if x.a == 1 then
              let d1 ← app d0 (.wEnc i false 0) "worker_encode: Block finished"
              match workerAt d1 i with
              | some (_, w1) => expect (w1.pc == .markIdle && w1.resFinish) "the Block encoder returned LZMA_STREAM_END but the model's Block is not complete"
              | none => throw "worker vanished"
              pure d1
            else if x.a == 0 && x.c < d0.P.alloc then
              let d1 ← app d0 (.wEnc i false x.c) "worker_encode: encoded a piece"
              match workerAt d1 i with
              | some (_, w1) => expect (w1.pc == .enc && w1.inPos == x.b) s!"in_pos {x.b} after the call, model {w1.inPos} ({repr w1.pc})"
              | none => throw "worker vanished"
              pure d1
            else if x.a == 0 then
              app d0 (.wEnc i true (x.b - w.inPos)) "worker_encode: output buffer full (incompressible)"
            else pure d0     -- an error: the worker_error event follows
      | _, _ => throw "no such worker in the model"
    | none => throw s!"event of worker {r.t} which is not busy in the model"
  | 154 => pure d
  | 156 =>
    match idxOf d r.t with
    | some i =>
      let d0 ← ensureAwake d i
      app d0 (.wFb i) "fallback: wait for the whole input"
    | none => throw "fallback wait of an unknown worker"
  | 157 =>
    match idxOf d r.t with
    | some i =>
      let d0 ← ensureAwake d i
      let d1 ← app d0 (.wFb i) "fallback: encode uncompressed"
      if r.a == 4 then pure { d1 with tidOrd := d1.tidOrd.filter (·.1 != r.t) } else pure d1
    | none => throw "fallback of an unknown worker"
  | 158 =>
    match idxOf d r.t with
    | some i => app d (.wEncErr i r.a) "worker_error"
    | none => throw "worker_error of an unknown worker"
  | 155 =>
    match idxOf d r.t with
    | some i => app d (.wMarkIdle i) "worker: mark idle"
    | none => throw "mark-idle of an unknown worker"
  | 160 =>
    match idxOf d r.t with
    | some i =>
      match workerAt d i with
      | some (_, w) =>
        expect (w.resFinish == (r.c == 2)) s!"worker {r.t} finished with state {r.c}, model resFinish={w.resFinish}"
        if r.c == 2 then expect (w.outPos == r.a) s!"published size {r.a}, model {w.outPos}"
      | none => throw "no worker"
      let d1 ← app d (.wTail i) "worker: publish, return to threads_free"
      pure { d1 with tidOrd := d1.tidOrd.filter (·.1 != r.t) }
    | none => throw "publish by an unknown worker"
  | _ => throw "unknown event code"

def runTrace (tr : String) : String := Id.run do
  let ws := tr.splitOn ","
  let recs := ws.filterMap parseRec
  if recs.length != ws.length then return "reject at 0 ev=0 : unparsable trace"
  let evs := recs.toArray
  let tabs := prescan evs
  let mut d : DS := {}
  let mut k := 0
  for r in evs do
    match feed tabs evs k d r with
    | .ok d' => d := d'
    | .error msg => return s!"reject at {k} ev={r.ev} t={r.t} a={r.a} b={r.b} c={r.c} : {msg}"
    k := k + 1
  return s!"accept {evs.size} {d.steps}"

def stepLine (_ : Unit) (ws : List String) : Unit × String :=
  match ws with
  | ["trace", t] => ((), runTrace t)
  | _ => ((), "bad-op")

def main : IO Unit := runLoop stepLine ()
