/-
  Model driver for C07: trace inclusion. One op per line:
      trace threads=<n> failfast=<0|1> timed=<0|1> ev=<events>
  where <events> is the comma separated H3 event list printed by harness/c07_main.c, each "<id>.<tid>.<ptr>.<a>.<b>.<c>"
  (ids: 1/2/3 = harness call/return/lzma_end; 1xx main thread, 2xx workers, 3xx outqueue; see hooks/h3-mtdec.patch).
  Pass 1 (`prescan`) reconstructs the item list of the file from the trace (sizes, per-Block verdicts, memory figures);
  pass 2 maps every event to the label(s) of Model/MtDec.lean it stands for, runs `MtDec.step`, and cross-checks the values the
  event carries (return codes, byte counts, snapshots, memory counters, can-start decisions) against the model state.
  Answer: "accept events=<n> labels=<n> items=<n>"  or  "reject at=<event index> ev=<event> why=<reason>".
-/
import XzVerif.Model.Proto
import XzVerif.Model.MtDec
open XzVerif XzVerif.Proto XzVerif.MtDec

structure Ev where
  id : Nat
  tid : Int
  ptr : Int
  a : Nat
  b : Nat
  c : Nat
  deriving Repr, Inhabited

def parseEv (t : String) : Option Ev :=
  match t.splitOn "." with
  | [i, tid, p, a, b, c] => do
    let i ← i.toNat?
    let tid ← tid.toInt?
    let p ← p.toInt?
    let a ← a.toNat?
    let b ← b.toNat?
    let c ← c.toNat?
    pure { id := i, tid := tid, ptr := p, a := a, b := b, c := c }
  | _ => none

def argOf (ws : List String) (key : String) : Option String :=
  ws.findSome? fun w => if w.startsWith (key ++ "=") then some (w.drop (key.length + 1)).toString else none

-- ---------------------------------------------------------------------------------------------
-- pass 1: items of the file as far as the trace reveals them
-- ---------------------------------------------------------------------------------------------

structure Pre where
  blocks : Array Block := #[]
  fresh : Bool := false            -- a Block Header was just decoded successfully (event 103 a=1), kind not yet known
  syncOpen : Option Nat := none    -- index of the sync item whose verdict is still open
  drained : Bool := false          -- event 140 a=0 seen for the open sync item
  lastRow : Nat := 0               -- return value of the most recent read_output_and_wait in this call
  owner : List (Int × Nat) := []   -- worker pointer id -> item index it decodes
  directOpen : Option Nat := none
  pendThr : Nat := 0               -- memThr of the Block being set up (event 109)
  pendOut : Nat := 0               -- memOut (event 300)
  memLimit : Nat := 0
  bad : Option String := none
  laterStream : Bool := false      -- event 143 seen: the Stream being parsed is not the first one
  openTail : Bool := false         -- a further Stream was announced (event 143) but none of its items has been seen yet

def Pre.push (p : Pre) (b : Block) : Pre := { p with blocks := p.blocks.push b, fresh := false, openTail := false }

def Pre.modify (p : Pre) (i : Nat) (f : Block → Block) : Pre := { p with blocks := p.blocks.modify i f }

def zeros (n : Nat) : List UInt8 := List.replicate n 0

def prescanStep (p : Pre) (e : Ev) : Pre :=
  match e.id with
  | 1 => { p with lastRow := 0 }
  | 102 =>
    -- (LZMA_FORMAT_ERROR from the Stream Header of a later Stream is returned as LZMA_DATA_ERROR)
    if e.a != 0 then p.push { kind := .badHeader, ret := if e.a == 7 && p.laterStream then 9 else e.a } else p
  | 103 =>
    if e.a == 0 then p
    else if e.a == 102 then
      match p.syncOpen with
      | some _ => p     -- re-entry is impossible (sequence has moved on), defensive
      | none => { (p.push { kind := .sync, ret := END }) with syncOpen := some p.blocks.size, drained := false }
    else if e.a == 1 then { p with fresh := true }
    else p.push { kind := .badHeader, ret := e.a }
  | 104 => if p.fresh then p.push { kind := .badHeader, ret := 8 } else p
  | 105 => if p.fresh && e.a == 1 then p.push { kind := .badHeader, ret := 6 } else p
  | 106 => if p.fresh then { (p.push { kind := .direct, ret := END }) with directOpen := some p.blocks.size } else p
  | 107 =>
    if !p.fresh then p
    else if e.a != 0 then p.push { kind := .badHeader, ret := e.a }
    else { (p.push { kind := .thr, ret := END, memThr := e.b }) with memLimit := e.c }   -- memThr/memOut split is refined at 109/300
  | 109 => { p with pendThr := e.a }
  | 300 => { p with pendOut := e.b }
  | 110 => if e.a != 0 then { p with bad := some "unmodelled: lzma_block_decoder_init failed in a worker set-up" } else p
  | 118 => if e.a != 0 then { p with bad := some "unmodelled: lzma_block_decoder_init failed in direct mode" } else p
  | 111 =>
    -- the thr item being set up is the last pushed thr item
    let i := p.blocks.size - 1
    let p := p.modify i fun b => { b with inSize := e.a, needIn := e.a, data := zeros e.b, memThr := p.pendThr, memOut := p.pendOut }
    { p with owner := (e.ptr, i) :: p.owner.filter (·.1 != e.ptr) }
  | 204 =>
    if e.a != 0 then
      match p.owner.find? (·.1 == e.ptr) with
      | some (_, i) => p.modify i fun b => { b with needIn := e.b, data := zeros e.c, ret := e.a }
      | none => p
    else p
  | 119 =>
    match p.directOpen with
    | some i =>
      let p := p.modify i fun b => { b with data := b.data ++ zeros e.b }
      if e.a != 0 then { (p.modify i fun b => { b with ret := e.a }) with directOpen := none } else p
    | none => p
  | 134 => { p with lastRow := e.a }
  | 140 => if e.a == 0 then { p with drained := true } else p
  | 143 => { p with syncOpen := none, openTail := true, laterStream := true }      -- Index + Footer + Padding were fine, the next Stream starts
  | 2 =>
    match p.syncOpen with
    | some i =>
      let r := e.a
      if p.drained && r != 0 && r != 2 && r != 3 && r != 4 && r != 10 && !(p.lastRow == r && r != 1) then
        { (p.modify i fun b => { b with ret := r }) with syncOpen := none }
      else p
    | none => p
  | _ => p

def prescan (evs : Array Ev) : Pre :=
  let p := evs.foldl prescanStep {}
  -- a Stream whose header never became complete: an item the application never finishes supplying
  if p.openTail then p.push { kind := .badHeader, ret := 10 } else p

-- ---------------------------------------------------------------------------------------------
-- pass 2: replay
-- ---------------------------------------------------------------------------------------------

structure D where
  s : State
  ptrs : List (Int × Nat) := []    -- worker pointer id -> index in coder->threads[]
  call : Option (Bool × Bool × Nat) := none   -- harness event 1 waiting for event 100
  nlabels : Nat := 0
  failFast : Bool := false
  hold : List Int := []            -- workers whose partial update was enabled inside a not yet completed rowIter
  stop : Bool := false             -- LZMA_MEMLIMIT_ERROR was returned: the application may change the limit, the item list no longer applies
  deferred : List Ev := []         -- their events, replayed right after that rowIter (they commute with the rest of it)

abbrev M := Except String

def D.fire (d : D) (l : Label) : M D :=
  match step d.s l with
  | some s' => pure { d with s := s', nlabels := d.nlabels + 1 }
  | none => throw s!"label {repr l} is not enabled in the model (main pc {repr d.s.pc}, seq {repr d.s.seq}, cur {d.s.cur}, queue {d.s.queue.length}, workers {d.s.workers.length})"

def check (c : Bool) (msg : String) : M Unit := if c then pure () else throw msg

def D.worker (d : D) (e : Ev) : M Nat :=
  match d.ptrs.find? (·.1 == e.ptr) with
  | some (_, i) => pure i
  | none => throw "event of an unknown worker"

def causeW (w : Worker) : Cause :=
  match w.pc with
  | .wait => if w.woken then .signalled else .spurious
  | _ => .enter

/-- Local main-thread steps that have no event of their own. -/
partial def D.settle (d : D) : M D := do
  match d.s.pc with
  | .rowOk _ _ => (← d.fire .rowOk).settle
  | .stopping i _ => if i ≥ d.s.workers.length then (← d.fire .stopOne).settle else pure d
  | .endSet i _ => if i ≥ d.s.workers.length then (← d.fire .endSet).settle else pure d
  | _ => pure d

/-- Bring the main thread from `seq` to the entry of read_output_and_wait according to coder->sequence. -/
def D.enterRow (d : D) : M D := do
  match d.s.pc with
  | .row _ _ => pure d
  | .seq =>
    match d.s.seq with
    | .thrInit => d.fire .thrInitEnter
    | .directInit => d.fire .directInit
    | .indexWait => d.fire (.indexStep false)
    | .error => d.fire .seqError
    | _ => throw "read_output_and_wait entered from an unexpected sequence"
  | _ => throw "read_output_and_wait entered from an unexpected program counter"

def okLike (r : Nat) : Bool := r == 0 || r == 2 || r == 3 || r == 4 || r == 10

def D.onEvent (d : D) (e : Ev) : M D := do
  match e.id with
  -- ---- harness level ------------------------------------------------------------------------
  | 1 => pure { d with call := some (e.a == 1, e.b == 0, e.c) }
  | 100 =>
    match d.call with
    | some (fin, noIn, cap) =>
      let d ← d.fire (.call fin noIn cap)
      check (d.s.waitingAllowed == (e.a == 1)) s!"waiting_allowed: model {d.s.waitingAllowed}, implementation {e.a}"
      pure { d with call := none }
    | none => throw "stream_decode_mt entered without lzma_code"
  | 2 =>
    match d.call with
    | some _ => pure { d with call := none }      -- lzma_code returned without calling the coder
    | none =>
      let d ← d.settle
      let d ← match d.s.pc, d.s.seq with
        | .seq, .indexDecode => d.fire (.indexStep (!okLike e.a))
        | .seq, .blockHeader => d.fire .needInput
        | _, _ => pure d
      match d.s.pc with
      | .ret r =>
        let r' := if r == TIMED_OUT then 0 else r
        check (r' == e.a || (r' == 0 && okLike e.a)) s!"return value: model {r}, implementation {e.a}"
        let d ← d.fire .ret
        pure { d with stop := e.a == 6 }
      | _ => throw "lzma_code returned but the model's main thread is not at a return point"
  | 3 => d.fire .endCall
  | 150 => pure d
  -- ---- stream header ------------------------------------------------------------------------
  | 101 => pure d
  | 102 => if e.a != 0 then d.fire .hdrFatal else pure d
  | 143 => d.fire (.indexStep true)
  | 141 => pure d
  -- ---- block header / init --------------------------------------------------------------------
  | 103 =>
    if e.a == 0 then
      if d.failFast && e.b == 1 then d.fire .ffStop else d.fire .hdrNeed
    else d.fire .hdrGot
  | 104 => pure d
  | 105 => if e.a == 1 then pure d else pure d
  | 106 => d.fire .blockInit
  | 107 => if e.a == 0 then d.fire .blockInit else pure d
  | 142 => if e.b == 1 then d.fire .seqError else pure d
  -- ---- read_output_and_wait -------------------------------------------------------------------
  | 130 =>
    let d ← d.enterRow
    match d.s.pc with
    | .row k w =>
      check (askCanStart k == (e.a == 1)) "read_output_and_wait: input_is_possible differs"
      check (w == (e.b == 1)) s!"read_output_and_wait: waiting_allowed differs (model {w}, implementation {e.b})"
      check (d.s.outCap == e.c) s!"output space: model {d.s.outCap}, implementation {e.c}"
      pure d
    | _ => throw "unreachable"
  | 131 =>
    let cap0 := d.s.outCap
    let c := match d.s.pc with
      | .rowWait _ _ => if d.s.mwoken then Cause.signalled else Cause.spurious
      | _ => Cause.enter
    let d ← d.fire (.rowIter c)
    check (cap0 - d.s.outCap == e.b) s!"bytes copied from the queue: model {cap0 - d.s.outCap}, implementation {e.b}"
    check (d.s.threadError == e.c) s!"thread_error: model {d.s.threadError}, implementation {e.c}"
    match d.s.pc with
    | .rowDone _ r _ => check (if e.a != 0 then r == e.a else true) s!"lzma_outq_read result: model {r}, implementation {e.a}"
    | .rowWait _ _ => check (e.a == 0) "model waits but the queue returned an error"
    | _ => throw "unreachable"
    pure d
  | 132 =>
    match d.s.pc with
    | .rowWait _ _ => check (d.s.cfg.timed == (e.a == 1)) "timed wait flag differs" *> pure d
    | pc => throw s!"implementation waits on coder->cond but the model left the loop ({repr pc})"
  | 133 => d.fire .rowTimeout
  | 134 =>
    match d.s.pc with
    | .rowDone _ r cs =>
      check (r == e.a) s!"read_output_and_wait returns: model {r}, implementation {e.a}"
      check (cs == (e.b == 1)) s!"block_can_start: model {cs}, implementation {e.b}"
      -- (memlimit_stop is modelled as a header error with code 6; the implementation keeps pending_error clear there)
      check (match d.s.pend with | .none => e.c == 0 | .flag => e.c != 0 | .code r => e.c != 0 || r == 6)
        s!"pending_error set: model {repr d.s.pend}, implementation {e.c}"
      (← d.fire .rowDone).settle
    | pc => throw s!"implementation leaves read_output_and_wait but the model is at {repr pc}"
  | 123 =>
    let _ ← d.worker e
    let d ← if d.s.pc == .seq && d.s.seq == .thrRun && d.failFast then d.fire .ffStop else pure d
    d.fire .stopOne
  | 108 => pure d
  | 116 => pure d
  | 140 => pure d
  -- ---- thread set-up --------------------------------------------------------------------------
  | 109 =>
    let d ← d.fire .memUpdate
    check (d.s.memInUse == e.b) s!"mem_in_use: model {d.s.memInUse}, implementation {e.b}"
    pure d
  | 126 =>
    -- get_thread's critical section: the decision (reuse / create) is taken here
    let d ← d.fire .getThread
    if e.a == 1 then
      let i ← d.worker e
      check (d.s.thr == some i) s!"reused worker: model {repr d.s.thr}, implementation {i}"
    else
      check (d.s.thr == some (d.s.workers.length - 1) && (getW d.s (d.s.workers.length - 1)).pc == .top
             && d.ptrs.all (·.2 != d.s.workers.length - 1))
        "the implementation found no free thread but the model reused one"
    pure d
  | 124 =>
    check (e.a + 1 == d.s.workers.length) "threads_initialized differs"
    pure { d with ptrs := (e.ptr, e.a) :: d.ptrs.filter (·.1 != e.ptr) }
  | 125 => pure d
  | 110 => if e.a != 0 then throw "unmodelled: lzma_block_decoder_init failed" else pure d
  | 111 =>
    let d ← d.fire .assign
    let i ← d.worker e
    check ((getW d.s i).inSize == e.a) "in_size differs"
    pure d
  | 112 => d.fire .startThr
  | 113 => pure d
  | 127 => if d.s.pc == .init5 then d.fire .enablePartial else pure d
  | 114 =>
    let i ← d.worker e
    check (d.s.thr == some i) "coder->thr differs"
    let w := getW d.s i
    check (w.inFilled ≤ e.a) "in_filled went backwards"
    d.fire (.copyIn (e.a - w.inFilled) (e.b == 1))
  | 115 => d.fire .tell
  -- ---- direct mode ------------------------------------------------------------------------------
  | 117 => pure d
  | 118 => if e.a != 0 then throw "unmodelled: direct-mode lzma_block_decoder_init failed" else pure d
  | 119 =>
    let d ← d.fire (.directStep e.b (e.a != 0))
    if e.a != 0 && e.a != 1 then
      match d.s.pc with
      | .ret r => check (r == e.a) "direct-mode verdict differs" *> pure d
      | _ => throw "unreachable"
    else pure d
  -- ---- threads_end --------------------------------------------------------------------------------
  | 120 => d.fire .endSet
  | 122 =>
    match d.s.pc with
    | .idle => pure d                     -- threads_end from the initialisation, before any thread exists
    | _ =>
      let d ← d.settle
      let n := d.s.workers.length
      let d ← (List.range (n + 1)).foldlM (fun d _ => d.fire .endJoin) d
      pure { d with ptrs := [] }
  -- ---- outqueue.c events are implied by the above ---------------------------------------------------
  | 300 => pure d
  | 301 => pure d
  | 302 => pure d
  | 210 => if d.s.pc == .init5 then d.fire .enablePartial else pure d
  -- ---- workers ------------------------------------------------------------------------------------------
  | 200 =>
    let i ← d.worker e
    let d ← d.fire (.wLoop i (causeW (getW d.s i)))
    check ((getW d.s i).pc == .wait && (getW d.s i).st == .idle) "worker waits as idle but the model decided otherwise"
    pure d
  | 201 =>
    let i ← d.worker e
    let d ← d.fire (.wLoop i (causeW (getW d.s i)))
    check ((getW d.s i).pc == .cleanup) "worker saw THR_EXIT but the model decided otherwise"
    pure d
  | 202 =>
    let i ← d.worker e
    let d ← d.fire (.wLoop i (causeW (getW d.s i)))
    let w := getW d.s i
    check (w.pc == .wait && w.st == .run) s!"worker waits for input but the model decided otherwise ({repr w})"
    check (w.inFilled == e.a && w.inPos == e.b) "worker snapshot (in_filled, in_pos) differs"
    pure d
  | 203 =>
    let i ← d.worker e
    let d ← d.fire (.wLoop i (causeW (getW d.s i)))
    let w := getW d.s i
    check (w.inFilled == e.a && w.inPos == e.c) s!"worker snapshot differs: model in_filled {w.inFilled} in_pos {w.inPos}, implementation {e.a} {e.c}"
    match w.pc with
    | .decode _ pu =>
      let code := match pu with | .disabled => 0 | .start => 1 | .enabled => 2
      check (code == e.b) s!"partial_update snapshot: model {code}, implementation {e.b}"
      pure d
    | pc => throw s!"worker decodes but the model decided {repr pc}"
  | 204 =>
    let i ← d.worker e
    -- the hypothesis of the termination theorem (`Progressive`): every Block decoder call returns a verdict, consumes input,
    -- produces output, or was called without input (first call after PARTIAL_START)
    let w := getW d.s i
    let noInput := match w.pc with
      | .decode lim _ => lim == w.inPos
      | _ => false
    check (e.a != 0 || w.inPos < e.b || w.outPos < e.c || noInput)
      s!"Block decoder call without progress: LZMA_OK with in_pos {w.inPos} -> {e.b}, out_pos {w.outPos} -> {e.c}"
    d.fire (.wDecode i e.b e.c (e.a != 0))
  | 205 =>
    let i ← d.worker e
    let w := getW d.s i
    check (w.outPos == e.a && w.inPos == e.b) "published positions differ"
    d.fire (.wPublish i)
  | 206 =>
    let i ← d.worker e
    let d ← d.fire (.wFin1 i)
    match (getW d.s i).pc with
    | .fin2 r => check (r == e.a) s!"worker verdict: model {r}, implementation {e.a}" *> pure d
    | _ => throw "unreachable"
  | 207 =>
    let i ← d.worker e
    let d ← d.fire (.wFin2 i)
    check ((getW d.s i).inAlloc == (e.a == 0) || !(getW d.s i).inAlloc) "input buffer free differs"
    pure d
  | 208 => let i ← d.worker e; d.fire (.wFin3 i)
  | 209 => let i ← d.worker e; d.fire (.wCleanup i)
  | n => throw s!"unknown event id {n}"

/-- Event dispatch with the one reordering the model's granularity needs: `rowIter` is atomic in the model and enables the
    partial update of the next worker at its end, while the implementation does it in the middle of that critical section
    (event 210) and the worker may react (under its own mutex only) before the section ends (event 131). Those worker steps
    touch nothing the rest of the section reads, so they are replayed right after it. -/
def D.feed (d : D) (e : Ev) : M D := do
  let inRow := match d.s.pc with | .row _ _ | .rowWait _ _ => true | _ => false
  if e.id == 210 && inRow then pure { d with hold := e.ptr :: d.hold }
  else if e.id ≥ 200 && e.id < 210 && d.hold.contains e.ptr then pure { d with deferred := d.deferred ++ [e] }
  else if e.id == 131 then
    let d ← d.onEvent e
    let evs := d.deferred
    evs.foldlM (fun d e => d.onEvent e) { d with hold := [], deferred := [] }
  else d.onEvent e

def replay (cfg : Cfg) (evs : Array Ev) (pre : Pre) : String := Id.run do
  -- the input hypothesis `FitsInput` of the can-start / termination theorems: SEQ_BLOCK_INIT sends a Block to the threaded path
  -- only if mem_next_block fits memlimit_threading
  match pre.blocks.toList.find? (fun b => b.kind == .thr && b.memThr + b.memOut > cfg.memLimit) with
  | some b => return s!"reject at=0 ev=107.0.0.0.0.0 why=threaded Block with mem_next_block {b.memThr + b.memOut} > memlimit_threading {cfg.memLimit}"
  | none => pure ()
  let mut d : D := { s := init cfg pre.blocks.toList, failFast := cfg.failFast }
  let mut k := 0
  for e in evs do
    if d.stop then break
    match d.feed e with
    | .ok d' => d := d'
    | .error msg => return s!"reject at={k} ev={e.id}.{e.tid}.{e.ptr}.{e.a}.{e.b}.{e.c} why={msg}"
    k := k + 1
  return s!"accept events={evs.size} labels={d.nlabels} items={pre.blocks.size}"

def stepLine (_ : Unit) (ws : List String) : Unit × String :=
  match ws with
  | "trace" :: rest =>
    match argOf rest "threads", argOf rest "failfast", argOf rest "timed", argOf rest "ev" with
    | some t, some ff, some tm, some evs =>
      match (evs.splitOn ",").mapM parseEv with
      | some l =>
        let evs := l.toArray
        let pre := prescan evs
        match pre.bad with
        | some msg => ((), "skip " ++ msg)
        | none =>
          let cfg : Cfg := { threadsMax := t.toNat!, failFast := ff == "1", timed := tm == "1", memLimit := pre.memLimit }
          ((), replay cfg evs pre)
      | none => ((), "bad-events")
    | _, _, _, _ => ((), "bad-op")
  | _ => ((), "bad-op")

def main : IO Unit := runLoop stepLine ()
