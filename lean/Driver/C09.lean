/-
  Model driver for C09 (line protocol of harness/c09_main.c). Imports Model + Gen only.
  For every op the driver prints what the model predicts for the part of the harness line before " | "
  (the rest of a harness line is judged by the direct checks in tools/props/c09.py).
-/
import XzVerif.Model.Proto
import XzVerif.Model.Memusage
import XzVerif.Model.MemusageBuild
import XzVerif.Model.Memlimit
import XzVerif.Model.MemlimitPre
import XzVerif.Model.XzAdjust
open XzVerif XzVerif.Proto XzVerif.Memusage XzVerif.Memlimit

def B : Build := thisBuild

def u64 (o : Option Nat) : String := toString (o.getD UINT64_MAX)

def parseLzma (ps : List String) : Option LzmaOpts :=
  match ps.mapM String.toNat? with
  | some [d, lc, lp, pb, mode, nice, mf, depth] =>
    some { dict := d, lc := lc, lp := lp, pb := pb, mode := mode, nice := nice, mf := mf, depth := depth }
  | _ => none

def parseFilter (s : String) : Option Filter :=
  match s.splitOn ":" with
  | "l1" :: ps => (parseLzma ps).map Filter.lzma1
  | "l2" :: ps => (parseLzma ps).map Filter.lzma2
  | ["delta", d] => if d == "-" then some (.delta none) else d.toNat?.map fun x => .delta (some x)
  | [name, arg] =>
    if name.startsWith "bcj" then
      match (name.drop 3).toNat? with
      | none => none
      | some id => if arg == "-" then some (.bcj id none) else arg.toNat?.map fun x => .bcj id (some x)
    else none
  | [name] => if name.startsWith "raw" then (name.drop 3).toNat?.map Filter.other else none
  | _ => none

def parseChain (s : String) : Option (List Filter) := (s.splitOn "+").mapM parseFilter

/-- "ret live peak sizes leak=0" of an initialisation through a lzma_stream (lzma_internal is allocated first; a failed
    initialisation frees everything). -/
def fmtInit (ret : Nat) (sizes : List Nat) : String :=
  let all := B.szInternal :: sizes
  s!"{ret} {if ret = 0 then all.sum else 0} {all.sum} {fmtList all} leak=0"

/-- Options copied by lzma_filters_copy (one allocation per filter with non-NULL options). -/
def copiedOptions (fs : List Filter) : List Nat := Memusage.copiedOptions B fs

def alIndex (prealloc : Nat) (ns : List Nat) : String :=
  let step := fun (acc : Heap × Option Idx × List String × Bool) (kn : Nat × Nat) =>
    let (h, dest, out, first) := acc
    let (_, n) := kn
    let h1 := h.allocs [B.szIndex, B.szIndexStream]
    let i0 := if first ∧ prealloc > 0 then Idx.init.setPrealloc B prealloc else Idx.init
    let (i1, as) := Idx.appendN B n i0
    let h2 := h1.allocs as
    match dest with
    | none =>
      (h2, some i1, s!"{h2.live}/{u64 (indexMemusage B i1.streams.length i1.blocks)}/{i1.streams.length}/{i1.blocks}" :: out, false)
    | some d =>
      let (d', a) := d.cat B i1
      let h3 := match a with
        | none => h2
        | some sz =>
          -- the new, smaller group is allocated before the old one is freed
          let old := match d.streams with
            | (g :: _) :: _ => groupBytes B g
            | _ => 0
          (h2.alloc sz).free old
      let h4 := h3.free B.szIndex
      (h4, some d', s!"{h4.live}/{u64 (indexMemusage B d'.streams.length d'.blocks)}/{d'.streams.length}/{d'.blocks}" :: out, false)
  let (h, _, out, _) := (ns.zipIdx.map fun (n, k) => (k, n)).foldl step (({} : Heap), none, [], true)
  s!"{" ".intercalate out.reverse} ok peak={h.peak} allocs={fmtList h.reqs.reverse} leak=0"

def step (_ : Unit) (ws : List String) : Unit × String :=
  let bad := ((), "bad-op")
  match ws with
  | ["mu_lzdec", d] =>
    match d.toNat? with
    | some d => ((), toString (lzDecoderMemusage B d))
    | none => bad
  | ["mu_lzmadec", d, lc, lp, pb] =>
    match [d, lc, lp, pb].mapM String.toNat? with
    | some [d, lc, lp, pb] =>
      let o : LzmaOpts := { dict := d, lc := lc, lp := lp, pb := pb }
      ((), s!"{u64 (lzmaDecoderMemusage B o)} {lzma2DecoderMemusage B o}")
    | _ => bad
  | ["mu_lzenc", a, b, c, d, e, f, g] =>
    match [a, b, c, d, e, f, g].mapM String.toNat? with
    | some [before, dict, after, mmax, nice, mf, depth] =>
      ((), u64 (lzEncoderMemusage B { beforeSize := before, dictSize := dict, afterSize := after, matchLenMax := mmax,
                                        niceLen := nice, matchFinder := mf, depth := depth }))
    | _ => bad
  | "mu_lzmaenc" :: ps =>
    match parseLzma ps with
    | some o => ((), s!"{u64 (lzmaEncoderMemusage B o)} {u64 (lzma2EncoderMemusage B o)}")
    | none => bad
  | ["mu_raw", ch] =>
    match parseChain ch with
    | some fs => ((), s!"{u64 (rawDecoderMemusage B fs)} {u64 (rawEncoderMemusage B fs)}")
    | none => ((), "bad-chain")
  | ["mu_index", s, n] =>
    match s.toNat?, n.toNat? with
    | some s, some n => ((), u64 (indexMemusage B s n))
    | _, _ => bad
  | ["mu_outq", sz, t] =>
    match sz.toNat?, t.toNat? with
    | some sz, some t => ((), u64 (outqMemusage B sz (t % U32)))
    | _, _ => bad
  | ["mu_mtenc", t, bs, ch] =>
    match t.toNat?, bs.toNat?, parseChain ch with
    | some t, some bs, some fs =>
      let blk := if bs > 0 then some bs else mtBlockSize fs
      ((), s!"{u64 (streamEncoderMtMemusage B t bs fs)} {u64 (mtBlockSize fs)} {blockBufferBound64 (blk.getD UINT64_MAX)}")
    | _, _, _ => ((), "bad-chain")
  | ["al_rawdec", ch] =>
    match parseChain ch with
    | some fs => let (r, a) := rawDecoderInit B fs; ((), fmtInit r a)
    | none => ((), "bad-chain")
  | ["al_rawenc", ch] =>
    match parseChain ch with
    | some fs => let (r, a) := rawEncoderInit B fs; ((), fmtInit r a)
    | none => ((), "bad-chain")
  | ["al_streamenc", _, ch, hx] =>
    match parseChain ch with
    | some fs =>
      let (r, a) := rawEncoderInit B fs
      let pre := [B.szStreamEncoder, B.szIndex, B.szIndexStream] ++ copiedOptions fs ++ [B.szBlockEncoder] ++ a
      -- a non-empty run appends one Record (first group of the Index) and initialises the Index encoder
      let run := if hx == "-" ∨ r ≠ 0 then [] else [B.szIndexGroup + INDEX_GROUP_SIZE * B.szIndexRecord, B.szIndexEncoder]
      let all := B.szInternal :: (pre ++ run)
      let ret := if r ≠ 0 then r else if hx == "-" then 0 else 1
      ((), s!"{ret} {if r = 0 then all.sum else 0} {all.sum} {fmtList all} leak=0")
    | none => ((), "bad-chain")
  | ["al_aloneenc", ch, hx] =>
    match parseChain ch with
    | some [Filter.lzma1 o] =>
      let (r, a) := lzEncInitTrace B false o
      let all := B.szInternal :: B.szAloneEncoder :: a
      let ret := if r ≠ 0 then r else if hx == "-" then 0 else 1
      ((), s!"{ret} {if r = 0 then all.sum else 0} {all.sum} {fmtList all} leak=0")
    | _ => ((), "bad-chain")
  | "al_index" :: pre :: ns =>
    match pre.toNat?, ns.mapM String.toNat? with
    | some p, some ns => ((), alIndex p ns)
    | _, _ => bad
  | ["sbuf", flags, limit, retries, hx] =>
    match flags.toNat?, limit.toNat?, retries.toNat?, bytesOfHex hx with
    | some fl, some lim, some n, some inp => ((), runStreamBuf B fl lim n inp)
    | _, _, _, _ => bad
  | ["ibuf", limit, retries, hx] =>
    match limit.toNat?, retries.toNat?, bytesOfHex hx with
    | some lim, some n, some inp => ((), runIndexBufRetry B lim n inp)
    | _, _, _ => bad
  | [op, t, bs, ch, _] =>
    if op == "al_mtenc" ∨ op == "al_mtsat" then
      match t.toNat?, bs.toNat?, parseChain ch with
      | some t, some bs, some fs =>
        let est := streamEncoderMtMemusage B t bs fs
        -- after " | " of the model line: what lzma_stream_encoder_mt() itself requests (exact, in order), and the
        -- multiset of everything that can be live at once (bound for the real request list and for the peak)
        let ini := B.szInternal :: streamEncoderMtInitAllocs B t fs
        let all := match streamEncoderMtAllocs B t bs fs 0 with
          | some l => B.szInternal :: l
          | none => []
        ((), s!"{if est.isSome then 1 else 8} {u64 est} | init={fmtList ini} all={fmtList all} group={B.szIndexGroup + INDEX_GROUP_SIZE * B.szIndexRecord}")
      | _, _, _ => ((), "bad-chain")
    else if op == "idx" then
      match t.toNat?, parseSetsPre bs, bytesOfHex (ws.getD 4 "") with
      | some lim, some (none, ss), some inp => ((), runIndex B lim ss inp)
      | some lim, some (some pre, ss), some inp => ((), runIndexPre B lim pre ss inp)
      | _, _, _ => bad
    else bad
  | ["dec", kind, flags, limit, sets, _, hx] =>
    match flags.toNat?, limit.toNat?, parseSetsPre sets, bytesOfHex hx with
    | some fl, some lim, some (none, ss), some inp =>
      if kind == "xz" then ((), runXz B fl lim ss inp)
      else if kind == "alone" then ((), runAlone B lim ss inp)
      else if kind == "lzip" then ((), runLzip B fl lim ss inp)
      else if kind == "auto" then ((), runAuto B fl lim ss inp)
      else bad
    | some fl, some lim, some (some pre, ss), some inp =>
      -- create → lzma_memlimit_set()* → first lzma_code()
      if kind == "xz" then ((), runXzPre B fl lim pre ss inp)
      else if kind == "alone" then ((), runAlonePre B lim pre ss inp)
      else if kind == "lzip" then ((), runLzipPre B fl lim pre ss inp)
      else if kind == "auto" then ((), runAutoPre B fl lim pre ss inp)
      else bad
    | _, _, _, _ => bad
  | ["decmt", _, flags, lt, ls, sets, _, hx] =>
    match flags.toNat?, lt.toNat?, ls.toNat?, parseSetsPre sets, bytesOfHex hx with
    | some fl, some lt, some ls, some (none, ss), some inp => ((), runXzMt B ((ws.getD 1 "1").toNat?.getD 1) fl lt ls ss inp)
    | some fl, some lt, some ls, some (some pre, ss), some inp => ((), runXzMtPre B ((ws.getD 1 "1").toNat?.getD 1) fl lt ls pre ss inp)
    | _, _, _, _, _ => bad
  | ["decmts", _, thr, flags, lt, ls, sets, _, hx] =>
    match flags.toNat?, lt.toNat?, ls.toNat?, parseSetsPre sets, bytesOfHex hx with
    | some fl, some lt, some ls, some (none, ss), some inp => ((), runXzMt B (thr.toNat?.getD 1) fl lt ls ss inp)
    | some fl, some lt, some ls, some (some pre, ss), some inp => ((), runXzMtPre B (thr.toNat?.getD 1) fl lt ls pre ss inp)
    | _, _, _, _, _ => bad
  | ["decmtw", _, _, _, thr, flags, lt, ls, sets, _, hx] =>
    match flags.toNat?, lt.toNat?, ls.toNat?, parseSetsPre sets, bytesOfHex hx with
    | some fl, some lt, some ls, some (none, ss), some inp => ((), runXzMt B (thr.toNat?.getD 1) fl lt ls ss inp)
    | some fl, some lt, some ls, some (some pre, ss), some inp => ((), runXzMtPre B (thr.toNat?.getD 1) fl lt ls pre ss inp)
    | _, _, _, _, _ => bad
  | ["idxbuf", limit, hx] =>
    match limit.toNat?, bytesOfHex hx with
    | some lim, some inp => ((), runIndexBuf B lim inp)
    | _, _ => bad
  | "xzadj" :: rest => ((), XzAdjust.runLine B rest)
  | _ => bad

def main : IO Unit := runLoop step ()
