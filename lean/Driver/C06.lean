/-
  Model driver for C06 (line protocol, see harness/c06_small.c): the chunk-faithful small-coder models are run call by call
  on the same pieces as the real functions. Imports Model only.
-/
import XzVerif.Model.Proto
import XzVerif.Model.CoderSmall
import XzVerif.Model.LzmaResumeRun
open XzVerif XzVerif.Proto XzVerif.Coder XzVerif.Vli

def retStr (r : Ret) : String := toString r.toNat

def joinSp (l : List String) : String := " ".intercalate l

def parsePair (s : String) : Option (Nat × Nat) :=
  match s.splitOn "," with
  | [a, b] => do let x ← a.toNat?; let y ← b.toNat?; pure (x, y)
  | _ => none

/-- "<in>,<out>" or "<in>,<out>x<repeat>" -/
def parseRep (s : String) : Option (List (Nat × Nat)) :=
  match s.splitOn "x" with
  | [p] => (parsePair p).map fun q => [q]
  | [p, n] => do let q ← parsePair p; let k ← n.toNat?; pure (List.replicate k q)
  | _ => none

/-- FNV-1a 64 as in harness/c06_run.h `c06_hash` -/
def fnv64 (bs : List UInt8) : UInt64 :=
  bs.foldl (fun h b => (h ^^^ b.toUInt64) * 0x100000001b3) 0xcbf29ce484222325

def hex16 (v : UInt64) : String :=
  let ds := (List.range 16).map fun i => XzVerif.Proto.hexDigit ((v >>> (UInt64.ofNat (60 - 4 * i))).toNat % 16)
  String.ofList ds

/-- `lzr` op: the resumable LZMA1/LZMA2 raw decoder model (`LzmaR.runPieceX`) call by call over exact (avail_in, avail_out)
    windows; prints "<ret>:<consumed>:<produced>" per call, then " | <last ret> <total_in> <out len>:<fnv64> overrun=<0|1>".
    Stops after the first call that returns something other than LZMA_OK. -/
def lzrRun (kind : XzVerif.Lzma2.Kind) (input : List UInt8) (pieces : List (Nat × Nat)) (start : XzVerif.LzmaR.RSt) : String :=
  let rec go (ps : List (Nat × Nat)) (x : XzVerif.LzmaR.XRun) (acc : List String) : List String × XzVerif.LzmaR.XRun :=
    match ps with
    | [] => (acc.reverse, x)
    | (a, b) :: t =>
      if x.ret != .ok then (acc.reverse, x)
      else
        let y := XzVerif.LzmaR.runPieceX kind input x a b
        go t y (s!"{retStr y.ret}:{y.r.s.inPos - x.r.s.inPos}:{y.r.s.produced - x.r.s.produced}" :: acc)
  let (calls, x) := go pieces { r := start } []
  let out := x.r.output
  joinSp calls ++ s!" | {retStr x.ret} {x.r.s.inPos} {out.length}:{hex16 (fnv64 out)} overrun={if x.r.overrun then 1 else 0}"

/-- The call loop of `next_run` in c06_small.c: explicit pieces, then (all, 4096) pieces; stops at ret ≠ OK, or after the explicit
    pieces when two consecutive calls did nothing. -/
partial def nextRun {σ : Type} (c : Coder σ) (fin : Bool) (s : σ) (rest : List UInt8) (pieces : List (Nat × Nat))
    (finishing : Bool) (idle : Nat) (calls : Nat) (acc : List String) : List String :=
  if calls ≥ 100000 then acc.reverse
  else
    let (want, cap, pieces') := match pieces with
      | (a, b) :: t => (a, b, t)
      | [] => (rest.length, 4096, [])
    let left := rest.length
    let ain := if finishing then left else min want left
    let isFin := fin && ain == left
    let finishing := finishing || isFin
    let r := c.code s (rest.take ain) cap (if isFin then .finish else .run)
    let entry := s!"{retStr r.2.ret}:{r.2.consumed}:{hexOfBytes r.2.out}"
    let acc := entry :: acc
    if r.2.ret != .ok then acc.reverse
    else
      let idle := if r.2.consumed == 0 && r.2.out.isEmpty then idle + 1 else 0
      if pieces'.isEmpty && idle ≥ 2 then
        -- (`i >= l->ntok` is evaluated after the piece was taken)
        acc.reverse
      else nextRun c fin r.1 (rest.drop r.2.consumed) pieces' finishing idle (calls + 1) acc

partial def fieldRun (size : Nat) (buf : List UInt8) (rest : List UInt8) (pieces : List Nat) (acc : List String) : List String × List UInt8 :=
  let (want, pieces', last) := match pieces with
    | a :: t => (a, t, false)
    | [] => (rest.length, [], true)
  let ain := min want rest.length
  let r := (fieldCoder size).code buf (rest.take ain) 0 .run
  let acc := s!"{r.2.consumed}:{r.1.length}" :: acc
  if r.1.length == size || last then (acc.reverse, r.1)
  else fieldRun size r.1 (rest.drop r.2.consumed) pieces' acc

partial def ixRun (s : IxState) (rest : List UInt8) (pieces : List Nat) (acc : List String) : List String × IxState × Option Ret :=
  let (want, pieces', last) := match pieces with
    | a :: t => (a, t, false)
    | [] => (rest.length, [], true)
  let ain := min want rest.length
  let r := ixFeed s (rest.take ain)
  let ret := match r.2.1 with | some x => x | none => Ret.ok
  let acc := s!"{retStr ret}:{r.2.2}" :: acc
  if r.2.1.isSome || last then (acc.reverse, r.1, r.2.1)
  else ixRun r.1 (rest.drop r.2.2) pieces' acc

def step (_ : Unit) (ws : List String) : Unit × String :=
  match ws with
  | "vlid" :: hx :: pieces =>
    match bytesOfHex hx, pieces.mapM String.toNat? with
    | some bs, some ps =>
      let (calls, v, p) := vliDecodePieces ps 6148914691236517205 0 bs
      ((), joinSp (calls.map fun (r, c) => s!"{retStr r}:{c}") ++ s!" | vli={v} pos={p}")
    | _, _ => ((), "bad-op")
  | ["vlid1", hx] =>
    match bytesOfHex hx with
    | some bs =>
      match vliDecode bs with
      | some (v, rest) => ((), s!"0 {v} {bs.length - rest.length}")
      | none => ((), "9 - -")
    | none => ((), "bad-op")
  | "vlie" :: v :: caps =>
    match v.toNat?, caps.mapM String.toNat? with
    | some v, some cs =>
      let (calls, p) := vliEncodePieces cs v 0
      ((), joinSp (calls.map fun (r, bs) => s!"{retStr r}:{hexOfBytes bs}") ++ s!" | pos={p}")
    | _, _ => ((), "bad-op")
  | ["vlie1", v, cap] =>
    match v.toNat?, cap.toNat? with
    | some v, some c =>
      match vliEncodeSingle v c with
      | .ok bs => ((), s!"0:{hexOfBytes bs}")
      | .error r => ((), s!"{retStr r}:-")
    | _, _ => ((), "bad-op")
  | "field" :: size :: hx :: pieces =>
    match size.toNat?, bytesOfHex hx, pieces.mapM String.toNat? with
    | some sz, some bs, some ps =>
      let (calls, buf) := fieldRun sz [] bs ps []
      ((), joinSp calls ++ " | " ++ hexOfBytes buf)
    | _, _, _ => ((), "bad-op")
  | "simple" :: unit :: umax :: enc :: next :: fin :: hx :: pieces =>
    match unit.toNat?, umax.toNat?, enc.toNat?, next.toNat?, fin.toNat?, bytesOfHex hx, pieces.mapM parsePair with
    | some u, some um, some e, some nx, some f, some bs, some ps =>
      let F := testFilter u (e != 0)
      let out :=
        if nx == 0 then
          nextRun (simpleCoder F (Src.null (e != 0)) (2 * um)) (f != 0) (Simple.init 0 ()) bs ps false 0 0 []
        else
          let total := if nx == 2 then bs.length - 1 else bs.length
          nextRun (simpleCoder F Src.stub (2 * um)) (f != 0) (Simple.init 0 (total, nx == 2)) bs ps false 0 0 []
      ((), joinSp out)
    | _, _, _, _, _, _, _ => ((), "bad-op")
  | "delta" :: dist :: enc :: next :: fin :: hx :: pieces =>
    match dist.toNat?, enc.toNat?, next.toNat?, fin.toNat?, bytesOfHex hx, pieces.mapM parsePair with
    | some d, some e, some nx, some f, some bs, some ps =>
      let out :=
        if nx == 0 then nextRun deltaEncCoder (f != 0) (Delta.State.init d) bs ps false 0 0 []
        else
          let total := if nx == 2 then bs.length - 1 else bs.length
          nextRun (deltaNextCoder Src.stub (e != 0)) (f != 0) (Delta.State.init d, (total, nx == 2)) bs ps false 0 0 []
      ((), joinSp out)
    | _, _, _, _, _, _ => ((), "bad-op")
  | "ixd" :: hx :: pieces =>
    match bytesOfHex hx, pieces.mapM String.toNat? with
    | some bs, some ps =>
      let (calls, s, v) := ixRun {} bs ps []
      let big := s.records.any (fun (a, b) => a > 2 ^ 40 || b > 2 ^ 40) || s.count > 2 ^ 20
      if big then ((), "skip")
      else
        let recs := if v == some .streamEnd then joinSp (s.records.reverse.map fun (a, b) => s!"{a}/{b}") else "-"
        ((), joinSp calls ++ " | " ++ (if recs == "" then "-" else recs))
    | _, _ => ((), "bad-op")
  | "lzr2" :: dict :: hx :: pieces =>
    match dict.toNat?, bytesOfHex hx, (pieces.mapM parseRep).map List.flatten with
    | some d, some bs, some ps => ((), lzrRun .lzma2 bs ps (XzVerif.LzmaR.initLzma2R d []))
    | _, _, _ => ((), "bad-op")
  | "lzr1" :: lc :: lp :: pb :: dict :: uncomp :: eopm :: hx :: pieces =>
    -- uncomp = "u" for unknown size
    match lc.toNat?, lp.toNat?, pb.toNat?, dict.toNat?, eopm.toNat?, bytesOfHex hx, (pieces.mapM parseRep).map List.flatten with
    | some a, some b, some c, some d, some e, some bs, some ps =>
      let u := if uncomp == "u" then none else uncomp.toNat?
      ((), lzrRun .lzma1 bs ps (XzVerif.LzmaR.initLzma1R ⟨a, b, c⟩ d u (e != 0) []))
    | _, _, _, _, _, _, _ => ((), "bad-op")
  | ["l2d", hx] =>
    match bytesOfHex hx with
    | some bs =>
      let (_, evs, used) := l2Feed {} bs
      if evs.any (fun e => match e with | .lzmaByte _ => true | _ => false) then ((), "skip")
      else
        let out := evs.filterMap fun e => match e with | .copyByte b => some b | _ => none
        let ret := match evs.getLast? with
          | some (.finished r) => r
          | _ => Ret.bufError
        ((), s!"{retStr ret} {used} {hexOfBytes out}")
    | none => ((), "bad-op")
  | _ => ((), "bad-op")

def main : IO Unit := runLoop step ()
