/-
  Model driver for C05 (line protocol, see harness/c05_main.c: same ops, same answers). Imports Model + Gen only.

    base <hex> / orig <hex>                          -> "ok <len>"
    reuse <0|1>                                      -> "ok <n>"   (harness: persistent lzma_stream; no effect on the model)
    one    <api> <flags> w | f <bit> | t <len> | e <off> <del> <inshex>
    flips  <api> <flags> <from> <to>     truncs <api> <flags> <from> <to>
        -> per damaged input "<tag> <ret> <consumed> <notices> <outlen> <lcp> <crc64 of the output, hex>"
    api:  sd    = XzDecode.xzDecode        (lzma_stream_decoder + lzma_code(FINISH) loop)
          sbd   = XzDecode.xzBufferDecode  (lzma_stream_buffer_decode)
          alone / lzip / auto = Model/Alone.lean, Lzip.lean, Auto.lean (b-c16) with the LZMA1 model as payload and
                  XzDecode.xzCall as the .xz decoder of the auto decoder
    The environment is XzEnv.fastEnv (Model/Lzma2.lean rawDecode; checks = fast variants of Model/Check.lean, compared
    with the list models by XzEnv.fastSelfTest before the first answer).
-/
import XzVerif.Model.Proto
import XzVerif.Model.XzDecode
import XzVerif.Model.XzEnv
import XzVerif.Model.XzStruct
import XzVerif.Model.Lzip
import XzVerif.Model.Auto
import XzVerif.Gen.C16
open XzVerif XzVerif.Proto

/-- the harness' output buffer size and memory limit -/
def OUTCAP : Nat := 48 * 1048576
def MEMLIMIT : Nat := 160 * 1048576

structure St where
  base : List UInt8 := []
  orig : Array UInt8 := #[]

def lcpGo (a : Array UInt8) : List UInt8 → Nat → Nat
  | [], n => n
  | b :: t, n => if h : n < a.size then (if a[n] = b then lcpGo a t (n + 1) else n) else n

def hex16 (n : Nat) : String :=
  String.ofList ((List.range 16).map fun i => hexDigit (n / 16 ^ (15 - i) % 16))

def showEvents (ev : List Ret) : String :=
  if ev.isEmpty then "-" else ",".intercalate (ev.map fun r => toString r.toNat)

def modelPayload : Alone.Payload := fun o rest =>
  let r := Lzma.lzmaDecode { lc := o.lc, lp := o.lp, pb := o.pb } o.dictSize o.uncomp o.allowEopm rest [] OUTCAP
  { ret := r.ret, out := r.out, consumed := r.consumed }

def runApi (api : String) (flags : Nat) (inp : List UInt8) : Option Alone.DRes :=
  let memK := Gen.C16.memK
  if api == "sd" then
    if flags ≥ XzDecode.SUPPORTED_FLAGS_MASK then some { ret := .optionsError, out := [], consumed := 0 }
    else some (XzDecode.xzDecode XzEnv.fastEnv (XzDecode.Flags.ofNat flags) inp OUTCAP)
  else if api == "sbd" then some (XzDecode.xzBufferDecode XzEnv.fastEnv flags inp OUTCAP)
  else
    let f := Auto.Flags.ofNat flags
    let acfg : Auto.Cfg := { flags := f, finish := true, memlimit := MEMLIMIT, memK := memK }
    let fin (r : Alone.DRes) : Alone.DRes := if r.ret = .ok then { r with ret := .bufError } else r
    if api == "alone" then some (fin (Alone.aloneDecode modelPayload { picky := false, memlimit := MEMLIMIT, memK := memK } inp))
    else if api == "lzip" then some (fin (Lzip.lzipDecode modelPayload (Auto.lzipCfg acfg) inp))
    else if api == "auto" then
      let xz : Auto.Xz := fun i => XzDecode.xzCall XzEnv.fastEnv (XzDecode.Flags.ofNat flags) i OUTCAP
      some (fin (Auto.autoDecode modelPayload xz acfg inp))
    else none

def runOne (s : St) (api : String) (flags : Nat) (inp : List UInt8) (tag : String) : String :=
  match runApi api flags inp with
  | none => "bad-op"
  | some r =>
    let outb := ByteArray.mk r.out.toArray
    s!"{tag} {r.ret.toNat} {r.consumed} {showEvents r.events} {r.out.length} {lcpGo s.orig r.out 0} {hex16 (XzStruct.crc64Slice outb 0 outb.size)}"

def flipBit (b : List UInt8) (bit : Nat) : List UInt8 :=
  b.modify (bit / 8) fun x => x ^^^ (UInt8.ofNat (1 <<< (bit % 8)))

def rangeLines (f : Nat → String) (from_ to : Nat) : String :=
  "\n".intercalate ((List.range (to - from_)).map fun i => f (from_ + i))

def step (s : St) (ws : List String) : St × String :=
  match ws with
  | ["base", hx] =>
    match bytesOfHex hx with
    | some b => ({ s with base := b }, s!"ok {b.length}")
    | none => (s, "bad-op")
  | ["orig", hx] =>
    match bytesOfHex hx with
    | some b => ({ s with orig := b.toArray }, s!"ok {b.length}")
    | none => (s, "bad-op")
  | "slice" :: _ =>
    -- how the harness slices the input across lzma_code() calls is invisible to the model: the verdict must not depend on it
    (s, "ok")
  | ["reuse", n] =>
    -- handle reuse is invisible to the model: a re-initialised decoder behaves like a fresh one
    (s, s!"ok {if n == "0" then 0 else 1}")
  | ["one", api, flags, "w"] =>
    match flags.toNat? with
    | some fl => (s, runOne s api fl s.base "w")
    | none => (s, "bad-op")
  | ["one", api, flags, "f", bit] =>
    match flags.toNat?, bit.toNat? with
    | some fl, some bit => if bit / 8 ≥ s.base.length then (s, "bad-op") else (s, runOne s api fl (flipBit s.base bit) s!"f{bit}")
    | _, _ => (s, "bad-op")
  | ["one", api, flags, "t", n] =>
    match flags.toNat?, n.toNat? with
    | some fl, some n => if n > s.base.length then (s, "bad-op") else (s, runOne s api fl (s.base.take n) s!"t{n}")
    | _, _ => (s, "bad-op")
  | ["one", api, flags, "e", off, del, ins] =>
    match flags.toNat?, off.toNat?, del.toNat?, bytesOfHex ins with
    | some fl, some off, some del, some ins =>
      if off > s.base.length ∨ del > s.base.length - off then (s, "bad-op")
      else (s, runOne s api fl (s.base.take off ++ ins ++ s.base.drop (off + del)) "e")
    | _, _, _, _ => (s, "bad-op")
  | ["flips", api, flags, a, b] =>
    match flags.toNat?, a.toNat?, b.toNat? with
    | some fl, some a, some b =>
      if a > b ∨ b > 8 * s.base.length then (s, "bad-op")
      else if a = b then (s, "")
      else (s, rangeLines (fun i => runOne s api fl (flipBit s.base i) s!"f{i}") a b)
    | _, _, _ => (s, "bad-op")
  | ["truncs", api, flags, a, b] =>
    match flags.toNat?, a.toNat?, b.toNat? with
    | some fl, some a, some b =>
      if a > b ∨ b > s.base.length + 1 then (s, "bad-op")
      else if a = b then (s, "")
      else (s, rangeLines (fun i => runOne s api fl (s.base.take i) s!"t{i}") a b)
    | _, _, _ => (s, "bad-op")
  | _ => (s, "bad-op")

def main : IO UInt32 := do
  if !XzEnv.fastSelfTest then
    IO.eprintln "xzm_c05: fastCheck differs from the Check/Sha256 models (self test)"
    return 3
  runLoop step {}
  return 0
