/-
  Model driver for C15 (line protocol, see harness/c15_main.c). Imports Model only.

    code <fid> <enc> <now_pos> <prev_mask> <prev_pos> <hex>          -> "<processed> <prev_mask> <prev_pos> <hex>"
    codeseq <fid> <enc> <now_pos> <hex> <len,len,...|->              -> "<p:mask:pos>,... <hex>"
    oneshot <fid> <enc> <start_offset> <hex>                         -> "<processed> <hex>" | "none"
    stream <fid> <enc> <next> <start_offset> <hex> <in:out:act,...>  -> "init=<ret> calls=<ret:consumed:produced>,... out=<hex>"
    delta <enc> <dist> <hex> <len,len,...|->                         -> "<hex>"   (the static loops, chunk by chunk)
    dstream <enc> <next> <dist> <hex> <in:out:act,...>               -> like stream
    deltax <enc> <dist> <hex>                                        -> "<hex>"   (large inputs, processed in 4 KiB pieces)
    rstream / rdstream ...                                           -> as stream / dstream (the harness runs them on a reused coder object)
    chain <reuse> <fid|delta> <enc> <param> <hex>                    -> "init=0 out=<hex>" | "init=8": the whole stream through the filter
    mblock <reuse> <fid|delta> <param> <hex> <cut,...>               -> "rt=1 blocks=<hex>,<hex>,...": each non-empty piece filtered on its own
    dirty <fid|delta> <enc> <param> <hex>                            -> "ok"
    setalloc <8 sizes, encoder> <8 sizes, decoder>                   -> "ok": temporary-buffer size per filter as the harness op `params` reports it
    cov <fid> <now_pos> <hex>                                        -> branch statistics of the encoder on this buffer (model only; evidence)
  fid: x86 powerpc ia64 arm armthumb sparc arm64 riscv;  enc: 1 = encoder, 0 = decoder;  next: 0 = NULL, 1 = pass-through;
  act: 0 RUN, 1 SYNC_FLUSH, 2 FULL_FLUSH, 3 FINISH.
-/
import XzVerif.Model.Proto
import XzVerif.Model.Simple
open XzVerif XzVerif.Proto XzVerif.Bcj XzVerif.Simple

def hv (c : UInt8) : Option UInt8 :=
  if 48 ≤ c && c ≤ 57 then some (c - 48)
  else if 97 ≤ c && c ≤ 102 then some (c - 87)
  else if 65 ≤ c && c ≤ 70 then some (c - 55)
  else none

/-- tail-recursive hex parser ("-" = empty) -/
def parseHex (s : String) : Option (List UInt8) :=
  if s == "-" then some []
  else
    let u := s.toUTF8
    if u.size % 2 != 0 then none
    else
      let rec go : Nat → List UInt8 → Option (List UInt8)
        | 0, acc => some acc
        | i + 1, acc =>
          match hv u[2 * i]!, hv u[2 * i + 1]! with
          | some a, some b => go i ((a * 16 + b) :: acc)
          | _, _ => none
      go (u.size / 2) []

def hexChar (n : UInt8) : UInt8 := if n < 10 then 48 + n else 87 + n

def pushHex (acc : ByteArray) (bs : List UInt8) : ByteArray :=
  bs.foldl (fun a b => (a.push (hexChar (b / 16))).push (hexChar (b % 16))) acc

def strOfAscii (a : ByteArray) : String :=
  if a.size == 0 then "-" else String.fromUTF8! a

def toHex (bs : List UInt8) : String := strOfAscii (pushHex ByteArray.empty bs)

def fidOf : String → Option FilterId
  | "x86" => some .x86 | "powerpc" => some .powerpc | "ia64" => some .ia64 | "arm" => some .arm
  | "armthumb" => some .armthumb | "sparc" => some .sparc | "arm64" => some .arm64 | "riscv" => some .riscv
  | _ => none

def actOf : Nat → Option Action
  | 0 => some .run | 1 => some .syncFlush | 2 => some .fullFlush | 3 => some .finish | _ => none

def nextOf : String → Option Next
  | "0" => some .null | "1" => some .passthrough | _ => none

def boolOf : String → Option Bool
  | "0" => some false | "1" => some true | _ => none

structure Slice where
  inLen : Nat
  outCap : Nat
  act : Action

def sliceOf (s : String) : Option Slice :=
  match s.splitOn ":" with
  | [a, b, c] =>
    match a.toNat?, b.toNat?, c.toNat? with
    | some a, some b, some c => (actOf c).map fun act => ⟨a, b, act⟩
    | _, _, _ => none
  | _ => none

/-- The calling loop shared with the harness: the given slices, then up to 8 draining calls
    (all remaining input, 4096 bytes of output space, LZMA_FINISH) while there is progress. Stops at the first ret ≠ LZMA_OK. -/
def runStream {σ : Type} (code : σ → List UInt8 → Nat → Action → σ × Resp) (s0 : σ) (data : List UInt8)
    (slices : List Slice) : String := Id.run do
  let mut s := s0
  let mut rest := data
  let mut calls : Array String := #[]
  let mut out := ByteArray.empty
  let mut stopped := false
  for sl in slices do
    if !stopped then
      let (s', r) := code s (rest.take sl.inLen) sl.outCap sl.act
      s := s'
      rest := rest.drop r.consumed
      out := pushHex out r.out
      calls := calls.push s!"{r.ret}:{r.consumed}:{r.out.length}"
      if r.ret != 0 then stopped := true
  for _ in [0:8] do
    if !stopped then
      let (s', r) := code s rest 4096 Action.finish
      s := s'
      rest := rest.drop r.consumed
      out := pushHex out r.out
      calls := calls.push s!"{r.ret}:{r.consumed}:{r.out.length}"
      if r.ret != 0 || (r.consumed == 0 && r.out.length == 0) then stopped := true
  return s!"calls={",".intercalate calls.toList} out={strOfAscii out}"

/-- x86 encoder walk that only counts: candidates, conversions per mask value, rejections by mask / by byte 4, second loop iterations -/
def x86Cov (pc0 : BitVec 32) (bs : List UInt8) : String := Id.run do
  let mut st : X86State := ⟨0#32, pc0 - 5#32⟩
  let mut pc := pc0
  let mut l := bs
  let mut cand := 0
  let mut m0 := 0
  let mut m2 := 0
  let mut m4 := 0
  let mut m8 := 0
  let mut rejMask := 0
  let mut rejByte := 0
  let mut loop2 := 0
  for _ in [0:bs.length] do
    match l with
    | b0 :: b1 :: b2 :: b3 :: b4 :: rest =>
      if b0 != 0xE8 && b0 != 0xE9 then
        l := b1 :: b2 :: b3 :: b4 :: rest
        pc := pc + 1#32
      else
        cand := cand + 1
        let mask := x86NewMask st pc
        if x86Convertible b4 mask then
          if mask == 0#32 then m0 := m0 + 1
          else if mask == 2#32 then m2 := m2 + 1
          else if mask == 4#32 then m4 := m4 + 1
          else m8 := m8 + 1
          let dest1 := x86Src b1 b2 b3 b4 + (pc + 5#32)
          let i := maskToBitNumber.getD (mask >>> 1).toNat 0
          if mask != 0#32 && test86 (u8 (dest1 >>> (24 - i * 8))) then loop2 := loop2 + 1
          st := ⟨0#32, pc⟩
          l := rest
          pc := pc + 5#32
        else
          if test86 b4 then rejMask := rejMask + 1 else rejByte := rejByte + 1
          let mask := mask ||| 1#32
          st := ⟨if test86 b4 then mask ||| 0x10#32 else mask, pc⟩
          l := b1 :: b2 :: b3 :: b4 :: rest
          pc := pc + 1#32
    | _ => l := []
  return s!"x86.candidates={cand} x86.conv.mask0={m0} x86.conv.mask2={m2} x86.conv.mask4={m4} x86.conv.mask8={m8} x86.rejected.by-mask={rejMask} x86.rejected.by-byte4={rejByte} x86.inner-loop-2nd-iteration={loop2}"

/-- RISC-V encoder walk that only counts the branch taken at each step -/
def rvCov (bs : List UInt8) : String := Id.run do
  let mut l := bs
  let mut jalSkip := 0
  let mut jal := 0
  let mut pair := 0
  let mut notPair := 0
  let mut special := 0
  let mut notSpecial := 0
  let mut other := 0
  for _ in [0:bs.length] do
    match l with
    | b0 :: b1 :: b2 :: b3 :: b4 :: b5 :: b6 :: b7 :: rest =>
      if b0 == 0xEF then
        if u32 b1 &&& 0x0D#32 != 0#32 then
          jalSkip := jalSkip + 1; l := b2 :: b3 :: b4 :: b5 :: b6 :: b7 :: rest
        else
          jal := jal + 1; l := b4 :: b5 :: b6 :: b7 :: rest
      else if u32 b0 &&& 0x7F#32 == 0x17#32 then
        let inst := le32 b0 b1 b2 b3
        if inst &&& 0xE80#32 != 0#32 then
          if notAuipcPair inst (le32 b4 b5 b6 b7) then
            notPair := notPair + 1; l := b6 :: b7 :: rest
          else
            pair := pair + 1; l := rest
        else if notSpecialAuipc inst (inst >>> 27) then
          notSpecial := notSpecial + 1; l := b4 :: b5 :: b6 :: b7 :: rest
        else
          special := special + 1; l := rest
      else
        other := other + 1; l := b2 :: b3 :: b4 :: b5 :: b6 :: b7 :: rest
    | _ => l := []
  return s!"riscv.jal-skipped-rd={jalSkip} riscv.jal={jal} riscv.auipc-pair={pair} riscv.auipc-not-pair-skip6={notPair} riscv.special-form={special} riscv.auipc-x0-x2-not-special={notSpecial} riscv.other={other}"

/-- fixed-grid filters: number of blocks the encoder changed; ARM64 additionally BL / ADRP inside / ADRP outside the ±512 MiB window -/
def blockCov (f : FilterId) (pc0 : BitVec 32) (bs : List UInt8) : String := Id.run do
  let w := if f == FilterId.ia64 then 16 else if f == FilterId.armthumb then 2 else 4
  let (o, _, _) := filterCode f true X86State.init pc0 bs
  let mut changed := 0
  let mut a := bs
  let mut b := o
  let mut bl := 0
  let mut adrpIn := 0
  let mut adrpOut := 0
  for _ in [0:bs.length / w] do
    if a.take w != b.take w then changed := changed + 1
    if f == FilterId.arm64 then
      let v := BitVec.ofNat 32 (packLE (a.take 4))
      if v >>> 26 == 0x25#32 then bl := bl + 1
      else if v &&& 0x9F000000#32 == 0x90000000#32 then
        let src := ((v >>> 29) &&& 3#32) ||| ((v >>> 3) &&& 0x001FFFFC#32)
        if (src + 0x00020000#32) &&& 0x001C0000#32 != 0#32 then adrpOut := adrpOut + 1 else adrpIn := adrpIn + 1
    a := a.drop w
    b := b.drop w
  let nm := match f with
    | .powerpc => "powerpc" | .ia64 => "ia64" | .arm => "arm" | .armthumb => "armthumb" | .sparc => "sparc" | .arm64 => "arm64"
    | .x86 => "x86" | .riscv => "riscv"
  let extra := if f == FilterId.arm64 then s!" arm64.bl={bl} arm64.adrp-in-window={adrpIn} arm64.adrp-outside-window={adrpOut}" else ""
  return s!"{nm}.units-changed={changed}{extra}"

/-- "-" or a comma-separated list -/
def listOf {α : Type} (f : String → Option α) (s : String) : Option (List α) :=
  if s == "-" then some [] else (s.splitOn ",").mapM f

/-- Driver state: size of `lzma_simple_coder.buffer[]` per filter (encoder, decoder) in the tree under test, as reported by the
    harness op `params` and passed in with `setalloc`; empty = the reference value `2 * unfiltered_max`. Any value ≥ that gives the
    same stream bytes; following the tree keeps the per-call comparison meaningful when the buffer is retuned. -/
abbrev Alloc := List (Nat × Nat)

def allocOf (tab : Alloc) (f : FilterId) (enc : Bool) : Nat :=
  let i := match f with
    | .x86 => 0 | .powerpc => 1 | .ia64 => 2 | .arm => 3 | .armthumb => 4 | .sparc => 5 | .arm64 => 6 | .riscv => 7
  match tab[i]? with
  | some (ae, ad) => if enc then ae else ad
  | none => 2 * f.unfilteredMax

/-- the whole byte string through one filter (BCJ: one `simple_code` call with LZMA_FINISH; delta: in 4 KiB pieces); `none` = init error -/
def wholeFilter (tab : Alloc) (name : String) (enc : Bool) (param : Nat) (bs : List UInt8) : Option (List UInt8) :=
  if name == "delta" then
    if !Delta.distValid param then none
    else Id.run do
      let mut s := Delta.State.init param
      let mut rest := bs
      let mut out : Array UInt8 := #[]
      for _ in [0:bs.length / 4096 + 1] do
        let (s', o) := if enc then Delta.encode s (rest.take 4096) else Delta.decode s (rest.take 4096)
        s := s'
        rest := rest.drop 4096
        out := out.appendList o
      return some out.toList
  else
    match fidOf name with
    | none => none
    | some f =>
      match Coder.init f enc Next.passthrough (BitVec.ofNat 32 param) (allocOf tab f enc) with
      | none => none
      | some c => some (simpleCode c bs bs.length Action.finish).2.out

def stepCore (tab : Alloc) (ws : List String) : Unit × String :=
  match ws with
  | ["chain", _, name, enc, param, hx] =>
    match boolOf enc, param.toNat?, parseHex hx with
    | some e, some pa, some bs =>
      match wholeFilter tab name e pa bs with
      | none => ((), s!"init={LZMA_OPTIONS_ERROR}")
      | some o => ((), s!"init=0 out={toHex o}")
    | _, _, _ => ((), "bad-op")
  | ["mblock", _, name, param, hx, cuts] =>
    match param.toNat?, parseHex hx, listOf String.toNat? cuts with
    | some pa, some bs, some cuts => Id.run do
      let n := bs.length
      let mut start := 0
      let mut blocks : Array String := #[]
      let mut bad := false
      let mut fin := false
      for v in cuts ++ [n] do
        if !fin then
          let (stop, last) := if v < n then ((if v < start then start else v), false) else (n, true)
          let piece := (bs.drop start).take (stop - start)
          if !piece.isEmpty then
            match wholeFilter tab name true pa piece with
            | none => bad := true
            | some o => blocks := blocks.push (toHex o)
          start := stop
          if last then fin := true
      if bad then return ((), s!"init={LZMA_OPTIONS_ERROR}")
      return ((), s!"rt=1 blocks={if blocks.isEmpty then "-" else ",".intercalate blocks.toList}")
    | _, _, _ => ((), "bad-op")
  | ["dirty", _, _, _, _] => ((), "ok")
  | ["code", fid, enc, np, pm, pp, hx] =>
    match fidOf fid, boolOf enc, np.toNat?, pm.toNat?, pp.toNat?, parseHex hx with
    | some f, some e, some np, some pm, some pp, some bs =>
      let (o, n, st) := filterCode f e ⟨BitVec.ofNat 32 pm, BitVec.ofNat 32 pp⟩ (BitVec.ofNat 32 np) bs
      ((), s!"{n} {st.prevMask.toNat} {st.prevPos.toNat} {toHex o}")
    | _, _, _, _, _, _ => ((), "bad-op")
  | ["codeseq", fid, enc, np, hx, lens] =>
    match fidOf fid, boolOf enc, np.toNat?, parseHex hx, listOf String.toNat? lens with
    | some f, some e, some np, some bs, some lens => Id.run do
      let mut st := X86State.init
      let mut pos := BitVec.ofNat 32 np
      let mut done : ByteArray := ByteArray.empty
      let mut rest := bs
      let mut calls : Array String := #[]
      for len in lens do
        let (o, n, st') := filterCode f e st pos (rest.take len)
        st := st'
        pos := pos + BitVec.ofNat 32 n
        done := pushHex done (o.take n)
        rest := o.drop n ++ rest.drop len
        calls := calls.push s!"{n}:{st.prevMask.toNat}:{st.prevPos.toNat}"
      return ((), s!"{if calls.isEmpty then "-" else ",".intercalate calls.toList} {strOfAscii (pushHex done rest)}")
    | _, _, _, _, _ => ((), "bad-op")
  | ["cov", fid, np, hx] =>
    match fidOf fid, np.toNat?, parseHex hx with
    | some f, some np, some bs =>
      match f with
      | .x86 => ((), x86Cov (BitVec.ofNat 32 np) bs)
      | .riscv => ((), rvCov bs)
      | _ => ((), blockCov f (BitVec.ofNat 32 np) bs)
    | _, _, _ => ((), "bad-op")
  | ["oneshot", fid, enc, so, hx] =>
    match fidOf fid, boolOf enc, so.toNat?, parseHex hx with
    | some f, some e, some so, some bs =>
      match oneShot f e (BitVec.ofNat 32 so) bs with
      | some (o, n) => ((), s!"{n} {toHex o}")
      | none => ((), "none")
    | _, _, _, _ => ((), "bad-op")
  | ["stream", fid, enc, nx, so, hx, sls] =>
    match fidOf fid, boolOf enc, nextOf nx, so.toNat?, parseHex hx, listOf sliceOf sls with
    | some f, some e, some nx, some so, some bs, some sls =>
      match Coder.init f e nx (BitVec.ofNat 32 so) (allocOf tab f e) with
      | none => ((), s!"init={LZMA_OPTIONS_ERROR}")
      | some c => ((), "init=0 " ++ runStream simpleCode c bs sls)
    | _, _, _, _, _, _ => ((), "bad-op")
  | ["delta", enc, dist, hx, lens] =>
    match boolOf enc, dist.toNat?, parseHex hx, listOf String.toNat? lens with
    | some e, some d, some bs, some lens => Id.run do
      let mut s := Delta.State.init d
      let mut rest := bs
      let mut out := ByteArray.empty
      for len in lens ++ [bs.length] do
        let (s', o) := if e then Delta.encode s (rest.take len) else Delta.decode s (rest.take len)
        s := s'
        rest := rest.drop len
        out := pushHex out o
      return ((), strOfAscii out)
    | _, _, _, _ => ((), "bad-op")
  | ["dstream", enc, nx, dist, hx, sls] =>
    match boolOf enc, nextOf nx, dist.toNat?, parseHex hx, listOf sliceOf sls with
    | some e, some nx, some d, some bs, some sls =>
      if !Delta.distValid d then ((), s!"init={LZMA_OPTIONS_ERROR}")
      else ((), "init=0 " ++ runStream (deltaCode e nx) (Delta.State.init d) bs sls)
    | _, _, _, _, _ => ((), "bad-op")
  | ["deltax", enc, dist, hx] =>
    match boolOf enc, dist.toNat?, parseHex hx with
    | some e, some d, some bs => Id.run do
      let mut s := Delta.State.init d
      let mut rest := bs
      let mut out := ByteArray.empty
      for _ in [0:bs.length / 4096 + 1] do
        let (s', o) := if e then Delta.encode s (rest.take 4096) else Delta.decode s (rest.take 4096)
        s := s'
        rest := rest.drop 4096
        out := pushHex out o
      return ((), strOfAscii out)
    | _, _, _ => ((), "bad-op")
  | _ => ((), "bad-op")

/-- the reused-handle variants are answered like the fresh-handle ops: the model's init does not depend on earlier use -/
def step (tab : Alloc) (ws : List String) : Alloc × String :=
  match ws with
  | ["setalloc", e, d] =>
    match listOf String.toNat? e, listOf String.toNat? d with
    | some es, some ds => (List.zip es ds, "ok")
    | _, _ => (tab, "bad-op")
  | "rstream" :: rest => (tab, (stepCore tab ("stream" :: rest)).2)
  | "rdstream" :: rest => (tab, (stepCore tab ("dstream" :: rest)).2)
  | _ => (tab, (stepCore tab ws).2)

def main : IO Unit := runLoop step []
