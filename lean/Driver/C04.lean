/- Model driver for C04 (line protocol). Stub until the property's model lands. -/
def main : IO Unit := pure ()
