/-
  Model driver for C04 (line protocol, see harness/c04_idx.c). Imports Model only.
  Evaluates the index formulas the C04 theorems are about, so that the check can compare them with the REAL macros /
  inline functions on a grid:
    idx lit <lc> <lp> <pos> <prev>     -> Lzma.literalSubcoder (offset of literal_subcoder(...) from the array base)
    idx dget <pos> <size> <distance>   -> LzDict.DictPos.getIndex (index read by dict_get)
    idx dstate <len>                   -> Lzma.getDistState
-/
import XzVerif.Model.Proto
import XzVerif.Model.Lzma
import XzVerif.Model.LzDict
open XzVerif XzVerif.Proto

def step (_ : Unit) (ws : List String) : Unit × String :=
  match ws with
  | ["idx", "lit", lc, lp, pos, prev] =>
    match lc.toNat?, lp.toNat?, pos.toNat?, prev.toNat? with
    | some lc, some lp, some pos, some prev => ((), toString (Lzma.literalSubcoder lc lp pos prev))
    | _, _, _, _ => ((), "bad-op")
  | ["idx", "dget", pos, size, dist] =>
    match pos.toNat?, size.toNat?, dist.toNat? with
    | some pos, some size, some dist =>
      let p : LzDict.DictPos := { pos := pos, full := 0, limit := pos, size := size, hasWrapped := false, needReset := false }
      ((), toString (p.getIndex dist))
    | _, _, _ => ((), "bad-op")
  | ["idx", "dstate", len] =>
    match len.toNat? with
    | some len => ((), toString (Lzma.getDistState len))
    | none => ((), "bad-op")
  | _ => ((), "bad-op")

def main : IO Unit := runLoop step ()
