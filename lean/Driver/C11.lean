/-
  Model driver for C11 (line protocol, see harness/c11_main.c). Imports Model only.
  Reads the same op lines as the C harness and prints the comparable part of its answers
  (everything before " # ").
-/
import XzVerif.Model.Proto
import XzVerif.Model.LzmaCode
open XzVerif XzVerif.Proto XzVerif.LzmaCode

structure DState where
  live : Bool := false
  real : Bool := false
  strm : Stream := Stream.init
  hasMemconfig : Bool := false
  hasProgress : Bool := false
  memlimit : Nat := 5000

def optStr : Option Nat → String
  | none => "N"
  | some n => toString n

def bit (b : Bool) : String := if b then "1" else "0"

def fmtNew (op : String) (ret : Nat) (s : Stream) : String :=
  match s.internal with
  | none => s!"{op} {ret} seq=- abe=- tin={s.totalIn} tout={s.totalOut} sup=-"
  | some i => s!"{op} {ret} seq={i.sequence.name} abe={bit i.allowBufError} tin={s.totalIn} tout={s.totalOut} sup={i.supported % 32}"

/-- Resolves a buffer spec against the current pointer/length (see the harness for the grammar). -/
def applySpec (spec : String) (cur : Option Nat) (avail : Nat) : Option (Option Nat × Nat) :=
  match spec.splitOn ":" with
  | ["k"] => some (cur, avail)
  | ["s", off, len] => do
      let o ← off.toNat?
      let l ← len.toNat?
      pure (some o, l)
  | ["b", off, len] => do
      -- inside the harness's 4 GiB read-only mapping; its offsets are reported as 2^40 + off
      let o ← off.toNat?
      let l ← len.toNat?
      pure (some (2 ^ 40 + o), l)
  | ["n", len] => do
      let l ← len.toNat?
      pure (none, l)
  | ["d", x] =>
      if x.startsWith "+" then (x.drop 1).toString.toNat?.map fun v => (cur, avail + v)
      else if x.startsWith "-" then (x.drop 1).toString.toNat?.map fun v => (cur, avail - v)
      else none
  | _ => none

def applyReserved (spec : String) : Option Reserved :=
  if spec == "-" then some {} else
  match spec.splitOn ":" with
  | [idx, v] => do
      let i ← idx.toNat?
      let x ← v.toNat?
      match i with
      | 0 => pure { ptr1 := x }
      | 1 => pure { ptr2 := x }
      | 2 => pure { ptr3 := x }
      | 3 => pure { ptr4 := x }
      | 4 => pure { int2 := x }
      | 5 => pure { int3 := x }
      | 6 => pure { int4 := x }
      | 7 => pure { enum1 := x }
      | 8 => pure { enum2 := x }
      | _ => none
  | _ => none

def applyTotals (spec : String) : Option (Option (Nat × Nat)) :=
  if spec == "-" then some none else
  match spec.splitOn ":" with
  | [a, b] => do
      let x ← a.toNat?
      let y ← b.toNat?
      pure (some (x, y))
  | _ => none

/-- The stub coder of the harness: replays (c, p, r) clamped to the space it is given. -/
def stubCode (c p r : Nat) (a : InnerArgs) : Resp := ⟨min c a.inSize, min p a.outSize, r⟩

def fmtCall (r : Result) : String :=
  let s := r.strm
  let tail := match s.internal with
    | none => " seq=- abe=- sav=-"
    | some i =>
      let sav := if i.sequence.lockedAction.isSome then toString i.availIn else "-"
      s!" seq={i.sequence.name} abe={bit i.allowBufError} sav={sav}"
  let args := match r.called with
    | none => " args=-"
    | some (a, _) => s!" args={optStr a.inPtr},{a.inSize},{optStr a.outPtr},{a.outSize},{a.action},0,0"
  s!"{r.ret} nin={optStr s.nextIn} ain={s.availIn} tin={s.totalIn} nout={optStr s.nextOut} aout={s.availOut} tout={s.totalOut}" ++ tail ++ args

def stubMemconfig (limit : Nat) : MemConfig := fun newLimit =>
  if newLimit != 0 && newLimit < 1234 then (LZMA_MEMLIMIT_ERROR, 1234, limit) else (LZMA_OK, 1234, limit)

def step (st : DState) (ws : List String) : DState × String :=
  match ws with
  | [op, "stub", mask, flags] =>
    if op != "new" && op != "reinit" then (st, "bad-op") else
    if op == "reinit" && !st.live then (st, "bad-op reinit") else
    match mask.toNat?, flags.toNat? with
    | some m, some f =>
      let base := if op == "new" then Stream.init else st.strm
      let s := installCoder base (m % 32)
      ({ live := true, real := false, strm := s, hasMemconfig := f % 2 == 1, hasProgress := (f / 2) % 2 == 1, memlimit := 5000 },
       fmtNew op LZMA_OK s)
    | _, _ => (st, "bad-op new")
  | ["new", "uninit"] =>
    ({ live := true, strm := Stream.init }, fmtNew "new" LZMA_OK Stream.init)
  | ["new", "nocode", mask] =>
    match mask.toNat? with
    | some m =>
      let s0 := lzmaStrmInit Stream.init
      let s := { s0 with internal := s0.internal.map fun i => { i with supported := i.supported ||| (m % 32) } }
      ({ live := true, strm := s }, fmtNew "new" LZMA_OK s)
    | none => (st, "bad-op new")
  | [op, "real", api, _, _, _, _, _] =>
    if op != "new" && op != "reinit" then (st, "bad-op") else
    if op == "reinit" && !st.live then (st, "bad-op reinit") else
    match documentedSupported api with
    | some m =>
      -- on a re-initialisation the application resets its four buffer members (the harness replaces the regions)
      let base := if op == "new" then Stream.init
                  else { st.strm with nextIn := none, availIn := 0, nextOut := none, availOut := 0 }
      let s := installCoder base m
      ({ live := true, real := true, strm := s }, fmtNew op LZMA_OK s)
    | none => (st, "bad-op real")
  | ["end"] => ({ st with strm := lzmaEnd st.strm }, "end")
  | ["progress"] =>
    if !st.live || st.strm.internal.isNone then (st, "bad-op progress") else
    let (a, b) := lzmaGetProgress st.strm (if st.hasProgress then some (777, 888) else none)
    (st, s!"progress {a} {b}")
  | ["memusage"] =>
    if !st.live then (st, "bad-op") else
    if st.real then (st, "memusage") else
    (st, s!"memusage {lzmaMemusage st.strm (if st.hasMemconfig then some (stubMemconfig st.memlimit) else none)}")
  | ["memlimit_get"] =>
    if !st.live then (st, "bad-op") else
    if st.real then (st, "memlimit_get") else
    (st, s!"memlimit_get {lzmaMemlimitGet st.strm (if st.hasMemconfig then some (stubMemconfig st.memlimit) else none)}")
  | ["memlimit_set", n] =>
    if !st.live then (st, "bad-op") else
    if st.real then (st, "memlimit_set") else
    match n.toNat? with
    | some v =>
      let (ret, passed) := lzmaMemlimitSet st.strm (if st.hasMemconfig then some (stubMemconfig st.memlimit) else none) v
      let st' := match passed with
        | some l => if ret = LZMA_OK then { st with memlimit := l } else st
        | none => st
      (st', s!"memlimit_set {ret} {match passed with | some l => toString l | none => "-"}")
    | none => (st, "bad-op")
  | ["call", action, inSpec, outSpec, resv, tot, c, p, r] =>
    if !st.live then (st, "bad-op call") else
    match action.toNat?, applySpec inSpec st.strm.nextIn st.strm.availIn,
          applySpec outSpec st.strm.nextOut st.strm.availOut, applyReserved resv, applyTotals tot,
          c.toNat?, p.toNat?, r.toNat? with
    | some a, some (ni, ai), some (no, ao), some rs, some t, some c, some p, some r =>
      let call : Call := { action := a, nextIn := ni, availIn := ai, nextOut := no, availOut := ao,
                           reserved := rs, totals := t, code := stubCode c p r }
      let res := LzmaCode.step st.strm call
      ({ st with strm := res.strm }, fmtCall res)
    | _, _, _, _, _, _, _, _ => (st, "bad-op spec")
  | _ => (st, "bad-op")

def main : IO Unit := runLoop step {}
