/-
  Model driver for C14 (line protocol, see harness/c14_main.c). Imports Model + Gen only.
  For `crc32 <align> <init> <hex>` it prints "<generic model over the Gen tables> <reference> <reference>",
  which must equal the harness line "<C generic> <C arch-optimised> <C public>".
-/
import XzVerif.Model.Proto
import XzVerif.Model.Crc
import XzVerif.Gen.C14
open XzVerif XzVerif.Proto XzVerif.Crc

def step (_ : Unit) (ws : List String) : Unit × String :=
  match ws with
  | ["crc32", al, ini, hx] =>
    match al.toNat?, ini.toNat?, bytesOfHex hx with
    | some a, some i, some bs =>
      let r := (crc32Ref bs (BitVec.ofNat 32 i)).toNat
      let g := (crc32Generic Gen.C14.crc32Table a bs (BitVec.ofNat 32 i)).toNat
      ((), s!"{g} {r} {r}")
    | _, _, _ => ((), "bad-op")
  | ["crc64", al, ini, hx] =>
    match al.toNat?, ini.toNat?, bytesOfHex hx with
    | some a, some i, some bs =>
      let r := (crc64Ref bs (BitVec.ofNat 64 i)).toNat
      let g := (crc64Generic Gen.C14.crc64Table a bs (BitVec.ofNat 64 i)).toNat
      ((), s!"{g} {r} {r}")
    | _, _, _ => ((), "bad-op")
  | "crc32s" :: ini :: pieces =>
    match ini.toNat?, pieces.mapM bytesOfHex with
    | some i, some ps => ((), s!"{(crc32Ref ps.flatten (BitVec.ofNat 32 i)).toNat}")
    | _, _ => ((), "bad-op")
  | "crc64s" :: ini :: pieces =>
    match ini.toNat?, pieces.mapM bytesOfHex with
    | some i, some ps => ((), s!"{(crc64Ref ps.flatten (BitVec.ofNat 64 i)).toNat}")
    | _, _ => ((), "bad-op")
  | _ => ((), "bad-op")

def main : IO Unit := runLoop step ()
