/-
  Model driver for C14 (line protocol, see harness/c14_main.c). Imports Model + Gen only.
  For `crc32 <align> <init> <hex>` it prints "<generic model over the Gen tables> <CLMUL model over the Gen constants>
  <reference>", which must equal the harness line "<C generic> <C arch-optimised> <C public>".
  For `sha256…` it prints "<model of sha256.c over the Gen constants, fed piece by piece> <FIPS reference of the
  concatenation>", which must equal "<lzma_check_* digest> <lzma_sha256_* digest>".
-/
import XzVerif.Model.Proto
import XzVerif.Model.Crc
import XzVerif.Model.Sha256
import XzVerif.Model.Check
import XzVerif.Model.CrcClmul
import XzVerif.Gen.C14
open XzVerif XzVerif.Proto XzVerif.Crc

def genK : List Sha256.W32 := Gen.C14.sha256K.map (BitVec.ofNat 32)
def genInit : List Sha256.W32 := Gen.C14.sha256Init.map (BitVec.ofNat 32)

/-- parameters of the CLMUL model from the constants the compiled code uses (empty lists: no CLMUL code in the build) -/
def clmulP32 : Clmul.Params := Clmul.Params.ofConsts false Gen.C14.clmul32 Gen.C14.clmulVmasks
def clmulP64 : Clmul.Params := Clmul.Params.ofConsts true Gen.C14.clmul64 Gen.C14.clmulVmasks

def impl : Check.Impl :=
  { crc32 := crc32Ref, crc64 := crc64Ref, shaK := genK, shaInit := genInit }

/-- the harness fills the check state with 0xAA before `lzma_check_init` -/
def state0 : Check.State :=
  { buf := List.replicate 64 0xAA, crc32 := 0xAAAAAAAA#32, crc64 := 0xAAAAAAAAAAAAAAAA#64,
    shaState := List.replicate 8 0xAAAAAAAA#32, shaSize := 0xAAAAAAAAAAAAAAAA }

def shaLine (pieces : List (List UInt8)) : String :=
  let viaApi := Check.run impl 10 state0 pieces
  let direct := Sha256.sha256C genK genInit (List.replicate 64 0x55) pieces
  let ref := Sha256.sha256 pieces.flatten
  -- column 1: dispatch model; column 2: the FIPS reference, but only if the direct model of sha256.c agrees with it
  s!"{hexOfBytes viaApi} {if direct == ref then hexOfBytes ref else "model-of-sha256.c-differs-from-FIPS:" ++ hexOfBytes direct}"

def joinNat (l : List Nat) : String := ",".intercalate (l.map toString)

def step (_ : Unit) (ws : List String) : Unit × String :=
  match ws with
  | ["crc32", al, ini, hx] =>
    match al.toNat?, ini.toNat?, bytesOfHex hx with
    | some a, some i, some bs =>
      let r := (crc32Ref bs (BitVec.ofNat 32 i)).toNat
      let g := (crc32Generic Gen.C14.crc32Table a bs (BitVec.ofNat 32 i)).toNat
      let c := if Gen.C14.clmul32.isEmpty then r else (Clmul.crc32Clmul clmulP32 bs (BitVec.ofNat 32 i)).toNat
      ((), s!"{g} {c} {r}")
    | _, _, _ => ((), "bad-op")
  | ["crc64", al, ini, hx] =>
    match al.toNat?, ini.toNat?, bytesOfHex hx with
    | some a, some i, some bs =>
      let r := (crc64Ref bs (BitVec.ofNat 64 i)).toNat
      let g := (crc64Generic Gen.C14.crc64Table a bs (BitVec.ofNat 64 i)).toNat
      let c := if Gen.C14.clmul64.isEmpty then r else (Clmul.crc64Clmul clmulP64 bs (BitVec.ofNat 64 i)).toNat
      ((), s!"{g} {c} {r}")
    | _, _, _ => ((), "bad-op")
  | "crc32s" :: ini :: pieces =>
    match ini.toNat?, pieces.mapM bytesOfHex with
    | some i, some ps => ((), s!"{(crc32Ref ps.flatten (BitVec.ofNat 32 i)).toNat}")
    | _, _ => ((), "bad-op")
  | "crc64s" :: ini :: pieces =>
    match ini.toNat?, pieces.mapM bytesOfHex with
    | some i, some ps => ((), s!"{(crc64Ref ps.flatten (BitVec.ofNat 64 i)).toNat}")
    | _, _ => ((), "bad-op")
  | ["sha256", hx] =>
    match bytesOfHex hx with
    | some bs => ((), shaLine [bs])
    | none => ((), "bad-op")
  | "sha256s" :: pieces =>
    match pieces.mapM bytesOfHex with
    | some ps => ((), shaLine ps)
    | none => ((), "bad-op")
  | "check" :: ids :: pieces =>
    match ids.toNat?, pieces.mapM bytesOfHex with
    | some id0, some ps =>
      let id := id0 % 4294967296      -- the harness passes (unsigned int)id
      -- sizes / supported flags come from the model (file-format.txt 2.1.1.2); the regenerated tables of check.c are
      -- bridged to them by theorems in Props/C14.lean
      let sup := Check.isSupported id
      let size := Check.checkSize id
      ((), s!"{size} {if sup then 1 else 0} {hexOfBytes (Check.run impl id state0 ps)}")
    | _, _ => ((), "bad-op")
  -- other build configurations (harness/c14_cfg_main.c, a fresh process per line): pieces chained from a possibly
  -- non-zero initial value (first calls of the process), one call, the same call again — all the reference value
  | "cfg32" :: ini :: pieces | "cfgsmall32" :: ini :: pieces =>
    match ini.toNat?, pieces.mapM bytesOfHex with
    | some i, some ps => let r := (crc32Ref ps.flatten (BitVec.ofNat 32 i)).toNat; ((), s!"{r} {r} {r}")
    | _, _ => ((), "bad-op")
  | "cfg64" :: ini :: pieces | "cfgsmall64" :: ini :: pieces =>
    match ini.toNat?, pieces.mapM bytesOfHex with
    | some i, some ps => let r := (crc64Ref ps.flatten (BitVec.ofNat 64 i)).toNat; ((), s!"{r} {r} {r}")
    | _, _ => ((), "bad-op")
  -- batch sweep op of the configuration harnesses: generic entry, arch entry, public, public over two pieces
  | ["cfga32", _, ini, hx] =>
    match ini.toNat?, bytesOfHex hx with
    | some i, some bs => let r := (crc32Ref bs (BitVec.ofNat 32 i)).toNat; ((), s!"{r} {r} {r} {r}")
    | _, _ => ((), "bad-op")
  | ["cfga64", _, ini, hx] =>
    match ini.toNat?, bytesOfHex hx with
    | some i, some bs => let r := (crc64Ref bs (BitVec.ofNat 64 i)).toNat; ((), s!"{r} {r} {r} {r}")
    | _, _ => ((), "bad-op")
  -- buffer ending at a page end (harness places it there): address mod 8 = (-size) mod 8 for the generic model
  | ["crc32g", ini, hx] =>
    match ini.toNat?, bytesOfHex hx with
    | some i, some bs =>
      let r := (crc32Ref bs (BitVec.ofNat 32 i)).toNat
      let g := (crc32Generic Gen.C14.crc32Table ((8 - bs.length % 8) % 8) bs (BitVec.ofNat 32 i)).toNat
      let c := if Gen.C14.clmul32.isEmpty then r else (Clmul.crc32Clmul clmulP32 bs (BitVec.ofNat 32 i)).toNat
      ((), s!"{g} {c} {r}")
    | _, _ => ((), "bad-op")
  | ["crc64g", ini, hx] =>
    match ini.toNat?, bytesOfHex hx with
    | some i, some bs =>
      let r := (crc64Ref bs (BitVec.ofNat 64 i)).toNat
      let g := (crc64Generic Gen.C14.crc64Table ((8 - bs.length % 8) % 8) bs (BitVec.ofNat 64 i)).toNat
      let c := if Gen.C14.clmul64.isEmpty then r else (Clmul.crc64Clmul clmulP64 bs (BitVec.ofNat 64 i)).toNat
      ((), s!"{g} {c} {r}")
    | _, _ => ((), "bad-op")
  | ["small32", ini, hx] =>
    match ini.toNat?, bytesOfHex hx with
    | some i, some bs => ((), s!"{(crcSmall P32 bs (BitVec.ofNat 32 i)).toNat}")
    | _, _ => ((), "bad-op")
  | ["small64", ini, hx] =>
    match ini.toNat?, bytesOfHex hx with
    | some i, some bs => ((), s!"{(crcSmall P64 bs (BitVec.ofNat 64 i)).toNat}")
    | _, _ => ((), "bad-op")
  | ["smalltab32"] => ((), joinNat ((genTable P32 1).getD 0 []))
  | ["smalltab64"] => ((), joinNat ((genTable P64 1).getD 0 []))
  | _ => ((), "bad-op")

def main : IO Unit := runLoop step ()
