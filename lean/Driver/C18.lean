/-
  Model driver for C18 (line protocol, see tools/props/c18.py). Imports Model + Gen only.

  One line = one tool invocation:

    xz <mode d|t> <stdout 0|1> <force> <nosparse> <nowarn> <single> <verbosity> <kind r|p> <append> <nonblock> <offset> <content> <nfiles>
       { <fmtKnown> <initWarn> <initRet> <warn> <ret> <isLzip> <trailing> <out> <raw> }*
      -> exit=<n> printed=<diagnostic lines> trace=<events> off=<n> flags=<a><n> size=<n> content=<bytes> created=<bytes|none>;… ctrace=<events>;…

    xzdec <lzmadec 0|1> <kind> <append> <nonblock> <offset> <content> <nfiles> { <ret> <trailing> <out> }*
      -> exit=<n> off=<n> size=<n> content=<bytes>

  Bytes travel run-length coded: tokens joined by ',' — `z<N>` N zero bytes, `p<N>:<a>` N non-zero pattern bytes
  ((a+i) % 251 + 1), `h<hex>` literal; `-` is the empty string. Output bytes are canonical: every maximal zero run of
  at least 32 bytes is a `z` token, everything between is one `h` token.
  Events: F<append><nonblock> (F_SETFL), E<ret> (lseek SEEK_END), C<delta>:<ret> (lseek SEEK_CUR), W<n> (write).
-/
import XzVerif.Model.Proto
import XzVerif.Model.Sparse
import XzVerif.Model.SparseCfg
open XzVerif XzVerif.Proto XzVerif.Sparse

def cfg : Cfg := genCfg

def patBytes (n a : Nat) : List UInt8 :=
  (List.range n).map fun i => UInt8.ofNat ((a + i) % 251 + 1)

def parseTok (t : String) : Option (List UInt8) :=
  match t.toList with
  | 'z' :: r => (String.ofList r).toNat?.map fun n => List.replicate n 0
  | 'p' :: r =>
    match (String.ofList r).splitOn ":" with
    | [n, a] => do
      let n ← n.toNat?
      let a ← a.toNat?
      pure (patBytes n a)
    | _ => none
  | 'h' :: r => bytesOfHexChars r
  | _ => none

def parseRle (s : String) : Option (List UInt8) :=
  if s == "-" then some []
  else (s.splitOn ",").foldlM (fun acc t => do let b ← parseTok t; pure (acc ++ b)) []

structure RleSt where
  zrun : Nat
  lit : List UInt8          -- reversed
  toks : List String        -- reversed

def rleFlushLit (st : RleSt) : RleSt :=
  if st.lit.isEmpty then st else { st with lit := [], toks := ("h" ++ hexOfBytes st.lit.reverse) :: st.toks }

def rleEndRun (st : RleSt) : RleSt :=
  if st.zrun ≥ 32 then
    let st := rleFlushLit st
    { st with zrun := 0, toks := ("z" ++ toString st.zrun) :: st.toks }
  else { st with zrun := 0, lit := List.replicate st.zrun 0 ++ st.lit }

def rleStep (st : RleSt) (b : UInt8) : RleSt :=
  if b == 0 then { st with zrun := st.zrun + 1 }
  else
    let st := rleEndRun st
    { st with lit := b :: st.lit }

def toRle (bs : List UInt8) : String :=
  if bs.isEmpty then "-"
  else
    let st := rleFlushLit (rleEndRun (bs.foldl rleStep { zrun := 0, lit := [], toks := [] }))
    String.intercalate "," st.toks.reverse

def b01 (b : Bool) : String := if b then "1" else "0"

def evStr : Ev → String
  | .setfl a n => s!"F{b01 a}{b01 n}"
  | .seekEnd r => s!"E{r}"
  | .seekCur d r => s!"C{d}:{r}"
  | .write n => s!"W{n}"

def traceStr (t : List Ev) : String :=
  if t.isEmpty then "-" else String.intercalate "," (t.map evStr)

def parseBool (s : String) : Option Bool :=
  if s == "1" then some true else if s == "0" then some false else none

def parseDest (kind app nb off content : String) : Option Dest := do
  let k ← if kind == "r" then some Kind.regular else if kind == "p" then some Kind.other else none
  let a ← parseBool app
  let n ← parseBool nb
  let o ← off.toNat?
  let c ← parseRle content
  pure { kind := k, content := c, offset := o, flags := { append := a, nonblock := n } }

def parseXzFiles : Nat → List String → Option (List FileIn)
  | 0, [] => some []
  | n + 1, fk :: iw :: ir :: w :: r :: at_ :: tr :: out :: raw :: rest => do
    let fk ← parseBool fk
    let iw ← iw.toNat?
    let ir ← ir.toNat?
    let w ← w.toNat?
    let r ← r.toNat?
    let at_ ← parseBool at_
    let tr ← parseBool tr
    let out ← parseRle out
    let raw ← parseRle raw
    let more ← parseXzFiles n rest
    pure ({ fmtKnown := fk, initWarn := iw, initRet := Ret.ofCode ir,
            steps := canonicalSteps cfg w out (Ret.ofCode r), isLzip := at_, trailing := tr, raw := raw } :: more)
  | _, _ => none

def parseDecFiles : Nat → List String → Option (List (List UInt8 × Ret × Bool))
  | 0, [] => some []
  | n + 1, r :: tr :: out :: rest => do
    let r ← r.toNat?
    let tr ← parseBool tr
    let out ← parseRle out
    let more ← parseDecFiles n rest
    pure ((out, Ret.ofCode r, tr) :: more)
  | _, _ => none

def runXz (ws : List String) : Option String :=
  match ws with
  | mode :: so :: force :: nosp :: nowarn :: single :: verb :: kind :: app :: nb :: off :: content :: nf :: rest => do
    let m ← if mode == "d" then some Mode.decompress else if mode == "t" then some Mode.test else none
    let o : Opts := { mode := m, toStdout := (← parseBool so), force := (← parseBool force),
                      noSparse := (← parseBool nosp), noWarn := (← parseBool nowarn), single := (← parseBool single), verbosity := (← verb.toNat?) }
    let d ← parseDest kind app nb off content
    let files ← parseXzFiles (← nf.toNat?) rest
    let r := xzRun cfg o files d
    let created := String.intercalate ";" (r.created.map fun c => match c with | none => "none" | some b => toRle b)
    let ctr := String.intercalate ";" (r.createdTraces.map traceStr)
    pure s!"exit={xzExit o r} printed={printedCount o.verbosity r.msgs} trace={traceStr r.trace} off={r.out.offset} flags={b01 r.out.flags.append}{b01 r.out.flags.nonblock} size={r.out.content.length} content={toRle r.out.content} created={created} ctrace={ctr}"
  | _ => none

def runXzdec (ws : List String) : Option String :=
  match ws with
  | lz :: kind :: app :: nb :: off :: content :: nf :: rest => do
    let lz ← parseBool lz
    let d ← parseDest kind app nb off content
    let files ← parseDecFiles (← nf.toNat?) rest
    let (bytes, ex) := xzdecRun lz files
    let d' := xzdecDeliver d bytes
    pure s!"exit={ex} off={d'.offset} size={d'.content.length} content={toRle d'.content}"
  | _ => none

def parseEv (s : String) : Option Ev :=
  match s.toList with
  | 'W' :: r => (String.ofList r).toNat?.map Ev.write
  | 'E' :: r => (String.ofList r).toNat?.map Ev.seekEnd
  | 'F' :: a :: b :: [] => some (Ev.setfl (a == '1') (b == '1'))
  | 'C' :: r =>
    match (String.ofList r).splitOn ":" with
    | [d, x] => do pure (Ev.seekCur (← d.toNat?) (← x.toNat?))
    | _ => none
  | _ => none

/-- `accept <events> <bytes>`: is the trace a partition of the bytes into written ranges and skipped zero ranges? -/
def runAccept (ws : List String) : Option String :=
  match ws with
  | [tr, bytes] => do
    let evs ← if tr == "-" then some [] else (tr.splitOn ",").mapM parseEv
    let W ← parseRle bytes
    pure (if traceDelivers evs W false then "accept" else "reject")
  | _ => none

def step (_ : Unit) (ws : List String) : Unit × String :=
  match ws with
  | "xz" :: rest => ((), (runXz rest).getD "bad-op")
  | "xzdec" :: rest => ((), (runXzdec rest).getD "bad-op")
  | "accept" :: rest => ((), (runAccept rest).getD "bad-op")
  | ["cfg"] => ((), s!"bufSize={cfg.bufSize} pendingMax={cfg.pendingMax} failFlush={b01 cfg.failFlush}")
  | _ => ((), "bad-op")

def main : IO Unit := runLoop step ()
