/-
  Model driver for C10 (trace inclusion). Imports Model + Gen only.

  Input line :  <failspec> <step> <step> ... @ rets=<r,r,...> T=<trace>
                (the op line given to harness/c10_main.c, then the harness's own answer)
  Output line:  "ok steps=<n> events=<m>"                       the model accepts the trace
                "skip-mt"                                       threaded scenario (not modelled)
                "MISMATCH step=<i> <what>"                      the model does not accept it
  The oracle `fail : Nat → Bool` is read off the trace itself (the attempts marked `x`), so any failure
  pattern the harness produced (k-th, from-k, random subset) is replayed exactly.
-/
import XzVerif.Model.Proto
import XzVerif.Model.Alloc
import XzVerif.Gen.C10
open XzVerif XzVerif.Proto XzVerif.Alloc

def SZ : Sizes := Gen.C10.sizes

/-- harness event -/
inductive HEv where
  | a (sz : Nat) | x (sz : Nat) | f (id : Nat) | bad (s : String)
deriving Repr

def splitOnC (s : String) (c : Char) : List String := s.splitOn (String.singleton c)

def parseFilter (s : String) : Option Filter :=
  match splitOnC s ',' with
  | ["lzma2", d, mf, n, m] => do pure (.lzma true (← d.toNat?) (← mf.toNat?) (← n.toNat?) (← m.toNat?))
  | ["lzma1", d, mf, n, m] => do pure (.lzma false (← d.toNat?) (← mf.toNat?) (← n.toNat?) (← m.toNat?))
  | ["delta", d] => do pure (.delta (← d.toNat?))
  | ["bcj", name, off] =>
    let w := match name with
      | "x86" => some 0 | "powerpc" => some 1 | "ia64" => some 2 | "arm" => some 3
      | "armthumb" => some 4 | "arm64" => some 5 | "sparc" => some 6 | "riscv" => some 7 | _ => none
    match w with
    | none => none
    | some w => if off == "-1" then some (.bcj w none) else do pure (.bcj w (some (← off.toNat?)))
  | _ => none

def parseChain (s : String) : Option Chain := (splitOnC s '+').mapM parseFilter

def log2? (n : Nat) : Nat := Nat.log2 n

def parseRecipe (s : String) : Option Recipe :=
  match splitOnC s '/' with
  | ["xz", _, c, len, nb, ns] => do
    -- the recipe builder feeds `len` bytes per Block; an empty input creates no Block at all
    let l ← len.toNat?
    let nb' ← nb.toNat?
    pure (.xz (← parseChain c) (if l == 0 then 0 else nb') (← ns.toNat?))
  | ["badxz", c] => do pure (.xz (← parseChain c) 1 1)     -- one Block Header with an unusable chain
  | ["lzma", f, _] => do
    match ← parseFilter f with
    | .lzma _ d .. => pure (.lzma d)
    | _ => none
  | ["lz", lg, _] => do pure (.lz (2 ^ (← lg.toNat?)))
  | ["idx", n] => do pure (.idx (← n.toNat?))
  | ["raw", c, _] => do pure (.raw (← parseChain c))
  | ["blk", c, _, _] => do pure (.blk (← parseChain c))
  | ["mlz", f, _] => do
    match ← parseFilter f with
    | .lzma _ d .. => pure (.mlz d)
    | _ => none
  | _ => none

/-- driver-level mirror of the harness's per-scenario state -/
structure DState where
  w : World := {}
  h : Heap := {}
  usable : Bool := false
  finished : Bool := false   -- the encoder has returned STREAM_END for LZMA_FINISH
  kind : Nat := 0            -- init id of the coder on the handle (0 = none)
  chain : Chain := []        -- chain of the current stream encoder
  recipe : Option Recipe := none
  notice : Nat := 0          -- LZMA_NO_CHECK (2) / LZMA_GET_CHECK (4) that the decoder reports after the Stream Header, 0 = none
  paused : Bool := false     -- the last decode step stopped at a recoverable code
  slot : Nat := 0

/-- "the return code of this step is not modelled" (only that it does nothing with the allocator) -/
def RET_ANY : Ret := 96

def isEncoderKind (k : Nat) : Bool := k == I_SENC || k == I_AENC || k == I_MLENC || k == I_BENC || k == 200
def isDecoderKind (k : Nat) : Bool :=
  k == I_SDEC || k == I_AUTODEC || k == I_ALONEDEC || k == I_LZIPDEC || k == 201 || k == I_BDEC || k == I_MLDEC
    || k == I_IDEC || k == I_FIDEC

/-- what a step asks the model to do -/
inductive Act where
  | init (op : Op) (kind : Nat) (chain : Chain) (recipe : Option Recipe) (slot : Nat) (notice : Nat := 0)
  | encode (act len : Nat)
  | iencode
  | dcode
  | upd (c : Chain)
  | plain (op : Op)            -- non-stream API: the return code is the model's
  | end_
  | dstop
  | dcont
  | memlimit (n : Nat)
  | noop                       -- refused / erroneous call without allocator activity (memlimit, bad action): ret not modelled
  | bad

def strMeta (m : String) : Option (Nat × Option Nat × Bool) :=
  -- "p" preset (1 alloc) | "c<n>" n filters ok | "c<n>p" parse error in the n-th (last allocated) | "c<n>v" validation error
  match m.toList with
  | ['p'] => some (1, none, false)
  | 'c' :: rest =>
    let digits := rest.takeWhile Char.isDigit
    let tail := rest.dropWhile Char.isDigit
    match (String.ofList digits).toNat? with
    | none => none
    | some n =>
      match tail with
      | [] => some (n, none, false)
      | ['p'] => some (n, some (n - 1), false)
      | ['v'] => some (n, none, true)
      | _ => none
  | _ => none

/-- which notification a stream decoder with these flags gives for this .xz recipe (TELL_NO_CHECK = 1, TELL_ANY_CHECK = 4) -/
def noticeOf (flags : Nat) (recipe : String) : Nat :=
  match splitOnC recipe '/' with
  | kind :: check :: _ =>
    if kind != "xz" && kind != "badxz" then 0
    else if flags % 2 == 1 && check == "none" then 2
    else if flags / 4 % 2 == 1 then 4 else 0
  | _ => 0

def parseStep (tok : String) : Act :=
  let a := splitOnC tok ':'
  let chainOr (s : String) (k : Chain → Act) : Act := match parseChain s with | some c => k c | none => .bad
  let recOr (s : String) (k : Recipe → Act) : Act := match parseRecipe s with | some r => k r | none => .bad
  match a with
  | ["easyenc", _, _, c] => chainOr c fun c => .init (.streamEncoder c) I_SENC c none 0
  | ["senc", c, _] => chainOr c fun c => .init (.streamEncoder c) I_SENC c none 0
  | ["aenc", f] => chainOr f fun c => match c with | [f] => .init (.aloneEncoder f) I_AENC [] none 0 | _ => .bad
  | ["mlenc", f] => chainOr f fun c => match c with | [f] => .init (.microEncoder f) I_MLENC [] none 0 | _ => .bad
  | ["renc", c] => chainOr c fun c => .init (.rawEncoder c) 200 [] none 0
  | ["benc", c, _] => chainOr c fun c => .init (.blockEncoder c) I_BENC [] none 0
  | ["ienc", s] => match s.toNat? with | some s => .init .indexEncoder I_IENC [] none s | none => .bad
  | ["sdec", f, r] => recOr r fun rc => .init (.streamDecoder NOLIMIT) I_SDEC [] (some rc) 0 (noticeOf (f.toNat?.getD 0) r)
  | ["adec", f, r] => recOr r fun rc => .init (.autoDecoder NOLIMIT) I_AUTODEC [] (some rc) 0 (noticeOf (f.toNat?.getD 0) r)
  | ["sdecml", f, ml, r] => recOr r fun rc =>
      match ml.toNat? with
      | some ml => .init (.streamDecoder ml) I_SDEC [] (some rc) 0 (noticeOf (f.toNat?.getD 0) r)
      | none => .bad
  | ["adecml", f, ml, r] => recOr r fun rc =>
      match ml.toNat? with
      | some ml => .init (.autoDecoder ml) I_AUTODEC [] (some rc) 0 (noticeOf (f.toNat?.getD 0) r)
      | none => .bad
  | ["alonedec", _, r] => recOr r fun r => .init .aloneDecoder I_ALONEDEC [] (some r) 0
  | ["lzipdec", _, r] => recOr r fun r => .init .lzipDecoder I_LZIPDEC [] (some r) 0
  | ["rdec", r] => recOr r fun r => match r with | .raw c => .init (.rawDecoder c) 201 [] (some r) 0 | _ => .bad
  | ["bdec", r] => recOr r fun r => match r with | .blk c => .init (.blockDecoder c) I_BDEC [] (some r) 0 | _ => .bad
  | ["mldec", r] => recOr r fun r => .init .microDecoder I_MLDEC [] (some r) 0
  | ["idec", s, r] => recOr r fun r => match s.toNat? with | some s => .init .indexDecoder I_IDEC [] (some r) s | none => .bad
  | ["fidec", s, r] => recOr r fun r => match s.toNat? with | some s => .init .fileInfoDecoder I_FIDEC [] (some r) s | none => .bad
  | ["run", n] => match n.toNat? with | some n => .encode 0 n | none => .bad
  | ["sync", n] => match n.toNat? with | some n => .encode 1 n | none => .bad
  | ["full", n] => match n.toNat? with | some n => .encode 2 n | none => .bad
  | ["finish", n] => match n.toNat? with | some n => .encode 3 n | none => .bad
  | ["sdecbad"] => .init (.badFlagsInit 0) 0 [] none 0
  | ["lzipdecbad"] => .init (.badFlagsInit 1) 0 [] none 0
  | ["adecbad"] => .init (.badFlagsInit 2) 0 [] none 0
  | ["memlimit", n] => match n.toNat? with | some n => .memlimit n | none => .bad
  | ["badaction"] => .noop
  | ["iencode"] => .iencode
  | ["dcode"] => .dcode
  | ["dstop"] => .dstop
  | ["dcont"] => .dcont
  | ["upd", c] => chainOr c .upd
  | ["end"] => .end_
  | ["ix_init", s] => match s.toNat? with | some s => .plain (.ixInit s) | none => .bad
  | ["ix_app", s, n] => match s.toNat?, n.toNat? with | some s, some n => .plain (.ixAppend s n) | _, _ => .bad
  | ["ix_cat", d, s] => match d.toNat?, s.toNat? with | some d, some s => .plain (.ixCat d s) | _, _ => .bad
  | ["ix_dup", d, s] => match d.toNat?, s.toNat? with | some d, some s => .plain (.ixDup d s) | _, _ => .bad
  | ["ix_end", s] => match s.toNat? with | some s => .plain (.ixEnd s) | none => .bad
  | ["ix_bufdec", s, r] =>
    match s.toNat?, parseRecipe r with | some s, some (.idx n) => .plain (.ixBufDecode s n) | _, _ => .bad
  | ["fcopy", c] => chainOr c fun c => .plain (.filtersCopy c)
  | ["bhdec", c] => chainOr c fun c => .plain (.blockHeaderDecode c)
  | ["ffdec", f] => chainOr f fun c => match c with | [f] => .plain (.propsDecode f) | _ => .bad
  | ["propdec", f] => chainOr f fun c => match c with | [f] => .plain (.propsDecode f) | _ => .bad
  | ["str2f", _, _, m] =>
    match strMeta m with
    | some (n, perr, v) => .plain (.strToFilters n [] perr v)
    | none => .bad
  | ["f2str", _, _] => .plain .strAlloc
  | ["strlist", _] => .plain .strAlloc
  | ["sbufdec", _, r] => match parseRecipe r with | some (.xz c b s) => .plain (.streamBufferDecode c b s) | _ => .bad
  | ["sbufenc", c, _, _] => chainOr c fun c => .plain (.streamBufferEncode c)
  | ["ebufenc", _, _, _, c] => chainOr c fun c => .plain (.streamBufferEncode c)
  | ["rbufenc", c, _] => chainOr c fun c => .plain (.rawBufferCode true c)
  | ["rbufdec", c, _] => chainOr c fun c => .plain (.rawBufferCode false c)
  | ["bbufenc", c, _, _] => chainOr c fun c => .plain (.rawBufferCode true c)
  | ["bbufdec", c, _, _] => chainOr c fun c => .plain (.blockBufferDecode c)
  | _ => .bad

/-- the sizes of `lzma_str_to_filters` allocations are not modelled (they depend on the filter names) -/
def wildcardSizes (op : Op) : Bool := match op with | .strToFilters .. => true | _ => false

def runM {α} (m : M α) (fail : Oracle) (h : Heap) : α × Heap := m fail h

/-- run one step on the model; returns the expected return code -/
def stepModel (fail : Oracle) (st : DState) (act : Act) : Ret × DState :=
  match act with
  | .init op kind chain recipe slot notice =>
    -- index encoder needs its Index, index / file-info decoders need an empty slot; otherwise the harness skips
    let blocked := match op with
      | .indexEncoder => (getIx st.w.ix slot).isNone
      | .indexDecoder => (getIx st.w.ix slot).isSome
      | .fileInfoDecoder => (getIx st.w.ix slot).isSome
      | _ => false
    if blocked then (RET_SKIP, st) else
    let (r, h') := runM (runOp SZ st.w op) fail st.h
    if r.1 == OK then
      (OK, { st with w := r.2, h := h', usable := true, finished := false, paused := false, notice := notice, kind := kind,
                     chain := chain, recipe := recipe, slot := slot })
    else
      (r.1, { st with w := r.2, h := h', usable := false, finished := false, paused := false, kind := 0, recipe := recipe, slot := slot })
  | .encode act len =>
    if !st.usable || !isEncoderKind st.kind then (RET_SKIP, st) else
    let (r, h') := runM (runOp SZ st.w (.encode st.chain act len)) fail st.h
    if r.1 == OK then
      (if act == 0 then OK else STREAM_END, { st with w := r.2, h := h', usable := act != 3, finished := act == 3 })
    else (r.1, { st with w := r.2, h := h', usable := false })
  | .iencode =>
    if !st.usable || st.kind != I_IENC then (RET_SKIP, st) else (STREAM_END, { st with usable := false })
  | .dcode =>
    if !st.usable || !isDecoderKind st.kind then (RET_SKIP, st) else
    match st.recipe with
    | none => (RET_SKIP, st)
    | some rc =>
      let (r, h') := runM (runOp SZ st.w (.decode rc st.slot)) fail st.h
      (r.1, { st with w := r.2, h := h', usable := false, paused := r.1 == MEMLIMIT_ERROR })
  | .dstop =>
    if !st.usable || !isDecoderKind st.kind then (RET_SKIP, st) else
    match st.recipe with
    | none => (RET_SKIP, st)
    | some rc =>
      if st.notice != 0 && (st.kind == I_SDEC || st.kind == I_AUTODEC) then
        -- the decode stops at the notification right after the Stream Header: nothing of the Blocks has happened yet
        -- (the auto decoder has already created its stream decoder)
        let pre := match rc with | .xz c _ s => Recipe.xz c 0 s | r => r
        let (r, h') := runM (runOp SZ st.w (.decode pre st.slot)) fail st.h
        if r.1 == STREAM_END then (st.notice, { st with w := r.2, h := h', usable := false, paused := true })
        else (r.1, { st with w := r.2, h := h', usable := false })
      else
        let (r, h') := runM (runOp SZ st.w (.decode rc st.slot)) fail st.h
        (r.1, { st with w := r.2, h := h', usable := false, paused := r.1 == MEMLIMIT_ERROR })
  | .dcont =>
    if !st.paused || !isDecoderKind st.kind then (RET_SKIP, st) else
    match st.recipe with
    | none => (RET_SKIP, st)
    | some rc =>
      let (r, h') := runM (runOp SZ st.w (.decode rc st.slot)) fail st.h
      (r.1, { st with w := r.2, h := h', paused := r.1 == MEMLIMIT_ERROR })
  | .memlimit n =>
    if st.w.strm.isNone then (RET_SKIP, st) else
    let (r, h') := runM (runOp SZ st.w (.memlimitSet (max 1 n))) fail st.h
    -- PROG_ERROR = a coder whose memconfig is not modelled: only "no allocator activity" is checked
    (if r.1 == PROG_ERROR then RET_ANY else r.1, { st with w := r.2, h := h' })
  | .upd c =>
    if !(st.usable || st.finished) || !(st.kind == I_SENC || st.kind == 200 || st.kind == I_BENC) then (RET_SKIP, st) else
    if st.kind != I_SENC then (RET_ANY, st) else     -- raw / block encoder: nothing may be allocated, the code is not modelled
    let (r, h') := runM (runOp SZ st.w (.filtersUpdate st.chain c)) fail st.h
    (r.1, { st with w := r.2, h := h', chain := if r.1 == OK then c else st.chain })
  | .noop => (if st.w.strm.isNone then RET_SKIP else RET_ANY, st)
  | .plain op =>
    let (r, h') := runM (runOp SZ st.w op) fail st.h
    -- PROG_ERROR = an operand is missing because an earlier step failed: the harness skips such a step
    (if r.1 == PROG_ERROR then RET_SKIP else r.1, { st with w := r.2, h := h' })
  | .end_ =>
    let (r, h') := runM (runOp SZ st.w .lzmaEnd) fail st.h
    (OK, { st with w := r.2, h := h', usable := false, finished := false, paused := false, kind := 0 })
  | .bad => (97, st)

def parseHEv (s : String) : HEv :=
  match s.toList with
  | 'a' :: r => match (String.ofList r).toNat? with | some n => .a n | none => .bad s
  | 'x' :: r => match (String.ofList r).toNat? with | some n => .x n | none => .bad s
  | 'f' :: r => match (String.ofList r).toNat? with | some n => .f n | none => .bad s
  | _ => .bad s

/-- split the harness trace into (events, return code) per step -/
def splitTrace (toks : List String) : Option (List (List HEv × Nat)) :=
  let rec go (toks : List String) (cur : List HEv) (acc : List (List HEv × Nat)) (inStep : Bool) : Option (List (List HEv × Nat)) :=
    match toks with
    | [] => if inStep then none else some acc.reverse
    | t :: rest =>
      if t.startsWith "[" then (if inStep then none else go rest [] acc true)
      else if t.startsWith "]" then
        match (t.drop 1).toNat? with
        | some r => if inStep then go rest [] ((cur.reverse, r) :: acc) false else none
        | none => none
      else if t == "" then go rest cur acc inStep
      else if inStep then go rest (parseHEv t :: cur) acc inStep
      else none     -- event outside a step (the `nofail` pseudo step produces none)
  go toks [] [] false

/-- indices (in attempt order) of the failed attempts -/
def failedAttempts (steps : List (List HEv × Nat)) : List Nat :=
  let evs := steps.flatMap (·.1)
  let rec go (evs : List HEv) (k : Nat) (acc : List Nat) : List Nat :=
    match evs with
    | [] => acc
    | .a _ :: r => go r (k + 1) acc
    | .x _ :: r => go r (k + 1) (k :: acc)
    | _ :: r => go r k acc
  go evs 0 []

def szOk (wild : Bool) (m : Option Nat) (h : Nat) : Bool :=
  wild || match m with | none => true | some s => s == h

/-- does the harness's event list for one step match the model's? returns an error text or none -/
def matchEvents (wild : Bool) : List Ev → List HEv → Option String
  | [], [] => none
  | [], h :: _ => some s!"implementation did more: {repr h}"
  | e :: _, [] => some s!"implementation did less; model expects {repr e}"
  | .a _ sz :: me, .a hs :: he =>
    if szOk wild sz hs then matchEvents wild me he else some s!"allocation size: model {repr sz} implementation {hs}"
  | .x _ sz :: me, .x hs :: he =>
    if szOk wild sz hs then matchEvents wild me he else some s!"allocation size: model {repr sz} implementation {hs}"
  | .f i :: me, .f j :: he =>
    if i == j then matchEvents wild me he else some s!"free: model frees block {i}, implementation block {j}"
  | .fs ids :: me, he =>
    let n := ids.length
    let front := he.take n
    let got := front.filterMap fun | .f j => some j | _ => none
    if got.length == n && ids.all (got.contains ·) && got.all (ids.contains ·) then matchEvents wild me (he.drop n)
    else some s!"free group: model frees {ids}, implementation next events {repr front}"
  | e :: _, h :: _ => some s!"event kind: model {repr e} implementation {repr h}"

partial def replay (fail : Oracle) (st : DState) (acts : List Act) (trace : List (List HEv × Nat)) (i : Nat) (nev : Nat)
    : String :=
  match acts, trace with
  | [], [] =>
    if st.h.bad then s!"MISMATCH step={i} model freed a block that was not live"
    else s!"ok steps={i} events={nev}"
  | act :: acts', (hev, hret) :: trace' =>
    let logBefore := st.h.log.length
    let (r, st') := stepModel fail st act
    let newEvs := (st'.h.log.take (st'.h.log.length - logBefore)).reverse
    let wild := match act with | .plain op => wildcardSizes op | _ => false
    match matchEvents wild newEvs hev with
    | some e => s!"MISMATCH step={i} {e}"
    | none =>
      if r != hret && r != RET_ANY then s!"MISMATCH step={i} return code: model {r} implementation {hret}"
      else replay fail st' acts' trace' (i + 1) (nev + hev.length)
  | _, _ => s!"MISMATCH step={i} number of steps differs"

def step (_ : Unit) (ws : List String) : Unit × String :=
  match ws with
  | [] => ((), "bad-op")
  | _ :: rest =>
    let steps := rest.takeWhile (· != "@")
    let ans := (rest.dropWhile (· != "@")).drop 1
    if steps.any (fun s => s.startsWith "sencmt" || s.startsWith "sdecmt") then ((), "skip-mt") else
    let tr := ans.find? (·.startsWith "T=")
    match tr with
    | none => ((), "bad-op no trace")
    | some t =>
      match splitTrace (splitOnC (t.drop 2).toString ',') with
      | none => ((), "bad-op trace")
      | some trace =>
        let acts := (steps.filter (· != "nofail")).map parseStep
        if acts.any (fun a => match a with | .bad => true | _ => false) then ((), "bad-op step") else
        let failed := failedAttempts trace
        let fail : Oracle := fun k => failed.contains k
        ((), replay fail {} acts trace 0 0)

def main : IO Unit := runLoop step ()
