// Launcher for the C19 privilege situations (the check itself runs as root):
//   c19_priv <situation> <uid> <gid> <supplementary gid | -> <program> [args...]
//     root    exec unchanged (euid 0)
//     plain   setgroups([]) / setresgid(gid) / setresuid(uid): an ordinary user, no capabilities
//     group   like plain, but with <supplementary gid> as a supplementary group (e.g. the group of the source file)
//     caps    like plain, but CAP_CHOWN + CAP_FOWNER are kept across the uid change and raised as AMBIENT capabilities, so that they
//             survive the exec of an ordinary binary: a NON-ROOT effective uid that IS permitted to chown (what file capabilities,
//             systemd AmbientCapabilities= or `setpriv --ambient-caps` give). Raw capset(2) + prctl(2); no libcap.
// Exit status 77: the situation cannot be created here (capabilities unavailable); 78: usage; 79: exec failed.
#define _GNU_SOURCE
#include <errno.h>
#include <grp.h>
#include <linux/capability.h>
#include <stdio.h>
#include <stdlib.h>
#include <string.h>
#include <sys/prctl.h>
#include <sys/syscall.h>
#include <sys/types.h>
#include <unistd.h>

#ifndef PR_CAP_AMBIENT
#	define PR_CAP_AMBIENT 47
#	define PR_CAP_AMBIENT_RAISE 2
#endif

int
main(int argc, char **argv)
{
	if (argc < 6)
		return 78;
	const char *sit = argv[1];
	const uid_t uid = (uid_t)strtoul(argv[2], NULL, 10);
	const gid_t gid = (gid_t)strtoul(argv[3], NULL, 10);
	if (strcmp(sit, "root") != 0) {
		const int caps = strcmp(sit, "caps") == 0;
		if (caps && prctl(PR_SET_KEEPCAPS, 1L, 0L, 0L, 0L) != 0)
			return 77;
		gid_t sup = (gid_t)strtoul(argv[4], NULL, 10);
		if (strcmp(sit, "group") == 0 && strcmp(argv[4], "-") != 0) {
			if (setgroups(1, &sup) != 0)
				return 77;
		} else if (setgroups(0, NULL) != 0)
			return 77;
		if (setresgid(gid, gid, gid) != 0 || setresuid(uid, uid, uid) != 0)
			return 77;
		if (caps) {
			struct __user_cap_header_struct hdr;
			struct __user_cap_data_struct data[2];
			memset(&hdr, 0, sizeof(hdr));
			memset(data, 0, sizeof(data));
			hdr.version = _LINUX_CAPABILITY_VERSION_3;
			hdr.pid = 0;
			const unsigned mask = (1u << CAP_CHOWN) | (1u << CAP_FOWNER);
			data[0].permitted = data[0].effective = data[0].inheritable = mask;
			if (syscall(SYS_capset, &hdr, data) != 0)
				return 77;
			if (prctl(PR_CAP_AMBIENT, PR_CAP_AMBIENT_RAISE, (unsigned long)CAP_CHOWN, 0L, 0L) != 0
					|| prctl(PR_CAP_AMBIENT, PR_CAP_AMBIENT_RAISE, (unsigned long)CAP_FOWNER, 0L, 0L) != 0)
				return 77;
		}
		if (geteuid() == 0)
			return 77;
	}
	execvp(argv[5], argv + 5);
	fprintf(stderr, "c19_priv: exec %s: %s\n", argv[5], strerror(errno));
	return 79;
}
