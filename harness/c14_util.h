// Helpers shared by the C14 harness mains.
#ifndef C14_UTIL_H
#define C14_UTIL_H
#include "hproto.h"
#include <sys/mman.h>
#include <unistd.h>

// Like hp_hex_aligned, but the buffer ENDS exactly at the end of the allocation, so that ASan sees any read past
// the last byte (the alignment prologues of the generic CRC code must never run past a short buffer).
static uint8_t *hex_aligned_exact(const char *s, size_t *len, size_t align, void **base)
{
	size_t n = (strcmp(s, "-") == 0) ? 0 : strlen(s) / 2;
	size_t k = align % 64;
	uint8_t *b = NULL;
	// b is 64-byte aligned, p = b + k, and p + n is the end of the allocation
	if (posix_memalign((void **)&b, 64, k + n + (k + n == 0 ? 1 : 0)) != 0)
		abort();
	*base = b;
	uint8_t *p = b + k;
	for (size_t i = 0; i < n; ++i) {
		int hi = hp_hexval(s[2 * i]), lo = hp_hexval(s[2 * i + 1]);
		if (hi < 0 || lo < 0) { fprintf(stderr, "bad hex\n"); exit(3); }
		p[i] = (uint8_t)(hi * 16 + lo);
	}
	*len = n;
	return p;
}

// Decodes hex into a buffer whose LAST byte is the last byte of a page that is followed by an inaccessible page
// (PROT_NONE), so that any read past the end faults and code that behaves differently near a page end is exercised.
// *base/*maplen receive the mapping to munmap.
static uint8_t *hex_page_end(const char *s, size_t *len, void **base, size_t *maplen)
{
	size_t n = (strcmp(s, "-") == 0) ? 0 : strlen(s) / 2;
	size_t pg = (size_t)sysconf(_SC_PAGESIZE);
	size_t pages = (n + pg - 1) / pg + 1;
	uint8_t *m = mmap(NULL, (pages + 1) * pg, PROT_READ | PROT_WRITE, MAP_PRIVATE | MAP_ANONYMOUS, -1, 0);
	if (m == MAP_FAILED) abort();
	if (mprotect(m + pages * pg, pg, PROT_NONE) != 0) abort();
	uint8_t *p = m + pages * pg - n;
	for (size_t i = 0; i < n; ++i) {
		int hi = hp_hexval(s[2 * i]), lo = hp_hexval(s[2 * i + 1]);
		if (hi < 0 || lo < 0) { fprintf(stderr, "bad hex\n"); exit(3); }
		p[i] = (uint8_t)(hi * 16 + lo);
	}
	*len = n; *base = m; *maplen = (pages + 1) * pg;
	return p;
}

#endif
