// LD_PRELOAD shim for the C19 end-to-end runs: the sandbox runs as root, where fchown() never fails, so the
// "cannot set the group" / "cannot set the owner" branches of io_copy_attrs() are forced from outside the real binary.
//   C19_FAIL_GROUP=1  -> fchown(fd, -1, gid) fails with EPERM
//   C19_FAIL_OWNER=1  -> fchown(fd, uid, -1) fails with EPERM
// Everything else is passed through.  Build: cc -shared -fPIC -O1 c19_preload.c -o c19_preload.so -ldl
#define _GNU_SOURCE
#include <dlfcn.h>
#include <errno.h>
#include <stdlib.h>
#include <sys/types.h>
#include <unistd.h>

int
fchown(int fd, uid_t owner, gid_t group)
{
	static int (*real)(int, uid_t, gid_t);
	if (real == NULL)
		real = (int (*)(int, uid_t, gid_t))dlsym(RTLD_NEXT, "fchown");
	if (owner == (uid_t)(-1) && group != (gid_t)(-1) && getenv("C19_FAIL_GROUP") != NULL) {
		errno = EPERM;
		return -1;
	}
	if (owner != (uid_t)(-1) && group == (gid_t)(-1) && getenv("C19_FAIL_OWNER") != NULL) {
		errno = EPERM;
		return -1;
	}
	return real(fd, owner, group);
}
