// C03 harness, decoder-variant build: the LZMA / LZMA2 / LZ decoder sources are compiled INTO the harness with other
// LZMA_RANGE_DECODER_CONFIG / LZMA_LZ_DECODER_CONFIG values (given on the command line), so that the code paths that
// the default x86-64 build replaces by inline assembly (basic C and branchless C range decoder macros) and by the SSE2
// copy (byte loop, memcpy) answer the same ops. The definitions here take precedence over the archive members of
// liblzma.a (which are then not linked at all).
#define SEQ_COPY SEQ_COPY_LZMA1
#include "lzma_decoder.c"
#undef SEQ_COPY
#include "lzma2_decoder.c"
