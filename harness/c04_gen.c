// C04 observation engine: valid inputs of every format, produced by the real encoders.
//   gen <format> <variant> <hex of uncompressed data>   ->  "<hex of the file>"  (or "gen-failed <ret>")
// formats: xz, alone, lzip, raw (variant = chain number of c04_chain), micro, block (Block Header + Block), index
#include "c04.h"

typedef struct { uint8_t *p; size_t n, cap; } buf;

static void put(buf *b, const uint8_t *p, size_t n)
{
	if (b->n + n > b->cap) {
		b->cap = (b->n + n) * 2 + 64;
		b->p = realloc(b->p, b->cap);
		if (b->p == NULL)
			exit(3);
	}
	memcpy(b->p + b->n, p, n);
	b->n += n;
}

static lzma_ret encode_all(lzma_stream *strm, const uint8_t *in, size_t n, buf *out)
{
	uint8_t tmp[4096];
	strm->next_in = in;
	strm->avail_in = n;
	for (;;) {
		strm->next_out = tmp;
		strm->avail_out = sizeof(tmp);
		lzma_ret ret = lzma_code(strm, LZMA_FINISH);
		put(out, tmp, sizeof(tmp) - strm->avail_out);
		if (ret != LZMA_OK)
			return ret;
	}
}

static void le32(uint8_t *p, uint32_t v) { for (int i = 0; i < 4; ++i) p[i] = (uint8_t)(v >> (8 * i)); }
static void le64(uint8_t *p, uint64_t v) { for (int i = 0; i < 8; ++i) p[i] = (uint8_t)(v >> (8 * i)); }

static const lzma_check checks[4] = { LZMA_CHECK_NONE, LZMA_CHECK_CRC32, LZMA_CHECK_CRC64, LZMA_CHECK_SHA256 };
static const unsigned xz_chains[] = { 0, 1, 2, 10, 11, 12, 13, 14, 15, 16, 17, 18, 19, 20, 21 };

bool c04_gen(int ntok, char **tok)
{
	if (ntok != 4)
		return false;
	const char *fmt = tok[1];
	const unsigned v = (unsigned)hp_u64(tok[2]);
	size_t n;
	uint8_t *data = hp_hex(tok[3], &n);
	lzma_stream strm = LZMA_STREAM_INIT;
	buf out = { NULL, 0, 0 };
	lzma_ret ret = LZMA_PROG_ERROR;
	lzma_filter f[LZMA_FILTERS_MAX + 2];
	c04_chain_store st;

	if (!strcmp(fmt, "xz")) {
		const lzma_check check = checks[v % 4];
		const unsigned kind = (v / 4) % 4;
		if (kind == 0 || kind == 1) {
			ret = lzma_easy_encoder(&strm, kind == 0 ? 0 : 6, check);
		} else if (kind == 2) {
			lzma_mt mt;
			memset(&mt, 0, sizeof(mt));
			mt.threads = 1;
			mt.block_size = 4096 + 512 * ((v / 16) % 8);
			mt.preset = 1;
			mt.check = check;
			ret = lzma_stream_encoder_mt(&strm, &mt);
		} else {
			c04_chain(xz_chains[(v / 16) % (sizeof(xz_chains) / sizeof(xz_chains[0]))], f, &st);
			ret = lzma_stream_encoder(&strm, f, check);
		}
		if (ret == LZMA_OK)
			ret = encode_all(&strm, data, n, &out);
	} else if (!strcmp(fmt, "alone")) {
		lzma_options_lzma o;
		lzma_lzma_preset(&o, v % 2 ? 6 : 0);
		static const uint8_t lclppb[][3] = { {3, 0, 2}, {0, 0, 0}, {4, 0, 4}, {0, 4, 0}, {2, 2, 1}, {1, 3, 3}, {0, 2, 4} };
		const uint8_t *c = lclppb[(v / 2) % 7];
		o.lc = c[0];
		o.lp = c[1];
		o.pb = c[2];
		o.dict_size = (v / 14) % 2 ? 65536 : 4096;
		ret = lzma_alone_encoder(&strm, &o);
		if (ret == LZMA_OK)
			ret = encode_all(&strm, data, n, &out);
	} else if (!strcmp(fmt, "raw")) {
		// variant = chain number + (option modifiers << 8), see c04_chain_mods
		const uint64_t vv = hp_u64(tok[2]);
		const unsigned chain = (unsigned)(vv & 0xFF);
		if (!c04_chain(chain, f, &st) || chain >= 24) {
			free(data);
			return false;
		}
		if (st.lzma.dict_size < 4096)
			st.lzma.dict_size = 4096;
		if (chain == 8 || chain == 9) {
			st.lzma.ext_size_low = (uint32_t)n;
			st.lzma.ext_size_high = 0;
		}
		c04_chain_mods(&st, vv >> 8, true);
		ret = lzma_raw_encoder(&strm, f);
		if (ret == LZMA_OK)
			ret = encode_all(&strm, data, n, &out);
		c04_chain_done(&st);
	} else if (!strcmp(fmt, "lzip")) {
		// LZIP member version 1: "LZIP" 01 <dict byte> <LZMA stream lc3 lp0 pb2 with end marker> CRC32 data-size member-size
		c04_chain(3, f, &st);
		st.lzma.dict_size = v % 2 ? 65536 : 4096;
		const uint8_t hdr[6] = { 'L', 'Z', 'I', 'P', 1, (uint8_t)(v % 2 ? 16 : 12) };
		put(&out, hdr, 6);
		ret = lzma_raw_encoder(&strm, f);
		if (ret == LZMA_OK)
			ret = encode_all(&strm, data, n, &out);
		uint8_t tr[20];
		le32(tr, lzma_crc32(data, n, 0));
		le64(tr + 4, n);
		le64(tr + 12, out.n + 20);
		put(&out, tr, 20);
	} else if (!strcmp(fmt, "micro")) {
		lzma_options_lzma o;
		lzma_lzma_preset(&o, 1);
		o.dict_size = 4096;
		ret = lzma_microlzma_encoder(&strm, &o);
		if (ret == LZMA_OK) {
			size_t cap = n + n / 2 + 128;
			uint8_t *tmp = malloc(cap);
			strm.next_in = data;
			strm.avail_in = n;
			strm.next_out = tmp;
			strm.avail_out = cap;
			ret = lzma_code(&strm, LZMA_FINISH);
			put(&out, tmp, cap - strm.avail_out);
			free(tmp);
			if (ret == LZMA_STREAM_END && strm.total_in != n)
				ret = LZMA_BUF_ERROR;
		}
	} else if (!strcmp(fmt, "block")) {
		lzma_block b;
		memset(&b, 0, sizeof(b));
		c04_chain(xz_chains[(v / 4) % (sizeof(xz_chains) / sizeof(xz_chains[0]))], f, &st);
		b.version = 1;
		b.check = checks[v % 4];
		b.filters = f;
		size_t cap = lzma_block_buffer_bound(n) + 64;
		uint8_t *tmp = malloc(cap);
		size_t pos = 0;
		ret = lzma_block_buffer_encode(&b, NULL, data, n, tmp, &pos, cap);
		if (ret == LZMA_OK) {
			put(&out, tmp, pos);
			ret = LZMA_STREAM_END;
		}
		free(tmp);
	} else if (!strcmp(fmt, "index")) {
		// Records from the data bytes: (unpadded, uncompressed) pairs
		lzma_index *idx = lzma_index_init(NULL);
		ret = idx == NULL ? LZMA_MEM_ERROR : LZMA_OK;
		for (size_t i = 0; i + 3 < n && ret == LZMA_OK && i < 4 * 600; i += 4) {
			lzma_vli us = 5 + data[i] + ((lzma_vli)data[i + 1] << (v % 5 == 4 ? 40 : 8));
			lzma_vli un = data[i + 2] + ((lzma_vli)data[i + 3] << (v % 3 == 2 ? 30 : 8));
			ret = lzma_index_append(idx, NULL, us, un);
		}
		if (ret == LZMA_OK) {
			size_t cap = (size_t)lzma_index_size(idx);
			uint8_t *tmp = malloc(cap);
			size_t pos = 0;
			ret = lzma_index_buffer_encode(idx, tmp, &pos, cap);
			if (ret == LZMA_OK) {
				put(&out, tmp, pos);
				ret = LZMA_STREAM_END;
			}
			free(tmp);
		}
		lzma_index_end(idx, NULL);
	} else {
		free(data);
		return false;
	}
	lzma_end(&strm);
	if (ret != LZMA_STREAM_END) {
		printf("gen-failed %d\n", (int)ret);
	} else {
		hp_put_hex(out.p, out.n);
		putchar('\n');
	}
	free(out.p);
	free(data);
	return true;
}
