// C08: minimal pthread perturbation layer (used until/alongside the shared controlled scheduler vsched.c).
// Linked with -Wl,--wrap=<sym> for the symbols below, so every pthread call made by liblzma.a goes through here and
// __real_<sym> still reaches the sanitizer's interceptor (ASan/TSan keep seeing the real synchronisation).
// Real OS scheduling; at each synchronisation operation a seeded per-thread PRNG may insert sched_yield()/usleep().
//   mode 0: pass-through
//   mode 1: random yields / short sleeps at every operation of every thread
//   mode 2: mode 1 + worker threads sleep c08_pert_usec before a mutex lock with probability 1/2
//           (stretches the windows between a worker's two critical sections: targeted search for stale worker tails)
//   mode 3: only the worker-side delay of mode 2 with probability 1 (deterministic stretch)
#define _GNU_SOURCE
#include <pthread.h>
#include <sched.h>
#include <stdint.h>
#include <stdlib.h>
#include <unistd.h>
#include "c08_pert.h"

int c08_pert_mode = 0;               // all accessed with __atomic builtins
uint64_t c08_pert_seed = 1;
unsigned c08_pert_usec = 300;
uint64_t c08_pert_ops = 0;          // number of wrapped operations (evidence)
uint64_t c08_pert_threads = 0;      // worker threads created

static __thread int t_is_worker = 0;
static __thread uint64_t t_rng = 0;

int __real_pthread_mutex_lock(pthread_mutex_t *);
int __real_pthread_mutex_unlock(pthread_mutex_t *);
int __real_pthread_cond_wait(pthread_cond_t *, pthread_mutex_t *);
int __real_pthread_cond_timedwait(pthread_cond_t *, pthread_mutex_t *, const struct timespec *);
int __real_pthread_cond_signal(pthread_cond_t *);
int __real_pthread_create(pthread_t *, const pthread_attr_t *, void *(*)(void *), void *);
int __real_pthread_join(pthread_t, void **);

static uint64_t rnd(void)
{
	if (t_rng == 0) {
		uint64_t ord = __atomic_add_fetch(&c08_pert_ops, 0, __ATOMIC_RELAXED);
		t_rng = (__atomic_load_n(&c08_pert_seed, __ATOMIC_RELAXED) * 0x9E3779B97F4A7C15ull) ^ (uint64_t)(uintptr_t)&t_rng ^ (ord << 17) ^ 0x1234567ull;
		if (t_rng == 0) t_rng = 88172645463325252ull;
	}
	uint64_t x = t_rng;
	x ^= x << 13; x ^= x >> 7; x ^= x << 17;
	t_rng = x;
	return x * 0x2545F4914F6CDD1Dull;
}

static void jitter(int is_lock)
{
	int m = __atomic_load_n(&c08_pert_mode, __ATOMIC_RELAXED);
	if (m == 0)
		return;
	__atomic_add_fetch(&c08_pert_ops, 1, __ATOMIC_RELAXED);
	if (m == 1 || m == 2) {
		uint64_t r = rnd();
		if ((r & 3) == 0)
			sched_yield();
		else if ((r & 63) == 1)
			usleep((useconds_t)((r >> 8) % 200));
	}
	if (is_lock && t_is_worker) {
		if (m == 3 || (m == 2 && (rnd() & 1)))
			usleep(__atomic_load_n(&c08_pert_usec, __ATOMIC_RELAXED));
	}
}

int __wrap_pthread_mutex_lock(pthread_mutex_t *m) { jitter(1); return __real_pthread_mutex_lock(m); }
int __wrap_pthread_mutex_unlock(pthread_mutex_t *m) { int r = __real_pthread_mutex_unlock(m); jitter(0); return r; }
int __wrap_pthread_cond_wait(pthread_cond_t *c, pthread_mutex_t *m) { jitter(0); return __real_pthread_cond_wait(c, m); }
int __wrap_pthread_cond_timedwait(pthread_cond_t *c, pthread_mutex_t *m, const struct timespec *t)
{ jitter(0); return __real_pthread_cond_timedwait(c, m, t); }
int __wrap_pthread_cond_signal(pthread_cond_t *c) { jitter(0); return __real_pthread_cond_signal(c); }

struct tramp { void *(*fn)(void *); void *arg; };

static void *trampoline(void *p)
{
	struct tramp t = *(struct tramp *)p;
	free(p);
	t_is_worker = 1;
	return t.fn(t.arg);
}

int __wrap_pthread_create(pthread_t *th, const pthread_attr_t *a, void *(*fn)(void *), void *arg)
{
	struct tramp *t = malloc(sizeof(*t));
	if (t == NULL)
		return 11;
	t->fn = fn; t->arg = arg;
	__atomic_add_fetch(&c08_pert_threads, 1, __ATOMIC_RELAXED);
	int r = __real_pthread_create(th, a, trampoline, t);
	if (r != 0)
		free(t);
	return r;
}

int __wrap_pthread_join(pthread_t th, void **ret) { return __real_pthread_join(th, ret); }
