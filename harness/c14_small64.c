// C14 harness TU 5: the size-optimised CRC64 (crc64_small.c) under another name.
#define HAVE_SMALL 1
#define lzma_crc64 h_small_crc64
#define lzma_crc32 h_small_crc32_unused_decl
#include "crc64_small.c"

uint64_t h_small64(const uint8_t *b, size_t n, uint64_t c) { return h_small_crc64(b, n, c); }

uint64_t h_small64_tab(unsigned i)
{
	// make sure the table is initialised whichever method the build uses
	uint8_t z = 0;
	(void)h_small_crc64(&z, 0, 0);
	return crc64_table[i & 0xFF];
}
