// C16 thorough tier: exhaustive cross-check (all 2^32 values) of the one bv_decide fact used by Props/C16.lean
// (XzVerif.BitWords.picky_round_fixed): the fixed points of the picky rounding of alone_decoder.c:83-89 are exactly
// 0, 2^n (n < 32) and 2^n + 2^(n-1) (1 <= n < 32). Independent of Lean. Prints "<fixed points> <disagreements>".
#include <stdint.h>
#include <stdio.h>

static int in_set(uint32_t d)
{
	if (d == 0) return 1;
	if ((d & (d - 1)) == 0) return 1;              // 2^n
	uint32_t low = d & (~d + 1);                   // lowest set bit
	uint32_t rest = d ^ low;
	return rest == (low << 1) && (low << 1) != 0;  // 2^n + 2^(n-1)
}

int main(void)
{
	uint64_t fixed = 0, bad = 0;
	uint32_t ds = 0;
	do {
		uint32_t d = ds - 1;
		d |= d >> 2;
		d |= d >> 3;
		d |= d >> 4;
		d |= d >> 8;
		d |= d >> 16;
		++d;
		int fp = (d == ds);
		fixed += (uint64_t)fp;
		if (fp != in_set(ds)) ++bad;
	} while (++ds != 0);
	printf("%llu %llu\n", (unsigned long long)fixed, (unsigned long long)bad);
	return 0;
}
